import IV.Model.Proto
import IV.Model.Peg
import IV.Gen.Grammars
open IV IV.Proto IV.Peg

/-!
Line-protocol driver for C19.

  run <fuel|auto> <rules> <term> <input>
      rules = "<n> t1 … tn", term = prefix token stream (space separated), input = string field
      answer: <process result>|<function_error set 0/1>|<tag stack, top first>|<what __call__ reports>

Token grammar (glue, not model):
  value : N | X | I <int> | S <str> | L <n> v1 … vn
  fn    : ident | join | len | accum | pair | skipnone | const <value> | btif <value> | raiseif <value>
  term  : any | eof | chr <str> | set <str> | str <cs> <es> <min> | lit <cs> (_ | V <value>) <0|1>
        | seq <n> t… | cho <n> t… | many <lower> t | until t p | opt <value> t | fb a b | nfb a b
        | kl a b | kr a b | map <fn> t | lift <fn> <n> t… | wrap t | ref <i> | stag t | etag <0|1> t | pm t
-/

abbrev P (α : Type) := List String → Option (α × List String)

partial def pVal : P Val
  | "N" :: r => some (.none, r)
  | "X" :: r => some (.sentinel, r)
  | "B" :: b :: r => do let b ← decBool b; pure (.bool b, r)
  | "I" :: n :: r => do let n ← decInt n; pure (.int n, r)
  | "S" :: s :: r => do let s ← decStr s; pure (.str s, r)
  | "L" :: n :: r => do
      let n ← decNat n
      let rec go (k : Nat) (acc : List Val) (r : List String) : Option (List Val × List String) :=
        if k = 0 then some (acc.reverse, r) else
        match pVal r with
        | some (v, r') => go (k - 1) (v :: acc) r'
        | none => none
      let (vs, r') ← go n [] r
      pure (.list vs, r')
  | _ => none

def pFn : P Fn
  | "ident" :: r => some (.ident, r)
  | "join" :: r => some (.join, r)
  | "len" :: r => some (.length, r)
  | "accum" :: r => some (.accumulate, r)
  | "pair" :: r => some (.pair, r)
  | "mknum" :: r => some (.makeNumber, r)
  | "mkdict" :: r => some (.mkDict, r)
  | "mkeq" :: r => some (.mkEq, r)
  | "mkregex" :: r => some (.mkRegex, r)
  | "negate" :: r => some (.negate, r)
  | "oper" :: r => some (.oper, r)
  | "skipnone" :: r => some (.skipNone, r)
  | "const" :: r => do let (v, r) ← pVal r; pure (.const v, r)
  | "btif" :: r => do let (v, r) ← pVal r; pure (.backtrackIf v, r)
  | "raiseif" :: r => do let (v, r) ← pVal r; pure (.raiseIf v, r)
  | _ => none

mutual
partial def pTerm : P Term
  | "any" :: r => some (.prim .anyChar, r)
  | "eof" :: r => some (.prim .eof, r)
  | "chr" :: c :: r => do
      match ← decStr c with
      | [c] => pure (.prim (.char c), r)
      | _ => none
  | "set" :: s :: r => do let s ← decStr s; pure (.prim (.inSet s), r)
  | "str" :: cs :: es :: m :: r => do
      let cs ← decStr cs; let es ← decStr es; let m ← decNat m
      pure (.prim (.string cs es m), r)
  | "lit" :: cs :: r => do
      let cs ← decStr cs
      let (v, r) ← (match r with
        | "_" :: r => some (none, r)
        | "V" :: r => do let (v, r) ← pVal r; pure (some v, r)
        | _ => none)
      match r with
      | ic :: r => do let ic ← decBool ic; pure (.prim (.literal cs v ic), r)
      | _ => none
  | "seq" :: n :: r => do let n ← decNat n; let (ts, r) ← pTerms n r; pure (.seq ts, r)
  | "cho" :: n :: r => do let n ← decNat n; let (ts, r) ← pTerms n r; pure (.choice ts, r)
  | "many" :: l :: r => do let l ← decNat l; let (t, r) ← pTerm r; pure (.many t l, r)
  | "until" :: r => do let (t, r) ← pTerm r; let (p, r) ← pTerm r; pure (.until t p, r)
  | "opt" :: r => do let (d, r) ← pVal r; let (t, r) ← pTerm r; pure (.opt t d, r)
  | "fb" :: r => do let (a, r) ← pTerm r; let (b, r) ← pTerm r; pure (.followedBy a b, r)
  | "nfb" :: r => do let (a, r) ← pTerm r; let (b, r) ← pTerm r; pure (.notFollowedBy a b, r)
  | "kl" :: r => do let (a, r) ← pTerm r; let (b, r) ← pTerm r; pure (.keepLeft a b, r)
  | "kr" :: r => do let (a, r) ← pTerm r; let (b, r) ← pTerm r; pure (.keepRight a b, r)
  | "map" :: r => do let (f, r) ← pFn r; let (t, r) ← pTerm r; pure (.map t f, r)
  | "lift" :: r => do
      let (f, r) ← pFn r
      match r with
      | n :: r => do let n ← decNat n; let (ts, r) ← pTerms n r; pure (.lift f ts, r)
      | _ => none
  | "wrap" :: r => do let (t, r) ← pTerm r; pure (.wrapper t, r)
  | "ref" :: i :: r => do let i ← decNat i; pure (.ref i, r)
  | "stag" :: r => do let (t, r) ← pTerm r; pure (.startTag t, r)
  | "pm" :: r => do let (t, r) ← pTerm r; pure (.mark t, r)
  | "etag" :: ic :: r => do let ic ← decBool ic; let (t, r) ← pTerm r; pure (.endTag t ic, r)
  | _ => none
partial def pTerms (n : Nat) (r : List String) : Option (List Term × List String) :=
  if n = 0 then some ([], r) else
  match pTerm r with
  | some (t, r') => match pTerms (n - 1) r' with
    | some (ts, r'') => some (t :: ts, r'')
    | none => none
  | none => none
end

/- operator expressions: what the OPERATORS build, via the model's smart constructors `plus` / `alt` / `mul`.
  + x y | x y  << x y  >> x y  & x y  / x y  * x y  % x  .map <fn> x  .sep_by x sep  .until x p
  Many <lower> x  Opt <value> x  Wrapper x  Sequence <n> x…  Choice <n> x…  Lift <fn>  — anything else is a leaf term -/
mutual
partial def pOp : P Term
  | "+" :: r => do let (a, r) ← pOp r; let (b, r) ← pOp r; pure (plus a b, r)
  | "|" :: r => do let (a, r) ← pOp r; let (b, r) ← pOp r; pure (alt a b, r)
  | "*" :: r => do let (a, r) ← pOp r; let (b, r) ← pOp r; let t ← mul a b; pure (t, r)
  | "<<" :: r => do let (a, r) ← pOp r; let (b, r) ← pOp r; pure (.keepLeft a b, r)
  | ">>" :: r => do let (a, r) ← pOp r; let (b, r) ← pOp r; pure (.keepRight a b, r)
  | "&" :: r => do let (a, r) ← pOp r; let (b, r) ← pOp r; pure (.followedBy a b, r)
  | "/" :: r => do let (a, r) ← pOp r; let (b, r) ← pOp r; pure (.notFollowedBy a b, r)
  | "%" :: r => pOp r
  | ".map" :: r => do let (f, r) ← pFn r; let (a, r) ← pOp r; pure (.map a f, r)
  | ".sep_by" :: r => do let (a, r) ← pOp r; let (b, r) ← pOp r; pure (sepBy a b, r)
  | ".until" :: r => do let (a, r) ← pOp r; let (b, r) ← pOp r; pure (.until a b, r)
  | "Many" :: l :: r => do let l ← decNat l; let (a, r) ← pOp r; pure (.many a l, r)
  | "Opt" :: r => do let (d, r) ← pVal r; let (a, r) ← pOp r; pure (.opt a d, r)
  | "Wrapper" :: r => do let (a, r) ← pOp r; pure (.wrapper a, r)
  | "Sequence" :: n :: r => do let n ← decNat n; let (ts, r) ← pOps n r; pure (.seq ts, r)
  | "Choice" :: n :: r => do let n ← decNat n; let (ts, r) ← pOps n r; pure (.choice ts, r)
  | "Lift" :: r => do let (f, r) ← pFn r; pure (.lift f [], r)
  | r => pTerm r
partial def pOps (n : Nat) (r : List String) : Option (List Term × List String) :=
  if n = 0 then some ([], r) else
  match pOp r with
  | some (t, r') => match pOps (n - 1) r' with
    | some (ts, r'') => some (t :: ts, r'')
    | none => none
  | none => none
end

def toks (s : String) : List String := (s.splitOn " ").filter (· ≠ "")

partial def showVal : Val → String
  | .none => "N"
  | .sentinel => "X"
  | .int n => s!"I{n}"
  | .str s => "S" ++ encStr s
  | .list vs => "[" ++ ";".intercalate (vs.map showVal) ++ "]"
  | .bool b => if b then "B1" else "B0"
  | .float t => "F" ++ encStr t
  | .dict items => "{" ++ ";".intercalate (items.map fun
      | .list [k, v] => showVal k ++ ":" ++ showVal v
      | x => "?" ++ showVal x) ++ "}"
  | .obj c fs => "O" ++ encStr c ++ "(" ++ ";".intercalate (fs.map showVal) ++ ")"

def showRes : Res → String
  | .ok p v => s!"ok {p} {showVal v}"
  | .fail => "fail"
  | .diverge => "diverge"

def showOutcome : Outcome → String
  | .value v => "value " ++ showVal v
  | .parseError => "perr"
  | .functionError => "ferr"
  | .diverge => "diverge"

def handle (fs : List String) : String :=
  match fs with
  | ["run", fuel, rules, term, input] =>
    -- fuel "auto" = `bound rules t |input|`, the fuel no_divergence proves sufficient for WellFormed grammars
    match (if fuel = "auto" then some none else (decNat fuel).map some), toks rules, pTerm (toks term), decStr input with
    | some fuel?, n :: rs, some (t, []), some inp =>
      match decNat n with
      | some n =>
        match pTerms n rs with
        | some (rules, []) =>
          let fuel := match fuel? with | some f => f | none => bound rules t inp.length
          let (r, σ) := run rules inp fuel t 0 St.init
          let (o, _) := call rules inp fuel t
          s!"{showRes r}|{if σ.ferr then 1 else 0}|{",".intercalate (σ.tags.map showVal)}|{showOutcome o}|wf={if WellFormed rules t then 1 else 0}"
        | _ => "bad-op"
      | none => "bad-op"
    | _, _, _, _ => "bad-op"
  | ["ops", opexpr, readback, input] =>
    -- build the term the operator expression denotes (plus / alt / mul), compare it with the term read back from
    -- the REAL object the operators built, and run the model on it (fuel = bound)
    match pOp (toks opexpr), pTerm (toks readback), decStr input with
    | some (t, []), some (t', []), some inp =>
      let fuel := bound [] t inp.length
      let (r, σ) := run [] inp fuel t 0 St.init
      let (o, _) := call [] inp fuel t
      let same := toString (repr t) == toString (repr t')
      s!"same={if same then 1 else 0}|{showRes r}|{if σ.ferr then 1 else 0}|{",".intercalate (σ.tags.map showVal)}|{showOutcome o}|wf={if WellFormed [] t then 1 else 0}"
    | _, _, _ => "bad-op"
  | ["json", input] =>
    -- the TRANSLATED JSON grammar (IV/Gen/Grammars.lean); fuel = the bound of no_divergence
    match decStr input with
    | some inp =>
      let (o, _) := call IV.Gen.Grammars.jsonRules inp (bound IV.Gen.Grammars.jsonRules IV.Gen.Grammars.jsonTop inp.length)
        IV.Gen.Grammars.jsonTop
      showOutcome o
    | none => "bad-op"
  | ["tag", input, sets] =>
    -- the TRANSLATED tag-expression grammar, then Predicate.test on every tag set ('+'-separated tags, '_' = empty set)
    match decStr input with
    | some inp =>
      let (o, _) := call IV.Gen.Grammars.taglangRules inp
        (bound IV.Gen.Grammars.taglangRules IV.Gen.Grammars.taglangTop inp.length) IV.Gen.Grammars.taglangTop
      match o with
      | .value p =>
        let tagsets := (sets.splitOn ",").map fun f => if f = "_" then some [] else (f.splitOn "+").mapM decStr
        String.join (tagsets.map fun ts => match ts with
          | some ts => (match evalPred ts 1000 p with | some true => "1" | some false => "0" | none => "?")
          | none => "!")
      | o => showOutcome o
    | none => "bad-op"
  | _ => "bad-op"

def main : IO Unit := serve handle
