import IV.Model.Proto
import IV.Model.Rpm
open IV IV.Proto IV.Rpm

def optB : Option Bool → String
  | none => "E" | some true => "1" | some false => "0"

def parseEvrs : List String → Option (List Evr)
  | [] => some []
  | e :: v :: r :: rest => do
      let e ← decInt e; let v ← decStr v; let r ← decStr r
      let tl ← parseEvrs rest
      pure (⟨e, v, r⟩ :: tl)
  | _ => none

def showEvr (x : Evr) : String := s!"{x.epoch}\t{encStr x.version}\t{encStr x.release}"

def handle (fs : List String) : String :=
  match fs with
  | ["vc", a, b] =>
    match decStr a, decStr b with
    | some a, some b => toString (vercmp a b)
    | _, _ => "bad-op"
  | ["evr", e1, v1, r1, e2, v2, r2] =>
    match parseEvrs [e1, v1, r1, e2, v2, r2] with
    | some [x, y] => toString (evrCmp x y)
    | _ => "bad-op"
  | ["ops", n1, e1, v1, r1, n2, e2, v2, r2] =>
    match decStr n1, decStr n2, parseEvrs [e1, v1, r1, e2, v2, r2] with
    | some n1, some n2, some [x, y] =>
      let a : Pkg := ⟨n1, x⟩; let b : Pkg := ⟨n2, y⟩
      ",".intercalate [optB (pkgEq a b), optB (pkgNe a b), optB (pkgLt a b), optB (pkgLe a b),
                       optB (pkgGt a b), optB (pkgGe a b)]
    | _, _, _ => "bad-op"
  | "max" :: rest =>
    match parseEvrs rest with
    | some xs => match pyMax xs with | some m => showEvr m | none => "none"
    | none => "bad-op"
  | "min" :: rest =>
    match parseEvrs rest with
    | some xs => match pyMin xs with | some m => showEvr m | none => "none"
    | none => "bad-op"
  | _ => "bad-op"

def main : IO Unit := serve handle
