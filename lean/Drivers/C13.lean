import IV.Model.Proto
import IV.Model.Rpm
import IV.Model.RpmRef
import IV.Model.RpmLex
import IV.Model.RpmPkg
open IV IV.Proto IV.Rpm

/-- UTF-8 code units of one code point (driver glue: the harness sends code points, RPM sees
bytes).  Written out here, independently of `String.utf8EncodeChar`, and NOT part of the model:
the theorem `vercmp_eq_reference` holds for every encoding that keeps ASCII and maps the rest to
non-empty runs of bytes ≥ 128. -/
def utf8 (c : Char) : List Nat :=
  let n := c.toNat
  if n < 0x80 then [n]
  else if n < 0x800 then [0xC0 + n / 0x40, 0x80 + n % 0x40]
  else if n < 0x10000 then [0xE0 + n / 0x1000, 0x80 + (n / 0x40) % 0x40, 0x80 + n % 0x40]
  else [0xF0 + n / 0x40000, 0x80 + (n / 0x1000) % 0x40, 0x80 + (n / 0x40) % 0x40, 0x80 + n % 0x40]

def optB : Option Bool → String
  | none => "E" | some true => "1" | some false => "0"

def parseEvrs : List String → Option (List Evr)
  | [] => some []
  | e :: v :: r :: rest => do
      let e ← decInt e; let v ← decStr v; let r ← decStr r
      let tl ← parseEvrs rest
      pure (⟨e, v, r⟩ :: tl)
  | _ => none

def showEvr (x : Evr) : String := s!"{x.epoch}\t{encStr x.version}\t{encStr x.release}"

def showTok : Tok → String
  | .tilde => "~"
  | .caret => "^"
  | .alpha s => "a" ++ String.ofList s
  | .num s => "n" ++ String.ofList s

def decStrs (f : String) : Option (List (List Char)) := (decList f).mapM decStr

def showFields (f : Fields) : String :=
  "|".intercalate [encStr f.name, encStr f.epoch, encStr f.version, encStr f.release,
                   match f.arch with | some a => "A" ++ encStr a | none => "N"]

/-- groups of builds by name: `name count e v r e v r … name count …` (driver glue) -/
def parseGroups : Nat → List String → Option (List (List Char × List Evr))
  | _, [] => some []
  | 0, _ => none
  | fuel + 1, n :: k :: rest => do
      let n ← decStr n; let k ← decNat k
      if rest.length < 3 * k then none
      let xs ← parseEvrs (rest.take (3 * k))
      let tl ← parseGroups fuel (rest.drop (3 * k))
      pure ((n, xs) :: tl)
  | _, _ => none

def showOpt : Option Evr → String
  | some m => showEvr m | none => "none"

def handle (fs : List String) : String :=
  match fs with
  | ["pp", archs, s] =>
    match decStrs archs, decStr s with
    | some archs, some s => match parsePackage archs s with | some f => showFields f | none => "E"
    | _, _ => "bad-op"
  | ["ep", p1, e1, p2, e2] =>
    match decBool p1, decStr e1, decBool p2, decStr e2 with
    | some p1, some e1, some p2, some e2 =>
      let x := epochOf (if p1 then some e1 else none); let y := epochOf (if p2 then some e2 else none)
      match pyIntDec x, pyIntDec y with
      | some i, some j => s!"{encStr x}|{encStr y}|{evrCmp ⟨i, ['1'], ['1']⟩ ⟨j, ['1'], ['1']⟩}"
      | _, _ => s!"{encStr x}|{encStr y}|E"
    | _, _, _, _ => "bad-op"
  | ["cmpid", same, e1, v1, r1, e2, v2, r2] =>
    match decBool same, parseEvrs [e1, v1, r1, e2, v2, r2] with
    | some same, some [x, y] => toString (evrCmpId same x y)
    | _, _ => "bad-op"
  | ["opsx", n1, e1, v1, r1] =>
    match decStr n1, parseEvrs [e1, v1, r1] with
    | some n1, some [x] =>
      let a : Pkg := ⟨n1, x⟩
      ",".intercalate [optB (opEq a .other), optB (opNe a .other), optB (opLt a .other), optB (opLe a .other),
                       optB (opGt a .other), optB (opGe a .other)]
    | _, _ => "bad-op"
  | ["hk", n1, v1, r1, a1, n2, v2, r2, a2] =>
    -- arch: "N" = None, else "A" ++ string
    let arch (f : String) : Option (Option (List Char)) :=
      if f = "N" then some none else if f.startsWith "A" then (decStr (f.drop 1).toString).map some else none
    match decStr n1, decStr v1, decStr r1, arch a1, decStr n2, decStr v2, decStr r2, arch a2 with
    | some n1, some v1, some r1, some a1, some n2, some v2, some r2, some a2 =>
      let f : Fields := ⟨n1, [], v1, r1, a1⟩; let g : Fields := ⟨n2, [], v2, r2, a2⟩
      s!"{if hashKey f = hashKey g then 1 else 0}|{encStr (hashKey f)}"
    | _, _, _, _, _, _, _, _ => "bad-op"
  | "gmax" :: name :: rest =>
    match decStr name, parseGroups (rest.length + 1) rest with
    | some name, some gs => s!"{showOpt (getMax gs name)}|{showOpt (getMin gs name)}"
    | _, _ => "bad-op"
  | ["vc", a, b] =>
    match decStr a, decStr b with
    | some a, some b => toString (vercmp a b)
    | _, _ => "bad-op"
  | ["ref", a, b] =>
    match decStr a, decStr b with
    | some a, some b => toString (Reference.rpmvercmp (a.flatMap utf8) (b.flatMap utf8))
    | _, _ => "bad-op"
  | ["tok", a] =>
    match decStr a with
    | some a => encList ((tokens (norm a)).map showTok)
    | none => "bad-op"
  | ["lex", a, b] =>
    match decStr a, decStr b with
    | some a, some b => toString (lexCmpTok (tokens (norm a)) (tokens (norm b)))
    | _, _ => "bad-op"
  | ["u8", a] =>
    match decStr a with
    | some a => encList ((a.flatMap utf8).map toString)
    | none => "bad-op"
  | ["evr", e1, v1, r1, e2, v2, r2] =>
    match parseEvrs [e1, v1, r1, e2, v2, r2] with
    | some [x, y] => toString (evrCmp x y)
    | _ => "bad-op"
  | ["ops", n1, e1, v1, r1, n2, e2, v2, r2] =>
    match decStr n1, decStr n2, parseEvrs [e1, v1, r1, e2, v2, r2] with
    | some n1, some n2, some [x, y] =>
      let a : Pkg := ⟨n1, x⟩; let b : Pkg := ⟨n2, y⟩
      ",".intercalate [optB (pkgEq a b), optB (pkgNe a b), optB (pkgLt a b), optB (pkgLe a b),
                       optB (pkgGt a b), optB (pkgGe a b)]
    | _, _, _ => "bad-op"
  | "max" :: rest =>
    match parseEvrs rest with
    | some xs => match pyMax xs with | some m => showEvr m | none => "none"
    | none => "bad-op"
  | "min" :: rest =>
    match parseEvrs rest with
    | some xs => match pyMin xs with | some m => showEvr m | none => "none"
    | none => "bad-op"
  | _ => "bad-op"

def main : IO Unit := serve handle
