import IV.Model.Proto
import IV.Model.Rpm
import IV.Model.RpmRef
import IV.Model.RpmLex
open IV IV.Proto IV.Rpm

/-- UTF-8 code units of one code point (driver glue: the harness sends code points, RPM sees
bytes).  Written out here, independently of `String.utf8EncodeChar`, and NOT part of the model:
the theorem `vercmp_eq_reference` holds for every encoding that keeps ASCII and maps the rest to
non-empty runs of bytes ≥ 128. -/
def utf8 (c : Char) : List Nat :=
  let n := c.toNat
  if n < 0x80 then [n]
  else if n < 0x800 then [0xC0 + n / 0x40, 0x80 + n % 0x40]
  else if n < 0x10000 then [0xE0 + n / 0x1000, 0x80 + (n / 0x40) % 0x40, 0x80 + n % 0x40]
  else [0xF0 + n / 0x40000, 0x80 + (n / 0x1000) % 0x40, 0x80 + (n / 0x40) % 0x40, 0x80 + n % 0x40]

def optB : Option Bool → String
  | none => "E" | some true => "1" | some false => "0"

def parseEvrs : List String → Option (List Evr)
  | [] => some []
  | e :: v :: r :: rest => do
      let e ← decInt e; let v ← decStr v; let r ← decStr r
      let tl ← parseEvrs rest
      pure (⟨e, v, r⟩ :: tl)
  | _ => none

def showEvr (x : Evr) : String := s!"{x.epoch}\t{encStr x.version}\t{encStr x.release}"

def showTok : Tok → String
  | .tilde => "~"
  | .caret => "^"
  | .alpha s => "a" ++ String.ofList s
  | .num s => "n" ++ String.ofList s

def handle (fs : List String) : String :=
  match fs with
  | ["vc", a, b] =>
    match decStr a, decStr b with
    | some a, some b => toString (vercmp a b)
    | _, _ => "bad-op"
  | ["ref", a, b] =>
    match decStr a, decStr b with
    | some a, some b => toString (Reference.rpmvercmp (a.flatMap utf8) (b.flatMap utf8))
    | _, _ => "bad-op"
  | ["tok", a] =>
    match decStr a with
    | some a => encList ((tokens (norm a)).map showTok)
    | none => "bad-op"
  | ["lex", a, b] =>
    match decStr a, decStr b with
    | some a, some b => toString (lexCmpTok (tokens (norm a)) (tokens (norm b)))
    | _, _ => "bad-op"
  | ["u8", a] =>
    match decStr a with
    | some a => encList ((a.flatMap utf8).map toString)
    | none => "bad-op"
  | ["evr", e1, v1, r1, e2, v2, r2] =>
    match parseEvrs [e1, v1, r1, e2, v2, r2] with
    | some [x, y] => toString (evrCmp x y)
    | _ => "bad-op"
  | ["ops", n1, e1, v1, r1, n2, e2, v2, r2] =>
    match decStr n1, decStr n2, parseEvrs [e1, v1, r1, e2, v2, r2] with
    | some n1, some n2, some [x, y] =>
      let a : Pkg := ⟨n1, x⟩; let b : Pkg := ⟨n2, y⟩
      ",".intercalate [optB (pkgEq a b), optB (pkgNe a b), optB (pkgLt a b), optB (pkgLe a b),
                       optB (pkgGt a b), optB (pkgGe a b)]
    | _, _, _ => "bad-op"
  | "max" :: rest =>
    match parseEvrs rest with
    | some xs => match pyMax xs with | some m => showEvr m | none => "none"
    | none => "bad-op"
  | "min" :: rest =>
    match parseEvrs rest with
    | some xs => match pyMin xs with | some m => showEvr m | none => "none"
    | none => "bad-op"
  | _ => "bad-op"

def main : IO Unit := serve handle
