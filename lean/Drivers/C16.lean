import IV.Model.Proto
import IV.Model.ClientLoad
open IV IV.Proto IV.ClientVal IV.ClientConfig IV.ClientLoad

/-! line-protocol driver for C16 (glue, not model).  Field formats: see harness/c16.py. -/

def splitItems (sep : String) (f : String) : List String := if f = "~" then [] else f.splitOn sep

def decVal (f : String) : Option PyVal :=
  match f.toList with
  | ['N'] => some .none
  | ['B', '0'] => some (.bool false)
  | ['B', '1'] => some (.bool true)
  | 'I' :: r => (String.ofList r).toInt?.map .int
  | 'S' :: r => (decStr (String.ofList r)).map .str
  | 'F' :: r => match (String.ofList r).splitOn "/" with
    | [n, e] => match n.toInt?, e.toNat? with
      | some n, some e => some (.flt n e)
      | _, _ => none
    | _ => none
  | 'O' :: t :: ':' :: r => match decBool (String.singleton t), decStr (String.ofList r) with
    | some t, some r => some (.obj t r)
    | _, _ => none
  | _ => none

def encVal : PyVal → String
  | .none => "N"
  | .bool b => if b then "B1" else "B0"
  | .int i => s!"I{i}"
  | .str s => "S" ++ encStr s
  | .flt n e => s!"F{n}/{e}"
  | .obj t r => "O" ++ (if t then "1" else "0") ++ ":" ++ encStr r

def allSome {α : Type} : List (Option α) → Option (List α)
  | [] => some []
  | none :: _ => none
  | some x :: r => (allSome r).map (x :: ·)

def decKV {β : Type} (decV : String → Option β) (item : String) : Option (Str × β) :=
  match item.splitOn "=" with
  | [k, v] => match decStr k, decV v with
    | some k, some v => some (k, v)
    | _, _ => none
  | _ => none

def decDict (f : String) : Option Dict := allSome ((splitItems "," f).map (decKV decVal))
def decStrPairs (f : String) : Option (List (Str × Str)) := allSome ((splitItems "," f).map (decKV decStr))

def decFile (item : String) : Option (Str × FileSrc) :=
  match item.splitOn ":" with
  | [p, kind, items] => match decStr p, decStrPairs items with
    | some p, some kv =>
      if kind = "a" then some (p, .absent) else if kind = "s" then some (p, .section kv)
      else if kind = "l" then some (p, .legacy kv) else none
    | _, _ => none
  | _ => none

def decCli (item : String) : Option (Str × Option Str) :=
  match item.splitOn "=" with
  | [k] => (decStr k).map (fun k => (k, none))
  | [k, a] => match decStr k, decStr a with
    | some k, some a => some (k, some a)
    | _, _ => none
  | _ => none

def decFact (item : String) : Option (Str × PyVal × PyVal) :=
  match item.splitOn ":" with
  | fn :: rest => match (":".intercalate rest).splitOn "=" with
    | [a, r] => match decStr fn, decVal a, decVal r with
      | some fn, some a, some r => some (fn, a, r)
      | _, _, _ => none
    | _ => none
  | _ => none

def decInput (pe kw files envs cli facts : String) : Option Input := do
  let pe ← decBool pe
  let kw ← decDict kw
  let files ← allSome ((splitItems ";" files).map decFile)
  let envs ← decStrPairs envs
  let cli ← allSome ((splitItems "," cli).map decCli)
  let facts ← allSome ((splitItems "," facts).map decFact)
  pure { kwargs := kw, files := files, envVars := envs, cli := cli, facts := facts, printErrors := pe }

/-- only the entries that differ from the option's default are printed (both sides do the same) -/
def showStore (s : Dict) : String :=
  let items := s.filterMap (fun kv =>
    if dget defaults kv.1 == some kv.2 then none else some (encStr kv.1 ++ "=" ++ encVal kv.2))
  if items.isEmpty then "~" else ",".intercalate items

def showOutcome : Outcome → String
  | .ok s => "OK\t" ++ showStore s
  | .valueError m => "VE\t" ++ encStr m
  | .exit => "EXIT"
  | .bad => "bad-op"

def optS {α : Type} (f : α → String) : Option α → String
  | some x => f x
  | none => "E"

def handle (fs : List String) : String :=
  match fs with
  | ["load", pe, kw, files, envs, cli, facts] =>
    match decInput pe kw files envs cli facts with
    | some inp => showOutcome (loadAll inp)
    | none => "bad-op"
  | ["construct", pe, kw, files, envs, cli, facts] =>
    match decInput pe kw files envs cli facts with
    | some inp => showOutcome (construct inp)
    | none => "bad-op"
  | ["load2", pe, kw, files, envs, cli, facts] =>
    match decInput pe kw files envs cli facts with
    | some inp => showOutcome (loadAllTwice inp)
    | none => "bad-op"
  | ["loadfile", pe, kw, files, envs, cli, facts, fname] =>
    match decInput pe kw files envs cli facts, decVal fname with
    | some inp, some fname => showOutcome (constructThenFile inp fname)
    | _, _ => "bad-op"
  | ["constructp", pe, kw, files, envs, cli, facts, pos] =>
    match decInput pe kw files envs cli facts, decDict pos with
    | some inp, some pos => showOutcome (construct { inp with posArgs := pos })
    | _, _ => "bad-op"
  | ["loadp", pe, kw, files, envs, cli, facts, pos] =>
    match decInput pe kw files envs cli facts, decDict pos with
    | some inp, some pos => showOutcome (loadAll { inp with posArgs := pos })
    | _, _ => "bad-op"
  | ["int", s] => match decStr s with
    | some s => optS (fun (i : Int) => s!"I{i}") (parseInt s)
    | none => "bad-op"
  | ["float", s] => match decStr s with
    | some s => optS (fun (x : Int × Nat) => s!"F{x.1}/{x.2}") (parseFloat s)
    | none => "bad-op"
  | ["getboolean", s] => match decStr s with
    | some s => optS (fun (b : Bool) => if b then "B1" else "B0") (getBoolean s)
    | none => "bad-op"
  | ["boolify", s] => match decStr s with
    | some s => encVal (boolify s)
    | none => "bad-op"
  | ["dirname", s] => match decStr s with
    | some s => encStr (dirname s)
    | none => "bad-op"
  | ["detfile", comp, f] => match decStr comp, decStr f with
    | some comp, some f => let r := detFilename (.str comp) (.str f); encVal r.1 ++ "\t" ++ encVal r.2
    | _, _ => "bad-op"
  | _ => "bad-op"

def main : IO Unit := serve handle
