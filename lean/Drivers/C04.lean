import IV.Model.Proto
import IV.Model.Dr
import IV.Model.Subgraphs
import IV.Model.Incremental
import IV.Model.DrWalk
open IV IV.Proto IV.Dr

/-! Driver for the incremental / pooled drivers (C04, also used by C03): the world protocol of Drivers/Dr.lean (`new`, `decl`,
`seed` — same parsing, copied because a driver cannot import another driver) plus `incr`: generate_incremental + run_incremental /
run_all of IV/Model/Incremental.lean, broker handling included. -/

inductive BodySpec where
  | val | none | resp | multi (xs : List Nat) | always (e : Exc) | ifNone (k : Nat) (e : Exc) | point
deriving Repr

inductive ElemSpec where
  | val | noRes | zero | fault (e : Exc)
deriving Repr

structure CompSpec where
  decl : Decl
  enabled : Bool
  ignore : List Comp
  regPoints : List Comp
  body : BodySpec
  elems : List ElemSpec

structure St where
  comps : List (Comp × CompSpec) := []
  seeds : List (Comp × Val) := []

def nats (sep : Char) (s : String) : Option (List Nat) :=
  if s = "-" ∨ s = "" then some [] else
  (s.splitOn (String.singleton sep)).foldr (fun p acc => match acc, p.toNat? with
    | some l, some n => some (n :: l) | _, _ => none) (some [])

def parseExc (s : String) : Option Exc :=
  match s with
  | "skip" => some .skip | "content" => some .content | "calledProc" => some .calledProc
  | "timeout" => some .timeout | "blacklisted" => some .blacklisted
  | "badReturn" => some .badReturn | "badDecl" => some .badDecl
  | _ => if s.startsWith "crash" then (s.drop 5).toString.toNat?.map Exc.crash else none

def showExc : Exc → String
  | .skip => "skip" | .content => "content" | .calledProc => "calledProc" | .timeout => "timeout"
  | .blacklisted => "blacklisted" | .crash e => s!"crash{e}" | .badReturn => "badReturn" | .badDecl => "badDecl"

def parseKind (s : String) : Option Kind :=
  match s with
  | "plain" => some .plain | "plugin" => some .plugin | "datasource" => some .datasource
  | "parser1" => some (.parser true) | "parser0" => some (.parser false) | "rule" => some .rule
  | _ => none

/-- items: `o3;g4,5;o7`, `-` for none -/
def parseItems (s : String) : Option (List Item) :=
  if s = "-" then some [] else
  (s.splitOn ";").foldr (fun p acc => match acc with
    | none => none
    | some l =>
      if p.startsWith "o" then (p.drop 1).toString.toNat?.map (fun n => Item.one n :: l)
      else if p.startsWith "g" then (nats ',' (p.drop 1).toString).map (fun cs => Item.group cs :: l)
      else none) (some [])

def parseBody (s : String) : Option BodySpec :=
  match s.splitOn ":" with
  | ["v"] => some .val | ["n"] => some .none | ["r"] => some .resp | ["p"] => some .point
  | ["m", xs] => (nats ',' xs).map BodySpec.multi
  | ["f", e] => (parseExc e).map BodySpec.always
  | ["i", k, e] => match k.toNat?, parseExc e with
    | some k, some e => some (.ifNone k e) | _, _ => none
  | _ => none

def parseElems (s : String) : Option (List ElemSpec) :=
  if s = "-" then some [] else
  (s.splitOn ",").foldr (fun p acc => match acc with
    | none => none
    | some l =>
      if p = "v" then some (.val :: l) else if p = "n" then some (.noRes :: l)
      else if p = "z" then some (.zero :: l)
      else if p.startsWith "f:" then (parseExc (p.drop 2).toString).map (fun e => ElemSpec.fault e :: l)
      else none) (some [])

def showNats (sep : String) (xs : List Nat) : String := sep.intercalate (xs.map toString)
def showGroups (gs : List (List Nat)) : String := "&".intercalate (gs.map (fun g => if g.isEmpty then "_" else showNats ";" g))

def showVal : Val → String
  | .none => "N" | .atom n => s!"A{n}" | .multi xs => "M" ++ showNats ";" xs | .resp n => s!"R{n}"
  | .skipResp a b => "S" ++ showNats ";" a ++ "/" ++ showGroups b | .noneResp => "Z"

def parseVal (s : String) : Option Val :=
  if s = "N" then some .none else if s = "Z" then some .noneResp
  else if s.startsWith "A" then (s.drop 1).toString.toNat?.map Val.atom
  else if s.startsWith "R" then (s.drop 1).toString.toNat?.map Val.resp
  else if s.startsWith "M" then (nats ';' (s.drop 1).toString).map Val.multi
  else none

def code : Option Val → Nat
  | none => 0 | some .none => 0 | some (.atom n) => 1 + n % 991 | some (.multi xs) => 2 + xs.sum % 991
  | some (.resp n) => 3 + n % 991 | some (.skipResp _ _) => 5 | some .noneResp => 7

def mix (c : Comp) (args : List (Option Val)) : Nat :=
  let rec go (idx : Nat) (l : List (Option Val)) (acc : Nat) : Nat :=
    match l with
    | [] => acc
    | a :: t => go (idx + 1) t (acc + (idx + 1) * code a)
  (c + 1) * 1000 + go 0 args 0 % 997

def isNoneArg : Option (Option Val) → Bool
  | some (some .none) => true | some none => true | none => true | _ => false

def lastPresent : List (Option Val) → Option Val
  | [] => none
  | a :: t => match lastPresent t with
    | some v => some v
    | none => a

def bodyOf (sp : BodySpec) (c : Comp) (args : List (Option Val)) : Outcome :=
  match sp with
  | .val => .value (.atom (mix c args))
  | .none => .value .none
  | .resp => .value (.resp (mix c args))
  | .multi xs => .value (.multi xs)
  | .always e => .fault e
  | .ifNone k e => if isNoneArg (args[k]?) then .fault e else .value (.atom (mix c args))
  | .point => match lastPresent args with
    | some v => .value v
    | none => .fault .skip

def elemOf (sps : List ElemSpec) (c : Comp) (x : Nat) : ElemOutcome :=
  if sps.isEmpty then .value ((x * 7 + c) % 1000) else
  match sps[x % sps.length]? with
  | some .val => .value ((x * 7 + c) % 1000)
  | some .noRes => .noResult
  | some .zero => .value 0          -- a value that is falsy in Python but is a value (not None)
  | some (.fault e) => .fault e
  | none => .noResult

def St.find (s : St) (c : Comp) : Option CompSpec := (s.comps.find? (·.1 == c)).map (·.2)

def St.world (s : St) : World where
  decl c := (s.find c).map (·.decl)
  enabled c := match s.find c with | some sp => sp.enabled | none => true
  ignore c := match s.find c with | some sp => sp.ignore | none => []
  regPoints c := match s.find c with | some sp => sp.regPoints | none => []
  body c args := match s.find c with | some sp => bodyOf sp.body c args | none => .fault .badDecl
  elemBody c x := match s.find c with | some sp => elemOf sp.elems c x | none => .noResult

def St.seed (s : St) : Inst := fun c => (s.seeds.find? (·.1 == c)).map (·.2)

def insertSorted (x : String) : List String → List String
  | [] => [x]
  | y :: ys => if x ≤ y then x :: y :: ys else y :: insertSorted x ys
def sortStrs (l : List String) : List String := l.foldr insertSorted []

def showBroker (univ : List Comp) (b : Broker) : String :=
  let inst := univ.filterMap (fun c => (b.inst c).map (fun v => s!"{c}:{showVal v}"))
  let miss := univ.filterMap (fun c => (b.missing c).map (fun m => s!"{c}:{showNats ";" m.required}/{showGroups m.atLeastOne}"))
  let excs := sortStrs (b.excLog.map (fun e => s!"{e.target}:{showExc e.exc}:{e.src}"))
  "inst=" ++ " ".intercalate inst ++ "|missing=" ++ " ".intercalate miss ++ "|exc=" ++ " ".intercalate excs
    ++ "|att=" ++ showNats "," b.attempts ++ "|fired=" ++ showNats "," b.fired

/-- graph: `k:d,d;k:;k:d` -/
def parseGraph (s : String) : Option Graph :=
  if s = "-" then some [] else
  (s.splitOn ";").foldr (fun p acc => match acc, p.splitOn ":" with
    | some l, [k, ds] => match k.toNat?, nats ',' ds with
      | some k, some ds => some ((k, ds) :: l) | _, _ => none
    | _, _ => none) (some [])

def sortNats (l : List Nat) : List Nat := l.foldr (fun x acc =>
  let rec ins (x : Nat) : List Nat → List Nat
    | [] => [x]
    | y :: ys => if x ≤ y then x :: y :: ys else y :: ins x ys
  ins x acc) []

def handle (s : St) (fs : List String) : St × String :=
  match fs with
  | ["new"] => ({}, "ok")
  | ["decl", c, kind, items, opt, en, ign, rps, body, elems] =>
    match c.toNat?, parseKind kind, parseItems items, nats ',' opt, decBool en, nats ',' ign, nats ',' rps,
          parseBody body, parseElems elems with
    | some c, some k, some it, some op, some en, some ig, some rp, some bd, some el =>
      ({ s with comps := s.comps ++ [(c, ⟨⟨k, it, op⟩, en, ig, rp, bd, el⟩)] }, "ok")
    | _, _, _, _, _, _, _, _, _ => (s, "bad-op")
  | ["seed", c, v] =>
    match c.toNat?, parseVal v with
    | some c, some v => ({ s with seeds := s.seeds ++ [(c, v)] }, "ok")
    | _, _ => (s, "bad-op")
  | ["run", ss, order, keys, univ] =>
    match decBool ss, nats ',' order, nats ',' keys, nats ',' univ with
    | some ss, some o, some ks, some u =>
      let b := runComponents s.world (fun c => ks.contains c) ss o (Broker.seeded s.seed)
      (s, showBroker u b)
    | _, _, _, _ => (s, "bad-op")
  | ["levels", g] =>
    match parseGraph g with
    | some g =>
      let g' := prepare g
      match levels sortNats g'.length g' with
      | some ls => (s, "/".intercalate (ls.map (showNats ",")))
      | none => (s, "cyclic")
    | none => (s, "bad-op")
  | ["aprune", g] =>
    -- the loaded-archive pruning loop of dr.run on the graph in DICT order, with the seeds as the broker's values
    match parseGraph g with
    | some g => match archivePrune s.seed g with
      | some g' => (s, "keys=" ++ showNats "," g'.keys)
      | none => (s, "keyerror")
    | none => (s, "bad-op")
  | ["subgraphs", g, deps, dependents, prio] =>
    -- G in dict order; deps / dependents as `c:d,d;c:d`; prio as `c:p;c:p`
    match nats ',' g, parseGraph deps, parseGraph dependents, parseGraph prio with
    | some G, some ds, some dts, some ps =>
      let look (t : Graph) (c : Comp) : List Comp := match t.find? (·.1 == c) with | some kv => kv.2 | none => []
      let r : Rel := ⟨look ds, look dts⟩
      let pr (c : Comp) : Nat := (look ps c).headD 0
      (s, "/".intercalate ((getSubgraphs r pr G).map (fun sg => showNats "," (sortNats sg))))
    | _, _, _, _ => (s, "bad-op")
  | ["depgraph", mode, regs, roots] =>
    -- graph construction from components: `regs` is the registry DEPENDENCIES as `c:d,d;c:` (its keys are the
    -- registered components), `roots` the component(s) handed to get_dependency_graph (mode `one`) or to
    -- determine_components as a list / set (mode `list`); answer: the graph (keys and members sorted) and its levels
    match parseGraph regs, nats ',' roots with
    | some rg, some rs =>
      let reg : Reg := fun c => match rg.find? (·.1 == c) with | some kv => kv.2 | none => []
      let registered : Comp → Bool := fun c => rg.keys.contains c
      let fuel := rg.length + 1
      let res : Option Graph :=
        if mode = "one" then (match rs with | [r] => getDependencyGraph reg registered fuel r | _ => none)
        else if mode = "list" then determineList reg registered fuel rs
        else none
      if mode ≠ "one" ∧ mode ≠ "list" then (s, "bad-op") else
      match res with
      | none => (s, "unregistered")
      | some g =>
        let look (c : Comp) : List Comp := match g.find? (·.1 == c) with | some kv => kv.2 | none => []
        let gs := ";".intercalate ((sortNats g.keys).map (fun k => s!"{k}:{showNats "," (sortNats (look k))}"))
        let g' := prepare g
        let lv := match levels sortNats g'.length g' with
          | some ls => "/".intercalate (ls.map (showNats ","))
          | none => "cyclic"
        (s, "graph=" ++ gs ++ "|levels=" ++ lv)
    | _, _ => (s, "bad-op")
  | ["derive", kind, clsReq, clsOpt, pos, kwReq, kwOpt] =>
    let opt : Option OptArg :=
      if kwOpt = "-" then some .absent
      else if kwOpt.startsWith "s" then (kwOpt.drop 1).toString.toNat?.map OptArg.single
      else if kwOpt.startsWith "m" then (nats ',' (kwOpt.drop 1).toString).map OptArg.many
      else none
    match parseKind kind, parseItems clsReq, nats ',' clsOpt, parseItems pos, parseItems kwReq, opt with
    | some k, some cr, some co, some ps, some kr, some ko =>
      let d := derive ⟨k, cr, co, ps, kr, ko⟩
      (s, "req=" ++ showNats "," d.requires ++ "|alo=" ++ showGroups d.atLeastOne ++ "|deps=" ++ showNats "," d.deps)
    | _, _, _, _, _, _ => (s, "bad-op")
  | ["incr", passed, ss, g, deps, dependents, prio, univ, sched] =>
    -- G in dict order; deps / dependents / prio as for `subgraphs`; passed = 1: the caller's broker (identity 0, holding the
    -- seeds, skip recording `ss`), passed = 0: no broker.  sched = s: serial, r: the tasks taken in REVERSE order by the pool.
    -- Answer: the identities handed back (0 = the caller's object, 1.. = new objects) and the final contents of each, in order.
    match decBool passed, decBool ss, nats ',' g, parseGraph deps, parseGraph dependents, parseGraph prio, nats ',' univ with
    | some passed, some ss, some G, some ds, some dts, some ps, some u =>
      let look (t : Graph) (c : Comp) : List Comp := match t.find? (·.1 == c) with | some kv => kv.2 | none => []
      let r : Rel := ⟨look ds, look dts⟩
      let pr (c : Comp) : Nat := (look ps c).headD 0
      let subs := getSubgraphs r pr G
      let tasks := generateIncremental subs (if passed then some 0 else none) 1
      let heap : Heap := fun ref => if ref = 0 then ⟨Broker.seeded s.seed, ss⟩ else Cell.fresh
      -- `run_order` of the yielded dict `{s: get_dependencies(s) for s in seen}`
      let orderOf (sg : List Comp) : List Comp := (toposort sortNats (sg.map (fun k => (k, r.deps k)))).getD []
      let sch := if sched = "r" then tasks.reverse else tasks
      let (hp, refs) := runAllPool s.world orderOf heap tasks sch
      let showCell (ref : Ref) : String :=
        let b := (hp ref).broker
        let inst := u.filterMap (fun c => (b.inst c).map (fun v => s!"{c}:{showVal v}"))
        let miss := u.filterMap (fun c => (b.missing c).map (fun m => s!"{c}:{showNats ";" m.required}/{showGroups m.atLeastOne}"))
        let excs := sortStrs (b.excLog.map (fun e => s!"{e.target}:{showExc e.exc}"))
        s!"#{ref}[" ++ showNats "," (sortNats ((tasks.filter (·.2 == ref)).flatMap (·.1))) ++ "]inst=" ++ " ".intercalate inst
          ++ "|missing=" ++ " ".intercalate miss ++ "|exc=" ++ " ".intercalate excs
      if sched = "s" ∨ sched = "r" then (s, " // ".intercalate (refs.map showCell)) else (s, "bad-op")
    | _, _, _, _, _, _, _ => (s, "bad-op")
  | ["incra", passed, ss, g, deps, dependents, prio, univ, sched] =>
    -- as `incr` with the caller's broker, which holds a SerializedArchiveContext: every run() prunes its sub-graph dict first
    match decBool passed, decBool ss, nats ',' g, parseGraph deps, parseGraph dependents, parseGraph prio, nats ',' univ with
    | some _, some ss, some G, some ds, some dts, some ps, some u =>
      let look (t : Graph) (c : Comp) : List Comp := match t.find? (·.1 == c) with | some kv => kv.2 | none => []
      let r : Rel := ⟨look ds, look dts⟩
      let pr (c : Comp) : Nat := (look ps c).headD 0
      let subs := getSubgraphs r pr G
      let tasks := generateIncremental subs (some 0) 1
      let heap : Heap := fun ref => if ref = 0 then ⟨Broker.seeded s.seed, ss⟩ else Cell.fresh
      let hp := runTasksArchive s.world sortNats r.deps heap (if sched = "r" then tasks.reverse else tasks)
      let b := (hp 0).broker
      let inst := u.filterMap (fun c => (b.inst c).map (fun v => s!"{c}:{showVal v}"))
      let miss := u.filterMap (fun c => (b.missing c).map (fun m => s!"{c}:{showNats ";" m.required}/{showGroups m.atLeastOne}"))
      let excs := sortStrs (b.excLog.map (fun e => s!"{e.target}:{showExc e.exc}"))
      (s, "#0[" ++ showNats "," (sortNats G) ++ "]inst=" ++ " ".intercalate inst ++ "|missing=" ++ " ".intercalate miss ++ "|exc=" ++ " ".intercalate excs)
    | _, _, _, _, _, _, _ => (s, "bad-op")
  | _ => (s, "bad-op")

def main : IO Unit := serveState ({} : St) handle
