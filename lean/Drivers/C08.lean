import IV.Model.Proto
import IV.Model.CleanLine
import IV.Model.CleanSpecDecl
open IV IV.Proto IV.CleanLine

/-! line protocol for C08 (glue, not model)

  cls   <codepoint>                         → two flags: isWord isSpace
  repl  k v s                               → s.replace(k, v)
  ipkeys s | mackeys s                      → the found addresses that are NOT on the ignore list, in substitution order
  ipv4  s | mac s | host d s                → findall results  (`=enc` items; mac items carry `!` when ignored)
  pw    s                                   → Password.parse_line
  rx    pat s                               → 0/1
        (a pattern: `P<enc>` plain | `R<a><e>:<atoms>` modelled family | `X=line/=line…` extensional: the lines on
         which the expression taken by itself matches)
  kwdb  keywords                            → `=k>v` items
  clean mode flags fqdn noObf pats keywords allow ipT hostT macT ip6T maxLen line…
        mode L (list) | S (single string) | P (spec written by a provider; `empty` = ContentException); flags = obfuscate obfHost obfMac obfIpv6 noRedact width
        a line is `=text` or `=text/=found6/=found6…`
        → `ok` TAB `=line`…   |  `ok` TAB `none`  |  `err:index` | `err:table` | `dom`


  cleand flags fqdn declNoObf relPath rmShape keys pats keywords filters ipT hostT macT ip6T maxLen line…
        a spec written under a RegistryPoint declaration: flags = obfuscate obfHost obfMac obfIpv6 declNoRedact filterable preFiltered;
        declNoObf = `N` (not declared) or items; rmShape = A (absent) | L (list: pats are plain) | D (mapping: keys, pats = value of
        'regex') | K (mapping without 'regex': keys); → as mode P of `clean`

lists are ','-separated items, each item starts with '=', the empty list is `-`.
-/

def items (f : String) : List String := if f = "-" then [] else f.splitOn ","

def decItem (f : String) : Option Str :=
  match f.toList with
  | '=' :: r => decStr (String.ofList r)
  | _ => none

def decItems (f : String) : Option (List Str) := (items f).mapM decItem

def decPair (sep : Char) (f : String) : Option (Str × String) :=
  match f.toList with
  | '=' :: r =>
    match (String.ofList r).splitOn (String.singleton sep) with
    | [a, b] => (decStr a).map (·, b)
    | _ => none
  | _ => none

def decTable (f : String) : Option (List (Str × Str)) :=
  (items f).mapM (fun it => match decPair '>' it with
    | some (a, b) => (decStr b).map (a, ·)
    | none => none)

def decAllow (f : String) : Option (Option Allow) :=
  if f = "N" then some none else
  ((items f).mapM (fun it => match decPair ':' it with
    | some (a, b) => b.toInt?.map (a, ·)
    | none => none)).map some

def decCls (s : List Char) : Option Cls :=
  match s with
  | 'L' :: r => (hexNat r).map (fun n => Cls.lit (Char.ofNat n))
  | ['A'] => some .any | ['n'] => some .alnum | ['a'] => some .alpha | ['b'] => some .blank
  | ['d'] => some .digit | ['l'] => some .lower | ['s'] => some .space | ['u'] => some .upper
  | ['w'] => some .word | ['x'] => some .xdigit
  | _ => none

def decAtom (f : String) : Option Atom :=
  match f.toList.reverse with
  | '+' :: r => (decCls r.reverse).map (⟨·, true⟩)
  | '1' :: r => (decCls r.reverse).map (⟨·, false⟩)
  | _ => none

def decPat (f : String) : Option Pat :=
  match f.toList with
  | 'P' :: r => (decStr (String.ofList r)).map Pat.plain
  | 'R' :: a :: e :: ':' :: r =>
    match decBool (String.singleton a), decBool (String.singleton e) with
    | some a, some e =>
      let body := String.ofList r
      let ats := if body = "" then some [] else (body.splitOn ";").mapM decAtom
      ats.map (fun l => Pat.regex ⟨a, l, e⟩)
    | _, _ => none
  | _ => none

def decPatX (f : String) : Option Pat :=
  match f.toList with
  | 'X' :: r =>
    let body := String.ofList r
    (if body = "" then some [] else (body.splitOn "/").mapM decItem).map Pat.ext
  | _ => decPat f

def decPats (f : String) : Option (List Pat) := (items f).mapM decPatX

def patDomain : Pat → Bool
  | .plain k => inDomain k
  | .regex r => r.atoms.all (fun a => match a.cls with | .lit c => inDomain [c] | _ => true)
  | .ext hits => hits.all inDomain

def decLine (f : String) : Option (Str × List Str) :=
  match (f.splitOn "/").mapM decItem with
  | some (l :: v6) => some (l, v6)
  | _ => none

def encItems (xs : List Str) : String := if xs.isEmpty then "-" else ",".intercalate (xs.map (fun x => "=" ++ encStr x))

def showErr : Err → String
  | .table => "err:table"
  | .index => "err:index"

def flagsOf (f : String) : Option (List Bool) := f.toList.mapM (fun c => decBool (String.singleton c))

def tblDomain (t : List (Str × Str)) : Bool := t.all (fun kv => inDomain kv.1 && inDomain kv.2)

def handleClean (mode flags fqdn noObf pats kws allow ipT hostT macT ip6T maxLen : String) (lines : List String) : String :=
  match flagsOf flags, decStr fqdn, decItems noObf, decPats pats, decItems kws, decAllow allow with
  | some [ob, oh, om, o6, nr, wd], some fqdn, some noObf, some pats, some kws, some allow =>
    match decTable ipT, decTable hostT, decTable macT, decTable ip6T, decNat maxLen, lines.mapM decLine with
    | some ipT, some hostT, some macT, some ip6T, some maxLen, some lines =>
      let cfg : Cfg := ⟨pats, kws, ob, oh, om, o6, fqdn, maxLen⟩
      let tb : Tables := ⟨ipT, hostT, macT, ip6T⟩
      let call : Call := ⟨noObf, nr, wd⟩
      let dom := inDomain fqdn && pats.all patDomain && kws.all inDomain && tblDomain ipT && tblDomain hostT
        && tblDomain macT && tblDomain ip6T && lines.all (fun l => inDomain l.1 && l.2.all inDomain)
        && (match allow with | some a => a.all (fun kv => inDomain kv.1) | none => true)
      if !dom then "dom" else
      if mode = "L" then
        match cleanContent Pat.hit cfg tb call allow lines with
        | .ok outs => "\t".intercalate ("ok" :: outs.map (fun l => "=" ++ encStr (chars l)))
        | .error e => showErr e
      else if mode = "P" then
        match specClean Pat.hit cfg tb call lines with
        | .ok (some outs) => "\t".intercalate ("ok" :: outs.map (fun l => "=" ++ encStr (chars l)))
        | .ok none => "empty"
        | .error e => showErr e
      else if mode = "S" then
        match lines with
        | [(l, v6)] =>
          match cleanLine Pat.hit cfg tb call allow l v6 with
          | .ok (_, some o) => "ok\t=" ++ encStr (chars o)
          | .ok (_, none) => "ok\tnone"
          | .error e => showErr e
        | _ => "bad-op"
      else "bad-op"
    | _, _, _, _, _, _ => "bad-op"
  | _, _, _, _, _, _ => "bad-op"

def decOptItems (f : String) : Option (Option (List Str)) :=
  if f = "N" then some none else (decItems f).map some

def handleCleanD (flags fqdn dno relPath shape keys pats kws filters ipT hostT macT ip6T maxLen : String)
    (lines : List String) : String :=
  match flagsOf flags, decStr fqdn, decOptItems dno, decStr relPath, decItems keys, decPats pats, decItems kws, decAllow filters with
  | some [ob, oh, om, o6, nr, fl, pf], some fqdn, some dno, some relPath, some keys, some pats, some kws, some (some filters) =>
    match decTable ipT, decTable hostT, decTable macT, decTable ip6T, decNat maxLen, lines.mapM decLine with
    | some ipT, some hostT, some macT, some ip6T, some maxLen, some lines =>
      let rm : Option (RmPatterns Pat) :=
        if shape = "A" then some .absent
        else if shape = "L" then (pats.mapM (fun (p : Pat) => match p with | Pat.plain k => some k | _ => none)).map RmPatterns.list
        else if shape = "D" then some (.dict keys (some pats))
        else if shape = "K" then some (.dict keys none)
        else none
      match rm with
      | none => "bad-op"
      | some rm =>
      let cfg : Cfg := ⟨cfgPats id rm, kws, ob, oh, om, o6, fqdn, maxLen⟩
      let tb : Tables := ⟨ipT, hostT, macT, ip6T⟩
      let d : SpecDecl := ⟨dno, nr, fl⟩
      let dom := inDomain fqdn && pats.all patDomain && keys.all inDomain && kws.all inDomain && tblDomain ipT && tblDomain hostT
        && tblDomain macT && tblDomain ip6T && lines.all (fun l => inDomain l.1 && l.2.all inDomain)
        && filters.all (fun kv => inDomain kv.1) && inDomain relPath
      if !dom then "dom" else
      let lines := if fl && pf then preFilter (filters.map Prod.fst) lines else lines
      match specCleanDecl Pat.hit cfg tb d relPath filters lines with
      | .ok (some outs) => "\t".intercalate ("ok" :: outs.map (fun l => "=" ++ encStr (chars l)))
      | .ok none => "empty"
      | .error e => showErr e
    | _, _, _, _, _, _ => "bad-op"
  | _, _, _, _, _, _, _, _ => "bad-op"

def handle (fs : List String) : String :=
  match fs with
  | ["cls", n] =>
    match decNat n with
    | some n => let c := Char.ofNat n; (if isWord c then "1" else "0") ++ (if isSpace c then "1" else "0")
    | none => "bad-op"
  | ["repl", k, v, s] =>
    match decStr k, decStr v, decStr s with
    | some k, some v, some s => encStr (chars (replaceAll k v (orig s)))
    | _, _, _ => "bad-op"
  | ["ipv4", s] =>
    match decStr s with
    | some s => if inDomain s then encItems (findIPv4 s) else "dom"
    | none => "bad-op"
  | ["ipkeys", s] =>
    match decStr s with
    | some s => if inDomain s then encItems (ipKeys s) else "dom"
    | none => "bad-op"
  | ["mackeys", s] =>
    match decStr s with
    | some s => if inDomain s then encItems (macKeys s) else "dom"
    | none => "bad-op"
  | ["mac", s] =>
    match decStr s with
    | some s =>
      if inDomain s then
        let f := findMac s
        if f.isEmpty then "-" else ",".intercalate (f.map (fun m => (if macIgnored m then "!" else "=") ++ encStr m))
      else "dom"
    | none => "bad-op"
  | ["host", d, s] =>
    match decStr d, decStr s with
    | some d, some s => if inDomain s && inDomain d then encItems (findHost d s) else "dom"
    | _, _ => "bad-op"
  | ["pw", s] =>
    match decStr s with
    | some s => if inDomain s then encStr (chars (passwordStage (orig s))) else "dom"
    | none => "bad-op"
  | ["rx", p, s] =>
    match decPat p, decStr s with
    | some p, some s => if inDomain s && patDomain p then (if p.hit s then "1" else "0") else "dom"
    | _, _ => "bad-op"
  | ["kwdb", ks] =>
    match decItems ks with
    | some ks =>
      let db := kwDb ks
      if db.isEmpty then "-" else ",".intercalate (db.map (fun kv => "=" ++ encStr kv.1 ++ ">" ++ encStr kv.2))
    | none => "bad-op"
  | "clean" :: mode :: flags :: fqdn :: noObf :: pats :: kws :: allow :: ipT :: hostT :: macT :: ip6T :: maxLen :: lines =>
    handleClean mode flags fqdn noObf pats kws allow ipT hostT macT ip6T maxLen lines
  | "cleand" :: flags :: fqdn :: dno :: relPath :: shape :: keys :: pats :: kws :: filters :: ipT :: hostT :: macT :: ip6T :: maxLen :: lines =>
    handleCleanD flags fqdn dno relPath shape keys pats kws filters ipT hostT macT ip6T maxLen lines
  | _ => "bad-op"

def main : IO Unit := serve handle
