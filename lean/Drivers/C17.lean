import IV.Model.Proto
import IV.Model.ClientState
open IV IV.Proto IV.ClientState

/-! line protocol for C17 (stateful: one history = `init` followed by operations)

  init  has0 has1  id reg0 unreg0 reg1 unreg1  ext0 ext1 ext2 ext3  denied(loc names, comma separated, `-` none)   → state
  read|new  entry-point  rhsm|~  fresh   → res TAB state
  fetch rhsm|~ fresh | connunreg | handleunreg 0|1 | regcheck 1|0|~ rhsm|~ fresh   → res TAB state
  reg | unreg date|~ | rc412 date|~ | delreg | delunreg                               → res TAB state
  lregcheck api rhsm|~ fresh | lhandlereg api 0|1 rhsm|~ fresh fresh2 | lhandleunreg api force delOk rhsm|~ fresh fresh2  (api: R | U | N | D<date>)   → res TAB state
  canon s                           → canonical form or `E`
node fields: `A` absent, `D` directory, `F<str>` file, `L<k>` symlink to ext k
-/

def nExt : Nat := 4

def decNode (f : String) : Option Node :=
  match f.toList with
  | ['A'] => some .absent
  | ['D'] => some .dir
  | 'F' :: r => (decStr (String.ofList r)).map .file
  | 'L' :: r => (String.ofList r).toNat?.bind (fun k => if k < nExt then some (.link k) else none)
  | _ => none

def decENode (f : String) : Option ENode :=
  match f.toList with
  | ['A'] => some .absent
  | ['D'] => some .dir
  | 'F' :: r => (decStr (String.ofList r)).map .file
  | _ => none

def showNode : Node → String
  | .absent => "A" | .dir => "D" | .file c => "F" ++ encStr c | .link k => "L" ++ toString k

def showENode : ENode → String
  | .absent => "A" | .dir => "D" | .file c => "F" ++ encStr c

def locs : List Loc := [.id, .reg false, .unreg false, .reg true, .unreg true]

def showState (E : Env) (fs : FS) : String :=
  " ".intercalate (locs.map (fun l => showNode (look E fs l)) ++ (List.range nExt).map (fun k => showENode (fs.ext k)))

def showRes : Res → String
  | .done => "ok" | .id x => "id:" ++ encStr x | .invalid => "invalid" | .oserror => "oserror"

def decOpt (f : String) : Option (Option Str) :=
  if f = "~" then some none else (decStr f).map some

def decReader (f : String) : Option Reader :=
  if f = "explicit" then some .explicit else if f = "default" then some .default
  else if f = "clientfn" then some .clientFn else if f = "clientobj" then some .clientObj
  else if f = "create" then some .createSystem else if f = "legacyunreg" then some .legacyUnregister else none

def decRegen (f : String) : Option Regen :=
  if f = "explicit" then some .explicit else if f = "default" then some .default
  else if f = "create" then some .createSystem else none

/-- answer of the inventory: 1 found, 0 not found (404), ~ unreachable -/
def decTri (f : String) : Option (Option Bool) :=
  if f = "~" then some none else (decBool f).map some

/-- answer of the legacy API: R registered, U unreachable, N not yet registered, D<date> unregistered at -/
def decApi (f : String) : Option Api :=
  match f.toList with
  | ['R'] => some .registered
  | ['U'] => some .unreachable
  | ['N'] => some .notYet
  | 'D' :: r => (decStr (String.ofList r)).map .unregAt
  | _ => none

abbrev St := Option (Env × FS)

def apply (s : St) (op : Option Op) : St × String :=
  match s, op with
  | some (E, fs), some op =>
    let r := step E fs op
    (some (E, r.1), showRes r.2 ++ "\t" ++ showState E r.1)
  | _, _ => (s, "bad-op")

def handle (s : St) (fs : List String) : St × String :=
  match fs with
  | ["init", h0, h1, i, r0, u0, r1, u1, e0, e1, e2, e3, dn] =>
    match decBool h0, decBool h1, [i, r0, u0, r1, u1].mapM decNode, [e0, e1, e2, e3].mapM decENode with
    | some h0, some h1, some [i, r0, u0, r1, u1], some es =>
      let dl := decList dn
      let E : Env := ⟨fun d => if d then h1 else h0, fun l => match l with
          | .id => dl.contains "id" | .reg false => dl.contains "reg0" | .unreg false => dl.contains "unreg0"
          | .reg true => dl.contains "reg1" | .unreg true => dl.contains "unreg1"⟩
      let fs : FS := ⟨fun l => match l with
          | .id => i | .reg false => r0 | .unreg false => u0 | .reg true => r1 | .unreg true => u1,
        fun k => match es[k]? with | some n => n | none => .absent⟩
      (some (E, fs), showState E fs)
    | _, _, _, _ => (s, "bad-op")
  | ["read", rd, r, f] => apply s (do let rd ← decReader rd; let r ← decOpt r; let f ← decStr f; pure (.readId rd r f))
  | ["new", w, r, f] => apply s (do let w ← decRegen w; let r ← decOpt r; let f ← decStr f; pure (.newId w r f))
  | ["fetch", r, f] => apply s (do let r ← decOpt r; let f ← decStr f; pure (.fetch r f))
  | ["connunreg"] => apply s (some .connUnregister)
  | ["handleunreg", b] => apply s (do let b ← decBool b; pure (.handleUnregistration b))
  | ["regcheck", h, r, f] => apply s (do let h ← decTri h; let r ← decOpt r; let f ← decStr f; pure (.registrationCheck h r f))
  | ["lregcheck", a, r, f] => apply s (do let a ← decApi a; let r ← decOpt r; let f ← decStr f; pure (.legacyRegistrationCheck a r f))
  | ["lhandlereg", a, b, r, f, f2] =>
    apply s (do let a ← decApi a; let b ← decBool b; let r ← decOpt r; let f ← decStr f; let f2 ← decStr f2
                pure (.legacyHandleRegistration a b r f f2))
  | ["lhandleunreg", a, b, c, r, f, f2] =>
    apply s (do let a ← decApi a; let b ← decBool b; let c ← decBool c; let r ← decOpt r; let f ← decStr f; let f2 ← decStr f2
                pure (.legacyHandleUnregistration a b c r f f2))
  | ["rc412", d] => apply s (do let d ← decOpt d; pure (.rc412 d))
  | ["reg"] => apply s (some .register)
  | ["unreg", d] => apply s (do let d ← decOpt d; pure (.unregister d))
  | ["delreg"] => apply s (some .deleteRegistered)
  | ["delunreg"] => apply s (some .deleteUnregistered)
  | ["canon", x] =>
    match decStr x with
    | some x => (s, match canon x with | some y => encStr y | none => "E")
    | none => (s, "bad-op")
  | _ => (s, "bad-op")

def main : IO Unit := serveState (none : St) handle
