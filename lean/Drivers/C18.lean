import IV.Model.Proto
import IV.Model.Playbook
open IV IV.Proto IV.Playbook

/-
Wire format of a value (one protocol field): tokens separated by a single space
  s<hexstr>  string      i<decimal>  integer     T F N   True False None
  [ v* ]     sequence    { (k v)* }  mapping (k a scalar token)
Everything here is glue: the model functions called are ser / exclude / verifyPlay / verify / decode.
-/

/-- `h<hex digits>` / `h-<hex digits>`: an integer too long for a decimal token on the Python side -/
def hexInt (t : String) : Option Int :=
  let neg := t.startsWith "-"
  let ds := (if neg then (t.drop 1).toString else t).toList
  if ds.isEmpty then none else
  let r : Option Nat := ds.foldl (fun acc c => match acc with
    | none => none
    | some a =>
      if '0' ≤ c ∧ c ≤ '9' then some (a * 16 + (c.toNat - 48))
      else if 'a' ≤ c ∧ c ≤ 'f' then some (a * 16 + (c.toNat - 87))
      else none) (some 0)
  r.map (fun n => if neg then -(n : Int) else (n : Int))

def scalarTok (t : String) : Option Scalar :=
  if t = "T" then some (.bool true)
  else if t = "F" then some (.bool false)
  else if t = "N" then some .none
  else if t.startsWith "s" then (decStr (t.drop 1).toString).map .str
  else if t.startsWith "i" then (decInt (t.drop 1).toString).map .int
  else if t.startsWith "h" then (hexInt (t.drop 1).toString).map .int
  else none

mutual
partial def pVal : List String → Option (PVal × List String)
  | [] => none
  | t :: ts =>
    if t = "[" then pSeq ts []
    else if t = "{" then pMap ts []
    else (scalarTok t).map (fun s => (.sc s, ts))
partial def pSeq : List String → List PVal → Option (PVal × List String)
  | [], _ => none
  | t :: ts, acc =>
    if t = "]" then some (.seq acc.reverse, ts)
    else match pVal (t :: ts) with
      | some (v, r) => pSeq r (v :: acc)
      | none => none
partial def pMap : List String → List (Scalar × PVal) → Option (PVal × List String)
  | [], _ => none
  | t :: ts, acc =>
    if t = "}" then some (.map acc.reverse, ts)
    else match scalarTok t with
      | none => none
      | some k => match pVal ts with
        | some (v, r) => pMap r ((k, v) :: acc)
        | none => none
end

def showScalar : Scalar → String
  | .str s => "s" ++ encStr s
  | .int n => "i" ++ toString n
  | .bool true => "T"
  | .bool false => "F"
  | .none => "N"

mutual
partial def showVal : PVal → List String
  | .sc s => [showScalar s]
  | .seq xs => ["["] ++ (xs.map showVal).flatten ++ ["]"]
  | .map kvs => ["{"] ++ (kvs.map (fun kv => showScalar kv.1 :: showVal kv.2)).flatten ++ ["}"]
end

def parseVal (f : String) : Option PVal :=
  match pVal (f.splitOn " ") with
  | some (v, []) => some v
  | _ => none

def parsePlay (f : String) : Option Play :=
  match parseVal f with
  | some (.map kvs) => some kvs
  | _ => none

/-- table field: `a:b,a:b` of hex strings, `-` when empty -/
def parseTab (f : String) : Option (List (Str × Str)) :=
  (decList f).foldr (fun it acc =>
    match acc, it.splitOn ":" with
    | some l, [a, b] => (match decStr a, decStr b with
        | some a, some b => some ((a, b) :: l)
        | _, _ => none)
    | _, _ => none) (some [])

def errStr : Err → String
  | .verr => "verr"
  | .crash => "crash"

def isHexStr (s : Str) : Bool :=
  s.length % 2 = 0 && s.all (fun c => c.isDigit || ('a' ≤ c && c ≤ 'f') || ('A' ≤ c && c ≤ 'F'))

/-- driver instantiation of the parameters of `verify`: digests are represented by the signed
text itself (H = id); a signature value is valid for a text when the table says so; a revoked
entry's hex digest is mapped back to the text it is the digest of (or to a text no play has). -/
def drvSigValid (sigtab : List (Str × Str)) (d : Str) (sig : PVal) : Bool :=
  match sig with
  | .sc (.str s) => sigtab.any (fun p => p.1 = s && p.2 = d)
  | _ => false

/-- base64 decoding is the standard library's: the request lists the signature strings it rejects -/
def drvSigDecodes (bad : List String) (sig : PVal) : Bool :=
  match sig with
  | .sc (.str s) => !bad.contains (encStr s)
  | _ => false

def drvHashOf (hashtab : List (Str × Str)) (item : PVal) : Option Str :=
  match item with
  | .map kvs =>
    (match lookupStr sHash kvs with
     | some (.sc (.str h)) =>
       (match hashtab.find? (fun p => p.1 = h) with
        | some p => some p.2
        | none => if isHexStr h then some ('#' :: h) else none)
     | _ => none)
  | _ => none

def handle (fs : List String) : String :=
  match fs with
  | ["ser", v] =>
    match parseVal v with
    | some v => encStr (ser v)
    | none => "bad-op"
  | ["serg", v] =>
    -- the serializer with the int -> str digit limit: `refused` = ValueError
    match parseVal v with
    | some v => (match serG v with | some t => "ok\t" ++ encStr t | none => "refused")
    | none => "bad-op"
  | ["evg", bad, p] =>
    -- exclusion + serialisation ; verify_play, both with the digit limit
    match parsePlay p with
    | some p =>
      (match excludeSerG p with
       | .ok t => "ok\t" ++ encStr t
       | .error e => errStr e) ++ ";" ++
      (match verifyPlayG p with
       | .error e => errStr e
       | .ok (t, sig) => if drvSigDecodes (decList bad) sig then "ok\t" ++ encStr t else "crash")
    | none => "bad-op"
  | ["rt", v] =>
    -- executable form of `decode_ser`: decoding the serialisation gives back a value with the same text and no rest
    match parseVal v with
    | some v =>
      (match decode (ser v) with
       | some (v', []) => if ser v' = ser v then "1" else "0"
       | _ => "0")
    | none => "bad-op"
  | ["dec", s] =>
    -- decode an arbitrary text; answer the re-serialisation of what was read and the rest
    match decStr s with
    | some s =>
      (match decode s with
       | some (v, r) => "some\t" ++ encStr (ser v) ++ "\t" ++ encStr r
       | none => "none")
    | none => "bad-op"
  | ["decv", s] =>
    -- decode an arbitrary text into a value (used to search for a second value with the same text)
    match decStr s with
    | some s =>
      (match decode s with
       | some (v, r) => "some\t" ++ " ".intercalate (showVal v) ++ "\t" ++ encStr r
       | none => "none")
    | none => "bad-op"
  | ["excl", p] =>
    match parsePlay p with
    | some p =>
      (match exclude p with
       | .ok c => "ok\t" ++ encStr (serializePlay c)
       | .error e => errStr e)
    | none => "bad-op"
  | ["ev", bad, p] =>
    -- "excl" and "vplay" of one play in one request (the play is parsed once): answers joined by ';'
    match parsePlay p with
    | some p =>
      (match exclude p with
       | .ok c => "ok\t" ++ encStr (serializePlay c)
       | .error e => errStr e) ++ ";" ++
      (match verifyPlayFull (D := Str) id (drvSigDecodes (decList bad)) (fun _ _ => true) p with
       | .ok (_, t) => "ok\t" ++ encStr t
       | .error e => errStr e)
    | none => "bad-op"
  | ["vplay", bad, p] =>
    -- verify_play with a GPG that is never consulted for the answer: digest text it would be shown
    match parsePlay p with
    | some p =>
      (match verifyPlayFull (D := Str) id (drvSigDecodes (decList bad)) (fun _ _ => true) p with
       | .ok (_, t) => "ok\t" ++ encStr t
       | .error e => errStr e)
    | none => "bad-op"
  | ["verify", bad, sigtab, hashtab, rp, p] =>
    match parseTab sigtab, parseTab hashtab, parsePlay rp, parsePlay p with
    | some st, some ht, some rp, some p =>
      (match verify (D := Str) id (drvSigDecodes (decList bad)) (drvSigValid st) (drvHashOf ht) rp p with
       | .ok _ => "ok"
       | .error e => errStr e)
    | _, _, _, _ => "bad-op"
  | ["verifyk", present, count, bad, sigtab, hashtab, rp, p] =>
    -- verify() with the key import as a parameter: is PUBLIC_KEY_PATH truthy, import_results.count
    match parseTab sigtab, parseTab hashtab, parsePlay rp, parsePlay p, count.toInt? with
    | some st, some ht, some rp, some p, some c =>
      if present ≠ "0" ∧ present ≠ "1" then "bad-op" else
      (match verifyK (D := Str) id (drvSigDecodes (decList bad)) (drvSigValid st) (drvHashOf ht) ⟨present == "1", c⟩ rp p with
       | .ok _ => "ok"
       | .error e => errStr e)
    | _, _, _, _, _ => "bad-op"
  | ["verifyd", docmode, present, count, bad, sigtab, hashtab, rp, p] =>
    -- verify() from the revocation list's text on: docmode = good (rp is the play it loads as) / unloadable / notmapping
    match parseTab sigtab, parseTab hashtab, parsePlay rp, parsePlay p, count.toInt? with
    | some st, some ht, some rp, some p, some c =>
      if present ≠ "0" ∧ present ≠ "1" then "bad-op" else
      let rdoc : Option RDoc := if docmode = "good" then some (.play rp) else if docmode = "unloadable" then some .unloadable
        else if docmode = "notmapping" then some .notMapping else none
      (match rdoc with
       | none => "bad-op"
       | some rdoc =>
         match verifyDoc (D := Str) id (drvSigDecodes (decList bad)) (drvSigValid st) (drvHashOf ht) ⟨present == "1", c⟩ rdoc p with
         | .ok _ => "ok"
         | .error e => errStr e)
    | _, _, _, _, _ => "bad-op"
  | ["vplayk", present, count, bad, sigtab, p] =>
    -- verify_play with the key import as a parameter: (GPG's verdict, digest text) or the error
    match parseTab sigtab, parsePlay p, count.toInt? with
    | some st, some p, some c =>
      if present ≠ "0" ∧ present ≠ "1" then "bad-op" else
      (match verifyPlayFullK (D := Str) id (drvSigDecodes (decList bad)) (drvSigValid st) ⟨present == "1", c⟩ p with
       | .ok (v, t) => (if v then "valid\t" else "invalid\t") ++ encStr t
       | .error e => errStr e)
    | _, _, _ => "bad-op"
  | ["main", skip, load, entries] =>
    -- __main__: entries = answers of verify() for the top-level entries (ok / verr / crash / notmap), '-' = no entry
    let parseE : String → Option (Option (Except Err Unit)) := fun t =>
      if t = "ok" then some (some (.ok ())) else if t = "verr" then some (some (.error .verr))
      else if t = "crash" then some (some (.error .crash)) else if t = "notmap" then some none else none
    let es : Option (List (Option (Except Err Unit))) :=
      if entries = "-" then some [] else
      (entries.splitOn ",").foldr (fun t acc => match acc, parseE t with
        | some l, some e => some (e :: l)
        | _, _ => none) (some [])
    if (skip ≠ "0" ∧ skip ≠ "1") ∨ (load ≠ "loaded" ∧ load ≠ "loaderr") then "bad-op" else
    match es with
    | none => "bad-op"
    | some es =>
      let r := mainRun (skip == "1") (if load = "loaded" then some es else none)
      (match r.1 with | .ok => "exit0" | .bad => "exitbad" | .crash => "traceback") ++ "\t" ++ (if r.2 then "printed" else "silent")
  | _ => "bad-op"

def main : IO Unit := serve handle
