import IV.Model.Proto
import IV.Model.TextFormats
import IV.Model.TextFormatsExt
import IV.Gen.Matchers
import IV.Gen.IniChars
open IV IV.Proto IV.TextFormats

/-! line-protocol driver for C15 (glue, not model) -/

def sequenceOpt {α : Type} : List (Option α) → Option (List α)
  | [] => some []
  | none :: _ => none
  | some x :: xs => (sequenceOpt xs).map (x :: ·)

/-- "L" + items joined by ',' -/
def decStrList (f : String) : Option (List Str) :=
  match f.toList with
  | 'L' :: rest =>
    if rest.isEmpty then some [] else sequenceOpt ((String.ofList rest).splitOn "," |>.map decStr)
  | _ => none

/-- "N" | "S" + string -/
def decOptStr (f : String) : Option (Option Str) :=
  match f.toList with
  | ['N'] => some none
  | 'S' :: rest => (decStr (String.ofList rest)).map some
  | _ => none

def decPair (f : String) : Option (Str × Str) :=
  match f.splitOn ":" with
  | [a, b] => do let a ← decStr a; let b ← decStr b; pure (a, b)
  | _ => none

def decPairOpt (f : String) : Option (Str × Option Str) :=
  match f.splitOn ":" with
  | [a, b] => do let a ← decStr a; let b ← decOptStr b; pure (a, b)
  | _ => none

/-- "P" + pairs joined by ',' -/
def decPairs (f : String) : Option (List (Str × Str)) :=
  match f.toList with
  | 'P' :: rest =>
    if rest.isEmpty then some [] else sequenceOpt ((String.ofList rest).splitOn "," |>.map decPair)
  | _ => none

/-- "R" + rows joined by ';', a row = "r" + pairs joined by ',' -/
def decRows (f : String) : Option (List Row) :=
  match f.toList with
  | 'R' :: rest =>
    if rest.isEmpty then some [] else
    sequenceOpt ((String.ofList rest).splitOn ";" |>.map (fun r =>
      match r.toList with
      | 'r' :: ps => if ps.isEmpty then some [] else sequenceOpt ((String.ofList ps).splitOn "," |>.map decPairOpt)
      | _ => none))
  | _ => none

/-- "T" + sections joined by ';', a section = name "|" options joined by ',' -/
def decTree (f : String) : Option IniTree :=
  match f.toList with
  | 'T' :: rest =>
    if rest.isEmpty then some [] else
    sequenceOpt ((String.ofList rest).splitOn ";" |>.map (fun s =>
      match s.splitOn "|" with
      | [n, os] => do
        let n ← decStr n
        let os ← if os.isEmpty then some [] else sequenceOpt (os.splitOn "," |>.map decPairOpt)
        pure ⟨n, os.map (fun p => ⟨p.1, p.2⟩)⟩
      | _ => none))
  | _ => none

/-- "X" + triples joined by ',', a triple = section ":" option ":" (N | S value) -/
def decTriples (f : String) : Option (List (Str × Str × Option Str)) :=
  match f.toList with
  | 'X' :: rest =>
    if rest.isEmpty then some [] else
    sequenceOpt ((String.ofList rest).splitOn "," |>.map (fun t =>
      match t.splitOn ":" with
      | [a, b, c] => do let a ← decStr a; let b ← decStr b; let c ← decOptStr c; pure (a, b, c)
      | _ => none))
  | _ => none

def decMax (f : String) : Option (Option Nat) :=
  match decInt f with
  | some i => if i < 0 then some none else some (some i.toNat)
  | none => none

def errName : Err → String
  | .valueError => "ValueError" | .indexError => "IndexError" | .parseException => "ParseException"
  | .noSection => "NoSectionError" | .noOption => "NoOptionError" | .keyError => "KeyError"

def showOpt : Option Str → String
  | none => "N" | some s => "S" ++ encStr s

def showList (xs : List Str) : String := "L" ++ ",".intercalate (xs.map encStr)
def showDict (d : Dict) : String := "r" ++ ",".intercalate (d.map (fun p => encStr p.1 ++ ":" ++ encStr p.2))
def showRow (d : Row) : String := "r" ++ ",".intercalate (d.map (fun p => encStr p.1 ++ ":" ++ showOpt p.2))
def showDicts : Except Err (List Dict) → String
  | .ok ds => "ok " ++ ";".intercalate (ds.map showDict)
  | .error e => "err " ++ errName e
def showOptNat : Option Nat → String
  | none => "err ValueError" | some n => "ok " ++ toString n
def showTree (t : IniTree) : String :=
  "T" ++ ";".intercalate (t.map (fun s => encStr s.name ++ "|" ++
    ",".intercalate (s.opts.map (fun o => encStr o.name ++ ":" ++ showOpt o.value))))
def showIniDict (d : IniDict) : String :=
  "D" ++ ";".intercalate (d.map (fun s => encStr s.1 ++ "|" ++
    ",".intercalate (s.2.map (fun o => encStr o.1 ++ ":" ++ showOpt o.2))))
def showExc {α : Type} (f : α → String) : Except Err α → String
  | .ok v => "v:" ++ f v | .error e => "E:" ++ errName e

def iniAnswer (d : IniDict) (qs : List (Str × Str)) : String :=
  showIniDict d ++ "#" ++ showList (iniSections d) ++ "#" ++
    "r" ++ ",".intercalate ((iniDefaults d).map (fun o => encStr o.1 ++ ":" ++ showOpt o.2)) ++ "#" ++
    ";".intercalate (qs.map (fun q =>
      "get=" ++ showExc showOpt (iniGet d q.1 q.2) ++
      ",has=" ++ (if iniHasOption d q.1 q.2 then "1" else "0") ++
      ",bool=" ++ showExc (fun b => if b then "1" else "0") (iniGetBoolean d q.1 q.2) ++
      ",in=" ++ (if iniHasSection d q.1 then "1" else "0") ++
      ",items=" ++ showExc (fun h => "r" ++ "/".intercalate (h.map (fun o => encStr o.1 ++ ":" ++ showOpt o.2))) (iniItems d q.1)))

def handle (fs : List String) : String :=
  match fs with
  | ["spacetab"] =>
    -- every code point the model treats as white space
    " ".intercalate ((List.range 0x110000).filterMap (fun n =>
      if (0xd800 ≤ n && n ≤ 0xdfff) then none
      else if isSpace (Char.ofNat n) then some (toString n) else none))
  | ["strip", s] => match decStr s with
    | some s => encStr (strip s) | none => "bad-op"
  | ["lower", s] => match decStr s with
    | some s => encStr (lower s) | none => "bad-op"
  | ["split", d, m, s] => match decOptStr d, decMax m, decStr s with
    | some d, some m, some s => (match pySplit d m s with
      | some ps => "ok " ++ showList ps | none => "err ValueError")
    | _, _, _ => "bad-op"
  | ["index", n, h, st] => match decStr n, decStr h, decNat st with
    | some n, some h, some st => showOptNat (findFrom n h st)
    | _, _, _ => "bad-op"
  | ["replace", o, n, s] => match decStr o, decStr n, decStr s with
    | some o, some n, some s => encStr (replaceAll o n s)
    | _, _, _ => "bad-op"
  | ["in", a, s] => match decStr a, decStr s with
    | some a, some s => if contains a s then "1" else "0"
    | _, _ => "bad-op"
  | ["active", cc, ls] => match decStr cc, decStrList ls with
    | some cc, some ls => (match getActiveLines ls cc with
      | .ok r => "ok " ++ showList r | .error e => "err " ++ errName e)
    | _, _ => "bad-op"
  | ["kv", cc, fl, so, up, ls] => match decOptStr cc, decOptStr fl, decStr so, decBool up, decStrList ls with
    | some cc, some fl, some so, some up, some ls => (match splitKvPairs ls cc fl so up with
      | .ok d => "ok " ++ showDict d | .error e => "err " ++ errName e)
    | _, _, _, _, _ => "bad-op"
  | ["offset", inv, req, tg, ls] => match decBool inv, decBool req, decStrList tg, decStrList ls with
    | some inv, some req, some tg, some ls => showOptNat (calcOffset ls tg inv req)
    | _, _, _, _ => "bad-op"
  | ["fixed", hi, sub, ti, ee, ls] => match decStrList hi, decPairs sub, decStrList ti, decBool ee, decStrList ls with
    | some hi, some sub, some ti, some ee, some ls => showDicts (parseFixedTable ls hi sub ti ee)
    | _, _, _, _, _ => "bad-op"
  | ["oldidx", line, hs] => match decStr line, decStrList hs with
    | some line, some hs => (match calcColumnIndicesOld line hs 0, calcColumnIndices line hs 0 with
      | some a, some b => "ok " ++ toString a ++ " " ++ toString b
      | _, _ => "err ValueError")
    | _, _ => "bad-op"
  | ["delim", d, m, st, hsame, hd, hi, sub, ti, rk, ls] =>
    match decOptStr d, decMax m, decBool st, decBool hsame, decOptStr hd, decStrList hi, decPairs sub,
          decStrList ti, decOptStr rk, decStrList ls with
    | some d, some m, some st, some hsame, some hd, some hi, some sub, some ti, some rk, some ls =>
      showDicts (parseDelimitedTable ls d m st (if hsame then .same else .other hd) hi sub ti rk)
    | _, _, _, _, _, _, _, _, _, _ => "bad-op"
  | ["ks", rkc, rows, kw] => match decBool rkc, decRows rows, decPairs kw with
    | some rkc, some rows, some kw =>
      "ok " ++ ";".intercalate ((keywordSearch IV.Gen.Matchers.table rows rkc kw).map showRow)
    | _, _, _ => "bad-op"
  | "ksseq" :: rkc :: rows :: kws => match decBool rkc, decRows rows, sequenceOpt (kws.map decPairs) with
    | some rkc, some rows, some kws =>
      " | ".intercalate ((keywordSearchSeq IV.Gen.Matchers.table (keySet rows rkc) rows none kws).map
        (fun r => "ok " ++ ";".intercalate (r.map showRow)))
    | _, _, _ => "bad-op"
  | "kshist" :: calls =>
    -- successive calls on plain lists (parent=None): nothing is carried from one call to the next
    let rec go : List String → Option (List String)
      | [] => some []
      | rkc :: rows :: kw :: rest => match decBool rkc, decRows rows, decPairs kw, go rest with
        | some rkc, some rows, some kw, some tl =>
          some (("ok " ++ ";".intercalate ((keywordSearch IV.Gen.Matchers.table rows rkc kw).map showRow)) :: tl)
        | _, _, _, _ => none
      | _ => none
    match go calls with
    | some rs => " | ".intercalate rs
    | none => "bad-op"
  | ["unsplit", cont, keep, ls] => match decStr cont, decBool keep, decStrList ls with
    | some cont, some keep, some ls => "ok " ++ showList (unsplitLines ls cont keep)
    | _, _, _ => "bad-op"
  | ["optlist", os, kv, sq, s] => match decStr os, decOptStr kv, decBool sq, decStr s with
    | some os, some kv, some sq, some s => (match optlistToDict s os kv sq with
      | .ok d => "ok r" ++ ",".intercalate (d.map (fun p => encStr p.1 ++ ":" ++ showOpt p.2))
      | .error e => "err " ++ errName e)
    | _, _, _, _ => "bad-op"
  | ["iniset", anv, ls, sets, qs] => match decBool anv, decStrList ls, decTriples sets, decPairs qs with
    | some anv, some ls, some sets, some qs => if skipsEmpty ls then "skip" else (match parseIni IV.Gen.IniChars.alphabet ls with
      | none => "parse-error"
      | some t =>
        let r := sets.foldl (fun (acc : IniDict × List String) s =>
          match iniSet acc.1 s.1 s.2.1 s.2.2 with
          | .ok d' => (d', acc.2 ++ ["ok"])
          | .error e => (acc.1, acc.2 ++ [errName e])) (iniView anv t, [])
        ",".intercalate r.2 ++ "#" ++ iniAnswer r.1 qs)
    | _, _, _, _ => "bad-op"
  | ["sort", ks] => match decStrList ks with
    | some ks => showList (sortKeys ks)
    | none => "bad-op"
  | ["kwof", s] => match decStr s with
    | some s => encStr (kwOf s) ++ " " ++ encStr (txKey s)
    | none => "bad-op"
  | ["matchers"] => ",".intercalate (IV.Gen.Matchers.table.map (fun p => String.ofList p.1))
  | ["initree", anv, tree, qs] => match decBool anv, decTree tree, decPairs qs with
    | some anv, some t, some qs => iniAnswer (iniView anv t) qs
    | _, _, _ => "bad-op"
  | ["initext", anv, ls, qs] => match decBool anv, decStrList ls, decPairs qs with
    | some anv, some ls, some qs => if skipsEmpty ls then "skip" else (match parseIni IV.Gen.IniChars.alphabet ls with
      | none => "parse-error"
      | some t => showTree (applyDefaults t) ++ "#" ++ iniAnswer (iniView anv t) qs)
    | _, _, _ => "bad-op"
  | _ => "bad-op"

def main : IO Unit := serve handle
