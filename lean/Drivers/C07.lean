import IV.Model.Proto
import IV.Model.Filters
open IV IV.Proto IV.Filters

/-! line-protocol driver for C07 (glue, not model) -/

structure DState where
  w : World
  st : State

def listOpt {α : Type} : List (Option α) → Option (List α)
  | [] => some []
  | none :: _ => none
  | some a :: r => (listOpt r).map (a :: ·)

def decNats (f : String) : Option (List Nat) := listOpt ((decList f).map decNat)

def decFlag (c : Char) : Option Bool := if c = '1' then some true else if c = '0' then some false else none

def decNode (f : String) : Option Node :=
  match f.splitOn "/" with
  | [flags, deps, dpts] =>
    match flags.toList.map decFlag, decNats deps, decNats dpts with
    | [some a, some b, some c, some d, some e, some g], some ds, some dp => some ⟨a, b, c, d, e, g, ds, dp⟩
    | _, _, _ => none
  | _ => none

/-- `hexkey=budget;…` or `-` -/
def decAllow (f : String) : Option Allow :=
  if f = "-" then some [] else
  listOpt ((f.splitOn ";").map fun item =>
    match item.splitOn "=" with
    | [k, b] => match decStr k, decInt b with
      | some k, some b => some (k, b)
      | _, _ => none
    | _ => none)

def showAllow (a : Allow) : String :=
  if a.isEmpty then "-" else ";".intercalate (a.map fun kv => s!"{encStr kv.1}={kv.2}")

def showLines (ls : List Str) : String := s!"{ls.length}:" ++ ",".intercalate (ls.map encStr)

def showErr : AddErr → String
  | .badMax => "badMax" | .notApplicable => "notApplicable" | .raw => "raw"
  | .typeErr => "typeErr" | .emptyPattern => "emptyPattern"

def decMax (f : String) : Option (Option Int) := if f = "N" then some none else (decInt f).map some

def withLines (rest : List String) (k : List Str → String) : String :=
  match listOpt (rest.map decStr) with
  | some ls => k ls
  | none => "bad-op"

def handleContent (s : DState) (fs : List String) : DState × String :=
  match fs with
  | "fc" :: allow :: rest =>
    match decAllow allow with
    | some a => (s, withLines rest fun ls => showLines (filterContent ls a))
    | none => (s, "bad-op")
  | "cl" :: allow :: rest =>
    match decAllow allow with
    | some a => (s, withLines rest fun ls => showLines (cleanAllow ls a))
    | none => (s, "bad-op")
  | "gr" :: allow :: rest =>
    match decAllow allow with
    | some a => (s, withLines rest fun ls => showLines (grepF (keys a) ls))
    | none => (s, "bad-op")
  | "ap" :: allow :: rest =>
    match decAllow allow with
    | some a => (s, withLines rest fun ls => showLines (applyFilters (keys a) ls))
    | none => (s, "bad-op")
  | "lf" :: mx :: host :: allow :: rest =>
    match decNat mx, decBool host, decAllow allow with
    | some m, some h, some a => (s, withLines rest fun ls =>
        (if h && !a.isEmpty then "grep" else if isHuge m ls then "tail" else "whole") ++ "\t" ++
        showLines (loadFile grepF m h a ls))
    | _, _, _ => (s, "bad-op")
  | "sf" :: mx :: host :: loaded :: allow :: rest =>
    match decNat mx, decBool host, decBool loaded, decAllow allow with
    | some m, some h, some ld, some a => (s, withLines rest fun ls => showLines (streamFile grepF m h ld a ls))
    | _, _, _, _ => (s, "bad-op")
  | "hy" :: mx :: allow :: shape :: rest =>
    -- files are separated by the field "|"
    let groups := (rest.foldr (fun f (acc : List (List String)) =>
      if f = "|" then [] :: acc else match acc with
        | [] => [[f]]
        | g :: gs => (f :: g) :: gs) [[]])
    match decNat mx, decAllow allow, listOpt (groups.map fun g => listOpt (g.map decStr)) with
    | some m, some a, some files =>
      let r : Option Results :=
        if shape = "M" then some (.multi files)
        else if shape = "S" then (match files with | [f] => some (.single f) | _ => none)
        else if shape = "N" then some .none else none
      match r with
      | some r => (s, " / ".intercalate ((hydrateResults m a r).map showLines))
      | none => (s, "bad-op")
    | _, _, _ => (s, "bad-op")
  | "pc" :: host :: filt :: allow :: rest =>
    match decBool host, decBool filt, decAllow allow with
    | some h, some f, some a => (s, withLines rest fun ls => showLines (providerContent grepF h f a ls))
    | _, _, _ => (s, "bad-op")
  | _ => (s, "bad-op")

def handle (s : DState) (fs : List String) : DState × String :=
  match fs with
  | "world" :: en :: ranks :: nodes =>
    match decBool en, decNats ranks, listOpt (nodes.map decNode) with
    | some en, some rk, some ns =>
      let w : World := ⟨ns, en⟩
      (⟨w, State.init⟩, s!"ok ranked={if rankedBy w (fun c => rk.getD c 0) then 1 else 0}")
    | _, _, _ => (s, "bad-op")
  | "add" :: comp :: mx :: flag :: pats =>
    match decNat comp, decMax mx, listOpt (pats.map decStr) with
    | some c, some m, some ps =>
      if flag = "L" ∨ (flag = "T" ∧ ps.isEmpty) then
        let p : Option (List Str) := if flag = "L" then some ps else none
        let (st', r) := addFilter s.w s.st c p m
        (⟨s.w, st'⟩, match r with | .ok _ => "ok" | .error e => "err:" ++ showErr e)
      else (s, "bad-op")
    | _, _, _ => (s, "bad-op")
  | ["isa", table, t, b] =>
    match listOpt ((decList table).map fun x => if x = "n" then some (none : Option Nat) else (decNat x).map some),
          decNat t, decNat b with
    | some tt, some t, some b =>
      if declaredInOrder tt && decide (t < tt.length) then (s, if typeIs tt t b then "1" else "0") else (s, "bad-table")
    | _, _, _ => (s, "bad-op")
  | ["reorder", comp, dpts] =>
    -- the iteration order of dr.get_dependents(comp) changed (a set that grew: `find` registers a new dependent);
    -- same world, same state, other order of the same dependents
    match decNat comp, decNats dpts with
    | some c, some dp =>
      let n := s.w.node c
      if c < s.w.nodes.length && dp.all (fun d => n.dependents.contains d) && n.dependents.all (fun d => dp.contains d) then
        (⟨⟨s.w.nodes.set c { n with dependents := dp }, s.w.enabled⟩, s.st⟩, "ok")
      else (s, "bad-reorder")
    | _, _ => (s, "bad-op")
  | "find" :: comp :: flag :: pats =>
    match decNat comp, listOpt (pats.map decStr) with
    | some c, some ps =>
      if flag = "L" ∨ (flag = "T" ∧ ps.isEmpty) then
        let p : Option (List Str) := if flag = "L" then some ps else none
        let (st', r) := findSpec s.w s.st c p
        (⟨s.w, st'⟩, match r with | .ok _ => "ok" | .error .raw => "err:findRaw" | .error (.add e) => "err:" ++ showErr e)
      else (s, "bad-op")
    | _, _ => (s, "bad-op")
  | "loads" :: entries =>
    let rec pairs : List String → Option (List (Comp × Allow))
      | [] => some []
      | [_] => none
      | c :: a :: rest =>
        match decNat c, decAllow a, pairs rest with
        | some c, some a, some r => some ((c, a) :: r)
        | _, _, _ => none
    match pairs entries with
    | some es => (⟨s.w, loadsReg s.st es⟩, "ok")
    | none => (s, "bad-op")
  | ["get", comp] =>
    match decNat comp with
    | some c =>
      let (st', v, hit) := getFilters s.w s.st c
      (⟨s.w, st'⟩, (if hit then "hit\t" else "miss\t") ++ showAllow v)
    | none => (s, "bad-op")
  | ["reg", comp] =>
    match decNat comp with
    | some c => (s, showAllow (regOf s.st.reg c))
    | none => (s, "bad-op")
  | ["build", host, comp] =>
    match decBool host, decNat comp with
    | some h, some c =>
      let (st', b) := construct s.w s.st h c
      (⟨s.w, st'⟩, match b with
        | .noFilter => "nofilter"
        | .ok f a => s!"ok\t{if f then 1 else 0}\t{showAllow a}")
    | _, _ => (s, "bad-op")
  | "load" :: comp :: rest =>
    match decNat comp with
    | some c =>
      match listOpt (rest.map decStr) with
      | some ls => let (st', out) := loadArchive s.w s.st c ls; (⟨s.w, st'⟩, showLines out)
      | none => (s, "bad-op")
    | none => (s, "bad-op")
  | op :: comp :: rest =>
    if op = "clean" ∨ op = "apply" ∨ op = "fcd" then
      match decNat comp, listOpt (rest.map decStr) with
      | some c, some ls =>
        let (st', fs, _) := getFilters s.w s.st c
        (⟨s.w, st'⟩, showLines (if op = "clean" then cleanAllow ls fs
                                else if op = "apply" then applyFilters (keys fs) ls
                                else filterContent ls fs))
      | _, _ => (s, "bad-op")
    else handleContent s (op :: comp :: rest)
  | _ => (s, "bad-op")

def main : IO Unit := serveState (⟨⟨[], true⟩, State.init⟩ : DState) handle
