import IV.Model.Proto
import IV.Model.Rules
import IV.Model.RulesText
import IV.Gen.Responses
open IV IV.Proto IV.Rules

/-! line-protocol driver for C12 (see harness/c12.py for the grammar of the lines); answers are JSON
whose strings are the hex encoding of the protocol, so nothing needs escaping -/

structure DS where
  custom : List RClass := []
  limit : Nat := 0
  storeSkips : Bool := false
  names : List (Comp × Str) := []
  seeds : List Comp := []
  rules : List Rule := []
  st : Option St := none
  h : Option HSt := none
  centries : List ConfEntry := []

def optStr (f : String) : Option (Option Str) :=
  if f = "~" then some none else (decStr f).map some

def decVal (f : String) : Option PyVal :=
  match f.toList with
  | ['N'] => some .none
  | ['T'] => some (.bool true)
  | ['F'] => some (.bool false)
  | 'I' :: rest => (String.ofList rest).toInt?.map .int
  | 'S' :: rest => (decStr (String.ofList rest)).map .str
  | 'L' :: rest =>
    if rest.isEmpty then some (.strs []) else
    ((String.ofList rest).splitOn ";").foldr (fun p acc => match acc, decStr p with
      | some xs, some s => some (s :: xs)
      | _, _ => none) (some []) |>.map .strs
  | _ => none

def decDict (f : String) : Option Dict :=
  if f = "-" then some [] else
  (f.splitOn ",").foldr (fun item acc =>
    match acc, item.splitOn ":" with
    | some d, [k, v] => match decStr k, decVal v with
      | some k, some v => some ((k, v) :: d)
      | _, _ => none
    | _, _ => none) (some [])

def decNats (f : String) : Option (List Nat) :=
  if f = "-" then some [] else
  (f.splitOn ",").foldr (fun p acc => match acc, p.toNat? with
    | some xs, some n => some (n :: xs)
    | _, _ => none) (some [])

def decGroups (f : String) : Option (List (List Nat)) :=
  if f = "-" then some [] else
  (f.splitOn ";").foldr (fun p acc => match acc, decNats p with
    | some xs, some g => some (g :: xs)
    | _, _ => none) (some [])

def decStrs (sep : String) (f : String) : Option (List Str) :=
  if f = "-" then some [] else
  (f.splitOn sep).foldr (fun p acc => match acc, decStr p with
    | some xs, some s => some (s :: xs)
    | _, _ => none) (some [])

def decLinks (f : String) : Option (Option (List (Str × List Str))) :=
  if f = "~" then some none
  else if f = "-" then some (some [])
  else
    ((f.splitOn ",").foldr (fun item acc =>
      match acc, item.splitOn "=" with
      | some d, [k, us] => match decStr k, decStrs ";" us with
        | some k, some us => some ((k, us) :: d)
        | _, _ => none
      | _, _ => none) (some [])).map some

def findClass (s : DS) (n : Str) : Option RClass :=
  (IV.Gen.Responses.classes ++ s.custom).find? (fun c => c.cname = n)

def decExc (f : String) : Option Exc :=
  if f = "skip" then some .skip
  else if f = "content" then some .content
  else if f = "calledProc" then some .calledProc
  else if f.startsWith "other" then (f.drop 5).toString.toNat?.map .other
  else none

def decAct (s : DS) : List String → Option Action
  | ["ret", cn, key, kw] => do
      let cn ← decStr cn
      let c ← findClass s cn
      let key ← decVal key
      let kw ← decDict kw
      pure (.ret c key kw)
  | ["none"] => some .retNone
  | ["other", b] => (decBool b).map .retOther
  | ["raise", e] => (decExc e).map .raise
  | _ => none

/-! JSON output -/

def jstr (s : Str) : String := "\"" ++ encStr s ++ "\""
def jlist (xs : List String) : String := "[" ++ ",".intercalate xs ++ "]"
def jobj (kvs : List (String × String)) : String :=
  "{" ++ ",".intercalate (kvs.map (fun kv => "\"" ++ kv.1 ++ "\":" ++ kv.2)) ++ "}"

def jval : PyVal → String
  | .none => "null"
  | .bool true => "true"
  | .bool false => "false"
  | .int i => toString i
  | .str s => jstr s
  | .strs xs => jlist (xs.map jstr)

def jdict (d : Dict) : String := jobj (d.map (fun kv => (encStr kv.1, jval kv.2)))

def verr : VErr → String
  | .typeUnset => "typeUnset" | .reserved => "reserved" | .keyMissing => "keyMissing" | .keyType => "keyType"

def jexc : Exc → String
  | .skip => "\"skip\"" | .content => "\"content\"" | .calledProc => "\"calledProc\""
  | .other n => "\"other" ++ toString n ++ "\"" | .badReturn => "\"badReturn\""
  | .validation e => "\"validation:" ++ verr e ++ "\""

def jentry (e : Entry) : String :=
  jobj [("src", toString e.src), ("idn", jstr e.idName), ("idv", jstr e.idVal), ("component", jstr e.component),
        ("type", jstr e.type), ("key", match e.key with | some v => jval v | none => "null"),
        ("details", jdict e.details.fields), ("tags", jlist (e.tags.map jstr)),
        ("links", jobj (e.links.map (fun kv => (encStr kv.1, jlist (kv.2.map jstr)))))]

def finalTag : Final → String
  | .entry t _ => "entry:" ++ encStr t
  | .skipEntry _ => "skip"
  | .metadata _ => "metadata"
  | .metadataKey _ _ _ => "metadata_key"
  | .unlisted _ => "unlisted"
  | .exception _ => "exception"
  | .nothing => "nothing"

def jstate (s : DS) (env : Env) (st : St) : String :=
  jobj [("results", jobj (st.results.map (fun kv => (encStr kv.1, jlist (kv.2.map jentry))))),
        ("skips", jlist (st.skips.map (fun p => jobj [("src", toString p.1), ("fields", jdict p.2.fields)]))),
        ("metadata", jdict st.metadata),
        ("mdkeys", jdict st.mdKeys),
        ("excs", jlist (st.excs.map (fun p => jlist [toString p.1, jexc p.2]))),
        ("stored", jlist ((st.inst.filter (fun p => p.2.isSome)).map (fun p => toString p.1))),
        ("finals", jlist ((finals env s.seeds s.rules).map (fun p => jlist [toString p.1.id, "\"" ++ finalTag p.2 ++ "\""])))]

def jstateH (st : St) : String :=
  jobj [("results", jobj (st.results.map (fun kv => (encStr kv.1, jlist (kv.2.map jentry))))),
        ("skips", jlist (st.skips.map (fun p => jobj [("src", toString p.1), ("fields", jdict p.2.fields)]))),
        ("metadata", jdict st.metadata),
        ("mdkeys", jdict st.mdKeys),
        ("excs", jlist (st.excs.map (fun p => jlist [toString p.1, jexc p.2]))),
        ("stored", jlist ((st.inst.filter (fun p => p.2.isSome)).map (fun p => toString p.1)))]

def decFired (s : DS) (f : String) : Option (List Fired) :=
  if f = "-" then some [] else
  (f.splitOn ",").foldr (fun item acc =>
    match acc, item.splitOn ":" with
    | some xs, [i, g] => match i.toNat?, decBool g with
      | some i, some g => (s.rules.find? (fun r => r.id = i)).map (fun r => (r, g) :: xs)
      | _, _ => none
    | _, _ => none) (some [])

def decProv (f : String) : Option Provider :=
  match f.toList with
  | ['a'] => some .absent
  | ['x'] => some .raises
  | 'c' :: rest =>
    if rest.isEmpty then some (.content []) else
    ((String.ofList rest).splitOn ";").foldr (fun p acc => match acc, decStr p with
      | some xs, some l => some (l :: xs)
      | _, _ => none) (some []) |>.map .content
  | _ => none

def decBranch (f : String) : Option BranchProv :=
  if f = "a" then some .absent else if f = "x" then some .raises
  else if f = "d1" then some (.data true) else if f = "d0" then some (.data false) else none

def jtop : Top → String
  | .val v => jobj [("val", jval v)]
  | .system md => jobj [("system", match md with | some d => jdict d | none => "null")]
  | .entries es => jobj [("entries", jlist (es.map jentry))]
  | .skips rs => jobj [("skips", jlist (rs.map (fun r => jdict r.fields)))]
  | .analysis => jobj [("analysis", "null")]

def mkEnv (s : DS) : Env :=
  { cfg := IV.Gen.Responses.cfg, limit := s.limit, storeSkips := s.storeSkips,
    nameOf := fun c => ((s.names.find? (fun p => p.1 = c)).map (·.2)).getD ("?".toList) }

def handleLine (s : DS) (fs : List String) : DS × String :=
  match fs with
  | ["cls", cn, rt, kn, ex] =>
    match decStr cn, optStr rt, optStr kn, decBool ex with
    | some cn, some rt, some kn, some ex =>
      if (findClass s cn).isSome then (s, "bad-op") else ({ s with custom := s.custom ++ [⟨cn, rt, kn, ex⟩] }, "ok")
    | _, _, _, _ => (s, "bad-op")
  | ["mk", lim, cn, key, kw] =>
    match decNat lim, (decStr cn).bind (findClass s), decVal key, decDict kw with
    | some lim, some c, some key, some kw =>
      match mkResp lim c key kw with
      | .ok r => (s, jobj [("ok", jdict r.fields)])
      | .error e => (s, jobj [("err", "\"" ++ verr e ++ "\"")])
    | _, _, _, _ => (s, "bad-op")
  | ["new", lim, ss] =>
    match decNat lim, decBool ss with
    | some lim, some ss =>
      ({ s with limit := lim, storeSkips := ss, names := [], seeds := [], rules := [], st := none, centries := [] }, "ok")
    | _, _ => (s, "bad-op")
  | ["comp", id, name, seeded] =>
    match decNat id, decStr name, decBool seeded with
    | some id, some name, some seeded =>
      ({ s with names := s.names ++ [(id, name)], seeds := if seeded then s.seeds ++ [id] else s.seeds }, "ok")
    | _, _, _ => (s, "bad-op")
  | "rule" :: id :: name :: mod :: tags :: links :: req :: alo :: ign :: en :: act =>
    match decNat id, decStr name, optStr mod, decStrs "," tags, decLinks links, decNats req, decGroups alo,
          decNats ign, decBool en, decAct s act with
    | some id, some name, some mod, some tags, some links, some req, some alo, some ign, some en, some act =>
      ({ s with rules := s.rules ++ [⟨id, name, mod, tags, links, req, alo, ign, en, act⟩],
                names := s.names ++ [(id, name)] }, "ok")
    | _, _, _, _, _, _, _, _, _, _ => (s, "bad-op")
  | ["run", order] =>
    match decNats order with
    | some order =>
      -- the rules in the order the engine ran them (every declared rule exactly once)
      let rs := order.filterMap (fun i => s.rules.find? (fun r => r.id = i))
      if rs.length ≠ s.rules.length ∨ order.length ≠ s.rules.length then (s, "bad-op") else
      let s := { s with rules := rs }
      let env := mkEnv s
      let st := run env s.seeds rs
      ({ s with st := some st }, jstate s env st)
    | none => (s, "bad-op")
  | ["resp", missing, showf] =>
    match s.st, decBool missing, decStrs "," showf with
    | some st, some missing, some showL =>
      let r := ofTypes (getResponse st) missing showL
      (s, jlist (r.map (fun kv => jlist [jstr kv.1, jtop kv.2])))
    | _, _, _ => (s, "bad-op")
  | ["text", missing, showf, plain] =>
    -- HumanReadableFormat.show_description on the broker of the last `run`, restricted to the rules of the plain
    -- type (`broker.get_by_type(rule)` compares the component type with `is`): summary counts and printed rules
    match s.st, decBool missing, decStrs "," showf, decNats plain with
    | some st, some missing, some showL, some plain =>
      let inst := st.inst.filter (fun p => plain.contains p.1)
      (s, jobj [("counts", jlist ((textLabels.filter (· ≠ sException)).map (fun t => jlist [jstr t, toString (textCount t inst)]))),
                ("printed", match textPrinted missing showL inst with
                   | some rows => jlist (rows.map (fun p => jlist [toString p.1, jstr p.2]))
                   | none => "null")])
    | _, _, _, _ => (s, "bad-op")
  | ["adapter", missing, failOnly, showArg] =>
    match decBool missing, decBool failOnly, decStrs "," showArg with
    | some m, some f, some a => (s, jlist ((adapterShow m f a).map jstr))
    | _, _, _ => (s, "bad-op")
  | ["hnew"] => ({ s with h := some ⟨St.init s.seeds, []⟩ }, "ok")
  | ["hreg", o] =>
    match s.h, decNat o with
    | some h, some o => ({ s with h := some (applyOp (mkEnv s) h (.register o)) }, "ok")
    | _, _ => (s, "bad-op")
  | ["hrun", fired] =>
    match s.h, decFired s fired with
    | some h, some fired => ({ s with h := some (applyOp (mkEnv s) h (.run fired)) }, "ok")
    | _, _ => (s, "bad-op")
  | ["hstate"] =>
    match s.h with
    | some h => (s, jstateH h.st)
    | none => (s, "bad-op")
  | ["irun", m, rl, b, order] =>
    match decProv m, decProv rl, decBranch b, decNats order with
    | some m, some rl, some b, some order =>
      let rs := order.filterMap (fun i => s.rules.find? (fun r => r.id = i))
      if rs.length ≠ s.rules.length ∨ order.length ≠ s.rules.length then (s, "bad-op") else
      let s := { s with rules := rs }
      let env := mkEnv s
      let is := runI env ⟨m, rl, b⟩ s.seeds rs
      let st := { is.st with metadata := is.metadata }
      ({ s with st := some st },
       jobj [("state", jstateH st),
             ("deco", jobj [("system_id", match is.systemId with | some v => jstr v | none => "null"),
                            ("release", match is.release with | some v => jstr v | none => "null"),
                            ("branch", if is.branchLoaded then "true" else "false")])])
    | _, _, _, _ => (s, "bad-op")
  | ["centry", name, exact, en, tags, links] =>
    let en? : Option (Option Bool) := if en = "~" then some none else (decBool en).map some
    let tags? : Option (Option (List Str)) := if tags = "~" then some none else (decStrs "," tags).map some
    let links? : Option (Option (List (Str × List Str))) :=
      if links = "~~" then some none else match decLinks links with
        | some (some l) => some (some l)
        | _ => none
    match decStr name, decBool exact, en?, tags?, links? with
    | some name, some exact, some en, some tags, some links =>
      ({ s with centries := s.centries ++ [⟨name, exact, en, tags, links⟩] }, "ok")
    | _, _, _, _, _ => (s, "bad-op")
  | ["capply", dflt] =>
    match decBool dflt with
    | some dflt =>
      ({ s with rules := s.rules.map (applyConfig ⟨dflt, s.centries⟩), centries := [] }, "ok")
    | none => (s, "bad-op")
  | ["reprlen", d] =>
    match decDict d with
    | some d => (s, toString (reprDict d).length)
    | none => (s, "bad-op")
  | _ => (s, "bad-op")

def main : IO Unit := serveState ({} : DS) handleLine
