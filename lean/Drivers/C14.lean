import IV.Model.Proto
import IV.Model.BaseParsers
import IV.Model.BaseParsersExt
import IV.Gen.BadLines
open IV IV.Proto IV.BaseParsers

/-! line protocol for C14 (glue, not model).  Lists are count-prefixed: `n` then `n` string fields. -/

abbrev P := StateT (List String) Option

def nextF : P String := fun s => match s with | [] => none | f :: r => some (f, r)
def pStr : P Str := do let f ← nextF; (decStr f : Option Str)
def pNat : P Nat := do let f ← nextF; (decNat f : Option Nat)
def pBool : P Bool := do let f ← nextF; (decBool f : Option Bool)

def pRep {α : Type} (p : P α) : Nat → P (List α)
  | 0 => pure []
  | n + 1 => do let x ← p; let xs ← pRep p n; pure (x :: xs)

def pList {α : Type} (p : P α) : P (List α) := do let n ← pNat; pRep p n

def pEnd : P Unit := fun s => match s with | [] => some ((), []) | _ => none

def pKind : P (Option JKind) := do
  let f ← nextF
  match f with
  | "F" => pure none
  | "N" => pure (some .null)
  | "S" => pure (some .scalar)
  | "Q" => pure (some .seq)
  | "M" => pure (some .map)
  | _ => failure

/-- the library as a finite table text ↦ outcome; a text the harness did not anticipate loads to a
marker value, so that a model that asks for another text is seen as a mismatch -/
def pLoads : P (Str → Except Unit JVal) := do
  let tbl ← pList (do let t ← pStr; let k ← pKind; let r ← pStr; pure (t, k, r))
  pure (fun t => match tbl.find? (fun e => e.1 = t) with
    | some (_, some k, r) => .ok ⟨k, r⟩
    | some (_, none, _) => .error ()
    | none => .ok ⟨.map, "TEXT-NOT-IN-TABLE".toList⟩)

def showLines (ls : List Line) : String := "\t".intercalate (toString ls.length :: ls.map encStr)

def showDoc : DocOutcome → String
  | .skip => "SKIP"
  | .parseError => "PE"
  | .data v none => s!"DATA\t{encStr v.repr}\tnone"
  | .data v (some u) => s!"DATA\t{encStr v.repr}\t{showLines u}"

def pTerm : P Term := do
  let k ← nextF
  match k with
  | "1" => do let s ← pStr; pure (.one s)
  | "L" => do let ws ← pList pStr; pure (.many ws)
  | _ => failure

def pOptTerm : P (Option Term) := do
  let k ← nextF
  match k with
  | "N" => pure none
  | "1" => do let s ← pStr; pure (some (.one s))
  | "L" => do let ws ← pList pStr; pure (some (.many ws))
  | _ => failure

def pChk : P Chk := do
  let k ← nextF
  match k with | "A" => pure .all | "O" => pure .any | _ => failure

def pNum : P (Option Int) := do
  let f ← nextF
  if f = "N" then pure none else match decInt f with | some i => pure (some i) | none => failure

def pStamp : P (Option RawStamp) := do
  let f ← nextF
  if f = "-" then pure none else
  match f.splitOn "," with
  | [y, mo, d, tod] =>
    -- year field: "N" none, "1999" four digits, "y69" two digits as written (the model applies the pivot)
    let yf : Option (Option Nat) :=
      if y = "N" then some none
      else if y.startsWith "y" then (decNat (y.drop 1).toString).map (fun yy => some (pivotYear yy))
      else (decNat y).map some
    match yf, decNat mo, decNat d, decNat tod with
    | some y, some mo, some d, some tod => pure (some ⟨y, mo, d, tod⟩)
    | _, _, _, _ => failure
  | _ => failure

def pTime : P Time := do
  let y ← pNat; let mo ← pNat; let d ← pNat; let tod ← pNat
  pure ⟨y, mo, d, tod⟩

/-! round 10: argument checks, time_format, scanner histories, parser.invoke -/

def pTermArg : P TermArg := do
  let k ← nextF
  match k with
  | "1" => do let s ← pStr; pure (.ok (.one s))
  | "L" => do let ws ← pList pStr; pure (.ok (.many ws))
  | "N" => pure .none
  | "B" => pure .bad
  | _ => failure

def pNumArg : P NumArg := do
  let f ← nextF
  if f = "N" then pure .none else if f = "B" then pure .bad
  else match decInt f with | some i => pure (.int i) | none => failure

def pFmtArg : P FmtArg := do
  let k ← nextF
  match k with
  | "N" => pure .none
  | "O" => pure .other
  | "S" => do let f ← pStr; pure (.str f)
  | "L" => do let fs ← pList pStr; pure (.many fs)
  | _ => failure

def pScanDef : P ScanDef := do
  let key ← pStr
  let k ← nextF
  let kind : ScanKind ← (match k with
    | "K" => do let num ← pNum; let rev ← pBool; pure (ScanKind.keep num rev)
    | "L" => pure ScanKind.last
    | "T" => pure ScanKind.token
    | _ => failure)
  let c ← pChk
  let t ← pTerm
  pure ⟨key, kind, t, c⟩

/-- one operation of a scanner history (glue: the lazy objects are numbered in creation order) -/
inductive HOp
  | op (o : Op)
  | lazyNew (c : Nat) (lines : List Line)
  | lazyKey (obj : Nat) (k : Str)
  | lazyAll (obj : Nat)

def pHOp : P HOp := do
  let k ← nextF
  match k with
  | "C" => do let c ← pNat; pure (.op (.newClass c))
  | "R" => do let c ← pNat; let d ← pScanDef; pure (.op (.reg c d))
  | "B" => do let c ← pNat; let ls ← pList pStr; pure (.op (.build c ls))
  | "Z" => do let c ← pNat; let ls ← pList pStr; pure (.lazyNew c ls)
  | "K" => do let o ← pNat; let key ← pStr; pure (.lazyKey o key)
  | "A" => do let o ← pNat; pure (.lazyAll o)
  | _ => failure

def showAttr : AttrVal → String
  | .lines ls => "L(" ++ ",".intercalate (ls.map encStr) ++ ")"
  | .last none => "D(~)"
  | .last (some l) => "D(" ++ encStr l ++ ")"
  | .flag b => if b then "F1" else "F0"

def showAttrs (a : List (Str × AttrVal)) : String :=
  "A[" ++ ";".intercalate (a.map (fun kv => encStr kv.1 ++ "=" ++ showAttr kv.2)) ++ "]"

def showOpOut : OpOut → String
  | .created => "created"
  | .registered => "registered"
  | .dupKey => "VE"
  | .typeError => "TE"
  | .attrs a => showAttrs a

/-- the lazy objects: (class, state); `none` once a do_scan raised (the harness stops using the object) -/
def runHist : World → List (Nat × Option LazyObj) → List HOp → List String
  | _, _, [] => []
  | w, objs, .op o :: rest => let r := step w o; showOpOut r.2 :: runHist r.1 objs rest
  | w, objs, .lazyNew c ls :: rest => "lazy" :: runHist w (objs ++ [(c, some ⟨ls, [], []⟩)]) rest
  | w, objs, .lazyKey i k :: rest =>
    match objs[i]? with
    | some (c, some o) =>
      (match doScan (w c) o (some k) with
       | some o' => showAttrs o'.attrs :: runHist w (objs.set i (c, some o')) rest
       | none => "TE" :: runHist w (objs.set i (c, none)) rest)
    | _ => "dead" :: runHist w objs rest
  | w, objs, .lazyAll i :: rest =>
    match objs[i]? with
    | some (c, some o) =>
      (match doScan (w c) o none with
       | some o' => showAttrs o'.attrs :: runHist w (objs.set i (c, some o')) rest
       | none => "TE" :: runHist w (objs.set i (c, none)) rest)
    | _ => "dead" :: runHist w objs rest

def pBuilt : P (Built Nat) := do
  let k ← nextF
  match k with
  | "O" => do let i ← pNat; pure (.obj i)
  | "C" => pure .contentError
  | "S" => pure .skip
  | "F" => pure .failed
  | _ => failure

def showInvoked : Invoked Nat → String
  | .value v => s!"V\t{v}"
  | .values vs => "VS\t" ++ "\t".intercalate (vs.map toString)
  | .skipped => "NONE"
  | .raised => "NONE"

def run (p : P String) (fs : List String) : String :=
  match p fs with
  | some (out, []) => out
  | _ => "bad-op"

def handle (fs : List String) : String :=
  match fs with
  | "cmd" :: rest => run (do
      let extra ← pList pStr
      let content ← pList pStr
      match commandInit asciiLower Gen.BadLines.badSingleLines Gen.BadLines.badLines extra content with
      | .contentError f => pure s!"CE\t{encStr f}"
      | .parsed c => pure s!"OK\t{showLines c}") rest
  | "json" :: rest => run (do
      let content ← pList pStr
      let loads ← pLoads
      pure (showDoc (jsonParse loads content))) rest
  | "jsons" :: rest => run (do
      let content ← pStr
      let loads ← pLoads
      pure (showDoc (jsonParseStr loads content))) rest
  | "yaml" :: rest => run (do
      let ignore ← pList pStr
      let content ← pList pStr
      let loads ← pLoads
      pure (showDoc (yamlParse asciiLower loads ignore content))) rest
  | "yamls" :: rest => run (do
      let content ← pStr
      let loads ← pLoads
      pure (showDoc (yamlParseStr loads content))) rest
  | "get" :: rest => run (do
      let c ← pChk; let num ← pNum; let rev ← pBool; let t ← pTerm
      let lines ← pList pStr
      match get t c num rev lines with
      | none => pure "TE"
      | some r => pure s!"OK\t{showLines r}") rest
  | "has" :: rest => run (do
      let c ← pChk
      let t ← pTerm
      let lines ← pList pStr
      match textContains t c lines with
      | none => pure "TE"
      | some b => pure (if b then "1" else "0")) rest
  | "after" :: rest => run (do
      let hasYear ← pBool
      let thr ← pTime
      let s ← pOptTerm
      let tagged ← pList (do let l ← pStr; let st ← pStamp; pure (l, st))
      let stamp : Line → Option RawStamp := fun l =>
        match tagged.find? (fun e => e.1 = l) with | some (_, st) => st | none => none
      match getAfter stamp hasYear thr s (tagged.map (·.1)) with
      | .typeError => pure "TE"
      | .valueError => pure "VE"
      | .ok r => pure s!"OK\t{showLines r}") rest
  | "infer" :: rest => run (do
      let thr ← pTime
      let st ← pStamp
      match st with
      | none => failure
      | some r =>
        match resolve false thr r with
        | none => pure "VE"
        | some t => pure s!"{t.year},{t.month},{t.day},{t.tod}") rest
  | "getpy" :: rest => run (do
      let c ← pChk; let num ← pNumArg; let rev ← pBool; let t ← pTermArg
      let lines ← pList pStr
      match getPy t c num rev lines with
      | .typeError => pure "TE"
      | .ok r => pure s!"OK\t{showLines r}") rest
  | "haspy" :: rest => run (do
      let t ← pTermArg
      let lines ← pList pStr
      match containsPy t lines with
      | .typeError => pure "TE"
      | .ok b => pure (if b then "1" else "0")) rest
  | "afterf" :: rest => run (do
      let fmt ← pFmtArg
      let thr ← pTime
      let s ← pOptTerm
      let tagged ← pList (do let l ← pStr; let st ← pStamp; pure (l, st))
      let stamp : Line → Option RawStamp := fun l =>
        match tagged.find? (fun e => e.1 = l) with | some (_, st) => st | none => none
      match getAfterF fmt stamp thr s (tagged.map (·.1)) with
      | .runtimeError => pure "RE"
      | .parseError => pure "PE"
      | .res .typeError => pure "TE"
      | .res .valueError => pure "VE"
      | .res (.ok r) => pure s!"OK\t{showLines r}") rest
  | "fmt" :: rest => run (do
      let fmt ← pFmtArg
      match fmtCheck fmt with
      | .error .runtime => pure "RE"
      | .error .parse => pure "PE"
      | .ok hy => pure (if hy then "Y1" else "Y0")) rest
  | "scanhist" :: rest => run (do
      let ops ← pList pHOp
      pure ("\t".intercalate (runHist emptyWorld [] ops))) rest
  | "invoke" :: rest => run (do
      let many ← pBool
      let coe ← pBool
      let bs ← pList pBuilt
      if many then pure (showInvoked (invokeMany coe bs))
      else match bs with
        | [b] => pure (showInvoked (invokeOne b))
        | _ => failure) rest
  | "lower" :: rest => run (do let s ← pStr; pure (encStr (asciiLower s))) rest
  | "strip" :: rest => run (do let s ← pStr; pure (encStr (strip s))) rest
  | "in" :: rest => run (do let a ← pStr; let b ← pStr; pure (if contains a b then "1" else "0")) rest
  | _ => "bad-op"

def main : IO Unit := serve handle
