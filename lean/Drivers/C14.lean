import IV.Model.Proto
import IV.Model.BaseParsers
import IV.Gen.BadLines
open IV IV.Proto IV.BaseParsers

/-! line protocol for C14 (glue, not model).  Lists are count-prefixed: `n` then `n` string fields. -/

abbrev P := StateT (List String) Option

def nextF : P String := fun s => match s with | [] => none | f :: r => some (f, r)
def pStr : P Str := do let f ← nextF; (decStr f : Option Str)
def pNat : P Nat := do let f ← nextF; (decNat f : Option Nat)
def pBool : P Bool := do let f ← nextF; (decBool f : Option Bool)

def pRep {α : Type} (p : P α) : Nat → P (List α)
  | 0 => pure []
  | n + 1 => do let x ← p; let xs ← pRep p n; pure (x :: xs)

def pList {α : Type} (p : P α) : P (List α) := do let n ← pNat; pRep p n

def pEnd : P Unit := fun s => match s with | [] => some ((), []) | _ => none

def pKind : P (Option JKind) := do
  let f ← nextF
  match f with
  | "F" => pure none
  | "N" => pure (some .null)
  | "S" => pure (some .scalar)
  | "Q" => pure (some .seq)
  | "M" => pure (some .map)
  | _ => failure

/-- the library as a finite table text ↦ outcome; a text the harness did not anticipate loads to a
marker value, so that a model that asks for another text is seen as a mismatch -/
def pLoads : P (Str → Except Unit JVal) := do
  let tbl ← pList (do let t ← pStr; let k ← pKind; let r ← pStr; pure (t, k, r))
  pure (fun t => match tbl.find? (fun e => e.1 = t) with
    | some (_, some k, r) => .ok ⟨k, r⟩
    | some (_, none, _) => .error ()
    | none => .ok ⟨.map, "TEXT-NOT-IN-TABLE".toList⟩)

def showLines (ls : List Line) : String := "\t".intercalate (toString ls.length :: ls.map encStr)

def showDoc : DocOutcome → String
  | .skip => "SKIP"
  | .parseError => "PE"
  | .data v none => s!"DATA\t{encStr v.repr}\tnone"
  | .data v (some u) => s!"DATA\t{encStr v.repr}\t{showLines u}"

def pTerm : P Term := do
  let k ← nextF
  match k with
  | "1" => do let s ← pStr; pure (.one s)
  | "L" => do let ws ← pList pStr; pure (.many ws)
  | _ => failure

def pOptTerm : P (Option Term) := do
  let k ← nextF
  match k with
  | "N" => pure none
  | "1" => do let s ← pStr; pure (some (.one s))
  | "L" => do let ws ← pList pStr; pure (some (.many ws))
  | _ => failure

def pChk : P Chk := do
  let k ← nextF
  match k with | "A" => pure .all | "O" => pure .any | _ => failure

def pNum : P (Option Int) := do
  let f ← nextF
  if f = "N" then pure none else match decInt f with | some i => pure (some i) | none => failure

def pStamp : P (Option RawStamp) := do
  let f ← nextF
  if f = "-" then pure none else
  match f.splitOn "," with
  | [y, mo, d, tod] =>
    -- year field: "N" none, "1999" four digits, "y69" two digits as written (the model applies the pivot)
    let yf : Option (Option Nat) :=
      if y = "N" then some none
      else if y.startsWith "y" then (decNat (y.drop 1).toString).map (fun yy => some (pivotYear yy))
      else (decNat y).map some
    match yf, decNat mo, decNat d, decNat tod with
    | some y, some mo, some d, some tod => pure (some ⟨y, mo, d, tod⟩)
    | _, _, _, _ => failure
  | _ => failure

def pTime : P Time := do
  let y ← pNat; let mo ← pNat; let d ← pNat; let tod ← pNat
  pure ⟨y, mo, d, tod⟩

def run (p : P String) (fs : List String) : String :=
  match p fs with
  | some (out, []) => out
  | _ => "bad-op"

def handle (fs : List String) : String :=
  match fs with
  | "cmd" :: rest => run (do
      let extra ← pList pStr
      let content ← pList pStr
      match commandInit asciiLower Gen.BadLines.badSingleLines Gen.BadLines.badLines extra content with
      | .contentError f => pure s!"CE\t{encStr f}"
      | .parsed c => pure s!"OK\t{showLines c}") rest
  | "json" :: rest => run (do
      let content ← pList pStr
      let loads ← pLoads
      pure (showDoc (jsonParse loads content))) rest
  | "jsons" :: rest => run (do
      let content ← pStr
      let loads ← pLoads
      pure (showDoc (jsonParseStr loads content))) rest
  | "yaml" :: rest => run (do
      let ignore ← pList pStr
      let content ← pList pStr
      let loads ← pLoads
      pure (showDoc (yamlParse asciiLower loads ignore content))) rest
  | "yamls" :: rest => run (do
      let content ← pStr
      let loads ← pLoads
      pure (showDoc (yamlParseStr loads content))) rest
  | "get" :: rest => run (do
      let c ← pChk; let num ← pNum; let rev ← pBool; let t ← pTerm
      let lines ← pList pStr
      match get t c num rev lines with
      | none => pure "TE"
      | some r => pure s!"OK\t{showLines r}") rest
  | "has" :: rest => run (do
      let c ← pChk
      let t ← pTerm
      let lines ← pList pStr
      match textContains t c lines with
      | none => pure "TE"
      | some b => pure (if b then "1" else "0")) rest
  | "after" :: rest => run (do
      let hasYear ← pBool
      let thr ← pTime
      let s ← pOptTerm
      let tagged ← pList (do let l ← pStr; let st ← pStamp; pure (l, st))
      let stamp : Line → Option RawStamp := fun l =>
        match tagged.find? (fun e => e.1 = l) with | some (_, st) => st | none => none
      match getAfter stamp hasYear thr s (tagged.map (·.1)) with
      | .typeError => pure "TE"
      | .valueError => pure "VE"
      | .ok r => pure s!"OK\t{showLines r}") rest
  | "infer" :: rest => run (do
      let thr ← pTime
      let st ← pStamp
      match st with
      | none => failure
      | some r =>
        match resolve false thr r with
        | none => pure "VE"
        | some t => pure s!"{t.year},{t.month},{t.day},{t.tod}") rest
  | "lower" :: rest => run (do let s ← pStr; pure (encStr (asciiLower s))) rest
  | "strip" :: rest => run (do let s ← pStr; pure (encStr (strip s))) rest
  | "in" :: rest => run (do let a ← pStr; let b ← pStr; pure (if contains a b then "1" else "0")) rest
  | _ => "bad-op"

def main : IO Unit := serve handle
