import IV.Model.Proto
import IV.Model.Serde
import IV.Model.SerdeDetect
open IV IV.Proto IV.Serde

/-! line-protocol driver for C11 (glue, not model) -/

def showLines (ls : List Str) : String := s!"{ls.length}:" ++ ";".intercalate (ls.map encStr)

def optStr (f : String) : Option (Option Str) := if f = "!" then some none else (decStr f).map some
def showOpt : Option Str → String | none => "!" | some s => encStr s

def decArgs (f : String) : Option Args :=
  if f = "!" then some .none
  else if f.startsWith "s:" then (decStr (f.drop 2).toString).map .str
  else if f = "l:" then some (.seq [])
  else if f.startsWith "l:" then
    (((f.drop 2).toString.splitOn ";").foldr (fun p acc => match acc, decStr p with
      | some xs, some x => some (x :: xs) | _, _ => none) (some [])).map .seq
  else none

def showArgs : Args → String
  | .none => "!"
  | .str s => "s:" ++ encStr s
  | .seq xs => "l:" ++ ";".intercalate (xs.map encStr)

def decKind : String → Option Kind
  | "text" => some .text | "raw" => some .raw | "datasource" => some .datasource
  | "command" => some .command | "containerFile" => some .containerFile
  | "containerCommand" => some .containerCommand | _ => none

def decLines : List String → Option (List Str)
  | [] => some []
  | f :: rest => match decStr f, decLines rest with
    | some l, some ls => some (l :: ls)
    | _, _ => none

structure St where
  host : Bool := false
  root : Str := []
  pending : List Provider := []
  store : Store := {}
  snapshot : Store := {}
  known : List Str := []
  broker : Broker := []

def knownFn (ks : List Str) (n : Str) : Option Comp :=
  let rec go : List Str → Nat → Option Comp
    | [], _ => none
    | k :: rest, i => if k = n then some i else go rest (i + 1)
  go ks 0

def showResults : Option Results → String
  | none => "R-"
  | some (.one d) => "Rs|" ++ encStr d.obj.relativePath
  | some (.many ds) => s!"Rm{ds.length}|" ++ ";".intercalate (ds.map (fun d => encStr d.obj.relativePath))

def showObj (d : ResDoc) : String :=
  "|".intercalate [encStr d.obj.relativePath, (if d.obj.saveAsSet then "1" else "0"),
    (match d.obj.rc with | none => "!" | some n => toString n), showOpt d.obj.cmd, showArgs d.obj.args,
    showOpt d.obj.image, showOpt d.obj.engine, showOpt d.obj.containerId]

def decPats (f : String) : Option (List Str) :=
  if f = "-" then some []
  else (f.splitOn ";").foldr (fun p acc => match acc, decStr p with
    | some xs, some x => some (x :: xs) | _, _ => none) (some [])

def showLoaded (fs : FS) (l : Loaded) (pats : List Str := []) : String :=
  "|".intercalate [(if l.raw then "raw" else "text"), encStr l.relativePath,
    (match l.rc with | none => "!" | some n => toString n), showOpt l.cmd, showArgs l.args,
    showOpt l.image, showOpt l.engine, showOpt l.containerId,
    (match loadedContent fs l with
     | none => "nocontent"
     | some ls => showLines (if l.raw then ls else postFilter pats ls))]

def docResults : Option Results → List ResDoc
  | none => [] | some (.one d) => [d] | some (.many ds) => ds

def metaDel (m : List (Str × RawEntry)) (k : Str) : List (Str × RawEntry) := m.filter (fun x => x.1 != k)

/-- `\w` on the alphabet the harness draws command lines from: ASCII letters, digits, '_' and a few
    listed non-ASCII letters (the harness checks the same characters against `re` before it uses them) -/
def driverIsWord (c : Char) : Bool :=
  c.isAlphanum || c = '_' || c = 'é' || c = 'ß' || c = 'Ж' || c = '中' || c = 'ü'

/-- the registry of a harness run: the stock tables plus the harness's own classes registered as
    pairs (user 1..4 behave like text, raw, command, datasource) -/
def driverRegistry : Registry :=
  (((stockRegistry.addPair 1 .text).addPair 2 .raw).addPair 3 .command).addPair 4 .datasource

def kindIndex : Kind → Nat
  | .text => 1 | .raw => 2 | .command => 3 | .datasource => 4 | .containerFile => 5 | .containerCommand => 6

/-- "text" = the stock class; "p:text" = a user class registered as a pair; "u:text" = a user subclass
    without registration; "g:text" / "g:raw" = the classes of a loaded archive's providers -/
def decTyped (f : String) : Option (TName × Kind) :=
  match f.splitOn ":" with
  | [k] => (decKind k).map (fun k => (.stock k, k))
  | ["p", k] => (decKind k).map (fun k => (.user (kindIndex k), k))
  | ["u", k] => (decKind k).map (fun k => (.user (100 + kindIndex k), k))
  | ["g", k] => (decKind k).map (fun k => (if k = .raw then .serializedRaw else .serializedText, k))
  | _ => none

def decNodes (f : String) : Option NFS :=
  (decList f).foldr (fun item acc =>
    match acc, item.splitOn ">" with
    | some xs, [k, "f", b] => (match decStr k, decStr b with | some k, some b => some ((k, Node.file b) :: xs) | _, _ => none)
    | some xs, [k, "l", t] => (match decStr k, decStr t with | some k, some t => some ((k, Node.link t) :: xs) | _, _ => none)
    | _, _ => none) (some [])

def handle (st : St) (fs : List String) : St × String :=
  match fs with
  | "rw" :: _n :: rest =>
    match decLines rest with
    | some ls => (st, showLines (read (joinLines ls)))
    | none => (st, "bad-op")
  | ["read", t] =>
    match decStr t with
    | some t => (st, showLines (read t))
    | none => (st, "bad-op")
  | ["norm", f, sa] =>
    match optStr sa with
    | some sa =>
      if f = "f" then (st, showOpt (saveAsFile sa))
      else if f = "d" then (st, showOpt (saveAsDir sa))
      else if f = "c" then (st, showOpt (saveAsCmd sa))
      else (st, "bad-op")
    | none => (st, "bad-op")
  | ["new", host, root] =>
    match decBool host, decStr root with
    | some h, some r => ({ host := h, root := r }, "ok")
    | _, _ => (st, "bad-op")
  | "elem" :: kind :: rp :: sa :: cmd :: args :: image :: engine :: cid :: fault :: unsplit :: _n :: lines =>
    match decTyped kind, decStr rp, optStr sa, optStr cmd, decArgs args, optStr image, optStr engine, optStr cid, decLines lines with
    | some (tn, k0), some rp, some sa, some cmd, some args, some image, some engine, some cid, some ls =>
      let found := serializerFor driverRegistry tn
      let k := found.getD k0
      let load : Option (Except Fault (List Str)) :=
        if fault = "-" then some (.ok ls) else (decNat fault).map .error
      match load with
      | some load =>
        let p : Provider := { kind := k, relativePath := rp, saveAs := sa, cmd := cmd, args := args,
                              image := image, engine := engine, containerId := cid, unsplit := unsplit = "1",
                              serializable := found.isSome, load := load }
        ({ st with pending := st.pending ++ [p] }, encStr (relOf p))
      | none => (st, "bad-op")
    | _, _, _, _, _, _, _, _, _ => (st, "bad-op")
  | ["spec", name, mode, recorded] =>
    match decStr name, decNat recorded with
    | some name, some nrec =>
      let v : Option (Option Value) :=
        if mode = "n" then some none
        else if mode = "m" then some (some (.multi st.pending))
        else if mode = "s" then (match st.pending with | [p] => some (some (.single p)) | _ => none)
        else none
      match v with
      | some v =>
        let recd := (List.range nrec).map (· + 1000)
        let store' := dehydrate st.host st.root st.store name recd v
        let out := match metaGet store'.entries name with
          | some (.json d) => s!"doc|E{d.errors.length}|" ++ showResults d.results ++ "|" ++
              ";".intercalate ((docResults d.results).map showObj)
          | _ => "nodoc"
        ({ st with pending := [], store := store', known := st.known ++ [name] }, out)
      | none => (st, "bad-op")
    | _, _ => (st, "bad-op")
  | ["corrupt", name, cls, arg] =>
    match decStr name, decStr arg with
    | some name, some arg =>
      let m := st.store.entries
      let m' : Option (List (Str × RawEntry)) :=
        if cls = "del" then some (metaDel m name)
        else if cls = "notjson" then some (metaPut m name .notJson)
        else if cls = "unreadable" then some (metaPut m name .unreadable)
        else if cls = "badshape" then some (metaPut m name .badShape)
        else if cls = "rename" then
          (match metaGet m name with
           | some (.json d) => some (metaPut m name (.json { d with name := arg }))
           | _ => none)
        else none
      match m' with
      | some m' => ({ st with store := { st.store with entries := m' } }, "ok")
      | none => (st, "bad-op")
    | _, _ => (st, "bad-op")
  | ["rmdata", name, idx] =>
    match decStr name, decNat idx with
    | some name, some i =>
      match metaGet st.store.entries name with
      | some (.json d) =>
        match (docResults d.results)[i]? with
        | some r =>
          let path := pjoin st.root (lstripC sep r.obj.relativePath)
          ({ st with store := { st.store with fs := st.store.fs.filter (fun x => x.1 != path) } }, "ok")
        | none => (st, "bad-op")
      | _ => (st, "bad-op")
    | _, _ => (st, "bad-op")
  | ["snap"] => ({ st with snapshot := st.store }, "ok")
  | ["restore"] => ({ st with store := st.snapshot, broker := [] }, "ok")
  | ["hydrate"] =>
    let b := hydrate (knownFn st.known) st.root st.store.fs (st.store.entries.map (·.2)) []
    let names := b.filterMap (fun kv => st.known[kv.1]?)
    let sorted := (names.map encStr).toArray.qsort (· < ·) |>.toList
    ({ st with broker := b }, s!"{sorted.length}:" ++ ";".intercalate sorted)
  | ["get", name, idx, pats] =>
    match decStr name, decNat idx, decPats pats with
    | some name, some i, some pats =>
      match knownFn st.known name with
      | some k =>
        match st.broker.get k with
        | some (.single l) => if i = 0 then (st, "s|" ++ showLoaded st.store.fs l pats) else (st, "noelem")
        | some (.multi ls) =>
          match ls[i]? with
          | some l => (st, s!"m{ls.length}|" ++ showLoaded st.store.fs l pats)
          | none => (st, "noelem")
        | none => (st, "absent")
      | none => (st, "absent")
    | _, _, _ => (st, "bad-op")
  | ["praw", nodes, path] =>
    match decNodes nodes, decStr path with
    | some src, some path =>
      match persistRaw src 40 [] path ['d'] with
      | some arch => (match arch.get ['d'] with
                      | some (.file b) => (st, "file:" ++ encStr b)
                      | some (.link t) => (st, "link:" ++ encStr t)
                      | none => (st, "none"))
      | none => (st, "none")
    | _, _ => (st, "bad-op")
  | ["json", cps] =>
    -- code points as hex numbers separated by '.', "-" = empty; answer: units | code points read back
    let xs : Option (List Nat) := if cps = "-" then some [] else
      (cps.splitOn ".").foldr (fun p acc => match acc, hexNat p.toList with
        | some r, some n => some (n :: r) | _, _ => none) (some [])
    match xs with
    | some xs =>
      let showNs (l : List Nat) : String := if l.isEmpty then "-" else ".".intercalate (l.map natHex)
      (st, showNs (jsonEscape xs) ++ "|" ++ showNs (jsonUnescape (jsonEscape xs)))
    | none => (st, "bad-op")
  | ["detect", reg, files] =>
    -- reg: "name=marker;name=!" (registration order), files: enc strings joined by ';' ("" = no files)
    -- answer: invalid | ctx|name|root chosen in file order|all candidate roots of the least length (sorted)
    let decAll (f : String) : Option (List Str) :=
      if f = "" then some [] else
      (f.splitOn ";").foldr (fun p acc => match acc, decStr p with
        | some xs, some x => some (x :: xs) | _, _ => none) (some [])
    let regs : Option (List CtxDecl) :=
      (reg.splitOn ";").foldr (fun p acc => match acc, p.splitOn "=" with
        | some xs, [n, m] => (match decStr n, (if m = "!" then some none else (decStr m).map some) with
            | some n, some m => some (⟨n, m⟩ :: xs) | _, _ => none)
        | _, _ => none) (some [])
    match regs, decAll files with
    | some rg, some fl =>
      (match createContext rg fl with
       | .invalid => (st, "invalid")
       | .ctx r n =>
         let cands : List Str := match (rg.reverse.find? (fun e => (handles e.marker fl).isSome)) with
           | some e => (match e.marker with | some mk => markerRoots mk fl | none => [])
           | none => []
         let least := cands.foldl (fun a x => min a x.length) r.length
         let mins := ((cands.filter (fun x => x.length == least)).map encStr).eraseDups.toArray.qsort (· < ·) |>.toList
         (st, "ctx|" ++ encStr n ++ "|" ++ encStr r ++ "|" ++ ";".intercalate mins))
    | _, _ => (st, "bad-op")
  | ["mangle", cmd] =>
    match decStr cmd with
    | some c => (st, encStr (mangle driverIsWord c))
    | none => (st, "bad-op")
  | ["contained", rel] =>
    match decStr rel with
    | some r => (st, if containedLoc r then "1" else "0")
    | none => (st, "bad-op")
  | ["prune", keys, graph, loaded] =>
    -- keys: "1,2"; graph: "1>2.3,2>" ; loaded: "1,2"
    let ks := (decList keys).filterMap String.toNat?
    let ld := (decList loaded).filterMap String.toNat?
    let g : Graph := (decList graph).filterMap (fun item =>
      match item.splitOn ">" with
      | [k, ds] => k.toNat?.map (fun k => (k, (if ds = "" then [] else ds.splitOn ".").filterMap String.toNat?))
      | _ => none)
    match prune (fun c => ld.contains c) ks g with
    | none => (st, "KeyError")
    | some g' => (st, ",".intercalate (g'.map (fun kv => toString kv.1)))
  | _ => (st, "bad-op")

def main : IO Unit := serveState ({} : St) handle
