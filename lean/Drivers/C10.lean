import IV.Model.CleanProto
/-! driver for C10: the protocol handler lives in IV/Model/CleanProto.lean (shared by C09 and C10) -/
def main : IO Unit := IV.Proto.serveState ({} : IV.CleanProto.D) IV.CleanProto.handle
