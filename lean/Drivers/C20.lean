import IV.Model.Proto
import IV.Model.Query
open IV IV.Proto IV.Query

/-!
Driver for C20.  Everything here is glue (token parser, the concrete family of opaque
callables, printing); the functions called are the model's.

  bool <bexp tokens> <val> <lower>          -> interp,compiled,evalC(0|1|x),nonRaising
      lower = "k from=to …": str.lower as computed by the harness's interpreter (see mkEnv); every request carries one
  sel  <start> <docs> <steps> <lower>       -> identities (paths "i.j.k") of the last step ("err" = IndexError)
      start = "doc i" | "node path" | "res" | "fn"
      docs  = "k tree…"            tree = "T name nattrs attr… nchildren tree…"   (content only: no identity is sent)
      steps = "k step…"            step = "S deep roots nq query…" | "G query" | "W entry-query" | "WF k" | "R" | "P" | "U query"
                                   ("WF k" = where(natural entry callable number k))
  prog <docs> <k statement…> <lower>        -> see `runProg`
-/

abbrev P (α : Type) := List String → Option (α × List String)

def pNat : P Nat
  | t :: r => t.toNat?.map (fun n => (n, r))
  | [] => none

def pVal : P Val
  | t :: r =>
    match t.toList with
    | ['n'] => some (.none, r)
    | 'i' :: ':' :: ds => (String.ofList ds).toInt?.map (fun i => (.int i, r))
    | 's' :: ':' :: cs => (decStr (String.ofList cs)).map (fun s => (.str s, r))
    | _ => none
  | [] => none

def pOp : P Op
  | "eq" :: r => some (.eq, r) | "lt" :: r => some (.lt, r) | "le" :: r => some (.le, r)
  | "gt" :: r => some (.gt, r) | "ge" :: r => some (.ge, r) | "contains" :: r => some (.contains, r)
  | "startswith" :: r => some (.startswith, r) | "endswith" :: r => some (.endswith, r)
  | _ => none

partial def pMany {α : Type} (p : P α) : Nat → P (List α)
  | 0, ts => some ([], ts)
  | n + 1, ts => do
    let (x, ts) ← p ts
    let (xs, ts) ← pMany p n ts
    pure (x :: xs, ts)

partial def pBTerm : P BTerm
  | "tt" :: r => some (.tt, r)
  | "ff" :: r => some (.ff, r)
  | "p" :: r => do let (op, r) ← pOp r; let (v, r) ← pVal r; pure (.prim op v, r)
  | "pi" :: r => do
    let (op, r) ← pOp r; let (v, r) ← pVal r
    match v with | .str s => pure (.primI op s, r) | _ => none
  | "o" :: r => do let (k, r) ← pNat r; let (c, r) ← pNat r; pure (.opq k (c != 0), r)
  | "and" :: r => do let (a, r) ← pBTerm r; let (b, r) ← pBTerm r; pure (.and a b, r)
  | "or" :: r => do let (a, r) ← pBTerm r; let (b, r) ← pBTerm r; pure (.or a b, r)
  | "not" :: r => do let (a, r) ← pBTerm r; pure (.not a, r)
  | "ref" :: r => do let (i, r) ← pNat r; pure (.ref i, r)
  | _ => none

/-- the combinations built so far by a program (`prog` requests); empty for the other requests -/
structure Built where
  bs : List BExp := []
  es : List EQ := []

/-- a Boolean as written: the model's `BTerm.resolve` looks up the names -/
def pBExp (σ : Built) : P BExp := fun ts => do
  let (t, r) ← pBTerm ts
  let b ← t.resolve σ.bs
  pure (b, r)

def pNameQ (σ : Built) : P NameQ
  | "any" :: r => some (.any, r)
  | "lit" :: r => do let (v, r) ← pVal r; pure (.lit v, r)
  | "b" :: r => do let (b, r) ← pBExp σ r; pure (.bexp b, r)
  | "f" :: r => do let (k, r) ← pNat r; pure (.fn k, r)
  | _ => none

def pAttrQ (σ : Built) : P AttrQ
  | "lit" :: r => do let (v, r) ← pVal r; pure (.lit v, r)
  | "b" :: r => do let (b, r) ← pBExp σ r; pure (.bexp b, r)
  | "f" :: r => do let (k, r) ← pNat r; pure (.fn k, r)
  | _ => none

partial def pEQ (σ : Built) : P EQ
  | "anyA" :: r => do let (a, r) ← pAttrQ σ r; pure (.anyAttr a, r)
  | "allA" :: r => do let (a, r) ← pAttrQ σ r; pure (.allAttr a, r)
  | "child" :: r => do
    let (n, r) ← pNameQ σ r
    let (k, r) ← pNat r
    if k = 0 then pure (.child n none, r)
    else do let (a, r) ← pAttrQ σ r; pure (.child n (some a), r)
  | "eand" :: r => do let (a, r) ← pEQ σ r; let (b, r) ← pEQ σ r; pure (.and a b, r)
  | "eor" :: r => do let (a, r) ← pEQ σ r; let (b, r) ← pEQ σ r; pure (.or a b, r)
  | "enot" :: r => do let (a, r) ← pEQ σ r; pure (.not a, r)
  | "eref" :: r => do let (i, r) ← pNat r; let e ← σ.es[i]?; pure (e, r)     -- an entry query built before
  | _ => none

def pQuery (σ : Built) : P Query
  | "qn" :: r => do let (n, r) ← pNameQ σ r; pure (.name n, r)
  | "qt" :: r => do
    let (n, r) ← pNameQ σ r; let (k, r) ← pNat r; let (as, r) ← pMany (pAttrQ σ) k r
    pure (.tuple n as, r)
  | "qte" :: r => do let (n, r) ← pNameQ σ r; let (e, r) ← pEQ σ r; pure (.tupleE n e, r)
  | "qe" :: r => do let (e, r) ← pEQ σ r; pure (.entry e, r)
  | _ => none

partial def pTree : P Tree
  | "T" :: r => do
    let (n, r) ← pVal r
    let (k, r) ← pNat r
    let (as, r) ← pMany pVal k r
    let (m, r) ← pNat r
    let (cs, r) ← pMany pTree m r
    pure (.node n as cs, r)
  | _ => none

inductive Step where
  | sel (deep roots : Bool) (qs : List Query)
  | get (q : Query)
  | whr (q : EQ)
  | whrFn (k : Nat)       -- `where(f)` for the natural entry callable number k
  | roots                 -- the `Result.roots` property
  | parents               -- the `Result.parents` property
  | upto (q : Query)      -- `Result.upto(q)`

def pStep (σ : Built) : P Step
  | "S" :: r => do
    let (d, r) ← pNat r; let (ro, r) ← pNat r; let (k, r) ← pNat r
    let (qs, r) ← pMany (pQuery σ) k r
    pure (.sel (d != 0) (ro != 0) qs, r)
  | "G" :: r => do let (q, r) ← pQuery σ r; pure (.get q, r)
  | "W" :: r => do let (q, r) ← pEQ σ r; pure (.whr q, r)
  | "WF" :: r => do let (k, r) ← pNat r; pure (.whrFn k, r)
  | "R" :: r => some (.roots, r)
  | "P" :: r => some (.parents, r)
  | "U" :: r => do let (q, r) ← pQuery σ r; pure (.upto q, r)
  | _ => none

def toks (f : String) : List String := (f.splitOn " ").filter (· ≠ "")

def parseAll {α : Type} (p : P α) (f : String) : Option α :=
  match p (toks f) with
  | some (x, []) => some x
  | _ => none

def pCounted {α : Type} (p : P α) : P (List α) := fun ts => do
  let (k, ts) ← pNat ts
  pMany p k ts

/-- the concrete family of opaque callables the harness defines in Python with the same table:
`(k + code v) % 3` = 0 → False, 1 → True, 2 → raise; code None = 0, int = |i|, str = len.
Numbers from 100 on are the model's natural predicates (`natCall`, IV/Model/Query.lean). -/
def opqCall : Nat → Val → Out := fun k v =>
  if k ≥ 100 then natCall (k - 100) v else
  let c : Nat := match v with | .none => 0 | .int i => i.natAbs | .str s => s.length
  match (k + c) % 3 with
  | 0 => .ret false
  | 1 => .ret true
  | _ => .raise

/-- the environment of one request: the opaque callables, and `str.lower` as the harness's interpreter
computes it on the strings of this request (pairs s ↦ s.lower() for every string it changes; all other
strings of the request are their own lower case).  Lower-casing is NOT computed here. -/
def mkEnv (tbl : List (Str × Str)) : Env := ⟨opqCall, fun s => (tbl.lookup s).getD s⟩

/-- "k from=to …" with both sides hex-encoded strings -/
def pTable : P (List (Str × Str)) := pCounted (fun ts => match ts with
  | t :: r => match t.splitOn "=" with
    | [a, b] => do let a ← decStr a; let b ← decStr b; pure ((a, b), r)
    | _ => none
  | [] => none)

def showB (b : Bool) : String := if b then "1" else "0"
def showOut : Out → String | .ret b => showB b | .raise => "x"

/-- identities are printed as paths: "0.2.1" -/
def showPath (p : List Nat) : String := ".".intercalate (p.map toString)
def showIds (xs : List (List Nat)) : String := encList (xs.map showPath)
def decPath (f : String) : Option (List Nat) := (f.splitOn ".").mapM (·.toNat?)

/-- the children a step works on: an Entry's own children, or a Result's grandchildren -/
inductive St where
  | entry (e : Node)
  | result (children : List Node)
  | fn (nodes : List Node)       -- module-level select(query, nodes, …)

def stepNodes (ρ : Env) (s : St) (st : Step) : Option (List Node) :=
  match st, s with
  | .sel deep _ qs, .entry e => selectNodes ρ qs e.kids deep
  | .sel deep _ qs, .result ch => selectNodes ρ qs (grandchildren ch) deep
  | .sel deep _ qs, .fn ns => selectNodes ρ qs ns deep
  | .get q, .entry e => some (entryGetitem ρ e q)
  | .get q, .result ch => some (resultGetitem ρ ch q)
  | .whr q, .entry e => some (entryWhere ρ e q)
  | .whr q, .result ch => some (resultWhere ρ ch q)
  | .whrFn k, .entry e => some (entryWhereFn (natCallE k) e)
  | .whrFn k, .result ch => some (resultWhereFn (natCallE k) ch)
  | .roots, .result ch => some (rootsOf ch)
  | .parents, .result ch => some (parentsOf ch)
  | .upto q, .result ch => some (uptoOf (q.eval ρ) ch)
  | .upto q, .entry e => some ((e.upto (q.eval ρ)).toList)        -- `Entry.upto(q)`: one ancestor or None
  | _, _ => none

def stepFinal (ρ : Env) (s : St) (st : Step) : Option (Option (List (List Nat))) :=
  match st, s with
  | .sel true roots qs, .entry e => some (entryFind ρ e qs roots)
  | .sel false roots qs, .entry e => some (entrySelect ρ e qs false roots)
  | .sel true roots qs, .result ch => some (resultFind ρ ch qs roots)
  | .sel false roots qs, .result ch => some (resultSelect ρ ch qs false roots)
  | .sel deep roots qs, .fn ns => some (select ρ qs ns deep roots)
  | st, s => (stepNodes ρ s st).map (fun ns => some (ns.map Node.path))

def runSteps (ρ : Env) : St → List Step → String
  | _, [] => "bad-op"
  | s, [st] =>
    match stepFinal ρ s st with
    | some (some ids) => showIds ids
    | some none => "err"
    | none => "bad-op"
  | s, st :: rest =>
    match st with
    | .sel _ true _ => "bad-op"          -- roots only in the last step
    | _ =>
      match st, stepNodes ρ s st with
      | _, some ns => runSteps ρ (.result ns) rest
      | .sel .., none => "err"
      | _, none => "bad-op"

/-- where a pipeline starts: `doc i` | `node path` | `res` | `fn`; document number i has identity [i] -/
def startState (docs : List Tree) : List String → Option St
  | ["doc", i] => do let i ← i.toNat?; let n ← (tops docs)[i]?; pure (.entry n)
  | ["node", p] => do                   -- an inner entry, found by its identity
    let p ← decPath p
    let n ← (flatten (tops docs)).find? (fun n => n.path == p)
    pure (.entry n)
  | ["res"] => some (.result (tops docs))
  | ["fn"] => some (.fn (tops docs))
  | _ => none

/-- a program: statements run in order, the combinations built so far are threaded through
  LB <bterm>                    x_n := a Boolean (operands may be `ref i`)        (model: letB)
  LE <eq>                       e_n := an entry query (operands may be `eref i`)
  TB i k v…                     truth table of x_i: per value "<interp><compiled>"
  TE i k path…                  truth table of e_i on the nodes with these identities
  Q a b <steps>                 a pipeline started at `a b` ("doc 0", "node 0.2.1", "res -", "fn -")
answers of TB / TE / Q joined by ';' -/
partial def runProg (ρ : Env) (docs : List Tree) (σ : Built) (n : Nat) (ts : List String) (acc : List String) : Option (List String) :=
  match n with
  | 0 => if ts.isEmpty then some acc.reverse else none
  | n + 1 =>
    match ts with
    | "LB" :: r => do
      let (t, r) ← pBTerm r
      let bs ← letB σ.bs t
      runProg ρ docs { σ with bs := bs } n r acc
    | "LE" :: r => do
      let (e, r) ← pEQ σ r
      runProg ρ docs { σ with es := σ.es ++ [e] } n r acc
    | "TB" :: r => do
      let (i, r) ← pNat r
      let (vs, r) ← pCounted pVal r
      let b ← σ.bs[i]?
      let out := String.join (vs.map (fun v => showB (b.interp ρ v) ++ showB (b.compiled ρ v)))
      runProg ρ docs σ n r (out :: acc)
    | "TE" :: r => do
      let (i, r) ← pNat r
      let (k, r) ← pNat r
      let (ps, r) ← pMany (fun ts => match ts with | t :: r => (decPath t).map (fun p => (p, r)) | [] => none) k r
      let e ← σ.es[i]?
      let all := flatten (tops docs)
      let cells ← ps.mapM (fun p => (all.find? (fun n => n.path == p)).map (fun n => showB (e.eval ρ n)))
      runProg ρ docs σ n r (String.join cells :: acc)
    | "Q" :: a :: b :: r => do
      let st ← startState docs (if b = "-" then [a] else [a, b])
      let (steps, r) ← pCounted (pStep σ) r
      runProg ρ docs σ n r (runSteps ρ st steps :: acc)
    | _ => none

def handle (fs : List String) : String :=
  match fs with
  | ["bool", b, v, tbl] =>
    match parseAll (pBExp {}) b, parseAll pVal v, parseAll pTable tbl with
    | some b, some v, some tbl =>
      let ρ := mkEnv tbl
      ",".intercalate [showB (b.interp ρ v), showB (b.compiled ρ v), showOut (b.evalC ρ v),
                       showB (b.nonRaising ρ v)]
    | _, _, _ => "bad-op"
  | ["sel", start, docs, steps, tbl] =>
    match parseAll (pCounted pTree) docs, parseAll (pCounted (pStep {})) steps, parseAll pTable tbl with
    | some docs, some steps, some tbl =>
      match startState docs (toks start) with
      | some st => runSteps (mkEnv tbl) st steps
      | none => "bad-op"
    | _, _, _ => "bad-op"
  | ["prog", docs, stmts, tbl] =>
    match parseAll (pCounted pTree) docs, parseAll pTable tbl with
    | some docs, some tbl =>
      match toks stmts with
      | k :: ts =>
        match k.toNat? with
        | some k => match runProg (mkEnv tbl) docs {} k ts [] with
          | some outs => ";".intercalate outs
          | none => "bad-op"
        | none => "bad-op"
      | [] => "bad-op"
    | _, _ => "bad-op"
  | _ => "bad-op"

def main : IO Unit := serve handle
