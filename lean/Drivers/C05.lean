import IV.Model.Proto
import IV.Model.Specs
open IV IV.Proto IV.Dr IV.Specs

/-! Driver for C05: a root class (points), a registration history, the generated datasources; then
`reg` (what registration leaves behind), `run` (evaluation under seeded contexts), `sup` (the rule). -/

inductive BodySpec where
  | val | none | fault (e : Exc) | first
  | zero
  | disabled              -- dr.set_enabled(component, False) for this evaluation
  | shaped (k : Nat)      -- a value of another shape (falsy object, empty list, list): one atom per (shape, producer)

structure St where
  points : List (Name × Comp) := []
  hist : History := []
  decls : List (Comp × Decl) := []
  hhist : HHistory := []

def nats (sep : Char) (s : String) : Option (List Nat) :=
  if s = "-" ∨ s = "" then some [] else
  (s.splitOn (String.singleton sep)).foldr (fun p acc => match acc, p.toNat? with
    | some l, some n => some (n :: l) | _, _ => none) (some [])

def parseItems (s : String) : Option (List Item) :=
  if s = "-" then some [] else
  (s.splitOn ";").foldr (fun p acc => match acc with
    | none => none
    | some l =>
      if p.startsWith "o" then (p.drop 1).toString.toNat?.map (fun n => Item.one n :: l)
      else if p.startsWith "g" then (nats ',' (p.drop 1).toString).map (fun cs => Item.group cs :: l)
      else none) (some [])

/-- entries: `name:impl:c.c.c;name:impl:-` -/
def parseEntries (s : String) : Option (List Entry) :=
  if s = "-" then some [] else
  (s.splitOn ";").foldr (fun p acc => match acc, p.splitOn ":" with
    | some l, [n, v, cs] => match n.toNat?, v.toNat?, nats '.' cs with
      | some n, some v, some cs => some (⟨n, v, cs⟩ :: l)
      | _, _, _ => none
    | _, _ => none) (some [])

def parseBody (s : String) : Option BodySpec :=
  match s with
  | "v" => some .val | "n" => some .none | "skip" => some (.fault .skip) | "content" => some (.fault .content)
  | "crash" => some (.fault (.crash 1)) | "first" => some .first
  | "disabled" => some .disabled | "zero" => some .zero | "falsy" => some (.shaped 2) | "elist" => some (.shaped 3) | "list" => some (.shaped 4)
  | "calledproc" => some (.fault .calledProc) | "timeout" => some (.fault .timeout) | "blacklisted" => some (.fault .blacklisted)
  | _ => none

/-- outcomes: `cid=v,cid=skip` -/
def parseOutcomes (s : String) : Option (List (Comp × BodySpec)) :=
  if s = "-" then some [] else
  (s.splitOn ",").foldr (fun p acc => match acc, p.splitOn "=" with
    | some l, [c, b] => match c.toNat?, parseBody b with
      | some c, some b => some ((c, b) :: l)
      | _, _ => none
    | _, _ => none) (some [])

/-- `cid=flags,cid=flags` -/
def parseOwns (s : String) : Option (List (Comp × Nat)) :=
  if s = "-" then some [] else
  (s.splitOn ",").foldr (fun p acc => match acc, p.splitOn "=" with
    | some l, [c, b] => match c.toNat?, b.toNat? with
      | some c, some b => some ((c, b) :: l)
      | _, _ => none
    | _, _ => none) (some [])

def St.root (s : St) : Root where
  registry n := (s.points.find? (·.1 == n)).map (·.2)
  nameOf c := (s.points.find? (·.2 == c)).map (·.1)

def St.env (s : St) (outs : List (Comp × BodySpec)) : World where
  decl c := (s.decls.find? (·.1 == c)).map (·.2)
  enabled c := match ((outs.find? (·.1 == c)).map (·.2) : Option BodySpec) with
    | some BodySpec.disabled => false
    | _ => true
  ignore _ := []
  regPoints _ := []
  body c args := match ((outs.find? (·.1 == c)).map (·.2) : Option BodySpec) with
    | some BodySpec.disabled => .fault .badDecl      -- never reached: the engine passes a disabled component over
    | some BodySpec.val => .value (.atom (1000 + c))
    | some BodySpec.none => .value .none
    | some (BodySpec.shaped k) => .value (.atom (k * 100000 + c))
    | some BodySpec.zero => .value (.atom 0)
    | some (BodySpec.fault e) => .fault e
    | some BodySpec.first =>                    -- spec_factory.first_of: `for c in self.deps: if c in broker: return broker[c]`
      match args.find? (·.isSome) with
      | some (some v) => .value v
      | _ => .value .none
    | none => .fault .badDecl
  elemBody _ _ := .noResult

def showNats (sep : String) (xs : List Nat) : String := if xs.isEmpty then "" else sep.intercalate (xs.map toString)

def insSorted (x : Nat) : List Nat → List Nat
  | [] => [x]
  | y :: ys => if x < y then x :: y :: ys else if x = y then y :: ys else y :: insSorted x ys
def sortDedup (l : List Nat) : List Nat := l.foldr insSorted []

def showVal : Val → String
  | .none => "N" | .atom n => s!"A{n}" | .multi _ => "M" | .resp n => s!"R{n}" | .skipResp _ _ => "S" | .noneResp => "Z"

/-- hierarchical entries: `name:comp:P|D:c.c;…` -/
def parseHEntries (s : String) : Option (List HEntry) :=
  if s = "-" then some [] else
  (s.splitOn ";").foldr (fun p acc => match acc, p.splitOn ":" with
    | some l, [n, v, k, cs] => match n.toNat?, v.toNat?, nats '.' cs with
      | some n, some v, some cs =>
        -- P: RegistryPoint, D: a datasource by type hierarchy, X: some other component type
        if k = "P" then some (⟨n, v, true, cs, true⟩ :: l) else if k = "D" then some (⟨n, v, false, cs, true⟩ :: l)
        else if k = "X" then some (⟨n, v, false, cs, false⟩ :: l) else none
      | _, _, _ => none
    | _, _ => none) (some [])

/-- the flat reading of a hierarchical history, when it has that shape: class 0 declares the points, every
other class derives from it and defines datasources only -/
def toFlat (h : HHistory) : Option (List (Name × Comp) × History) :=
  match h with
  | [] => none
  | top :: rest =>
    if top.parents.isEmpty && top.entries.all (·.isPoint) &&
        rest.all (fun cd => cd.entries.all (fun e => !e.isPoint) && cd.parents.getLast? == some 0) then
      some (top.entries.map (fun e => (e.name, e.comp)),
            rest.map (fun cd => ⟨cd.parents == [0], (cd.entries.filter (·.isDs)).map (fun e => ⟨e.name, e.comp, e.ctxs⟩)⟩))
    else none

def rootOfPts (pts : List (Name × Comp)) : Root where
  registry n := (pts.find? (·.1 == n)).map (·.2)
  nameOf c := (pts.find? (·.2 == c)).map (·.1)

def ctxsOfComp (h : HHistory) (v : Comp) : List Comp :=
  h.flatMap (fun cd => cd.entries.flatMap (fun e => if e.comp = v then e.ctxs else []))

/-- hypothesis (H) of `hier_point_value_partial`, computed: every datasource reachable from a registry point
is in the handler table of the point's chain root for each of its contexts -/
def famCheck (h : HHistory) (r : HReg) : Bool :=
  let idx := (List.range h.length).zip h
  idx.all (fun (k, cd) => cd.entries.all (fun e =>
    if e.isPoint then
      match handlerRoot r (k :: cd.parents) e.name with
      | none => false
      | some t => (famLeaves r (h.length + 1) e.comp).all (fun v =>
          (ctxsOfComp h v).all (fun c => (r.handlers t e.name c).contains v))
    else true))

def brokerText (log : List Comp) (b : Broker) (u : List Comp) (isPt : Comp → Bool) : String :=
  let inst := u.filterMap (fun c => (b.inst c).map (fun v => s!"{c}:{showVal v}"))
  let miss := u.filterMap (fun c => (b.missing c).map (fun m =>
    s!"{c}:{showNats ";" m.required}/{"&".intercalate (m.atLeastOne.map (showNats ";"))}"))
  "inst=" ++ " ".intercalate inst ++ "|missing=" ++ " ".intercalate miss ++ "|inv=" ++
    showNats "," (sortDedup (log.filter (fun c => !isPt c)))

def handle (s : St) (fs : List String) : St × String :=
  match fs with
  | ["new"] => ({}, "ok")
  | ["point", n, c] =>
    match n.toNat?, c.toNat? with
    | some n, some c => ({ s with points := s.points ++ [(n, c)] }, "ok")
    | _, _ => (s, "bad-op")
  | ["class", d, es] =>
    match decBool d, parseEntries es with
    | some d, some es => ({ s with hist := s.hist ++ [⟨d, es⟩] }, "ok")
    | _, _ => (s, "bad-op")
  | ["decl", c, items, opt] =>
    match c.toNat?, parseItems items, nats ',' opt with
    | some c, some it, some op => ({ s with decls := s.decls ++ [(c, ⟨.datasource, it, op⟩)] }, "ok")
    | _, _, _ => (s, "bad-op")
  | ["reg", names, comps] =>
    -- dependency order of the points `names`, IGNORE of the components `comps` (a set: sorted, deduplicated)
    match nats ',' names, nats ',' comps with
    | some ns, some cs =>
      let r := register s.root s.hist
      let deps := ";".intercalate (ns.map (fun n => s!"{n}:{showNats "," (r.deps n)}"))
      let ign := ";".intercalate ((cs.filter (fun c => !(r.ignore c).isEmpty)).map
        (fun c => s!"{c}:{showNats "," (sortDedup (r.ignore c))}"))
      (s, s!"deps={deps}|ign={ign}")
    | _, _ => (s, "bad-op")
  | ["sup", n, c] =>
    match n.toNat?, c.toNat? with
    | some n, some c =>
      (s, match supplier s.hist n c with | some v => toString v | none => "none")
    | _, _ => (s, "bad-op")
  | ["run", seeds, order, keys, univ, outs] =>
    match nats ',' seeds, nats ',' order, nats ',' keys, nats ',' univ, parseOutcomes outs with
    | some sd, some o, some ks, some u, some outs =>
      let w := world s.root (s.env outs) (register s.root s.hist)
      let seed : Inst := fun c => if sd.contains c then some (.atom 0) else none
      let (log, b) := runLogged w (fun c => ks.contains c) false o (Broker.seeded seed)
      let inst := u.filterMap (fun c => (b.inst c).map (fun v => s!"{c}:{showVal v}"))
      let miss := u.filterMap (fun c => (b.missing c).map (fun m =>
        s!"{c}:{showNats ";" m.required}/{"&".intercalate (m.atLeastOne.map (showNats ";"))}"))
      (s, "inst=" ++ " ".intercalate inst ++ "|missing=" ++ " ".intercalate miss ++ "|inv=" ++
        showNats "," (sortDedup (log.filter (fun c => (s.root.nameOf c).isNone))))   -- the generated bodies only (a point's body is RegistryPoint.__call__)
    | _, _, _, _, _ => (s, "bad-op")
  | ["hclass", ps, es] =>
    match nats ',' ps, parseHEntries es with
    | some ps, some es =>
      if ps.all (· < s.hhist.length) then ({ s with hhist := s.hhist ++ [⟨ps, es⟩] }, "ok") else (s, "bad-op")
    | _, _ => (s, "bad-op")
  | ["hreg", points, comps] =>
    match nats ',' points, nats ',' comps with
    | some ps, some cs =>
      let r := hRegister s.hhist
      let deps := ";".intercalate (ps.map (fun p => s!"{p}:{showNats "," (r.deps p)}"))
      let ign := ";".intercalate ((cs.filter (fun c => !(r.ignore c).isEmpty)).map
        (fun c => s!"{c}:{showNats "," (sortDedup (r.ignore c))}"))
      let pts := if ps.all r.isPoint then "" else "|not-a-point"
      let fl := match toFlat s.hhist with
        | none => "n/a"
        | some (pts, fh) =>
          let fr := register (rootOfPts pts) fh
          if pts.all (fun np => fr.deps np.1 == r.deps np.2) && cs.all (fun c => sortDedup (fr.ignore c) == sortDedup (r.ignore c))
          then "agree" else "DISAGREE"
      (s, s!"deps={deps}|ign={ign}{pts}|H={if famCheck s.hhist r then "ok" else "FAIL"}|flat={fl}")
    | _, _ => (s, "bad-op")
  | ["hflags", comps, owns] =>
    -- the flags of the components `comps` after the classes created so far; `owns`: cid=flags they were created with
    match nats ',' comps, parseOwns owns with
    | some cs, some ow =>
      let f := fRegister (fun c => ((ow.find? (·.1 == c)).map (·.2)).getD 0) s.hhist
      (s, "flags=" ++ ";".intercalate (cs.map (fun c => s!"{c}:{f.flags c}")))
    | _, _ => (s, "bad-op")
  | ["hsup", t, n, c] =>
    match t.toNat?, n.toNat?, c.toNat? with
    | some t, some n, some c =>
      (s, match ((hRegister s.hhist).handlers t n c).getLast? with | some v => toString v | none => "none")
    | _, _, _ => (s, "bad-op")
  | ["hrun", seeds, order, keys, univ, outs] =>
    match nats ',' seeds, nats ',' order, nats ',' keys, nats ',' univ, parseOutcomes outs with
    | some sd, some o, some ks, some u, some outs =>
      let r := hRegister s.hhist
      let w := hWorld (s.env outs) r
      let seed : Inst := fun c => if sd.contains c then some (.atom 0) else none
      let (log, b) := runLogged w (fun c => ks.contains c) false o (Broker.seeded seed)
      let txt := brokerText log b u r.isPoint
      let fl := match toFlat s.hhist with
        | none => "n/a"
        | some (pts, fh) =>
          let root := rootOfPts pts
          let (log', b') := runLogged (world root (s.env outs) (register root fh)) (fun c => ks.contains c) false o (Broker.seeded seed)
          if brokerText log' b' u (fun c => (root.nameOf c).isSome) == txt then "agree" else "DISAGREE"
      (s, txt ++ "|flat=" ++ fl)
    | _, _, _, _, _ => (s, "bad-op")
  | _ => (s, "bad-op")

def main : IO Unit := serveState ({} : St) handle
