import IV.Model.Proto
import IV.Model.Specs
open IV IV.Proto IV.Dr IV.Specs

/-! Driver for C05: a root class (points), a registration history, the generated datasources; then
`reg` (what registration leaves behind), `run` (evaluation under seeded contexts), `sup` (the rule). -/

inductive BodySpec where
  | val | none | fault (e : Exc)

structure St where
  points : List (Name × Comp) := []
  hist : History := []
  decls : List (Comp × Decl) := []

def nats (sep : Char) (s : String) : Option (List Nat) :=
  if s = "-" ∨ s = "" then some [] else
  (s.splitOn (String.singleton sep)).foldr (fun p acc => match acc, p.toNat? with
    | some l, some n => some (n :: l) | _, _ => none) (some [])

def parseItems (s : String) : Option (List Item) :=
  if s = "-" then some [] else
  (s.splitOn ";").foldr (fun p acc => match acc with
    | none => none
    | some l =>
      if p.startsWith "o" then (p.drop 1).toString.toNat?.map (fun n => Item.one n :: l)
      else if p.startsWith "g" then (nats ',' (p.drop 1).toString).map (fun cs => Item.group cs :: l)
      else none) (some [])

/-- entries: `name:impl:c.c.c;name:impl:-` -/
def parseEntries (s : String) : Option (List Entry) :=
  if s = "-" then some [] else
  (s.splitOn ";").foldr (fun p acc => match acc, p.splitOn ":" with
    | some l, [n, v, cs] => match n.toNat?, v.toNat?, nats '.' cs with
      | some n, some v, some cs => some (⟨n, v, cs⟩ :: l)
      | _, _, _ => none
    | _, _ => none) (some [])

def parseBody (s : String) : Option BodySpec :=
  match s with
  | "v" => some .val | "n" => some .none | "skip" => some (.fault .skip) | "content" => some (.fault .content)
  | "crash" => some (.fault (.crash 1)) | _ => none

/-- outcomes: `cid=v,cid=skip` -/
def parseOutcomes (s : String) : Option (List (Comp × BodySpec)) :=
  if s = "-" then some [] else
  (s.splitOn ",").foldr (fun p acc => match acc, p.splitOn "=" with
    | some l, [c, b] => match c.toNat?, parseBody b with
      | some c, some b => some ((c, b) :: l)
      | _, _ => none
    | _, _ => none) (some [])

def St.root (s : St) : Root where
  registry n := (s.points.find? (·.1 == n)).map (·.2)
  nameOf c := (s.points.find? (·.2 == c)).map (·.1)

def St.env (s : St) (outs : List (Comp × BodySpec)) : World where
  decl c := (s.decls.find? (·.1 == c)).map (·.2)
  enabled _ := true
  ignore _ := []
  regPoints _ := []
  body c _ := match ((outs.find? (·.1 == c)).map (·.2) : Option BodySpec) with
    | some BodySpec.val => .value (.atom (1000 + c))
    | some BodySpec.none => .value .none
    | some (BodySpec.fault e) => .fault e
    | none => .fault .badDecl
  elemBody _ _ := .noResult

def showNats (sep : String) (xs : List Nat) : String := if xs.isEmpty then "" else sep.intercalate (xs.map toString)

def insSorted (x : Nat) : List Nat → List Nat
  | [] => [x]
  | y :: ys => if x < y then x :: y :: ys else if x = y then y :: ys else y :: insSorted x ys
def sortDedup (l : List Nat) : List Nat := l.foldr insSorted []

def showVal : Val → String
  | .none => "N" | .atom n => s!"A{n}" | .multi _ => "M" | .resp n => s!"R{n}" | .skipResp _ _ => "S" | .noneResp => "Z"

def handle (s : St) (fs : List String) : St × String :=
  match fs with
  | ["new"] => ({}, "ok")
  | ["point", n, c] =>
    match n.toNat?, c.toNat? with
    | some n, some c => ({ s with points := s.points ++ [(n, c)] }, "ok")
    | _, _ => (s, "bad-op")
  | ["class", d, es] =>
    match decBool d, parseEntries es with
    | some d, some es => ({ s with hist := s.hist ++ [⟨d, es⟩] }, "ok")
    | _, _ => (s, "bad-op")
  | ["decl", c, items, opt] =>
    match c.toNat?, parseItems items, nats ',' opt with
    | some c, some it, some op => ({ s with decls := s.decls ++ [(c, ⟨.datasource, it, op⟩)] }, "ok")
    | _, _, _ => (s, "bad-op")
  | ["reg", names, comps] =>
    -- dependency order of the points `names`, IGNORE of the components `comps` (a set: sorted, deduplicated)
    match nats ',' names, nats ',' comps with
    | some ns, some cs =>
      let r := register s.root s.hist
      let deps := ";".intercalate (ns.map (fun n => s!"{n}:{showNats "," (r.deps n)}"))
      let ign := ";".intercalate ((cs.filter (fun c => !(r.ignore c).isEmpty)).map
        (fun c => s!"{c}:{showNats "," (sortDedup (r.ignore c))}"))
      (s, s!"deps={deps}|ign={ign}")
    | _, _ => (s, "bad-op")
  | ["sup", n, c] =>
    match n.toNat?, c.toNat? with
    | some n, some c =>
      (s, match supplier s.hist n c with | some v => toString v | none => "none")
    | _, _ => (s, "bad-op")
  | ["run", seeds, order, keys, univ, outs] =>
    match nats ',' seeds, nats ',' order, nats ',' keys, nats ',' univ, parseOutcomes outs with
    | some sd, some o, some ks, some u, some outs =>
      let w := world s.root (s.env outs) (register s.root s.hist)
      let seed : Inst := fun c => if sd.contains c then some (.atom 0) else none
      let (log, b) := runLogged w (fun c => ks.contains c) false o (Broker.seeded seed)
      let inst := u.filterMap (fun c => (b.inst c).map (fun v => s!"{c}:{showVal v}"))
      let miss := u.filterMap (fun c => (b.missing c).map (fun m =>
        s!"{c}:{showNats ";" m.required}/{"&".intercalate (m.atLeastOne.map (showNats ";"))}"))
      (s, "inst=" ++ " ".intercalate inst ++ "|missing=" ++ " ".intercalate miss ++ "|inv=" ++
        showNats "," (sortDedup (log.filter (fun c => (s.root.nameOf c).isNone))))   -- the generated bodies only (a point's body is RegistryPoint.__call__)
    | _, _, _, _, _ => (s, "bad-op")
  | _ => (s, "bad-op")

def main : IO Unit := serveState ({} : St) handle
