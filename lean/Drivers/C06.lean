import IV.Model.Proto
import IV.Model.Paths
open IV IV.Proto IV.Paths

/-! line-protocol driver for C06 (glue, not model).
Nested lists: items separated by ',', sub-fields by ':', sub-sub-fields by ';'; strings hex (Proto). -/

def splitList (sep : String) (f : String) : List String := if f = "-" || f = "" then [] else f.splitOn sep

/-- optional string: "~" = None -/
def decOpt (f : String) : Option (Option Str) :=
  if f = "~" then some none else (decStr f).map some

def decStrs (sep : String) (f : String) : Option (List Str) :=
  if f = "_" then some [] else
  (f.splitOn sep).foldr (fun p acc => match acc, decStr p with
    | some l, some s => some (s :: l)
    | _, _ => none) (some [])

/-- list of tuples: tuples separated by ',', members by ';' ; "_" = empty list, "()" = empty tuple -/
def decTuples (f : String) : Option (List (List Str)) :=
  if f = "_" then some [] else
  (f.splitOn ",").foldr (fun p acc => match acc, (if p = "()" then some [] else decStrs ";" p) with
    | some l, some t => some (t :: l)
    | _, _ => none) (some [])

structure FsRow where
  path : Str
  ex : Bool
  real : Str
  rd : Bool
  dir : Bool

def decRow (f : String) : Option FsRow :=
  match f.splitOn ":" with
  | [p, e, r, a, d] => do
    let p ← decStr p; let e ← decBool e; let r ← decStr r; let a ← decBool a; let d ← decBool d
    pure ⟨p, e, r, a, d⟩
  | _ => none

def decAll {α : Type} (dec : String → Option α) (f : String) : Option (List α) :=
  if f = "_" then some [] else
  (f.splitOn ",").foldr (fun p acc => match acc, dec p with
    | some l, some x => some (x :: l)
    | _, _ => none) (some [])

def decGlobRow (f : String) : Option (Str × List Str) :=
  match f.splitOn ":" with
  | [p, rs] => do let p ← decStr p; let rs ← decStrs ";" rs; pure (p, rs)
  | _ => none

def decCmdRow (f : String) : Option (Str × Option Bool) :=
  match f.splitOn ":" with
  | [c, "n"] => (decStr c).map (·, none)
  | [c, "1"] => (decStr c).map (·, some true)
  | [c, "0"] => (decStr c).map (·, some false)
  | _ => none

def mkFs (rows : List FsRow) (globs : List (Str × List Str)) (cmds : List (Str × Option Bool)) : Fs :=
  { exists_ := fun p => match rows.find? (·.path == p) with | some r => r.ex | none => false
    realpath := fun p => match rows.find? (·.path == p) with | some r => r.real | none => p
    readable := fun p => match rows.find? (·.path == p) with | some r => r.rd | none => false
    isDir := fun p => match rows.find? (·.path == p) with | some r => r.dir | none => false
    glob := fun p => match globs.find? (·.1 == p) with | some r => r.2 | none => []
    cmdOk := fun c => match cmds.find? (·.1 == c) with | some r => r.2 | none => some false }

def showErr : Err → String
  | .notFound => "content" | .noAccess => "content" | .tooMany => "content"
  | .noFilter => "nofilter" | .blacklisted => "blacklisted" | .outside => "other" | .badCmd => "other"

/-- exact error (not collapsed to the exception class) for the single-constructor stream -/
def showErrExact : Err → String
  | .notFound => "notfound" | .noAccess => "noaccess" | .tooMany => "toomany"
  | .noFilter => "nofilter" | .blacklisted => "blacklisted" | .outside => "outside" | .badCmd => "badcmd"

def showProv (out : Str) (p : Prov) : String :=
  let ev := match p.load with
    | .open_ root rel => "o:" ++ encStr (join root rel)
    | .exec cmd => "x:" ++ encStr cmd
  let rel := serRel p.kind p.rel p.saveAs
  ev ++ ":" ++ encStr rel ++ ":" ++ encStr (render (norm (dst (dataRoot out) rel)))

def decFactory (kind : String) (a b : String) : Option Factory :=
  match kind with
  | "simple_file" => (decStr a).map .simpleFile
  | "glob_file" => (decStrs "," a).map .globFile
  | "first_file" => (decStrs "," a).map .firstFile
  | "foreach_collect" => do let t ← decStr a; let it ← decTuples b; pure (.foreachCollect t it)
  | "simple_command" => (decStr a).map .simpleCommand
  | "command_with_args" => do let t ← decStr a; let it ← decStrs ";" b; pure (.commandWithArgs t it)
  | "foreach_execute" => do let t ← decStr a; let it ← decTuples b; pure (.foreachExecute t it)
  | "container_execute" => do let t ← decStr a; let it ← decTuples b; pure (.containerExecute t it)
  | "container_collect" => do let t ← decOpt a; let it ← decTuples b; pure (.containerCollect t it)
  | _ => none

def normSave (kind : String) (raw : Option Str) : Option Str :=
  match kind with
  | "simple_file" | "first_file" => saveAsFile raw
  | "glob_file" | "foreach_collect" => saveAsDir raw
  | "simple_command" | "command_with_args" => saveAsCmd raw
  | _ => none

def isInfix (lit s : Str) : Bool :=
  match s with
  | [] => lit.isEmpty
  | c :: cs => lit.isPrefixOf (c :: cs) || isInfix lit cs

def decItem (f : String) : Option Item :=
  if f = "#" then some .other else (decStr f).map .str

/-- a deny-list section as written: "~" absent, "!" not iterable, "s:<hex>" a bare string, "l:<items by ';'>" ("l:_" = []) -/
def decSect (f : String) : Option Sect :=
  match f.splitOn ":" with
  | ["~"] => some .absent
  | ["!"] => some .noniter
  | ["s", x] => (decStr x).map .str
  | ["l", r] =>
    if r = "_" then some (.list []) else
    ((r.splitOn ";").foldr (fun p acc => match acc, decItem p with
      | some l, some x => some (x :: l)
      | _, _ => none) (some [])).map .list
  | _ => none

def decCfgs : List String → Option (List Cfg)
  | [] => some []
  | f :: c :: k :: rest =>
    match decStrs "," f, decStrs "," c, decStrs "," k, decCfgs rest with
    | some f, some c, some k, some r => some (⟨f, c, k⟩ :: r)
    | _, _, _, _ => none
  | _ => none

def showProc (p : Proc) : String :=
  encList (p.files.map encStr) ++ " " ++ encList (p.commands.map encStr) ++ " " ++ encList (p.disabled.map encStr)

/-- the state after each collect() of a history, one after the other -/
def histStates (isSpec isComp : Str → Bool) : Proc → List Cfg → List Proc
  | _, [] => []
  | st, c :: cs => let st' := collectStep isSpec isComp st c; st' :: histStates isSpec isComp st' cs

def handle (fs : List String) : String :=
  match fs with
  | "hist" :: specs :: known :: rest =>
    match decStrs "," specs, decStrs "," known, decCfgs rest with
    | some specs, some known, some cfgs =>
      "|".intercalate ((histStates (fun s => specs.contains s) (fun s => known.contains s) {} cfgs).map showProc)
    | _, _, _ => "bad-op"
  | ["vchk", kind, found, host, filterable, hasFilters, cand, deny, contained, readable] =>
    match decBool found, decBool host, decBool filterable, decBool hasFilters, decStr cand, decStrs "," deny,
          decBool contained, decBool readable with
    | some found, some host, some filterable, some hasFilters, some cand, some deny, some contained, some readable =>
      let i : VIn := { found := found, host := host, filterable := filterable, hasFilters := hasFilters,
                       allowed := allow deny cand, contained := contained, readable := readable }
      let cs := if kind = "file" then some fileChecks else if kind = "cmd" then some cmdChecks else none
      match cs with
      | none => "bad-op"
      | some cs => match runChecks i cs with
        | .ok _ => "ok"
        | .error e => showErrExact e
    | _, _, _, _, _, _, _, _ => "bad-op"
  | ["blseq", files, cmds, comps, specs, known] =>
    match decSect files, decSect cmds, decSect comps, decStrs "," specs, decStrs "," known with
    | some files, some cmds, some comps, some specs, some known =>
      match applyBlacklistSeq (fun s => specs.contains s) (fun s => known.contains s) files cmds comps with
      | .error _ => "abort"
      | .ok d => "ok " ++ encList (d.files.map encStr) ++ " " ++ encList (d.commands.map encStr) ++ " " ++ encList (d.disabled.map encStr)
    | _, _, _, _, _ => "bad-op"
  | ["acc", r, p] =>
    match decStr r, decStr p with
    | some r, some p => (if accept r p then "1" else "0") ++ (if acceptOld r p then "1" else "0")
    | _, _ => "bad-op"
  | ["deny", c, d] =>
    match decStr c, decStrs "," d with
    | some c, some d => if allow d c then "1" else "0"
    | _, _ => "bad-op"
  | ["mkfile", host, root, arg, ex, realRoot, resolved, rd, deny] =>
    match decBool host, decStr root, decStr arg, decBool ex, decStr realRoot, decStr resolved, decBool rd, decStrs "," deny with
    | some host, some root, some arg, some ex, some realRoot, some resolved, some rd, some deny =>
      let path := join root (lstripSep arg)
      let f : Fs := { exists_ := fun _ => ex, realpath := fun p => if p == path then resolved else realRoot,
                      readable := fun _ => rd, isDir := fun _ => false, glob := fun _ => [], cmdOk := fun _ => none }
      -- root and path may coincide as strings (arg empty): then both resolve to the same thing anyway
      let f := if path == root then { f with realpath := fun _ => resolved } else f
      match mkFile f ⟨host, root, deny, []⟩ {} arg with
      | .ok p => "ok " ++ encStr (join p.root p.rel)
      | .error e => showErrExact e
    | _, _, _, _, _, _, _, _ => "bad-op"
  | ["fac", kind, a, b, host, root, realRoot, denyF, denyC, save, ign, maxf, nofilt, out, rows, globs, cmds] =>
    match decBool nofilt with
    | none => "bad-op"
    | some nofilt =>
    match decFactory kind a b, decBool host, decStr root, decStr realRoot, decStrs "," denyF, decStrs "," denyC,
          decOpt save, decOpt ign, decNat maxf, decStr out, decAll decRow rows, decAll decGlobRow globs, decAll decCmdRow cmds with
    | some f, some host, some root, some realRoot, some denyF, some denyC, some save, some ign, some maxf, some out,
      some rows, some globs, some cmds =>
      let fsv := mkFs (⟨root, true, realRoot, true, true⟩ :: rows) globs cmds
      let sp : Spec := { noFilters := nofilt, saveAs := normSave kind save,
                         ignore := match ign with | some l => isInfix l | none => fun _ => false,
                         maxFiles := maxf }
      match f.run isWordAscii fsv ⟨host, root, denyF, denyC⟩ sp with
      | .ok ps => " ".intercalate ("ok" :: ps.map (showProv out))
      | .error e => showErr e
    | _, _, _, _, _, _, _, _, _, _, _, _, _ => "bad-op"
  | ["mangle", c] =>
    match decStr c with
    | some c => encStr (mangle isWordAscii c)
    | none => "bad-op"
  | ["ser", kind, rel, save, out] =>
    let k : Option PKind := match kind with
      | "file" => some .file | "command" => some .command
      | "container_file" => some .containerFile | "container_cmd" => some .containerCmd | _ => none
    match k, decStr rel, decOpt save, decStr out with
    | some k, some rel, some save, some out =>
      let r := serRel k rel save
      encStr r ++ " " ++ encStr (dst out r) ++ " " ++ encStr (render (norm (dst out r)))
    | _, _, _, _ => "bad-op"
  | ["join", a, b] =>
    match decStr a, decStr b with
    | some a, some b => encStr (join a b)
    | _, _ => "bad-op"
  | ["base", a] => match decStr a with | some a => encStr (basename a) | none => "bad-op"
  | ["lstrip", a] => match decStr a with | some a => encStr (lstripSep a) | none => "bad-op"
  | ["rstrip", a] => match decStr a with | some a => encStr (rstripSep a) | none => "bad-op"
  | ["strip", a] => match decStr a with | some a => encStr (stripSep a) | none => "bad-op"
  | ["norm", a] => match decStr a with | some a => encStr (render (norm a)) | none => "bad-op"
  | ["splitws", k, a] =>
    match decNat k, decStr a with
    | some k, some a => encList ((splitWs k a).map encStr)
    | _, _ => "bad-op"
  | ["fmt", t, as] =>
    match decStr t, decStrs ";" as with
    | some t, some as => match fmt t as with | some r => "ok " ++ encStr r | none => "err"
    | _, _ => "bad-op"
  | ["hyd", root, name] =>
    match decStr root, decStr name with
    | some root, some name => encStr (dataRoot root) ++ " " ++ encStr (metaPath root name)
    | _, _ => "bad-op"
  | ["bl", files, cmds, comps, specs, known] =>
    match decStrs "," files, decStrs "," cmds, decStrs "," comps, decStrs "," specs, decStrs "," known with
    | some files, some cmds, some comps, some specs, some known =>
      let d := applyBlacklist (fun s => specs.contains s) (fun s => known.contains s) files cmds comps
      encList (d.files.map encStr) ++ " " ++ encList (d.commands.map encStr) ++ " " ++ encList (d.disabled.map encStr)
    | _, _, _, _, _ => "bad-op"
  | _ => "bad-op"

def main : IO Unit := serve handle
