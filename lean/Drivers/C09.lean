import IV.Model.CleanReportProto
/-! driver for C09: the protocol handler of IV/Model/CleanProto.lean (shared by C09 and C10) extended by the
`report` request of IV/Model/CleanReportProto.lean -/
def main : IO Unit := IV.Proto.serveState ({} : IV.CleanProto.D) IV.CleanReportProto.handle
