import IV.Lemmas.ClientState
/-!
C17 — client identity and registration markers stay coherent over any history.

Every theorem is about `IV.ClientState.step` / `exec` / `trace`, the model of
generate_machine_id, write_registered_file, write_unregistered_file, delete_registered_file,
delete_unregistered_file and write_to_disk (insights/client/utilities.py), for ALL environments
(which configuration directories exist), ALL initial file-system states (any mix of absent / file /
symlink / directory at the five locations, any outside symlink targets), ALL inputs (fresh UUID stream,
subscription identity, dates) and ALL finite histories.
-/
namespace IV.ClientState

/-- explicit requests for a new identifier: a forced regeneration, or an unregistration path that deletes the file
    (connection.unregister, client.handle_unregistration, support.registration_check told "not registered") -/
def Op.isNew : Op → Bool
  | .newId _ _ _ => true
  | .connUnregister => true
  | .handleUnregistration _ => true
  | .registrationCheck http _ _ => http == some false
  | .legacyRegistrationCheck api _ _ => !(api == .registered || api == .unreachable)
  | .legacyHandleRegistration api _ _ _ _ => !(api == .registered || api == .unreachable)
  | .legacyHandleUnregistration _ _ _ _ _ _ => true
  | _ => false

/-- operations that hand out the identifier (through any entry point) -/
def Op.isId : Op → Bool
  | .readId _ _ _ => true
  | .newId _ _ _ => true
  | .fetch _ _ => true
  | _ => false

/-- the four marker helpers of utilities.py -/
def Op.isMarker : Op → Bool
  | .register => true
  | .unregister _ => true
  | .deleteRegistered => true
  | .deleteUnregistered => true
  | _ => false

/-- register / unregister -/
def Op.isWriter : Op → Bool
  | .register => true
  | .unregister _ => true
  | _ => false

/-! ### (1) every returned identifier is canonical -/

/-- whatever `uuid.UUID(s.strip(), version=4)` accepts is rendered 8-4-4-4-12, lower-case hex,
    version digit 4, variant digit 8..b — for every input string -/
theorem canon_is_canonical (raw x : Str) (h : canon raw = some x) : Canonical x := canon_canonical raw x h

example : canon "  {3F0E7C1A5B2D1E6F0A9B0C1D2E3F4A5B}\n".toList = some "3f0e7c1a-5b2d-4e6f-8a9b-0c1d2e3f4a5b".toList := by decide

theorem step_id_canonical (E : Env) (fs : FS) (op : Op) (x : Str) (h : (step E fs op).2 = .id x) : Canonical x := by
  have gen : ∀ new r f, (genId E fs new r f).2 = .id x → Canonical x := by
    intro new r f h
    rcases genId_cases E fs new r f with ⟨c, _, _, _, hg⟩ | ⟨m, hg⟩
    · rw [hg] at h; exact canon_canonical _ _ (ofCanon_id _ _ h)
    · rw [hg] at h; simp only at h
      split at h
      · exact canon_canonical _ _ (ofCanon_id _ _ h)
      · cases h
  cases op with
  | readId rd r f => exact gen _ _ _ h
  | newId w r f => exact gen _ _ _ h
  | fetch r f =>
    simp only [step] at h
    rcases fetch_cases E fs r f with e | e
    · rw [e] at h; exact gen _ _ _ h
    · rw [e] at h; cases h
  | register => exact absurd h (writeState_not_id _ _ _ _ _ _)
  | unregister d => exact absurd h (writeState_not_id _ _ _ _ _ _)
  | deleteRegistered => simp only [step, ofOk] at h; split at h <;> cases h
  | deleteUnregistered => simp only [step, ofOk] at h; split at h <;> cases h
  | connUnregister => exact absurd h (connUnregister_not_id E fs x)
  | handleUnregistration force => exact absurd h (handleUnregistration_not_id E fs force x)
  | registrationCheck http r f => exact absurd h (registrationCheck_not_id E fs http r f x)
  | legacyRegistrationCheck a r f => exact absurd h (legacyRegistrationCheck_not_id E fs a r f x)
  | legacyHandleRegistration a reg r f f2 => exact absurd h (legacyHandleRegistration_not_id E fs a reg r f f2 x)
  | legacyHandleUnregistration a fo ok r f f2 => exact absurd h (legacyHandleUnregistration_not_id E fs a fo ok r f f2 x)
  | rc412 d => simp [step, rc412] at h

/-- over any history from any state: every identifier that is returned is canonical -/
theorem id_canonical (E : Env) (fs : FS) (h : List Op) (x : Str) (hx : Res.id x ∈ trace E fs h) : Canonical x := by
  induction h generalizing fs with
  | nil => simp [trace] at hx
  | cons o h ih =>
    simp only [trace, List.mem_cons] at hx
    rcases hx with hx | hx
    · exact step_id_canonical E fs o x hx.symm
    · exact ih _ hx

example : Res.id "3f0e7c1a-5b2d-4e6f-8a9b-0c1d2e3f4a5b".toList ∈
    trace ⟨fun _ => true, fun _ => false⟩ ⟨fun l => if l = .id then .file "3F0E7C1A5B2D1E6F0A9B0C1D2E3F4A5B".toList else .absent, fun _ => .absent⟩
      [.register, .readId .clientObj none []] := by decide

/-! ### frames: which operation may touch what -/

/-- marker operations (register, unregister, both deletions) never touch the identifier file nor any
    outside path — in particular no symlink is ever followed -/
theorem marker_ops_frame (E : Env) (fs : FS) (op : Op) (hop : op.isMarker = true) :
    (step E fs op).1.ext = fs.ext ∧ (step E fs op).1.node .id = fs.node .id := by
  have dl : ∀ mk, (∀ d, Loc.id ≠ mk d) →
      (deleteMarkers E mk fs).1.ext = fs.ext ∧ (deleteMarkers E mk fs).1.node .id = fs.node .id := by
    intro mk h1
    have a := deleteMarkers_onlyMk E mk fs
    exact ⟨a.1, a.2 _ h1⟩
  cases op with
  | register => exact writeState_frame _ _ _ _ _ (by intro d; simp) (by intro d; simp)
  | unregister d => exact writeState_frame _ _ _ _ _ (by intro d; simp) (by intro d; simp)
  | deleteRegistered => exact dl _ (by intro d; simp)
  | deleteUnregistered => exact dl _ (by intro d; simp)
  | _ => cases hop

/-- identifier operations (any reader, any regenerator, the inventory look-up) never touch a marker -/
theorem id_ops_frame (E : Env) (fs : FS) (op : Op) (hop : op.isId = true) (l : Loc) (hl : l ≠ .id) :
    (step E fs op).1.node l = fs.node l := by
  cases op with
  | readId rd r f => exact genId_node_ne E fs false r f l hl
  | newId w r f => exact genId_node_ne E fs true r f l hl
  | fetch r f => exact fetch_node_ne E fs r f l hl
  | _ => cases hop

/-- the unregistration entry points unlink; no outside path (symlink target) is ever touched by them -/
theorem unregistration_paths_frame (E : Env) (fs : FS) :
    (step E fs .connUnregister).1.ext = fs.ext ∧
    ∀ force, (step E fs (.handleUnregistration force)).1.ext = fs.ext := by
  have cu : (connUnregister E fs).1.1.ext = fs.ext := by
    unfold connUnregister; split
    · exact unregisterAndDrop_ext E fs
    · rfl
  refine ⟨cu, fun force => ?_⟩
  simp only [step, handleUnregistration]
  split
  · split
    · exact (unregisterAndDrop_ext E _).trans cu
    · exact cu
  · exact cu

/-! ### the error branches -/

/-- an OSError escapes only where the real calls raise one: a directory sits at a marker location that has
    to be unlinked, the unlink is denied (EPERM / EACCES / EROFS / EBUSY … — every errno but ENOENT, for root and
    non-root alike), or the identifier file (or the target of its symlink) is a directory -/
theorem oserror_needs_directory (E : Env) (fs : FS) (op : Op) (hop : (op.isId || op.isMarker) = true)
    (h : (step E fs op).2 = .oserror) :
    (∃ l, look E fs l = .dir ∨ E.denied l = true) ∨ (∃ k, look E fs .id = .link k ∧ fs.ext k = .dir) := by
  have gen0 : ∀ new r f, (genId E fs new r f).2 = .oserror →
      (∃ l, look E fs l = .dir) ∨ (∃ k, look E fs .id = .link k ∧ fs.ext k = .dir) := by
    intro new r f h
    rcases genId_cases E fs new r f with ⟨c, _, _, _, hg⟩ | ⟨m, hg⟩
    · rw [hg] at h; simp only [ofCanon] at h; split at h <;> cases h
    · rw [hg] at h; simp only at h
      split at h
      · simp only [ofCanon] at h; split at h <;> cases h
      · rename_i hw
        revert hw
        unfold wtdWrite
        split
        · simp
        · rename_i hd; simp at hd
          cases hn : fs.node .id with
          | absent => simp
          | file c => simp
          | dir => intro _; exact Or.inl ⟨.id, by simp [look, hd, hn]⟩
          | link k =>
            simp only
            cases he : fs.ext k with
            | absent => simp
            | file c => simp
            | dir => intro _; exact Or.inr ⟨k, by simp [look, hd, hn], he⟩
  have gen : ∀ new r f, (genId E fs new r f).2 = .oserror →
      (∃ l, look E fs l = .dir ∨ E.denied l = true) ∨ (∃ k, look E fs .id = .link k ∧ fs.ext k = .dir) :=
    fun new r f h => (gen0 new r f h).imp (fun ⟨l, hl⟩ => ⟨l, Or.inl hl⟩) id
  have wr : ∀ del mk c, del true ≠ del false → (writeState E del mk c fs).2 = .oserror →
      ∃ l, look E fs l = .dir ∨ E.denied l = true := by
    intro del mk c hne h
    unfold writeState at h
    simp only at h
    split at h
    · simp [writeMarkers_ok, ofOk] at h
    · rename_i hf
      obtain ⟨d, hd⟩ := deleteMarkers_false E del fs hne (by simpa using hf)
      exact ⟨_, hd⟩
  have dl : ∀ mk, mk true ≠ mk false → ofOk (deleteMarkers E mk fs).2 = .oserror →
      ∃ l, look E fs l = .dir ∨ E.denied l = true := by
    intro mk hne h
    cases hf : (deleteMarkers E mk fs).2 with
    | true => rw [hf] at h; cases h
    | false => obtain ⟨d, hd⟩ := deleteMarkers_false E mk fs hne hf; exact ⟨_, hd⟩
  cases op with
  | readId rd r f => exact gen _ _ _ h
  | newId w r f => exact gen _ _ _ h
  | fetch r f =>
    simp only [step] at h
    rcases fetch_cases E fs r f with e | e
    · rw [e] at h; exact gen _ _ _ h
    · rw [e] at h; cases h
  | register => exact Or.inl (wr _ _ _ (by simp) h)
  | unregister d => exact Or.inl (wr _ _ _ (by simp) h)
  | deleteRegistered => exact Or.inl (dl _ (by simp) h)
  | deleteUnregistered => exact Or.inl (dl _ (by simp) h)
  | connUnregister => cases hop
  | handleUnregistration force => cases hop
  | registrationCheck http r f => cases hop
  | legacyRegistrationCheck a r f => cases hop
  | legacyHandleRegistration a reg r f f2 => cases hop
  | legacyHandleUnregistration a fo ok r f f2 => cases hop
  | rc412 d => cases hop

example : (step ⟨fun _ => true, fun _ => false⟩ ⟨fun l => if l = .unreg true then .dir else .absent, fun _ => .absent⟩ .register).2 = .oserror := by
  decide

/-! ### (3) a read never rewrites an existing identifier file -/

/-- `read_is_file`: through EVERY entry point a read that finds a non-empty identifier file (directly or through
    a symlink) returns the canonical form of exactly that content and leaves the WHOLE file system as it is —
    legacy spellings included: only the returned value is canonicalised; content that is no UUID makes the call
    exit (`invalid`), still without a write.  No reader has a source for the identifier other than the file. -/
theorem read_is_file (E : Env) (fs : FS) (rd : Reader) (r : Option Str) (f c : Str)
    (h : readsAs E fs = some c) (hc : c ≠ []) :
    step E fs (.readId rd r f) = (fs, ofCanon c) ∧ step E fs (.fetch r f) = (fs, ofCanon c) := by
  simp [step, genId_reuse E fs r f c h hc, fetch_reuse E fs r f c h hc]

theorem read_never_rewrites (E : Env) (fs : FS) (rd : Reader) (r : Option Str) (f c : Str)
    (h : readsAs E fs = some c) (hc : c ≠ []) :
    (step E fs (.readId rd r f)).1 = fs ∧ (step E fs (.readId rd r f)).2 = ofCanon c := by
  simp [(read_is_file E fs rd r f c h hc).1]

example : readsAs ⟨fun _ => true, fun _ => false⟩ ⟨fun l => if l = .id then .link 2 else .absent, fun k => if k = 2 then .file ['x'] else .absent⟩
    = some ['x'] := by decide

/-- along any history without a request for a new identifier a non-empty identifier file keeps its bytes -/
theorem idfile_stable (E : Env) (fs : FS) (h : List Op) (c : Str) (hn : ∀ o ∈ h, o.isNew = false)
    (hr : readsAs E fs = some c) (hc : c ≠ []) : readsAs E (exec E fs h) = some c := by
  induction h generalizing fs with
  | nil => exact hr
  | cons o h ih =>
    simp only [exec]
    apply ih _ (fun o' ho' => hn o' (List.mem_cons_of_mem _ ho'))
    have hno := hn o List.mem_cons_self
    have mk : o.isMarker = true → readsAs E (step E fs o).1 = some c := by
      intro hm
      have fr := marker_ops_frame E fs o hm
      rw [readsAs_congr E fs _ fr.1 fr.2]; exact hr
    cases o with
    | readId rd r f => rw [(read_is_file E fs rd r f c hr hc).1]; exact hr
    | fetch r f => rw [(read_is_file E fs .default r f c hr hc).2]; exact hr
    | newId w r f => simp [Op.isNew] at hno
    | connUnregister => simp [Op.isNew] at hno
    | handleUnregistration force => simp [Op.isNew] at hno
    | registrationCheck http r f =>
      exact registrationCheck_keeps E fs http r f c (by intro e; simp [Op.isNew, e] at hno) hr hc
    | legacyRegistrationCheck a r f =>
      exact legacyRegistrationCheck_keeps E fs a r f c (by cases a <;> simp [Op.isNew] at hno ⊢) hr hc
    | legacyHandleUnregistration a fo ok r f f2 => simp [Op.isNew] at hno
    | rc412 d =>
      have fr := marker_ops_frame E fs (.unregister d) rfl
      simp only [step, rc412] at fr ⊢
      rw [readsAs_congr E fs _ fr.1 fr.2]; exact hr
    | legacyHandleRegistration a reg r f f2 =>
      exact legacyHandleRegistration_keeps E fs a reg r f f2 c (by cases a <;> simp [Op.isNew] at hno ⊢) hr hc
    | register => exact mk rfl
    | unregister d => exact mk rfl
    | deleteRegistered => exact mk rfl
    | deleteUnregistered => exact mk rfl

/-! ### (2) the identifier stays the same until a new one is requested -/

/-- FULL statement: after an identifier operation returned `x`, any later read returns `x` again as
    long as no regeneration was requested in between — whatever else (reads, registrations,
    unregistrations, deletions) happened. -/
def IdStable : Prop :=
  ∀ (E : Env) (fs : FS) (h1 : List Op) (a : Op) (h2 : List Op) (rd : Reader) (r : Option Str) (f x : Str),
    a.isId = true → (step E (exec E fs h1) a).2 = .id x → (∀ o ∈ h2, o.isNew = false) →
    (step E (exec E fs (h1 ++ a :: h2)) (.readId rd r f)).2 = .id x

/-- the full statement holds PROVIDED the default configuration directory exists: whatever entry point
    handed out `x` (any reader, any regenerator), every later read through ANY entry point returns `x` until a new
    identifier is requested — and once one is requested (`a` a regenerator) every reader sees the new one -/
theorem id_stable_partial (E : Env) (hD : E.has false = true) (fs : FS) (h1 : List Op) (a : Op) (h2 : List Op)
    (rd : Reader) (r : Option Str) (f x : Str) (ha : a.isId = true) (hx : (step E (exec E fs h1) a).2 = .id x)
    (hn : ∀ o ∈ h2, o.isNew = false) :
    (step E (exec E fs (h1 ++ a :: h2)) (.readId rd r f)).2 = .id x := by
  have hold : Holds E (step E (exec E fs h1) a).1 x := by
    cases a with
    | readId rd' r' f' => exact genId_holds E _ false r' f' x hD hx
    | newId w' r' f' => exact genId_holds E _ true r' f' x hD hx
    | fetch r' f' =>
      simp only [step] at hx ⊢
      rcases fetch_cases E (exec E fs h1) r' f' with e | e
      · rw [e] at hx ⊢; exact genId_holds E _ false r' f' x hD hx
      · rw [e] at hx; cases hx
    | _ => cases ha
  obtain ⟨c, hr, hc, hcx⟩ := hold
  rw [exec_append]
  simp only [exec]
  have := idfile_stable E _ h2 c hn hr hc
  rw [(read_never_rewrites E _ rd r f c this hc).2]
  simp [ofCanon, hcx]

/-- all readers agree: after ANY history, ask any two entry points one after the other — the second returns
    what the first returned (configuration directory present) -/
theorem readers_agree (E : Env) (hD : E.has false = true) (fs : FS) (h : List Op) (rd1 rd2 : Reader)
    (r1 r2 : Option Str) (f1 f2 x : Str) (hx : (step E (exec E fs h) (.readId rd1 r1 f1)).2 = .id x) :
    (step E (exec E fs (h ++ [.readId rd1 r1 f1])) (.readId rd2 r2 f2)).2 = .id x :=
  id_stable_partial E hD fs h (.readId rd1 r1 f1) [] rd2 r2 f2 x rfl hx (by simp)

example : (step ⟨fun _ => true, fun _ => false⟩ (exec ⟨fun _ => true, fun _ => false⟩ ⟨fun _ => .absent, fun _ => .absent⟩
    [.connUnregister, .newId .createSystem none "11111111-1111-4111-8111-111111111111".toList, .register])
    (.readId .clientFn none [])).2 = .id "11111111-1111-4111-8111-111111111111".toList := by decide

example : (⟨fun d => !d, fun _ => false⟩ : Env).has false = true := rfl

/-- …and is FALSE without it: directory absent, two reads, two different identifiers (known finding
    `absent-config-dir`; replayed against the implementation from corpus/C17/absent-config-dir.json) -/
theorem id_unstable_witness : ¬ IdStable := by
  intro h
  have := h ⟨fun _ => false, fun _ => false⟩ ⟨fun _ => .absent, fun _ => .absent⟩ []
    (.readId .default none "11111111-1111-4111-8111-111111111111".toList) [] .clientFn none
    "22222222-2222-4222-8222-222222222222".toList "11111111-1111-4111-8111-111111111111".toList rfl (by decide) (by simp)
  revert this
  decide

/-- why: while the default configuration directory is missing a read persists nothing and, absent a
    subscription identity, returns (the canonical form of) the fresh UUID — a new one on every call -/
theorem absent_dir_read_is_fresh (E : Env) (hE : E.has false = false) (fs : FS) (rd : Reader) (f : Str) :
    step E fs (.readId rd none f) = (fs, ofCanon f) := by
  simp [step, genId, readsAs, look, Loc.dir, hE, wtdWrite, chooseId]

/-- with no configuration directory at all, no history changes anything (write_to_disk returns silently) -/
theorem absent_dirs_persist_nothing (E : Env) (hE : ∀ d, E.has d = false) (fs : FS) (h : List Op) :
    exec E fs h = fs := by
  have del : ∀ (s : FS) (l : Loc), wtdDelete E s l = (s, true) := by intro s l; simp [wtdDelete, hE]
  have wm : ∀ (c : Str) (s : FS) (l : Loc), writeMarker E c s l = (s, true) := by
    intro c s l; simp [writeMarker, look, wtdWrite, hE]
  have ws : ∀ (dl mk : Bool → Loc) (c : Str) (s : FS), writeState E dl mk c s = (s, .done) := by
    intro dl mk c s; simp [writeState, deleteMarkers, writeMarkers, forDirs, del, wm, ofOk]
  have ud : ∀ (s : FS), unregisterAndDrop E s = (s, .done) := by
    intro s; simp [unregisterAndDrop, ws, del, ofOk]
  have st : ∀ (s : FS) (o : Op), (step E s o).1 = s := by
    intro s o
    cases o with
    | readId rd r f => simp [step, genId, readsAs, look, hE, wtdWrite]
    | newId w r f => simp [step, genId, hE, wtdWrite]
    | fetch r f => simp [step, fetch, idIsFile, readsAs, look, hE]
    | register => simp [step, ws]
    | unregister d => simp [step, ws]
    | deleteRegistered => simp [step, deleteMarkers, forDirs, del]
    | deleteUnregistered => simp [step, deleteMarkers, forDirs, del]
    | connUnregister => simp [step, connUnregister, idIsFile, existsFollow, readsAs, look, hE]
    | handleUnregistration force =>
      simp [step, handleUnregistration, connUnregister, idIsFile, existsFollow, readsAs, look, hE, ud]
    | registrationCheck http r f =>
      simp [step, registrationCheck, fetch, idIsFile, existsFollow, readsAs, look, hE, ud]
    | legacyRegistrationCheck a r f =>
      simp [step, legacyRegistrationCheck, legacySync, fetch, idIsFile, readsAs, look, hE, ud]
    | legacyHandleRegistration a reg r f f2 =>
      have gi : ∀ (s : FS) (f' : Str), (genId E s false r f').1 = s := by
        intro s f'; simp [genId, readsAs, look, hE, wtdWrite]
      have lc : (legacyRegistrationCheck E s a r f).1 = s := by
        simp [legacyRegistrationCheck, legacySync, fetch, idIsFile, readsAs, look, hE, ud]
      simp only [step]
      unfold legacyHandleRegistration
      simp only
      repeat' split
      all_goals simp [ws, gi, lc]
    | rc412 d => simp [step, rc412, ws]
    | legacyHandleUnregistration a fo ok r f f2 =>
      have gi : ∀ (s : FS) (f' : Str), (genId E s false r f').1 = s := by
        intro s f'; simp [genId, readsAs, look, hE, wtdWrite]
      have lc : (legacyRegistrationCheck E s a r f).1 = s := by
        simp [legacyRegistrationCheck, legacySync, fetch, idIsFile, readsAs, look, hE, ud]
      simp only [step]
      unfold legacyHandleUnregistration
      simp only
      repeat' split
      all_goals simp [ud, gi, lc]
  induction h generalizing fs with
  | nil => rfl
  | cons o h ih => simp only [exec, st]; exact ih fs

/-! ### (4) the two markers never coexist -/

/-- a register / unregister that returns establishes exclusivity (`Excl`: no configuration directory holds both
    `.registered` and `.unregistered`, as file, symlink or directory) from ANY state — both markers present,
    planted symlinks, … included -/
theorem writer_establishes_excl (E : Env) (fs : FS) (op : Op) (hop : op.isWriter = true)
    (hr : (step E fs op).2 = .done) : Excl E (step E fs op).1 := by
  cases op with
  | register => exact register_done_excl E _ fs hr
  | unregister date => exact unregister_done_excl E _ fs hr
  | _ => cases hop

/-- EVERY operation — the marker helpers, every reader / regenerator, the unregistration and registration-check
    entry points — preserves exclusivity, whether it returns or raises half-way -/
theorem excl_preserved (E : Env) (fs : FS) (op : Op) (h : Excl E fs) : Excl E (step E fs op).1 := by
  cases op with
  | readId rd r f => exact h.of_markers_same (fun l hl => id_ops_frame E fs (.readId rd r f) rfl l hl)
  | newId w r f => exact h.of_markers_same (fun l hl => id_ops_frame E fs (.newId w r f) rfl l hl)
  | fetch r f => exact h.of_markers_same (fun l hl => id_ops_frame E fs (.fetch r f) rfl l hl)
  | register => exact register_excl E _ fs h
  | unregister date => exact unregister_excl E _ fs h
  | deleteRegistered => exact h.of_shrinks (deleteMarkers_shrinks E .reg fs)
  | deleteUnregistered => exact h.of_shrinks (deleteMarkers_shrinks E .unreg fs)
  | connUnregister => exact connUnregister_excl E fs h
  | handleUnregistration force => exact handleUnregistration_excl E fs force h
  | registrationCheck http r f => exact registrationCheck_excl E fs http r f h
  | legacyRegistrationCheck a r f => exact legacyRegistrationCheck_excl E fs a r f h
  | legacyHandleRegistration a reg r f f2 => exact legacyHandleRegistration_excl E fs a reg r f f2 h
  | legacyHandleUnregistration a fo ok r f f2 => exact legacyHandleUnregistration_excl E fs a fo ok r f f2 h
  | rc412 d => exact unregister_excl E _ fs h

/-- the faulted removal: when unlinking the opposite marker is denied (any errno but ENOENT, any uid) the
    register / unregister raises BEFORE the new marker is written — markers that did not coexist still do not,
    in the default and in the legacy directory, and nothing at the new marker's location changed -/
theorem denied_removal_fails_before_write (E : Env) (fs : FS) (d : Bool) (hd : E.has d = true) :
    (E.denied (.unreg d) = true → (∃ n, look E fs (.unreg d) = n ∧ n ≠ .absent) →
      (step E fs .register).2 = .oserror ∧ ∀ d', look E (step E fs .register).1 (.reg d') = look E fs (.reg d')) ∧
    (∀ date, E.denied (.reg d) = true → (∃ n, look E fs (.reg d) = n ∧ n ≠ .absent) →
      (step E fs (.unregister date)).2 = .oserror ∧
        ∀ d', look E (step E fs (.unregister date)).1 (.unreg d') = look E fs (.unreg d')) := by
  have key : ∀ (del mk : Bool → Loc) (c : Str), (∀ d, (del d).dir = d) → (∀ a b, mk a ≠ del b) → E.denied (del d) = true →
      (∃ n, look E fs (del d) = n ∧ n ≠ .absent) →
      (writeState E del mk c fs).2 = .oserror ∧ ∀ d', look E (writeState E del mk c fs).1 (mk d') = look E fs (mk d') := by
    intro del mk c hdir hne hden ⟨n, hn, hna⟩
    have hfail : (deleteMarkers E del fs).2 = false := by
      cases hok : (deleteMarkers E del fs).2 with
      | false => rfl
      | true =>
        -- had the loop returned, the denied marker would be gone; but a denied unlink removes nothing
        exfalso
        have gone := deleteMarkers_ok E del fs hok d
        have keep : ∀ (s : FS), look E s (del d) ≠ .absent → (wtdDelete E s (del d)).2 = true → False := by
          intro s hs hw
          unfold wtdDelete at hw
          simp only [hdir, hd, Bool.not_true, Bool.false_eq_true, if_false, hden, if_true] at hw
          unfold look at hs
          simp only [hdir, hd, if_true] at hs
          split at hw <;> simp_all
        unfold deleteMarkers forDirs at hok
        simp only at hok
        split at hok
        · rename_i h1
          cases d
          · exact keep fs (by rw [hn]; exact hna) h1
          · refine keep _ ?_ hok
            rw [onlyAt_look (wtdDelete_onlyAt E fs (del false)) E (del true)
              (by intro e; have := hdir true; rw [e, hdir false] at this; cases this), hn]
            exact hna
        · cases hok
    rcases writeState_res E del mk c fs with ⟨_, hok, _⟩ | ⟨herr, hfs⟩
    · rw [hfail] at hok; cases hok
    · refine ⟨herr, fun d' => ?_⟩
      rw [hfs, onlyMk_look (deleteMarkers_onlyMk E del fs) E (mk d') (fun b => hne d' b)]
  refine ⟨fun hden hn => ?_, fun date hden hn => ?_⟩
  · exact key .unreg .reg timeStamp (fun _ => rfl) (by intro a b; simp) hden hn
  · exact key .reg .unreg (dateOr date) (fun _ => rfl) (by intro a b; simp) hden hn

example : (step ⟨fun _ => true, fun l => l = .reg false⟩ ⟨fun l => if l = .reg false then .file ['r'] else .absent, fun _ => .absent⟩
    (.unregister none)).2 = .oserror := by decide

theorem excl_exec (E : Env) (fs : FS) (h : List Op) (hx : Excl E fs) : Excl E (exec E fs h) := by
  induction h generalizing fs with
  | nil => exact hx
  | cons o h ih => exact ih _ (excl_preserved E fs o hx)

/-- over any history from any state: once one register / unregister has returned, the markers never
    coexist again, whatever follows -/
theorem markers_exclusive (E : Env) (fs : FS) (h1 : List Op) (op : Op) (h2 : List Op) (hop : op.isWriter = true)
    (hr : (step E (exec E fs h1) op).2 = .done) : Excl E (exec E fs (h1 ++ op :: h2)) := by
  rw [exec_append]
  exact excl_exec E _ h2 (writer_establishes_excl E _ op hop hr)

example : (step ⟨fun _ => true, fun _ => false⟩ ⟨fun l => match l with | .id => .absent | .reg _ => .link 0 | .unreg _ => .file ['o'],
    fun _ => .absent⟩ .register).2 = .done := by decide

/-! ### (5) a symlink planted at a marker location is replaced, not followed -/

/-- after a register that returned, in every existing configuration directory `.registered` is what
    `markerAfter` says: a symlink (or nothing) became a regular file holding the time stamp, a regular file
    or directory stayed; never a symlink.  Together with `marker_ops_frame` (no outside path and not the
    identifier file was touched) the symlink was replaced, not followed. -/
theorem symlink_replaced_register (E : Env) (fs : FS) (hr : (step E fs .register).2 = .done) (d : Bool)
    (hd : E.has d = true) :
    look E (step E fs .register).1 (.reg d) = markerAfter timeStamp (look E fs (.reg d)) := by
  simp only [step] at hr ⊢
  rcases writeState_res E .unreg .reg timeStamp fs with ⟨_, _, hfs⟩ | ⟨herr, _⟩
  · rw [hfs, writeMarkers_post E .reg timeStamp _ (by simp) (fun _ => rfl) d hd,
      onlyMk_look (deleteMarkers_onlyMk E .unreg fs) E (.reg d) (by intro d'; simp)]
  · rw [herr] at hr; cases hr

theorem symlink_replaced_unregister (E : Env) (fs : FS) (date : Option Str)
    (hr : (step E fs (.unregister date)).2 = .done) (d : Bool) (hd : E.has d = true) :
    look E (step E fs (.unregister date)).1 (.unreg d) =
      markerAfter (dateOr date) (look E fs (.unreg d)) := by
  simp only [step] at hr ⊢
  rcases writeState_res E .reg .unreg (dateOr date) fs with ⟨_, _, hfs⟩ | ⟨herr, _⟩
  · rw [hfs, writeMarkers_post E .unreg _ _ (by simp) (fun _ => rfl) d hd,
      onlyMk_look (deleteMarkers_onlyMk E .reg fs) E (.unreg d) (by intro d'; simp)]
  · rw [herr] at hr; cases hr

/-- the written marker is never a symlink, and a planted symlink has become a regular file -/
theorem symlink_replaced (E : Env) (fs : FS) (op : Op) (hop : op.isWriter = true) (hr : (step E fs op).2 = .done)
    (d : Bool) :
    let l : Loc := match op with | .unregister _ => .unreg d | _ => .reg d
    (∀ k, look E (step E fs op).1 l ≠ .link k) ∧
    (∀ k, look E fs l = .link k → ∃ c, look E (step E fs op).1 l = .file c) ∧
    (step E fs op).1.ext = fs.ext := by
  have key : ∀ (c : Str) (n : Node), (∀ k, markerAfter c n ≠ .link k) ∧ (∀ k, n = .link k → ∃ c', markerAfter c n = .file c') := by
    intro c n; cases n <;> simp [markerAfter]
  have fr : (step E fs op).1.ext = fs.ext := (marker_ops_frame E fs op (by cases op <;> simp_all [Op.isWriter, Op.isMarker])).1
  cases hd : E.has d with
  | false =>
    have ab : ∀ (s : FS) (l : Loc), l.dir = d → look E s l = .absent := fun s l hl => look_of_not_has E s l (by rw [hl]; exact hd)
    cases op with
    | register => simp only; rw [ab _ (.reg d) rfl, ab _ (.reg d) rfl]; simp [fr]
    | unregister date => simp only; rw [ab _ (.unreg d) rfl, ab _ (.unreg d) rfl]; simp [fr]
    | _ => cases hop
  | true =>
    cases op with
    | register =>
      simp only; rw [symlink_replaced_register E fs hr d hd]
      exact ⟨(key _ _).1, (key _ _).2, fr⟩
    | unregister date =>
      simp only; rw [symlink_replaced_unregister E fs date hr d hd]
      exact ⟨(key _ _).1, (key _ _).2, fr⟩
    | _ => cases hop

example : look ⟨fun _ => true, fun _ => false⟩ (step ⟨fun _ => true, fun _ => false⟩ ⟨fun l => if l = .reg false then .link 1 else .absent, fun _ => .dir⟩ .register).1
    (.reg false) = .file timeStamp := by decide

/-! ### (6) identifier file vs registration record: every prefix of the multi-file write sequence -/

/-- the unregistration entry points (InsightsConnection.unregister, client.handle_unregistration): whenever they
    change the identifier file — also when they raise half-way, at any of their writes — the unregistration record is
    in place: no directory holds both markers, and `.registered` is gone from every existing directory -/
theorem identifier_dropped_only_after_unregistered (E : Env) (fs : FS) (op : Op)
    (hop : op = .connUnregister ∨ ∃ force, op = .handleUnregistration force)
    (h : (step E fs op).1.node .id ≠ fs.node .id) : Excl E (step E fs op).1 := by
  have cu : (connUnregister E fs).1.1.node .id ≠ fs.node .id → Excl E (connUnregister E fs).1.1 := by
    unfold connUnregister; split
    · intro h; exact (unregisterAndDrop_id_last E fs h).2.1
    · intro h; exact absurd rfl h
  rcases hop with rfl | ⟨force, rfl⟩
  · exact cu h
  · simp only [step, handleUnregistration] at h ⊢
    split
    · split
      · rename_i h1 h2
        rw [if_pos h1, if_pos h2] at h
        by_cases h3 : (unregisterAndDrop E (connUnregister E fs).1.1).1.node .id = (connUnregister E fs).1.1.node .id
        · exact unregisterAndDrop_excl E _ (cu (by rw [← h3]; exact h))
        · exact (unregisterAndDrop_id_last E _ h3).2.1
      · rename_i h1 h2
        rw [if_pos h1, if_neg h2] at h
        exact cu h
    · rename_i h1
      rw [if_neg h1] at h
      exact cu h

example : (step ⟨fun _ => true, fun l => l = .reg true⟩ ⟨fun l => match l with | .id => .file ['x'] | .reg _ => .file ['r'] | .unreg _ => .absent,
    fun _ => .absent⟩ .connUnregister).1.node .id = .file ['x'] := by decide

/-- a denied unlink of the identifier file (EPERM / EACCES / EROFS …): InsightsConnection.unregister() reports the
    error and every reader still sees the identifier -/
theorem denied_id_removal_keeps_identifier (E : Env) (fs : FS) (hden : E.denied .id = true) (c : Str)
    (hr : readsAs E fs = some c) :
    (step E fs .connUnregister).2 = .oserror ∧ readsAs E (step E fs .connUnregister).1 = some c := by
  have hfile : idIsFile E fs = true := by simp [idIsFile, hr]
  have hne : look E fs .id ≠ .absent := by
    intro e; simp [readsAs, e] at hr
  obtain ⟨a, b⟩ := unregisterAndDrop_denied_id E fs hden
  simp only [step, connUnregister, hfile, Bool.true_or, if_true]
  exact ⟨b hne, by rw [readsAs_congr E fs _ (unregisterAndDrop_ext E fs) a]; exact hr⟩

example : (step ⟨fun _ => true, fun l => l = .id⟩ ⟨fun l => if l = .id then .file ['x'] else .absent, fun _ => .absent⟩ .connUnregister).2
    = .oserror := by decide

example : (step ⟨fun _ => true, fun _ => false⟩ ⟨fun l => if l = .id then .file ['x'] else .absent, fun _ => .absent⟩ .connUnregister).1.node .id
    ≠ Node.file ['x'] := by decide


/-- the 412 answer ("this machine was unregistered at <date>") handled by InsightsConnection.handle_fail_rcs: same
    file-system effect as write_unregistered_file(date) — never touches the identifier file or an outside path, never
    leaves both markers where they were exclusive — and the caller never sees an error -/
theorem rc412_is_unregister (E : Env) (fs : FS) (d : Option Str) :
    (step E fs (.rc412 d)).1 = (step E fs (.unregister d)).1 ∧ (step E fs (.rc412 d)).2 = .done ∧
    (step E fs (.rc412 d)).1.ext = fs.ext ∧ (step E fs (.rc412 d)).1.node .id = fs.node .id := by
  have fr := marker_ops_frame E fs (.unregister d) rfl
  exact ⟨rfl, rfl, fr.1, fr.2⟩

example : look ⟨fun _ => true, fun _ => false⟩ (step ⟨fun _ => true, fun _ => false⟩ ⟨fun l => if l = .reg false then .file ['r'] else .absent, fun _ => .absent⟩
    (.rc412 (some ['d']))).1 (.unreg false) = .file ['d'] := by decide

/-! ### (7) the legacy (`legacy_upload`) registration flow -/

/-- support.registration_check with `legacy_upload`: whatever the API answered except "unreachable" — and also when there
    is no identifier file at all — a check that returns leaves the markers exclusive, from ANY state -/
theorem legacy_check_establishes_excl (E : Env) (fs : FS) (a : Api) (r : Option Str) (f : Str)
    (ha : a ≠ .unreachable) (hr : (step E fs (.legacyRegistrationCheck a r f)).2 = .done) :
    Excl E (step E fs (.legacyRegistrationCheck a r f)).1 := by
  have ud : ∀ s, (unregisterAndDrop E s).2 = .done → Excl E (unregisterAndDrop E s).1 := by
    intro s
    unfold unregisterAndDrop
    simp only
    split
    · rename_i hd; intro _; exact (unregister_done_excl E _ s hd).of_shrinks (wtdDelete_shrinks E _ .id)
    · rename_i hd; intro h; exact absurd h hd
  have sy : ∀ s b, b ≠ Api.unreachable → (legacySync E s b).2 = .done → Excl E (legacySync E s b).1 := by
    intro s b hb
    cases b with
    | registered => exact register_done_excl E _ s
    | unreachable => exact absurd rfl hb
    | notYet => exact ud s
    | unregAt d => exact ud s
  have key : (legacyRegistrationCheck E fs a r f).2 = .done → Excl E (legacyRegistrationCheck E fs a r f).1 := by
    unfold legacyRegistrationCheck
    simp only
    split
    · exact sy _ _ ha
    · exact sy _ _ (by simp)
    · rename_i h1 h2; intro h; exact absurd h h2
  exact key hr

example : (step ⟨fun _ => true, fun _ => false⟩ ⟨fun l => match l with | .id => .absent | .reg _ => .link 0 | .unreg _ => .file ['o'],
    fun _ => .absent⟩ (.legacyRegistrationCheck (.unregAt ['d']) none [])).2 = .done := by decide

/-- when the API cannot be reached the legacy flows (status check and registration) leave the whole file system as it
    is, provided there is a non-empty identifier file to ask about -/
theorem legacy_unreachable_is_readonly (E : Env) (fs : FS) (reg : Bool) (r : Option Str) (f c : Str)
    (hr : readsAs E fs = some c) (hc : c ≠ []) :
    (step E fs (.legacyRegistrationCheck .unreachable r f)).1 = fs ∧
    ∀ f2, (step E fs (.legacyHandleRegistration .unreachable reg r f f2)).1 = fs := by
  have hf : idIsFile E fs = true := by simp [idIsFile, hr]
  have h1 : legacyRegistrationCheck E fs .unreachable r f = (fs, if (canon c).isSome then .done else .invalid) := by
    simp only [legacyRegistrationCheck, fetch_reuse E fs r f c hr hc, ofCanon]
    cases canon c <;> simp [legacySync]
  refine ⟨by simp [step, h1], fun f2 => ?_⟩
  simp only [step, legacyHandleRegistration, h1, effApi, hf, if_true]
  cases canon c <;> simp

example : readsAs ⟨fun _ => true, fun _ => false⟩ ⟨fun l => if l = .id then .file ['x'] else .absent, fun _ => .absent⟩ = some ['x'] := by
  decide

end IV.ClientState
