import IV.Lemmas.ClientState
/-!
C17 — client identity and registration markers stay coherent over any history.

Every theorem is about `IV.ClientState.step` / `exec` / `trace`, the model of
generate_machine_id, write_registered_file, write_unregistered_file, delete_registered_file,
delete_unregistered_file and write_to_disk (insights/client/utilities.py), for ALL environments
(which configuration directories exist), ALL initial file-system states (any mix of absent / file /
symlink / directory at the five locations, any outside symlink targets), ALL inputs (fresh UUID stream,
subscription identity, dates) and ALL finite histories.
-/
namespace IV.ClientState

def Op.isNew : Op → Bool
  | .newId _ _ => true
  | _ => false

def Op.isId : Op → Bool
  | .readId _ _ => true
  | .newId _ _ => true
  | _ => false

/-- register / unregister -/
def Op.isWriter : Op → Bool
  | .register => true
  | .unregister _ => true
  | _ => false

/-! ### (1) every returned identifier is canonical -/

/-- whatever `uuid.UUID(s.strip(), version=4)` accepts is rendered 8-4-4-4-12, lower-case hex,
    version digit 4, variant digit 8..b — for every input string -/
theorem canon_is_canonical (raw x : Str) (h : canon raw = some x) : Canonical x := canon_canonical raw x h

example : canon "  {3F0E7C1A5B2D1E6F0A9B0C1D2E3F4A5B}\n".toList = some "3f0e7c1a-5b2d-4e6f-8a9b-0c1d2e3f4a5b".toList := by decide

theorem step_id_canonical (E : Env) (fs : FS) (op : Op) (x : Str) (h : (step E fs op).2 = .id x) : Canonical x := by
  have gen : ∀ new r f, (genId E fs new r f).2 = .id x → Canonical x := by
    intro new r f h
    rcases genId_cases E fs new r f with ⟨c, _, _, _, hg⟩ | ⟨m, hg⟩
    · rw [hg] at h; exact canon_canonical _ _ (ofCanon_id _ _ h)
    · rw [hg] at h; simp only at h
      split at h
      · exact canon_canonical _ _ (ofCanon_id _ _ h)
      · cases h
  have wr : ∀ del mk c, (writeState E del mk c fs).2 ≠ .id x := by
    intro del mk c
    rcases writeState_res E del mk c fs with h | h <;> simp [h.1]
  cases op with
  | readId r f => exact gen _ _ _ h
  | newId r f => exact gen _ _ _ h
  | register => exact absurd h (wr _ _ _)
  | unregister d => exact absurd h (wr _ _ _)
  | deleteRegistered => simp only [step, ofOk] at h; split at h <;> cases h
  | deleteUnregistered => simp only [step, ofOk] at h; split at h <;> cases h

/-- over any history from any state: every identifier that is returned is canonical -/
theorem id_canonical (E : Env) (fs : FS) (h : List Op) (x : Str) (hx : Res.id x ∈ trace E fs h) : Canonical x := by
  induction h generalizing fs with
  | nil => simp [trace] at hx
  | cons o h ih =>
    simp only [trace, List.mem_cons] at hx
    rcases hx with hx | hx
    · exact step_id_canonical E fs o x hx.symm
    · exact ih _ hx

example : Res.id "3f0e7c1a-5b2d-4e6f-8a9b-0c1d2e3f4a5b".toList ∈
    trace ⟨fun _ => true⟩ ⟨fun l => if l = .id then .file "3F0E7C1A5B2D1E6F0A9B0C1D2E3F4A5B".toList else .absent, fun _ => .absent⟩
      [.register, .readId none []] := by decide

/-! ### frames: which operation may touch what -/

/-- marker operations (register, unregister, both deletions) never touch the identifier file nor any
    outside path — in particular no symlink is ever followed -/
theorem marker_ops_frame (E : Env) (fs : FS) (op : Op) (hop : op.isId = false) :
    (step E fs op).1.ext = fs.ext ∧ (step E fs op).1.node .id = fs.node .id := by
  have wr : ∀ del mk c, (∀ d, Loc.id ≠ del d) → (∀ d, Loc.id ≠ mk d) →
      (writeState E del mk c fs).1.ext = fs.ext ∧ (writeState E del mk c fs).1.node .id = fs.node .id := by
    intro del mk c h1 h2
    obtain ⟨mid, a, b⟩ := writeState_onlyMk E del mk c fs
    exact ⟨b.1.trans a.1, (b.2 _ h2).trans (a.2 _ h1)⟩
  have dl : ∀ mk, (∀ d, Loc.id ≠ mk d) →
      (deleteMarkers E mk fs).1.ext = fs.ext ∧ (deleteMarkers E mk fs).1.node .id = fs.node .id := by
    intro mk h1
    have a := deleteMarkers_onlyMk E mk fs
    exact ⟨a.1, a.2 _ h1⟩
  cases op with
  | readId r f => cases hop
  | newId r f => cases hop
  | register => exact wr _ _ _ (by intro d; simp) (by intro d; simp)
  | unregister d => exact wr _ _ _ (by intro d; simp) (by intro d; simp)
  | deleteRegistered => exact dl _ (by intro d; simp)
  | deleteUnregistered => exact dl _ (by intro d; simp)

/-- identifier operations never touch a marker -/
theorem id_ops_frame (E : Env) (fs : FS) (op : Op) (hop : op.isId = true) (l : Loc) (hl : l ≠ .id) :
    (step E fs op).1.node l = fs.node l := by
  have gen : ∀ new r f, (genId E fs new r f).1.node l = fs.node l := by
    intro new r f
    rcases genId_cases E fs new r f with ⟨c, _, _, _, hg⟩ | ⟨m, hg⟩
    · rw [hg]
    · rw [hg]; exact wtdWrite_node_ne E fs .id l m hl
  cases op with
  | readId r f => exact gen _ _ _
  | newId r f => exact gen _ _ _
  | register => cases hop
  | unregister d => cases hop
  | deleteRegistered => cases hop
  | deleteUnregistered => cases hop

/-! ### the error branches -/

/-- an OSError escapes only where the real calls raise one: a directory sits at a marker location that has
    to be unlinked, or the identifier file (or the target of its symlink) is a directory -/
theorem oserror_needs_directory (E : Env) (fs : FS) (op : Op) (h : (step E fs op).2 = .oserror) :
    (∃ l, look E fs l = .dir) ∨ (∃ k, look E fs .id = .link k ∧ fs.ext k = .dir) := by
  have gen : ∀ new r f, (genId E fs new r f).2 = .oserror →
      (∃ l, look E fs l = .dir) ∨ (∃ k, look E fs .id = .link k ∧ fs.ext k = .dir) := by
    intro new r f h
    rcases genId_cases E fs new r f with ⟨c, _, _, _, hg⟩ | ⟨m, hg⟩
    · rw [hg] at h; simp only [ofCanon] at h; split at h <;> cases h
    · rw [hg] at h; simp only at h
      split at h
      · simp only [ofCanon] at h; split at h <;> cases h
      · rename_i hw
        revert hw
        unfold wtdWrite
        split
        · simp
        · rename_i hd; simp at hd
          cases hn : fs.node .id with
          | absent => simp
          | file c => simp
          | dir => intro _; exact Or.inl ⟨.id, by simp [look, hd, hn]⟩
          | link k =>
            simp only
            cases he : fs.ext k with
            | absent => simp
            | file c => simp
            | dir => intro _; exact Or.inr ⟨k, by simp [look, hd, hn], he⟩
  have wr : ∀ del mk c, del true ≠ del false → (writeState E del mk c fs).2 = .oserror → ∃ l, look E fs l = .dir := by
    intro del mk c hne h
    unfold writeState at h
    simp only at h
    split at h
    · simp [writeMarkers_ok, ofOk] at h
    · rename_i hf
      obtain ⟨d, hd⟩ := deleteMarkers_false E del fs hne (by simpa using hf)
      exact ⟨_, hd⟩
  have dl : ∀ mk, mk true ≠ mk false → ofOk (deleteMarkers E mk fs).2 = .oserror → ∃ l, look E fs l = .dir := by
    intro mk hne h
    cases hf : (deleteMarkers E mk fs).2 with
    | true => rw [hf] at h; cases h
    | false => obtain ⟨d, hd⟩ := deleteMarkers_false E mk fs hne hf; exact ⟨_, hd⟩
  cases op with
  | readId r f => exact gen _ _ _ h
  | newId r f => exact gen _ _ _ h
  | register => exact Or.inl (wr _ _ _ (by simp) h)
  | unregister d => exact Or.inl (wr _ _ _ (by simp) h)
  | deleteRegistered => exact Or.inl (dl _ (by simp) h)
  | deleteUnregistered => exact Or.inl (dl _ (by simp) h)

example : (step ⟨fun _ => true⟩ ⟨fun l => if l = .unreg true then .dir else .absent, fun _ => .absent⟩ .register).2 = .oserror := by
  decide

/-! ### (3) a read never rewrites an existing identifier file -/

/-- a read that finds a non-empty identifier file (directly or through a symlink) leaves the WHOLE
    file system as it is — legacy spellings included: only the returned value is canonicalised;
    content that is no UUID makes the call exit (`invalid`), still without a write -/
theorem read_never_rewrites (E : Env) (fs : FS) (r : Option Str) (f c : Str)
    (h : readsAs E fs = some c) (hc : c ≠ []) :
    (step E fs (.readId r f)).1 = fs ∧ (step E fs (.readId r f)).2 = ofCanon c := by
  simp [step, genId_reuse E fs r f c h hc]

example : readsAs ⟨fun _ => true⟩ ⟨fun l => if l = .id then .link 2 else .absent, fun k => if k = 2 then .file ['x'] else .absent⟩
    = some ['x'] := by decide

/-- along any history without a forced regeneration a non-empty identifier file keeps its bytes -/
theorem idfile_stable (E : Env) (fs : FS) (h : List Op) (c : Str) (hn : ∀ o ∈ h, o.isNew = false)
    (hr : readsAs E fs = some c) (hc : c ≠ []) : readsAs E (exec E fs h) = some c := by
  induction h generalizing fs with
  | nil => exact hr
  | cons o h ih =>
    simp only [exec]
    apply ih _ (fun o' ho' => hn o' (List.mem_cons_of_mem _ ho'))
    cases ho : o.isId
    · have fr := marker_ops_frame E fs o ho
      rw [readsAs_congr E fs _ fr.1 fr.2]; exact hr
    · cases o with
      | readId r f => rw [(read_never_rewrites E fs r f c hr hc).1]; exact hr
      | newId r f => have := hn (.newId r f) List.mem_cons_self; simp [Op.isNew] at this
      | register => cases ho
      | unregister d => cases ho
      | deleteRegistered => cases ho
      | deleteUnregistered => cases ho

/-! ### (2) the identifier stays the same until a new one is requested -/

/-- FULL statement: after an identifier operation returned `x`, any later read returns `x` again as
    long as no regeneration was requested in between — whatever else (reads, registrations,
    unregistrations, deletions) happened. -/
def IdStable : Prop :=
  ∀ (E : Env) (fs : FS) (h1 : List Op) (a : Op) (h2 : List Op) (r : Option Str) (f x : Str),
    a.isId = true → (step E (exec E fs h1) a).2 = .id x → (∀ o ∈ h2, o.isNew = false) →
    (step E (exec E fs (h1 ++ a :: h2)) (.readId r f)).2 = .id x

/-- the full statement holds PROVIDED the default configuration directory exists -/
theorem id_stable_partial (E : Env) (hD : E.has false = true) (fs : FS) (h1 : List Op) (a : Op) (h2 : List Op)
    (r : Option Str) (f x : Str) (ha : a.isId = true) (hx : (step E (exec E fs h1) a).2 = .id x)
    (hn : ∀ o ∈ h2, o.isNew = false) :
    (step E (exec E fs (h1 ++ a :: h2)) (.readId r f)).2 = .id x := by
  have hold : Holds E (step E (exec E fs h1) a).1 x := by
    cases a with
    | readId r' f' => exact genId_holds E _ false r' f' x hD hx
    | newId r' f' => exact genId_holds E _ true r' f' x hD hx
    | register => cases ha
    | unregister d => cases ha
    | deleteRegistered => cases ha
    | deleteUnregistered => cases ha
  obtain ⟨c, hr, hc, hcx⟩ := hold
  rw [exec_append]
  simp only [exec]
  have := idfile_stable E _ h2 c hn hr hc
  rw [(read_never_rewrites E _ r f c this hc).2]
  simp [ofCanon, hcx]

example : (⟨fun d => !d⟩ : Env).has false = true := rfl

/-- …and is FALSE without it: directory absent, two reads, two different identifiers (known finding
    `absent-config-dir`; replayed against the implementation from corpus/C17/absent-config-dir.json) -/
theorem id_unstable_witness : ¬ IdStable := by
  intro h
  have := h ⟨fun _ => false⟩ ⟨fun _ => .absent, fun _ => .absent⟩ []
    (.readId none "11111111-1111-4111-8111-111111111111".toList) [] none
    "22222222-2222-4222-8222-222222222222".toList "11111111-1111-4111-8111-111111111111".toList rfl (by decide) (by simp)
  revert this
  decide

/-- why: while the default configuration directory is missing a read persists nothing and, absent a
    subscription identity, returns (the canonical form of) the fresh UUID — a new one on every call -/
theorem absent_dir_read_is_fresh (E : Env) (hE : E.has false = false) (fs : FS) (f : Str) :
    step E fs (.readId none f) = (fs, ofCanon f) := by
  simp [step, genId, readsAs, look, Loc.dir, hE, wtdWrite, chooseId]

/-- with no configuration directory at all, no history changes anything (write_to_disk returns silently) -/
theorem absent_dirs_persist_nothing (E : Env) (hE : ∀ d, E.has d = false) (fs : FS) (h : List Op) :
    exec E fs h = fs := by
  have del : ∀ (s : FS) (l : Loc), wtdDelete E s l = (s, true) := by intro s l; simp [wtdDelete, hE]
  have wm : ∀ (c : Str) (s : FS) (l : Loc), writeMarker E c s l = (s, true) := by
    intro c s l; simp [writeMarker, look, wtdWrite, hE]
  have st : ∀ (s : FS) (o : Op), (step E s o).1 = s := by
    intro s o
    cases o with
    | readId r f => simp [step, genId, readsAs, look, hE, wtdWrite]
    | newId r f => simp [step, genId, hE, wtdWrite]
    | register => simp [step, writeState, deleteMarkers, writeMarkers, forDirs, del, wm]
    | unregister d => simp [step, writeState, deleteMarkers, writeMarkers, forDirs, del, wm]
    | deleteRegistered => simp [step, deleteMarkers, forDirs, del]
    | deleteUnregistered => simp [step, deleteMarkers, forDirs, del]
  induction h generalizing fs with
  | nil => rfl
  | cons o h ih => simp only [exec, st]; exact ih fs

/-! ### (4) the two markers never coexist -/

/-- no configuration directory holds both `.registered` and `.unregistered` (as file, symlink or directory) -/
def Excl (E : Env) (fs : FS) : Prop :=
  ∀ d, look E fs (.reg d) = .absent ∨ look E fs (.unreg d) = .absent

theorem Excl.of_shrinks {E : Env} {fs fs' : FS} (h : Excl E fs) (s : Shrinks E fs fs') : Excl E fs' := by
  intro d
  rcases h d with h | h
  · left; rcases s (.reg d) with e | e
    · rw [e]; exact h
    · exact e
  · right; rcases s (.unreg d) with e | e
    · rw [e]; exact h
    · exact e

/-- a register / unregister that returns establishes exclusivity from ANY state (both markers present,
    planted symlinks, … included) -/
theorem writer_establishes_excl (E : Env) (fs : FS) (op : Op) (hop : op.isWriter = true)
    (hr : (step E fs op).2 = .done) : Excl E (step E fs op).1 := by
  have wr : ∀ del mk c, (∀ d d', del d ≠ mk d') → (writeState E del mk c fs).2 = .done →
      ∀ d, look E (writeState E del mk c fs).1 (del d) = .absent := by
    intro del mk c hdm hdone d
    rcases writeState_res E del mk c fs with ⟨_, hok, hfs⟩ | ⟨herr, _⟩
    · rw [hfs, onlyMk_look (writeMarkers_onlyMk E mk c _) E (del d) (fun d' => hdm d d')]
      exact deleteMarkers_ok E del fs hok d
    · rw [herr] at hdone; cases hdone
  cases op with
  | register => exact fun d => Or.inr (wr .unreg .reg _ (by intro d d'; simp) hr d)
  | unregister date => exact fun d => Or.inl (wr .reg .unreg _ (by intro d d'; simp) hr d)
  | readId r f => cases hop
  | newId r f => cases hop
  | deleteRegistered => cases hop
  | deleteUnregistered => cases hop

/-- every operation, whether it returns or raises half-way, preserves exclusivity -/
theorem excl_preserved (E : Env) (fs : FS) (op : Op) (h : Excl E fs) : Excl E (step E fs op).1 := by
  have wr : ∀ del mk c, (∀ d d', del d ≠ mk d') →
      (Excl E (writeState E del mk c fs).1 ∨ (writeState E del mk c fs).2 = .done) := by
    intro del mk c hdm
    rcases writeState_res E del mk c fs with ⟨hd, _, _⟩ | ⟨_, hfs⟩
    · exact Or.inr hd
    · left; rw [hfs]; exact h.of_shrinks (deleteMarkers_shrinks E del fs)
  cases hop : op.isId
  · cases op with
    | readId r f => cases hop
    | newId r f => cases hop
    | register =>
      rcases wr .unreg .reg timeStamp (by intro d d'; simp) with e | e
      · exact e
      · exact writer_establishes_excl E fs .register rfl e
    | unregister date =>
      rcases wr .reg .unreg (dateOr date) (by intro d d'; simp) with e | e
      · exact e
      · exact writer_establishes_excl E fs (.unregister date) rfl e
    | deleteRegistered => exact h.of_shrinks (deleteMarkers_shrinks E .reg fs)
    | deleteUnregistered => exact h.of_shrinks (deleteMarkers_shrinks E .unreg fs)
  · intro d
    have a := id_ops_frame E fs op hop (.reg d) (by simp)
    have b := id_ops_frame E fs op hop (.unreg d) (by simp)
    simpa [look, a, b] using h d

theorem excl_exec (E : Env) (fs : FS) (h : List Op) (hx : Excl E fs) : Excl E (exec E fs h) := by
  induction h generalizing fs with
  | nil => exact hx
  | cons o h ih => exact ih _ (excl_preserved E fs o hx)

/-- over any history from any state: once one register / unregister has returned, the markers never
    coexist again, whatever follows -/
theorem markers_exclusive (E : Env) (fs : FS) (h1 : List Op) (op : Op) (h2 : List Op) (hop : op.isWriter = true)
    (hr : (step E (exec E fs h1) op).2 = .done) : Excl E (exec E fs (h1 ++ op :: h2)) := by
  rw [exec_append]
  exact excl_exec E _ h2 (writer_establishes_excl E _ op hop hr)

example : (step ⟨fun _ => true⟩ ⟨fun l => match l with | .id => .absent | .reg _ => .link 0 | .unreg _ => .file ['o'],
    fun _ => .absent⟩ .register).2 = .done := by decide

/-! ### (5) a symlink planted at a marker location is replaced, not followed -/

/-- after a register that returned, in every existing configuration directory `.registered` is what
    `markerAfter` says: a symlink (or nothing) became a regular file holding the time stamp, a regular file
    or directory stayed; never a symlink.  Together with `marker_ops_frame` (no outside path and not the
    identifier file was touched) the symlink was replaced, not followed. -/
theorem symlink_replaced_register (E : Env) (fs : FS) (hr : (step E fs .register).2 = .done) (d : Bool)
    (hd : E.has d = true) :
    look E (step E fs .register).1 (.reg d) = markerAfter timeStamp (look E fs (.reg d)) := by
  simp only [step] at hr ⊢
  rcases writeState_res E .unreg .reg timeStamp fs with ⟨_, _, hfs⟩ | ⟨herr, _⟩
  · rw [hfs, writeMarkers_post E .reg timeStamp _ (by simp) (fun _ => rfl) d hd,
      onlyMk_look (deleteMarkers_onlyMk E .unreg fs) E (.reg d) (by intro d'; simp)]
  · rw [herr] at hr; cases hr

theorem symlink_replaced_unregister (E : Env) (fs : FS) (date : Option Str)
    (hr : (step E fs (.unregister date)).2 = .done) (d : Bool) (hd : E.has d = true) :
    look E (step E fs (.unregister date)).1 (.unreg d) =
      markerAfter (dateOr date) (look E fs (.unreg d)) := by
  simp only [step] at hr ⊢
  rcases writeState_res E .reg .unreg (dateOr date) fs with ⟨_, _, hfs⟩ | ⟨herr, _⟩
  · rw [hfs, writeMarkers_post E .unreg _ _ (by simp) (fun _ => rfl) d hd,
      onlyMk_look (deleteMarkers_onlyMk E .reg fs) E (.unreg d) (by intro d'; simp)]
  · rw [herr] at hr; cases hr

/-- the written marker is never a symlink, and a planted symlink has become a regular file -/
theorem symlink_replaced (E : Env) (fs : FS) (op : Op) (hop : op.isWriter = true) (hr : (step E fs op).2 = .done)
    (d : Bool) :
    let l : Loc := match op with | .unregister _ => .unreg d | _ => .reg d
    (∀ k, look E (step E fs op).1 l ≠ .link k) ∧
    (∀ k, look E fs l = .link k → ∃ c, look E (step E fs op).1 l = .file c) ∧
    (step E fs op).1.ext = fs.ext := by
  have key : ∀ (c : Str) (n : Node), (∀ k, markerAfter c n ≠ .link k) ∧ (∀ k, n = .link k → ∃ c', markerAfter c n = .file c') := by
    intro c n; cases n <;> simp [markerAfter]
  have fr : (step E fs op).1.ext = fs.ext := (marker_ops_frame E fs op (by cases op <;> simp_all [Op.isWriter, Op.isId])).1
  cases hd : E.has d with
  | false =>
    have ab : ∀ (s : FS) (l : Loc), l.dir = d → look E s l = .absent := fun s l hl => look_of_not_has E s l (by rw [hl]; exact hd)
    cases op with
    | register => simp only; rw [ab _ (.reg d) rfl, ab _ (.reg d) rfl]; simp [fr]
    | unregister date => simp only; rw [ab _ (.unreg d) rfl, ab _ (.unreg d) rfl]; simp [fr]
    | readId r f => cases hop
    | newId r f => cases hop
    | deleteRegistered => cases hop
    | deleteUnregistered => cases hop
  | true =>
    cases op with
    | register =>
      simp only; rw [symlink_replaced_register E fs hr d hd]
      exact ⟨(key _ _).1, (key _ _).2, fr⟩
    | unregister date =>
      simp only; rw [symlink_replaced_unregister E fs date hr d hd]
      exact ⟨(key _ _).1, (key _ _).2, fr⟩
    | readId r f => cases hop
    | newId r f => cases hop
    | deleteRegistered => cases hop
    | deleteUnregistered => cases hop

example : look ⟨fun _ => true⟩ (step ⟨fun _ => true⟩ ⟨fun l => if l = .reg false then .link 1 else .absent, fun _ => .dir⟩ .register).1
    (.reg false) = .file timeStamp := by decide

end IV.ClientState
