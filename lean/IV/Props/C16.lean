import IV.Lemmas.ClientLoad
/-!
C16 — client options resolve by precedence, and offline means no network.

Part 1 is proved against the GENERATED definitions `imply` / `validate` (IV.Gen.ClientConfig, re-translated from
insights/client/config.py at the start of every run) for EVERY environment `env` (file system, manifest table,
private attributes, the opaque method) and EVERY configuration `cfg`.  No proof names a step or a guard by index:
`cfg_simp` rewrites with whatever equations the translator produced, `simp_all` finishes.  Removing or weakening
an implication or a guard in the source makes the corresponding theorem fail to build.

Part 2 is about the hand-written loader model (IV.Model.ClientLoad): precedence, unknown names, and the
decomposition of a successful `loadAll` into `imply` / `validate`, which is what makes Part 1 speak about loaded
configurations.
-/
namespace IV.ClientLoad
open IV.ClientVal IV.ClientConfig

/-! ## Part 1: the implication table of a validated configuration -/

/-- offline ⇒ no upload, no registration, no auto-update (already after `_imply_options`) -/
theorem offline_implies (env : Env) (cfg : Cfg)
    (ho : truthy (imply env cfg Attr.offline) = true) :
    truthy (imply env cfg Attr.no_upload) = true ∧
    truthy (imply env cfg Attr.register) = false ∧
    truthy (imply env cfg Attr.auto_update) = false := by
  cfg_simp at ho ⊢
  refine ⟨?_, ?_, ?_⟩ <;> (try split) <;> simp_all

example : truthy (imply (concreteEnv [] false none) (toCfg [("offline".toList, .bool true), ("register".toList, .bool true)]) Attr.offline) = true := by
  decide

/-- offline is never combined with a status / connection-test / check-in / unregister / check-results /
diagnosis / JSON request once `_validate_options` has passed -/
theorem offline_excludes (env : Env) (cfg : Cfg)
    (hv : validate env (imply env cfg) = true)
    (ho : truthy (imply env cfg Attr.offline) = true) :
    truthy (imply env cfg Attr.status) = false ∧
    truthy (imply env cfg Attr.test_connection) = false ∧
    truthy (imply env cfg Attr.checkin) = false ∧
    truthy (imply env cfg Attr.unregister) = false ∧
    truthy (imply env cfg Attr.check_results) = false ∧
    truthy (imply env cfg Attr.diagnosis) = false ∧
    truthy (imply env cfg Attr.to_json) = false := by
  cfg_simp at hv ho ⊢
  simp only [apply_ite truthy] at hv ⊢
  simp_all

/-- an explicit output directory or file ⇒ no upload and no retained temporary archive -/
theorem output_implies (env : Env) (cfg : Cfg)
    (h : truthy (imply env cfg Attr.output_dir) = true ∨ truthy (imply env cfg Attr.output_file) = true) :
    truthy (imply env cfg Attr.no_upload) = true ∧
    truthy (imply env cfg Attr.keep_archive) = false := by
  cfg_simp at h ⊢
  constructor <;> split <;> simp_all

/-- host-name obfuscation ⇒ obfuscation -/
theorem obf_hostname_implies_obf (env : Env) (cfg : Cfg)
    (hv : validate env (imply env cfg) = true)
    (h : truthy (imply env cfg Attr.obfuscate_hostname) = true) :
    truthy (imply env cfg Attr.obfuscate) = true := by
  cfg_simp at hv h ⊢
  simp_all

/-- a conflicting combination PRESENT IN THE LOADED VALUES (before implication) is rejected by
`_validate_options`, not resolved silently: offline with any of the seven requests, host-name
obfuscation without obfuscation, both scheduling switches -/
theorem conflicts_rejected (env : Env) (cfg : Cfg)
    (h : (truthy (cfg Attr.offline) = true ∧
            (truthy (cfg Attr.status) = true ∨ truthy (cfg Attr.test_connection) = true ∨
             truthy (cfg Attr.checkin) = true ∨ truthy (cfg Attr.unregister) = true ∨
             truthy (cfg Attr.check_results) = true ∨ truthy (cfg Attr.diagnosis) = true ∨
             truthy (cfg Attr.to_json) = true)) ∨
         (truthy (cfg Attr.obfuscate_hostname) = true ∧ truthy (cfg Attr.obfuscate) = false) ∨
         (truthy (cfg Attr.enable_schedule) = true ∧ truthy (cfg Attr.disable_schedule) = true)) :
    validate env (imply env cfg) = false := by
  apply Bool.eq_false_iff.mpr
  intro hv
  cfg_simp at hv
  simp only [apply_ite truthy] at hv
  rcases h with ⟨ho, h⟩ | h | h
  · rcases h with h | h | h | h | h | h | h <;> simp_all
  · simp_all
  · simp_all

example : truthy (toCfg [("offline".toList, .bool true), ("checkin".toList, .bool true)] Attr.offline) = true ∧
    truthy (toCfg [("offline".toList, .bool true), ("checkin".toList, .bool true)] Attr.checkin) = true := by decide

/-- an output directory and an output file that both survive implication are rejected -/
theorem output_conflict_rejected (env : Env) (cfg : Cfg)
    (h : truthy (imply env cfg Attr.output_dir) = true ∧ truthy (imply env cfg Attr.output_file) = true) :
    validate env (imply env cfg) = false := by
  apply Bool.eq_false_iff.mpr
  intro hv
  cfg_simp at hv h
  simp_all

/-! ## Part 2: the loader -/

/-- the value one `_update_dict` layer gives an option (`none`: the layer does not set it) -/
def layer (d : Dict) (k : Str) : Option PyVal := dlast (effective d) k

/-- PRECEDENCE (raw form).  After the loading steps of `load_all` (before implication) every name `k` has the value
of the command line, else of the environment, else of the file that was read, else the value it had after the
`conf`-only first pass over the command line. -/
theorem precedence (inp : Input) (s0 cli s : Dict) (h : preImply inp s0 cli = .ok s) (k : Str) :
    ∃ ed, envDict inp.envVars = some ed ∧
      dget s k = (layer cli k).orElse (fun _ => (layer ed k).orElse (fun _ =>
        (layer (fileDict (fileAt inp.files (dget (afterConfOnly s0 cli) kConf))) k).orElse
        (fun _ => dget (afterConfOnly s0 cli) k))) := by
  unfold preImply at h
  simp only [] at h
  split at h
  · cases h
  · rename_i ed hed
    injection h with h
    refine ⟨ed, hed, ?_⟩
    rw [← h]
    simp only [dget_updateDict, layer]

/-- the first, `conf_only=True`, pass over the command line when it has no `--conf`: it applies the whole command
line (which the last pass repeats) -/
theorem conf_only_pass (s0 cli : Dict) (k : Str) (h : dlast cli kConf = none) :
    dget (afterConfOnly s0 cli) k = (layer cli k).orElse (fun _ => dget s0 k) := by
  unfold afterConfOnly
  rw [h]
  simp only [dget_updateDict, layer]

/-- … and when it has `--conf P`: the pass writes only `conf`, and that value is the command line's own, so below
the command-line layer the base value is the constructed one -/
theorem conf_only_pass_conf (s0 cli : Dict) (v : PyVal) (k : Str) (h : dlast cli kConf = some v) :
    (layer cli k).orElse (fun _ => dget (afterConfOnly s0 cli) k) =
    (layer cli k).orElse (fun _ => dget s0 k) := by
  unfold afterConfOnly
  rw [h]
  simp only [dget_updateDict]
  by_cases hk : k = kConf
  · rw [hk]
    have hng : ¬ (kConf = kNoGpg) := by decide
    by_cases hp : kConf ∈ protectedNames
    · have : effective [(kConf, v)] = [] := by unfold effective; simp [List.filter, hp, dget]
      rw [this]; simp [dlast]
    · by_cases ho : kConf ∈ optNames
      · have : layer cli kConf = some v := effective_has_conf cli v h hp ho
        rw [this]; simp
      · have : effective [(kConf, v)] = [] := by unfold effective; simp [List.filter, hp, ho, dget, hng]
        rw [this]; simp [dlast]
  · rw [effective_conf v k hk]; simp

/-- PRECEDENCE, full: `command line > environment > file > constructed value (default or keyword argument)` for
every name, every command line (with or without `--conf`), every environment, every file -/
theorem precedence_full (inp : Input) (s0 cli s : Dict) (h : preImply inp s0 cli = .ok s) (k : Str) :
    ∃ ed, envDict inp.envVars = some ed ∧
      dget s k = (layer cli k).orElse (fun _ => (layer ed k).orElse (fun _ =>
        (layer (fileDict (fileAt inp.files (dget (afterConfOnly s0 cli) kConf))) k).orElse
        (fun _ => dget s0 k))) := by
  obtain ⟨ed, hed, hk⟩ := precedence inp s0 cli s h k
  refine ⟨ed, hed, ?_⟩
  rw [hk]
  cases hc : dlast cli kConf with
  | none =>
    rw [conf_only_pass s0 cli k hc]
    cases layer cli k <;> simp
  | some v =>
    have := conf_only_pass_conf s0 cli v k hc
    cases hl : layer cli k with
    | some w => simp
    | none => rw [hl] at this; simp at this; simp [this]

/-- which file is read: the one named by `--conf` when the command line has it, else by the constructed `conf` -/
theorem conf_file_choice (s0 cli : Dict) (v : PyVal) (h : dlast cli kConf = some v)
    (hp : kConf ∉ protectedNames) (ho : kConf ∈ optNames) :
    dget (afterConfOnly s0 cli) kConf = some v := by
  unfold afterConfOnly
  rw [h]
  simp only [dget_updateDict]
  have : effective [(kConf, v)] = [(kConf, v)] := by
    have hng : ¬ (kConf = kNoGpg) := by decide
    unfold effective; simp [List.filter, hp, ho, dget, hng]
  rw [this]; simp [dlast]

/-- UNKNOWN NAMES never become settings: a successful `InsightsConfig(**kw).load_all()` holds no name outside
the option table, whatever the four sources contain -/
theorem unknown_dropped (inp : Input) (s : Dict) (h : loadAll inp = .ok s) (k : Str) (hk : k ∉ optNames) :
    dget s k = none := by
  obtain ⟨s0, cli0, s1, hc, _, hp, hf⟩ := loadAll_ok inp s h
  have k0 : Known s0 := by
    unfold construct at hc
    obtain ⟨e, _, _⟩ := finish_ok _ _ _ hc
    rw [e]
    exact known_fromCfg _ _ (known_updateDict _ _ (known_updateDict _ _ known_nil))
  have k1 : Known s1 := by
    unfold preImply at hp
    simp only [] at hp
    split at hp
    · cases hp
    · injection hp with hp
      rw [← hp]
      refine known_updateDict _ _ (known_updateDict _ _ (known_updateDict _ _ ?_))
      unfold afterConfOnly
      split <;> exact known_updateDict _ _ k0
  obtain ⟨e, _, _⟩ := finish_ok _ _ _ hf
  rw [e]
  exact known_fromCfg _ _ k1 k hk

example : "no_schedule".toList ∉ optNames := by decide

/-- DECOMPOSITION: a successful load is `fromCfg (imply env c) s'` for the store `s'` before implication, the
implication did not raise, and validation passed — so Part 1 applies to `c = toCfg s'`, `env` = the concrete
environment of the run -/
theorem load_ok_decomposition (inp : Input) (s : Dict) (h : loadAll inp = .ok s) :
    ∃ (env : Env) (s' : Dict), s = fromCfg (imply env (toCfg s')) s' ∧
      truthy (imply env (toCfg s') Attr.raised_) = false ∧
      validate env (imply env (toCfg s')) = true := by
  obtain ⟨_, _, s1, _, _, _, hf⟩ := loadAll_ok inp s h
  exact ⟨_, s1, finish_ok _ _ _ hf⟩

/-- the value a loaded store holds for an attribute is the implied one -/
theorem loaded_value (c : Cfg) (s' : Dict) (a : Attr) (v : PyVal) (ha : attrOfName a.name = some a)
    (h : dget (fromCfg c s') a.name = some v) : v = c a := by
  rw [dget_fromCfg] at h
  cases hd : dget s' a.name with
  | none => rw [hd] at h; cases h
  | some w =>
    rw [hd] at h
    simp only [Option.map, fcVal, ha] at h
    injection h with h; exact h.symm

/-- `attrOfName` inverts `Attr.name` on every real attribute (so `loaded_value` applies to all of them) -/
theorem attrOfName_name (a : Attr) (h : a ≠ Attr.raised_) : attrOfName a.name = some a := by
  cases a <;> first | rfl | exact absurd rfl h

/-! ## the configuration file: raw text, option by option

`_load_config_file` parses with `ConfigParser.RawConfigParser()` — the translator reads that constructor from the source
(`fileParser`, `fileParserRaw`) and accepts nothing else — so the model's file items are the raw texts of the section.
The three theorems say that nothing in a value is special: an option without a type takes ANY text as it is and can
never make the file unusable; the file is dropped exactly when a TYPED option holds an invalid literal; and every
option's file value is a function of its own (last) raw text only — `%`, `$`, `#`, `=` … in one option change nothing
about any other. -/

example : fileParserRaw = true := rfl

/-- an option that is neither numeric nor boolean loads as the raw text, whatever it contains -/
theorem untyped_value_raw (k v : Str) (h1 : k ≠ kRetries) (h2 : k ≠ kCmdTimeout) (h3 : k ≠ kHttpTimeout)
    (h4 : isDefaultBool k = false) : fileCoerce k v = some (.str v) := by
  simp [fileCoerce, h1, h2, h3, h4]

/-- the file is kept iff every item coerces; by `untyped_value_raw` only typed options can fail -/
theorem file_kept_iff (items : List (Str × Str)) :
    (coerceAll items).isSome = true ↔ ∀ kv ∈ items, (fileCoerce kv.1 kv.2).isSome = true := by
  induction items with
  | nil => simp [coerceAll]
  | cons hd tl ih =>
    obtain ⟨k, v⟩ := hd
    simp only [coerceAll, List.forall_mem_cons, ← ih]
    cases fileCoerce k v <;> cases coerceAll tl <;> simp

/-- in a file that is kept, the value of `k` is the coercion of the LAST raw text the section holds for `k`:
no other item of the file has any influence on it (same for the legacy section, `legacy_section_loads`) -/
theorem file_value_local (items : List (Str × Str)) (d : Dict) (h : coerceAll items = some d) (k : Str) :
    dget (fileDict (.section items)) k = (lastRaw items k).bind (fileCoerce k) := by
  simp only [fileDict, FileSrc.items?, h, dofPairs, dget_dupdate, dlast_coerced items d h k]
  cases (lastRaw items k).bind (fileCoerce k) <;> rfl

example : fileCoerce ['p','a','s','s','w','o','r','d'] ['s','%','c','r','e','t'] = some (.str ['s','%','c','r','e','t']) := by decide

/-! ## Part 3: `_print_errors` only controls what is PRINTED

The flag never changes a setting or the verdict: not in the translated decision code (every use of
`self._print_errors` there guards a `sys.stdout.write`, which the translator drops; if a future version tests it
anywhere else these proofs stop building), and not in the loader model (`updateDict` drops unknown names whatever
the flag says — `unknown_dropped`).  The harness varies the flag (absent / False / True) on the real object. -/

def kCliOpts : Str := ['_','c','l','i','_','o','p','t','s']

/-- two environments that differ at most in `_print_errors` -/
def SameButPrintErrors (e1 e2 : Env) : Prop :=
  e1.call = e2.call ∧ e1.meth = e2.meth ∧ e1.methRaises = e2.methRaises ∧ e1.privHas = e2.privHas ∧
  e1.priv kCliOpts = e2.priv kCliOpts

theorem imply_print_errors_irrelevant (e1 e2 : Env) (c : Cfg) (h : SameButPrintErrors e1 e2) :
    imply e1 c = imply e2 c := by
  obtain ⟨h1, h2, h3, h4, h5⟩ := h
  simp only [kCliOpts] at h5
  funext a
  cases a <;> cfg_simp <;> (try simp only [h1, h2, h3, h4, h5])

theorem guards_print_errors_irrelevant (e1 e2 : Env) (c : Cfg) (h : SameButPrintErrors e1 e2) :
    ∀ g ∈ guards, g e1 c = g e2 c := by
  obtain ⟨h1, h2, h3, h4, h5⟩ := h
  simp only [kCliOpts] at h5
  unfold guards
  simp only [List.forall_mem_cons]
  repeat' constructor
  all_goals first
    | (intro _ hm; cases hm)
    | (cfg_simp <;> (try simp only [h1, h2, h3, h4, h5]))

theorem firstGuard_print_errors_irrelevant (e1 e2 : Env) (c : Cfg) (h : SameButPrintErrors e1 e2) :
    firstGuard e1 c = firstGuard e2 c :=
  findIdx?_agree _ _ _ (guards_print_errors_irrelevant e1 e2 c h)
theorem finish_print_errors_irrelevant (facts : Facts) (b1 b2 : Bool) (cli : Option Dict) (s : Dict) :
    finish (concreteEnv facts b1 cli) s = finish (concreteEnv facts b2 cli) s := by
  have hs : SameButPrintErrors (concreteEnv facts b1 cli) (concreteEnv facts b2 cli) := by
    refine ⟨rfl, rfl, rfl, rfl, ?_⟩
    have : ¬ (kCliOpts = "_print_errors".toList) := by decide
    simp only [concreteEnv, if_neg this]
  unfold finish
  simp only []
  have e : ∀ env, Cfg.ofSnap (implySnap env (Cfg.snap (toCfg s))) = imply env (toCfg s) := fun _ => rfl
  rw [e, e, imply_print_errors_irrelevant _ _ _ hs, firstGuard_print_errors_irrelevant _ _ _ hs]

theorem print_errors_irrelevant (inp : Input) (b : Bool) :
    loadAll { inp with printErrors := b } = loadAll inp := by
  have hp : ∀ s0 cli, preImply { inp with printErrors := b } s0 cli = preImply inp s0 cli := fun _ _ => rfl
  unfold loadAll construct
  simp only [hp, finish_print_errors_irrelevant inp.facts b inp.printErrors]
/-! ## the legacy section (repaired by /repo 8686086; regression witness corpus/C16/legacy-section-typed-option.json) -/

/-- full statement: a file with only the legacy section [redhat-access-insights] contributes its items exactly like
the current section [insights-client] — typed options included, invalid values dropping the file alike -/
def LegacySectionLoads : Prop :=
  ∀ items, fileDict (.legacy items) = fileDict (.section items)

theorem legacy_section_loads : LegacySectionLoads := fun _ => rfl

/-- … and what that is: every item coerced by its option's type, later duplicates winning -/
theorem legacy_section_value (items : List (Str × Str)) (d : Dict) (h : coerceAll items = some d) :
    fileDict (.legacy items) = dofPairs d := by
  simp [fileDict, FileSrc.items?, h]

example : fileDict (.legacy [(['a','u','t','o','_','u','p','d','a','t','e'], ['F','a','l','s','e'])]) =
    [(['a','u','t','o','_','u','p','d','a','t','e'], .bool false)] := by decide

end IV.ClientLoad
