import IV.Model.ClientLoad
namespace IV.ClientLoad
open IV.ClientVal IV.ClientConfig

theorem obf_hostname_implies_obf (env : Env) (cfg : Cfg)
    (hv : validate env (imply env cfg) = true)
    (h : truthy (imply env cfg Attr.obfuscate_hostname) = true) :
    truthy (imply env cfg Attr.obfuscate) = true := by
  cfg_simp at hv h ⊢
  simp_all

end IV.ClientLoad
