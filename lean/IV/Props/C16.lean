import IV.Lemmas.ClientLoad
import IV.Lemmas.OfflineGraph
import IV.Gen.OfflineSites
/-!
C16 — client options resolve by precedence, and offline means no network.

Part 1 is proved against the GENERATED definitions `imply` / `validate` (IV.Gen.ClientConfig, re-translated from
insights/client/config.py at the start of every run) for EVERY environment `env` (file system, manifest table,
private attributes, the opaque method) and EVERY configuration `cfg`.  No proof names a step or a guard by index:
`cfg_simp` rewrites with whatever equations the translator produced, `simp_all` finishes.  Removing or weakening
an implication or a guard in the source makes the corresponding theorem fail to build.

Part 2 is about the hand-written loader model (IV.Model.ClientLoad): precedence, unknown names, and the
decomposition of a successful `loadAll` into `imply` / `validate`, which is what makes Part 1 speak about loaded
configurations.
-/
namespace IV.ClientLoad
open IV.ClientVal IV.ClientConfig

/-! ## Part 1: the implication table of a validated configuration -/

/-- offline ⇒ no upload, no registration, no auto-update (already after `_imply_options`) -/
theorem offline_implies (env : Env) (cfg : Cfg)
    (ho : truthy (imply env cfg Attr.offline) = true) :
    truthy (imply env cfg Attr.no_upload) = true ∧
    truthy (imply env cfg Attr.register) = false ∧
    truthy (imply env cfg Attr.auto_update) = false := by
  cfg_simp at ho ⊢
  refine ⟨?_, ?_, ?_⟩ <;> (try split) <;> simp_all

example : truthy (imply (concreteEnv [] false none) (toCfg [("offline".toList, .bool true), ("register".toList, .bool true)]) Attr.offline) = true := by
  decide

/-- offline is never combined with a status / connection-test / check-in / unregister / check-results /
diagnosis / JSON request once `_validate_options` has passed -/
theorem offline_excludes (env : Env) (cfg : Cfg)
    (hv : validate env (imply env cfg) = true)
    (ho : truthy (imply env cfg Attr.offline) = true) :
    truthy (imply env cfg Attr.status) = false ∧
    truthy (imply env cfg Attr.test_connection) = false ∧
    truthy (imply env cfg Attr.checkin) = false ∧
    truthy (imply env cfg Attr.unregister) = false ∧
    truthy (imply env cfg Attr.check_results) = false ∧
    truthy (imply env cfg Attr.diagnosis) = false ∧
    truthy (imply env cfg Attr.to_json) = false := by
  cfg_simp at hv ho ⊢
  simp only [apply_ite truthy] at hv ⊢
  simp_all

/-- an explicit output directory or file ⇒ no upload and no retained temporary archive -/
theorem output_implies (env : Env) (cfg : Cfg)
    (h : truthy (imply env cfg Attr.output_dir) = true ∨ truthy (imply env cfg Attr.output_file) = true) :
    truthy (imply env cfg Attr.no_upload) = true ∧
    truthy (imply env cfg Attr.keep_archive) = false := by
  cfg_simp at h ⊢
  constructor <;> split <;> simp_all

/-- host-name obfuscation ⇒ obfuscation -/
theorem obf_hostname_implies_obf (env : Env) (cfg : Cfg)
    (hv : validate env (imply env cfg) = true)
    (h : truthy (imply env cfg Attr.obfuscate_hostname) = true) :
    truthy (imply env cfg Attr.obfuscate) = true := by
  cfg_simp at hv h ⊢
  simp_all

/-- a conflicting combination PRESENT IN THE LOADED VALUES (before implication) is rejected by
`_validate_options`, not resolved silently: offline with any of the seven requests, host-name
obfuscation without obfuscation, both scheduling switches -/
theorem conflicts_rejected (env : Env) (cfg : Cfg)
    (h : (truthy (cfg Attr.offline) = true ∧
            (truthy (cfg Attr.status) = true ∨ truthy (cfg Attr.test_connection) = true ∨
             truthy (cfg Attr.checkin) = true ∨ truthy (cfg Attr.unregister) = true ∨
             truthy (cfg Attr.check_results) = true ∨ truthy (cfg Attr.diagnosis) = true ∨
             truthy (cfg Attr.to_json) = true)) ∨
         (truthy (cfg Attr.obfuscate_hostname) = true ∧ truthy (cfg Attr.obfuscate) = false) ∨
         (truthy (cfg Attr.enable_schedule) = true ∧ truthy (cfg Attr.disable_schedule) = true)) :
    validate env (imply env cfg) = false := by
  apply Bool.eq_false_iff.mpr
  intro hv
  cfg_simp at hv
  simp only [apply_ite truthy] at hv
  rcases h with ⟨ho, h⟩ | h | h
  · rcases h with h | h | h | h | h | h | h <;> simp_all
  · simp_all
  · simp_all

example : truthy (toCfg [("offline".toList, .bool true), ("checkin".toList, .bool true)] Attr.offline) = true ∧
    truthy (toCfg [("offline".toList, .bool true), ("checkin".toList, .bool true)] Attr.checkin) = true := by decide

/-- an output directory and an output file that both survive implication are rejected -/
theorem output_conflict_rejected (env : Env) (cfg : Cfg)
    (h : truthy (imply env cfg Attr.output_dir) = true ∧ truthy (imply env cfg Attr.output_file) = true) :
    validate env (imply env cfg) = false := by
  apply Bool.eq_false_iff.mpr
  intro hv
  cfg_simp at hv h
  simp_all

/-! ## Part 2: the loader -/

/-- the value one `_update_dict` layer gives an option (`none`: the layer does not set it) -/
def layer (d : Dict) (k : Str) : Option PyVal := dlast (effective d) k

/-- PRECEDENCE (raw form).  After the loading steps of `load_all` (before implication) every name `k` has the value
of the command line, else of the environment, else of the file that was read, else the value it had after the
`conf`-only first pass over the command line. -/
theorem precedence (inp : Input) (s0 cli s : Dict) (h : preImply inp s0 cli = .ok s) (k : Str) :
    ∃ ed, envDict inp.envVars = some ed ∧
      dget s k = (layer cli k).orElse (fun _ => (layer ed k).orElse (fun _ =>
        (layer (fileDict (fileAt inp.files (dget (afterConfOnly s0 cli) kConf))) k).orElse
        (fun _ => dget (afterConfOnly s0 cli) k))) := by
  unfold preImply at h
  simp only [] at h
  split at h
  · cases h
  · rename_i ed hed
    injection h with h
    refine ⟨ed, hed, ?_⟩
    rw [← h]
    simp only [dget_updateDict, layer]

/-- the first, `conf_only=True`, pass over the command line when it has no `--conf`: it applies the whole command
line (which the last pass repeats) -/
theorem conf_only_pass (s0 cli : Dict) (k : Str) (h : dlast cli kConf = none) :
    dget (afterConfOnly s0 cli) k = (layer cli k).orElse (fun _ => dget s0 k) := by
  unfold afterConfOnly
  rw [h]
  simp only [dget_updateDict, layer]

/-- … and when it has `--conf P`: the pass writes only `conf`, and that value is the command line's own, so below
the command-line layer the base value is the constructed one -/
theorem conf_only_pass_conf (s0 cli : Dict) (v : PyVal) (k : Str) (h : dlast cli kConf = some v) :
    (layer cli k).orElse (fun _ => dget (afterConfOnly s0 cli) k) =
    (layer cli k).orElse (fun _ => dget s0 k) := by
  unfold afterConfOnly
  rw [h]
  simp only [dget_updateDict]
  by_cases hk : k = kConf
  · rw [hk]
    have hng : ¬ (kConf = kNoGpg) := by decide
    by_cases hp : kConf ∈ protectedNames
    · have : effective [(kConf, v)] = [] := by unfold effective; simp [List.filter, hp, dget]
      rw [this]; simp [dlast]
    · by_cases ho : kConf ∈ optNames
      · have : layer cli kConf = some v := effective_has_conf cli v h hp ho
        rw [this]; simp
      · have : effective [(kConf, v)] = [] := by unfold effective; simp [List.filter, hp, ho, dget, hng]
        rw [this]; simp [dlast]
  · rw [effective_conf v k hk]; simp

/-- PRECEDENCE, full: `command line > environment > file > constructed value (default or keyword argument)` for
every name, every command line (with or without `--conf`), every environment, every file -/
theorem precedence_full (inp : Input) (s0 cli s : Dict) (h : preImply inp s0 cli = .ok s) (k : Str) :
    ∃ ed, envDict inp.envVars = some ed ∧
      dget s k = (layer cli k).orElse (fun _ => (layer ed k).orElse (fun _ =>
        (layer (fileDict (fileAt inp.files (dget (afterConfOnly s0 cli) kConf))) k).orElse
        (fun _ => dget s0 k))) := by
  obtain ⟨ed, hed, hk⟩ := precedence inp s0 cli s h k
  refine ⟨ed, hed, ?_⟩
  rw [hk]
  cases hc : dlast cli kConf with
  | none =>
    rw [conf_only_pass s0 cli k hc]
    cases layer cli k <;> simp
  | some v =>
    have := conf_only_pass_conf s0 cli v k hc
    cases hl : layer cli k with
    | some w => simp
    | none => rw [hl] at this; simp at this; simp [this]

/-- which file is read: the one named by `--conf` when the command line has it, else by the constructed `conf` -/
theorem conf_file_choice (s0 cli : Dict) (v : PyVal) (h : dlast cli kConf = some v)
    (hp : kConf ∉ protectedNames) (ho : kConf ∈ optNames) :
    dget (afterConfOnly s0 cli) kConf = some v := by
  unfold afterConfOnly
  rw [h]
  simp only [dget_updateDict]
  have : effective [(kConf, v)] = [(kConf, v)] := by
    have hng : ¬ (kConf = kNoGpg) := by decide
    unfold effective; simp [List.filter, hp, ho, dget, hng]
  rw [this]; simp [dlast]

/-- UNKNOWN NAMES never become settings: a successful `InsightsConfig(**kw).load_all()` holds no name outside
the option table, whatever the four sources contain -/
theorem unknown_dropped (inp : Input) (s : Dict) (h : loadAll inp = .ok s) (k : Str) (hk : k ∉ optNames) :
    dget s k = none := by
  obtain ⟨s0, cli0, s1, hc, _, hp, hf⟩ := loadAll_ok inp s h
  have k0 : Known s0 := by
    unfold construct constructStore at hc
    obtain ⟨e, _, _⟩ := finish_ok _ _ _ hc
    rw [e]
    exact known_fromCfg _ _ (known_updateDict _ _ (known_updateDict _ _ (known_updateDict _ _ known_nil)))
  have k1 : Known s1 := by
    unfold preImply at hp
    simp only [] at hp
    split at hp
    · cases hp
    · injection hp with hp
      rw [← hp]
      refine known_updateDict _ _ (known_updateDict _ _ (known_updateDict _ _ ?_))
      unfold afterConfOnly
      split <;> exact known_updateDict _ _ k0
  obtain ⟨e, _, _⟩ := finish_ok _ _ _ hf
  rw [e]
  exact known_fromCfg _ _ k1 k hk

example : "no_schedule".toList ∉ optNames := by decide

/-- DECOMPOSITION: a successful load is `fromCfg (imply env c) s'` for the store `s'` before implication, the
implication did not raise, and validation passed — so Part 1 applies to `c = toCfg s'`, `env` = the concrete
environment of the run -/
theorem load_ok_decomposition (inp : Input) (s : Dict) (h : loadAll inp = .ok s) :
    ∃ (env : Env) (s' : Dict), s = fromCfg (imply env (toCfg s')) s' ∧
      truthy (imply env (toCfg s') Attr.raised_) = false ∧
      validate env (imply env (toCfg s')) = true := by
  obtain ⟨_, _, s1, _, _, _, hf⟩ := loadAll_ok inp s h
  exact ⟨_, s1, finish_ok _ _ _ hf⟩

/-- the value a loaded store holds for an attribute is the implied one -/
theorem loaded_value (c : Cfg) (s' : Dict) (a : Attr) (v : PyVal) (ha : attrOfName a.name = some a)
    (h : dget (fromCfg c s') a.name = some v) : v = c a := by
  rw [dget_fromCfg] at h
  cases hd : dget s' a.name with
  | none => rw [hd] at h; cases h
  | some w =>
    rw [hd] at h
    simp only [Option.map, fcVal, ha] at h
    injection h with h; exact h.symm

/-- `attrOfName` inverts `Attr.name` on every real attribute (so `loaded_value` applies to all of them) -/
theorem attrOfName_name (a : Attr) (h : a ≠ Attr.raised_) : attrOfName a.name = some a := by
  cases a <;> first | rfl | exact absurd rfl h

/-! ## the configuration file: raw text, option by option

`_load_config_file` parses with `ConfigParser.RawConfigParser()` — the translator reads that constructor from the source
(`fileParser`, `fileParserRaw`) and accepts nothing else — so the model's file items are the raw texts of the section.
The three theorems say that nothing in a value is special: an option without a type takes ANY text as it is and can
never make the file unusable; the file is dropped exactly when a TYPED option holds an invalid literal; and every
option's file value is a function of its own (last) raw text only — `%`, `$`, `#`, `=` … in one option change nothing
about any other. -/

example : fileParserRaw = true := rfl

/-- an option that is neither numeric nor boolean loads as the raw text, whatever it contains -/
theorem untyped_value_raw (k v : Str) (h1 : k ≠ kRetries) (h2 : k ≠ kCmdTimeout) (h3 : k ≠ kHttpTimeout)
    (h4 : isDefaultBool k = false) : fileCoerce k v = some (.str v) := by
  simp [fileCoerce, h1, h2, h3, h4]

/-- the file is kept iff every item coerces; by `untyped_value_raw` only typed options can fail -/
theorem file_kept_iff (items : List (Str × Str)) :
    (coerceAll items).isSome = true ↔ ∀ kv ∈ items, (fileCoerce kv.1 kv.2).isSome = true := by
  induction items with
  | nil => simp [coerceAll]
  | cons hd tl ih =>
    obtain ⟨k, v⟩ := hd
    simp only [coerceAll, List.forall_mem_cons, ← ih]
    cases fileCoerce k v <;> cases coerceAll tl <;> simp

/-- in a file that is kept, the value of `k` is the coercion of the LAST raw text the section holds for `k`:
no other item of the file has any influence on it (same for the legacy section, `legacy_section_loads`) -/
theorem file_value_local (items : List (Str × Str)) (d : Dict) (h : coerceAll items = some d) (k : Str) :
    dget (fileDict (.section items)) k = (lastRaw items k).bind (fileCoerce k) := by
  simp only [fileDict, FileSrc.items?, h, dofPairs, dget_dupdate, dlast_coerced items d h k]
  cases (lastRaw items k).bind (fileCoerce k) <;> rfl

example : fileCoerce ['p','a','s','s','w','o','r','d'] ['s','%','c','r','e','t'] = some (.str ['s','%','c','r','e','t']) := by decide

/-! ## Part 3: `_print_errors` only controls what is PRINTED

The flag never changes a setting or the verdict: not in the translated decision code (every use of
`self._print_errors` there guards a `sys.stdout.write`, which the translator drops; if a future version tests it
anywhere else these proofs stop building), and not in the loader model (`updateDict` drops unknown names whatever
the flag says — `unknown_dropped`).  The harness varies the flag (absent / False / True) on the real object. -/

def kCliOpts : Str := ['_','c','l','i','_','o','p','t','s']

/-- two environments that differ at most in `_print_errors` -/
def SameButPrintErrors (e1 e2 : Env) : Prop :=
  e1.call = e2.call ∧ e1.meth = e2.meth ∧ e1.methRaises = e2.methRaises ∧ e1.privHas = e2.privHas ∧
  e1.priv kCliOpts = e2.priv kCliOpts

theorem imply_print_errors_irrelevant (e1 e2 : Env) (c : Cfg) (h : SameButPrintErrors e1 e2) :
    imply e1 c = imply e2 c := by
  obtain ⟨h1, h2, h3, h4, h5⟩ := h
  simp only [kCliOpts] at h5
  funext a
  cases a <;> cfg_simp <;> (try simp only [h1, h2, h3, h4, h5])

theorem guards_print_errors_irrelevant (e1 e2 : Env) (c : Cfg) (h : SameButPrintErrors e1 e2) :
    ∀ g ∈ guards, g e1 c = g e2 c := by
  obtain ⟨h1, h2, h3, h4, h5⟩ := h
  simp only [kCliOpts] at h5
  unfold guards
  simp only [List.forall_mem_cons]
  repeat' constructor
  all_goals first
    | (intro _ hm; cases hm)
    | (cfg_simp <;> (try simp only [h1, h2, h3, h4, h5]))

theorem firstGuard_print_errors_irrelevant (e1 e2 : Env) (c : Cfg) (h : SameButPrintErrors e1 e2) :
    firstGuard e1 c = firstGuard e2 c :=
  findIdx?_agree _ _ _ (guards_print_errors_irrelevant e1 e2 c h)
theorem finish_print_errors_irrelevant (facts : Facts) (b1 b2 : Bool) (cli : Option Dict) (s : Dict) :
    finish (concreteEnv facts b1 cli) s = finish (concreteEnv facts b2 cli) s := by
  have hs : SameButPrintErrors (concreteEnv facts b1 cli) (concreteEnv facts b2 cli) := by
    refine ⟨rfl, rfl, rfl, rfl, ?_⟩
    have : ¬ (kCliOpts = "_print_errors".toList) := by decide
    simp only [concreteEnv, if_neg this]
  unfold finish
  simp only []
  have e : ∀ env, Cfg.ofSnap (implySnap env (Cfg.snap (toCfg s))) = imply env (toCfg s) := fun _ => rfl
  rw [e, e, imply_print_errors_irrelevant _ _ _ hs, firstGuard_print_errors_irrelevant _ _ _ hs]

theorem print_errors_irrelevant (inp : Input) (b : Bool) :
    loadAll { inp with printErrors := b } = loadAll inp := by
  have hp : ∀ s0 cli, preImply { inp with printErrors := b } s0 cli = preImply inp s0 cli := fun _ _ => rfl
  have hc : constructStore { inp with printErrors := b } = constructStore inp := rfl
  unfold loadAll construct
  simp only [hp, hc, finish_print_errors_irrelevant inp.facts b inp.printErrors]
/-! ## the legacy section (repaired by /repo 8686086; regression witness corpus/C16/legacy-section-typed-option.json) -/

/-- full statement: a file with only the legacy section [redhat-access-insights] contributes its items exactly like
the current section [insights-client] — typed options included, invalid values dropping the file alike -/
def LegacySectionLoads : Prop :=
  ∀ items, fileDict (.legacy items) = fileDict (.section items)

theorem legacy_section_loads : LegacySectionLoads := fun _ => rfl

/-- … and what that is: every item coerced by its option's type, later duplicates winning -/
theorem legacy_section_value (items : List (Str × Str)) (d : Dict) (h : coerceAll items = some d) :
    fileDict (.legacy items) = dofPairs d := by
  simp [fileDict, FileSrc.items?, h]

example : fileDict (.legacy [(['a','u','t','o','_','u','p','d','a','t','e'], ['F','a','l','s','e'])]) =
    [(['a','u','t','o','_','u','p','d','a','t','e'], .bool false)] := by decide

/-! ## Part 4 (round 10): offline as the run-time guard, repeated implication, the constructor's own layers

Every place of insights/client that opens a connection tests `config.offline` at run time (the harness enumerates
those sites and drives the guards).  What the loader owes them: `_imply_options` never changes `offline`, so the
value the guards see is the one precedence gave (`loaded_offline_is_resolved`); and `_imply_options` runs more than
once on one object (`__init__`, then every `load_all`) — a second run changes none of the four attributes the
offline clause is about (`imply_idem_offline_clause`). -/

/-- `_imply_options` never writes `offline` -/
theorem offline_preserved (env : Env) (cfg : Cfg) : imply env cfg Attr.offline = cfg Attr.offline := by
  cfg_simp

example : imply (concreteEnv [] false none) (toCfg [("offline".toList, .bool true)]) Attr.offline = .bool true := by
  decide

/-- IDEMPOTENCE on the offline clause: applying `_imply_options` twice (with the same environment) leaves `offline`,
`no_upload`, `register`, `auto_update` with the truth values of applying it once -/
theorem imply_idem_offline_clause (env : Env) (cfg : Cfg) :
    imply env (imply env cfg) Attr.offline = imply env cfg Attr.offline ∧
    truthy (imply env (imply env cfg) Attr.no_upload) = truthy (imply env cfg Attr.no_upload) ∧
    truthy (imply env (imply env cfg) Attr.register) = truthy (imply env cfg Attr.register) ∧
    truthy (imply env (imply env cfg) Attr.auto_update) = truthy (imply env cfg Attr.auto_update) := by
  refine ⟨?_, ?_, ?_, ?_⟩
  · cfg_simp
  · cfg_simp
    simp only [apply_ite truthy]
    repeat' split
    all_goals simp_all
  · cfg_simp
    (try simp only [apply_ite truthy])
    repeat' split
    all_goals simp_all
  · cfg_simp
    (try simp only [apply_ite truthy])
    repeat' split
    all_goals simp_all

example : truthy (imply (concreteEnv [] false none)
    (toCfg [("offline".toList, .bool true), ("register".toList, .bool true)]) Attr.register) = false := by decide

/-- in a successful load the attribute `offline` is exactly what the four sources resolved to (the store before
implication): no implication can switch the run-time guard off or on -/
theorem loaded_offline_is_resolved (inp : Input) (s : Dict) (h : loadAll inp = .ok s) :
    ∃ s' : Dict, (∃ env, s = fromCfg (imply env (toCfg s')) s') ∧
      ∀ v, dget s' Attr.offline.name = some v → dget s Attr.offline.name = some v := by
  obtain ⟨_, _, s1, _, _, _, hf⟩ := loadAll_ok inp s h
  obtain ⟨e, _, _⟩ := finish_ok _ _ _ hf
  refine ⟨s1, ⟨_, e⟩, ?_⟩
  intro v hv
  rw [e, dget_fromCfg, hv]
  have ha : attrOfName Attr.offline.name = some Attr.offline := rfl
  simp only [Option.map, fcVal, ha, offline_preserved]
  simp only [toCfg, hv, Option.getD]

/-- the CONSTRUCTOR's layers: keyword argument, else the positional dict `args[0]`, else the built-in default — for
every name, through the same `_update_dict` guard (unknown names and class attributes dropped in each layer) -/
theorem construct_layers (inp : Input) (k : Str) :
    dget (constructStore inp) k = (layer inp.kwargs k).orElse (fun _ => (layer inp.posArgs k).orElse (fun _ =>
      (layer defaults k).orElse (fun _ => none))) := by
  simp only [constructStore, dget_updateDict, layer, dget]

/-- without a positional dict the constructor is the two-layer one (what `InsightsConfig(**kwargs)` does) -/
theorem construct_no_positional (inp : Input) (h : inp.posArgs = []) :
    constructStore inp = updateDict (updateDict [] defaults) inp.kwargs := by
  simp [constructStore, h, updateDict, effective, dget, dupdate]

example : layer [("offline".toList, .bool true), ("foo".toList, .int 1)] "foo".toList = none := by decide

/-- PRECEDENCE ON A SECOND `load_all()`: what the repeated loading hands to `_imply_options` has, for every name, the value
of the (cached) command line, else the environment, else the file named by `conf`, else what the first load left -/
theorem reload_precedence (inp : Input) (s cli ed : Dict) (he : envDict inp.envVars = some ed) :
    ∃ st, reloadAll inp s cli = finish (concreteEnv inp.facts inp.printErrors (some cli)) st ∧
      ∀ k, dget st k = (layer cli k).orElse (fun _ => (layer ed k).orElse (fun _ =>
        (layer (fileDict (fileAt inp.files (dget (updateDict s cli) kConf))) k).orElse (fun _ => dget s k))) := by
  refine ⟨_, by unfold reloadAll; simp only [he]; rfl, ?_⟩
  intro k
  simp only [dget_updateDict, layer]
  cases dlast (effective cli) k <;> simp

example : envDict [("INSIGHTS_RETRIES".toList, "3".toList)] = some [("retries".toList, .int 3)] := by decide

/-- `_load_config_file(fname=F)` with a non-empty `F` reads `F`: the path in `conf` plays no part -/
theorem fname_overrides_conf (files : List (Str × FileSrc)) (s : Dict) (p : Str) (hp : p ≠ []) :
    loadConfigFile files s (.str p) = updateDict s (fileDict (fileAt files (some (.str p)))) := by
  have : truthy (.str p) = true := by cases p with
    | nil => exact absurd rfl hp
    | cons _ _ => simp [truthy]
  simp [loadConfigFile, this]

/-- … and without one (absent, `None`, the empty string) it is the file step of `load_all`: the file named by `conf` -/
theorem fname_absent_reads_conf (files : List (Str × FileSrc)) (s : Dict) (f : PyVal) (hf : truthy f = false) :
    loadConfigFile files s f = updateDict s (fileDict (fileAt files (dget s kConf))) := by
  simp [loadConfigFile, hf]

example : truthy (.str []) = false ∧ truthy .none = false := by decide

/-- a second `load_all()` holds no unknown name either -/
theorem reload_unknown_dropped (inp : Input) (s cli s2 : Dict) (hs : Known s) (h : reloadAll inp s cli = .ok s2) :
    Known s2 := by
  unfold reloadAll at h
  simp only [] at h
  split at h
  · cases h
  · obtain ⟨e, _, _⟩ := finish_ok _ _ _ h
    rw [e]
    exact known_fromCfg _ _ (known_updateDict _ _ (known_updateDict _ _ (known_updateDict _ _ (known_updateDict _ _ hs))))

example : Known ([] : Dict) := known_nil

/-! ## Part 5 (round 10): offline ⇒ no network, over the call graph of insights/client

`IV.OfflineSites` is regenerated on every run by translate/offline_sites.py: every call site under insights/client whose
callee can open a connection, with the flag "not executed while config.offline is true".  `Reaches` follows only the
sites that ARE executed when offline.  No function that nothing else calls (the phases, the public methods of
InsightsClient, the support dump, …) reaches a connection opener: the generated `openerSet` is closed (checked here, not
trusted from the translator's fix-point) and contains no entry point. -/

set_option maxRecDepth 20000 in
theorem offline_entry_points_never_reach_network :
    ∀ f ∈ IV.OfflineSites.entryPoints,
      ¬ IV.OfflineGraph.Reaches IV.OfflineSites.seeds IV.OfflineSites.calls f := by
  intro f hf hr
  have hc : IV.OfflineGraph.closed IV.OfflineSites.openerSet IV.OfflineSites.seeds IV.OfflineSites.calls = true := by
    decide
  have hin := IV.OfflineGraph.reaches_in_closed _ _ _ hc f hr
  have hd : IV.OfflineSites.entryPoints.all (fun f => !IV.OfflineSites.openerSet.contains f) = true := by decide
  have := List.all_eq_true.mp hd f hf
  simp at this
  exact this hin

example : IV.OfflineSites.calls.any (fun c => c.guarded) = true ∧ IV.OfflineSites.entryPoints ≠ [] ∧
    IV.OfflineSites.seeds ≠ [] := by decide

end IV.ClientLoad
