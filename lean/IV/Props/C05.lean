import IV.Lemmas.Specs
import IV.Lemmas.SpecFlags
import IV.Props.C02
/-!
C05 — the latest implementation for the active context is the one that supplies a spec.

`register root h` (Model/Specs) is what the SpecSet metaclass leaves behind after the classes of the
history `h` were created: the dependency list of every registry point, the per-(name, context)
handler lists and the IGNORE table.  `world root env (register root h)` is the resulting program
for the engine model IV.Dr (C01–C04), which is reused unchanged: a registry point is a
datasource-kind declaration with one at-least-one group (its implementations, in append order) whose
body returns the entry of the last dependency present in the broker, else skips.

`L = implsFor h n c`: the implementations of the spec `n` declared for context `c`, in registration
order; `supplier h n c = L.getLast?`.  "The active context is `c`": `c` is the only key supplied to
the broker up front.  "`v` is bound to the contexts `cs`" is `Requires w cs v` (Lemmas/Specs): every
way of meeting `v`'s requirements needs a key of `cs` — as a required dependency, an at-least-one
group of such keys, or through other components bound in the same way.
-/
namespace IV.Specs
open IV.Dr

variable (root : Root) (env : World)

/-! ### registration -/

/-- scope, as the metaclass does it: a class that does not DIRECTLY extend the class declaring the
registry points (a grandchild) registers against nothing, whatever it defines -/
theorem only_direct_subclasses (h h' : History) (es : List Entry) :
    register root (h ++ ⟨false, es⟩ :: h') = register root (h ++ h') := by
  rw [register_flat, register_flat]
  simp [flat]

/-- a datasource whose attribute name is not a registry point of the root class is not wired to anything -/
theorem unregistered_name_ignored (h : History) (n : Name) (hreg : root.registry n = none) :
    (register root h).deps n = [] ∧ ∀ c, (register root h).handlers n c = [] :=
  unregistered_name root h n hreg

/-- what the fold computes: the point's dependencies are ALL implementations declared under its name,
in registration (append) order, and the handler list of a context is `L` -/
theorem registration_lists (h : History) (n : Name) (hreg : (root.registry n).isSome = true) :
    (register root h).deps n = implsOf h n ∧ ∀ c, (register root h).handlers n c = implsFor h n c :=
  ⟨deps_eq root h n hreg, fun c => handlers_eq root h n c hreg⟩

/-- every implementation for `c` but the last one registered has `c` in its ignore list; hence
(IV.Dr.process_cases / fires) whenever `c` is in the broker it is skipped before its requirements are
even looked at, and its body is not invoked -/
theorem earlier_ignored (h : History) (n : Name) (c : Comp) (hreg : (root.registry n).isSome = true)
    (v : Comp) (hv : v ∈ (implsFor h n c).dropLast) :
    c ∈ (world root env (register root h)).ignore v ∧
    ∀ (inG : Comp → Bool) (ss : Bool) (d : Decl) (i : Inst), present i c = true →
      process (world root env (register root h)) ss v d i = .skipped .skip [] ∧
      fires (world root env (register root h)) inG v d i = false := by
  have hc : c ∈ (register root h).ignore v := by
    apply register_InvA root h n c v
    rw [handlers_eq root h n c hreg]; exact hv
  refine ⟨hc, ?_⟩
  intro inG ss d i hp
  have hany : ((world root env (register root h)).ignore v).any (present i) = true :=
    List.any_eq_true.mpr ⟨c, hc, hp⟩
  exact ⟨(process_cases _ ss v d i).1 hany, by simp [fires, hany]⟩

/-- conversely, an implementation is only ever told to ignore a context `c` because a LATER
implementation of the same name is declared for `c` (and it is itself declared for `c`) -/
theorem ignore_only_earlier (h : History) (v c : Comp) (hc : c ∈ (register root h).ignore v) :
    ∃ n, v ∈ (implsFor h n c).dropLast ∧ ∃ e ∈ flat h, e.name = n ∧ e.impl = v ∧ c ∈ e.ctxs := by
  obtain ⟨n, hn⟩ := register_InvB root h v c hc
  cases hreg : root.registry n with
  | none => rw [(unregistered_name root h n hreg).2 c] at hn; simp at hn
  | some p =>
    rw [handlers_eq root h n c (by simp [hreg])] at hn
    refine ⟨n, hn, ?_⟩
    have hm := List.dropLast_subset _ hn
    simp only [implsFor, List.mem_map, List.mem_filter, Bool.and_eq_true, beq_iff_eq,
      List.contains_eq_mem, decide_eq_true_eq] at hm
    obtain ⟨e, ⟨he, hen, hec⟩, hev⟩ := hm
    exact ⟨e, he, hen, hev, hec⟩

/-- the LAST implementation registered for `c` is not told to ignore `c` (each datasource is
registered once), so under `c` it fires exactly when the engine's guard and its requirements allow -/
theorem latest_not_ignored (h : History) (n : Name) (c : Comp) (v : Comp)
    (hnd : ((flat h).map (·.impl)).Nodup) (hl : supplier h n c = some v) :
    c ∉ (world root env (register root h)).ignore v ∧
    ∀ (inG : Comp → Bool) (d : Decl) (i : Inst),
      (∀ x ∈ (register root h).ignore v, present i x = true → x = c) →
      fires (world root env (register root h)) inG v d i =
        (guard (world root env (register root h)) inG i v && (missingDeps d i).isNone) := by
  have hnot : c ∉ (register root h).ignore v := by
    intro hc
    obtain ⟨n', hn', e', he', hen', hev', _⟩ := ignore_only_earlier root h v c hc
    have hvL : v ∈ implsFor h n c := List.mem_of_getLast? hl
    by_cases hnn : n' = n
    · subst hnn
      have hnodup : (implsFor h n' c).Nodup :=
        List.Nodup.sublist (List.Sublist.map _ List.filter_sublist) hnd
      exact getLast_not_mem_dropLast _ v hnodup hl hn'
    · simp only [implsFor, List.mem_map, List.mem_filter, Bool.and_eq_true, beq_iff_eq] at hvL
      obtain ⟨e, ⟨he, hen, _⟩, hev⟩ := hvL
      have := inj_of_nodup_map (·.impl) (flat h) hnd e he e' he' (by rw [hev, hev'])
      rw [this, hen'] at hen
      exact hnn hen
  refine ⟨hnot, ?_⟩
  intro inG d i honly
  have hany : ((world root env (register root h)).ignore v).any (present i) = false := by
    rw [List.any_eq_false]
    intro x hx hp
    exact hnot (honly x hx hp ▸ hx)
  simp [fires, hany]

/-! ### evaluation under the active context -/

/-- an implementation bound to contexts none of which is the active one ends up absent, with its
requirements reported missing, and its body is not invoked; `seed` is the broker before `dr.run`:
only execution contexts are supplied -/
theorem other_context_silent (w : World) (inG : Comp → Bool) (ss : Bool) (seed : Inst) (o : List Comp)
    (hv : Valid w inG seed o) (hdecl : ∀ x, (w.decl x).isSome = true → seed x = none)
    (v : Comp) (d : Decl) (hd : w.decl v = some d) (cs : List Comp) (hr : Requires w cs v)
    (hcs : ∀ x ∈ cs, seed x = none) :
    let b := runComponents w inG ss o (Broker.seeded seed)
    b.inst v = none ∧ (missingDeps d b.inst).isSome = true ∧ fires w inG v d b.inst = false := by
  intro b
  obtain ⟨h1, h2⟩ := requires_absent w inG ss seed o hv cs hcs hdecl v hr
  have hm := h2 d hd
  refine ⟨h1, hm, ?_⟩
  cases hmm : missingDeps d b.inst with
  | none => rw [hmm] at hm; simp at hm
  | some m => simp [fires, hmm]

/-- the value of a registry point, with no assumption on the implementations: the entry of the last
registered implementation that ended up with a value; absent when none did -/
theorem point_value_general (h : History) (n : Name) (p : Comp) (hname : root.nameOf p = some n)
    (inG : Comp → Bool) (ss : Bool) (seed : Inst) (o : List Comp)
    (hv : Valid (world root env (register root h)) inG seed o)
    (hp : p ∈ evald inG o) (hen : env.enabled p = true) (hps : seed p = none)
    (hpi : ∀ e ∈ flat h, e.impl ≠ p) :
    let b := runComponents (world root env (register root h)) inG ss o (Broker.seeded seed)
    b.inst p = lastPresent (((register root h).deps n).map b.inst) := by
  intro b
  have hin : inG p = true := (List.mem_filter.mp hp).2
  have hign : ∀ x ∈ (register root h).ignore p, present b.inst x = false := by
    intro x hx
    obtain ⟨_, _, e, he, _, hev, _⟩ := ignore_only_earlier root h p x hx
    exact absurd hev (hpi e he)
  rcases inst_eq_record _ inG ss seed o hv p hps with h0 | ⟨_, h1⟩
  · -- cannot happen silently: p is evaluated, so its entry is its record
    have := (run_view _ inG ss seed o hv p hp).1
    simp only [entry, present, hps] at this
    rw [this]
    exact point_record inG ss root env _ p n hname _ hin hen hign
  · rw [h1]
    exact point_record inG ss root env _ p n hname _ hin hen hign

/-- full-strength statement of the value clause, for ALL histories: under the active context `c` the
point holds exactly what the last implementation registered for `c` ended up with — its value, or
nothing — and no other implementation of the name has a value -/
def PointValueFull : Prop :=
  ∀ (root : Root) (env : World) (h : History) (n : Name) (p c : Comp) (inG : Comp → Bool) (ss : Bool)
    (seed : Inst) (o : List Comp),
    root.registry n = some p → root.nameOf p = some n →
    Valid (world root env (register root h)) inG seed o → p ∈ evald inG o → env.enabled p = true →
    (∀ e ∈ flat h, e.impl ≠ p) → c ∉ implsOf h n → p ≠ c →
    present seed c = true → (∀ x, present seed x = true → x = c) →
    let b := runComponents (world root env (register root h)) inG ss o (Broker.seeded seed)
    b.inst p = (match supplier h n c with | none => none | some v => b.inst v) ∧
    ∀ v ∈ implsOf h n, supplier h n c ≠ some v → b.inst v = none

/-- it holds whenever every implementation of the name is bound to the contexts it is declared for
(`Requires`: context-free implementations are excluded — they run under every context, are never told
to ignore anything, and take part in the point's value like any other dependency, see
`point_value_general` and `point_value_witness`) -/
theorem point_value_partial (h : History) (n : Name) (p c : Comp) (inG : Comp → Bool) (ss : Bool)
    (seed : Inst) (o : List Comp)
    (hreg : root.registry n = some p) (hname : root.nameOf p = some n)
    (hv : Valid (world root env (register root h)) inG seed o)
    (hp : p ∈ evald inG o) (hen : env.enabled p = true)
    (hpi : ∀ e ∈ flat h, e.impl ≠ p) (hci : c ∉ implsOf h n) (hpc : p ≠ c)
    (hc : present seed c = true) (honly : ∀ x, present seed x = true → x = c)
    (hbound : ∀ e ∈ flat h, e.name = n → Requires (world root env (register root h)) e.ctxs e.impl)
    (hctxs : ∀ x, ((world root env (register root h)).decl x).isSome = true → x ≠ c) :
    let b := runComponents (world root env (register root h)) inG ss o (Broker.seeded seed)
    b.inst p = (match supplier h n c with | none => none | some v => b.inst v) ∧
    ∀ v ∈ implsOf h n, supplier h n c ≠ some v → b.inst v = none := by
  intro b
  have hregs : (root.registry n).isSome = true := by simp [hreg]
  have hseednone : ∀ x, x ≠ c → seed x = none := by
    intro x hx
    cases hsx : seed x with
    | none => rfl
    | some val => exact absurd (honly x (by simp [present, hsx])) hx
  have hcpres : present b.inst c = true := seeded_stays _ inG ss seed o c hc
  -- every implementation other than the supplier is absent
  have hothers : ∀ v ∈ implsOf h n, supplier h n c ≠ some v → b.inst v = none := by
    intro v hvm hne
    simp only [implsOf, List.mem_map, List.mem_filter, beq_iff_eq] at hvm
    obtain ⟨e, ⟨he, hen'⟩, hev⟩ := hvm
    have hvc : v ≠ c := fun hh => hci (by
      simp only [implsOf, List.mem_map, List.mem_filter, beq_iff_eq]
      exact ⟨e, ⟨he, hen'⟩, hh ▸ hev⟩)
    by_cases hec : c ∈ e.ctxs
    · -- declared for c but not the last: ignored
      have hvL : v ∈ implsFor h n c := by
        simp only [implsFor, List.mem_map, List.mem_filter, Bool.and_eq_true, beq_iff_eq,
          List.contains_eq_mem, decide_eq_true_eq]
        exact ⟨e, ⟨he, hen', hec⟩, hev⟩
      have hdl := mem_dropLast_of_ne_getLast _ v hvL hne
      have hig := (earlier_ignored root env h n c hregs v hdl).1
      rcases inst_eq_record _ inG ss seed o hv v (hseednone v hvc) with h0 | ⟨_, h1⟩
      · exact h0
      · rw [h1]
        cases hdv : (world root env (register root h)).decl v with
        | none => simp [record, eligible, hdv]
        | some d =>
          exact record_val_none _ inG ss v d hdv _ (Or.inl (List.any_eq_true.mpr ⟨c, hig, hcpres⟩))
    · -- declared for other contexts only: requirements missing
      have hr := hbound e he hen'
      rw [hev] at hr
      exact (requires_absent _ inG ss seed o hv e.ctxs
        (fun x hx => hseednone x (fun hh => hec (hh ▸ hx)))
        (fun x hx => hseednone x (hctxs x hx)) v hr).1
  refine ⟨?_, hothers⟩
  rw [point_value_general root env h n p hname inG ss seed o hv hp hen (hseednone p hpc) hpi,
    deps_eq root h n hregs]
  cases hs : supplier h n c with
  | none =>
    simp only []
    apply lastPresent_none
    intro a ha
    obtain ⟨v, hvm, rfl⟩ := List.mem_map.mp ha
    exact hothers v hvm (by rw [hs]; simp)
  | some vL =>
    simp only []
    apply lastPresent_single
    · have : vL ∈ implsFor h n c := List.mem_of_getLast? hs
      simp only [implsFor, List.mem_map, List.mem_filter, Bool.and_eq_true, beq_iff_eq] at this
      obtain ⟨e, ⟨he, hen', _⟩, hev⟩ := this
      simp only [implsOf, List.mem_map, List.mem_filter, beq_iff_eq]
      exact ⟨e, ⟨he, hen'⟩, hev⟩
    · intro v hvm hne
      exact hothers v hvm (by rw [hs]; intro hh; exact hne (Option.some.inj hh).symm)

/-! ### context-free implementations -/

/-- an implementation that is declared for no context is never told to ignore anything -/
theorem context_free_never_ignored (h : History) (e : Entry) (he : e ∈ flat h) (hfree : e.ctxs = [])
    (hnd : ((flat h).map (·.impl)).Nodup) : (register root h).ignore e.impl = [] := by
  apply List.eq_nil_iff_forall_not_mem.mpr
  intro c hc
  obtain ⟨_, _, e', he', _, hev', hec'⟩ := ignore_only_earlier root h e.impl c hc
  have := inj_of_nodup_map (·.impl) (flat h) hnd e' he' e he hev'
  rw [this, hfree] at hec'
  simp at hec'

/-! the witness world: root declares the spec 0 as point 10; implementation 1 is context-free and
returns a value, implementation 2 (registered later) is bound to context 20 and yields nothing -/
private def wRoot : Root := ⟨fun n => if n = 0 then some 10 else none, fun c => if c = 10 then some 0 else none⟩
private def wEnv : World where
  decl c := if c = 1 then some ⟨.datasource, [], []⟩ else if c = 2 then some ⟨.datasource, [.one 20], []⟩ else none
  enabled _ := true
  ignore _ := []
  regPoints _ := []
  body c _ := if c = 1 then .value (.atom 7) else .fault .skip
  elemBody _ _ := .noResult
private def wHist : History := [⟨true, [⟨0, 1, []⟩]⟩, ⟨true, [⟨0, 2, [20]⟩]⟩]
private def wSeed : Inst := fun c => if c = 20 then some (.atom 0) else none
private def wIn : Comp → Bool := fun c => c = 1 ∨ c = 2 ∨ c = 10 ∨ c = 20

theorem witness_order_valid : Valid (world wRoot wEnv (register wRoot wHist)) wIn wSeed [20, 1, 2, 10] := by
  refine ⟨by decide, ?_, ?_⟩
  · intro pre c post ho hc d hd hdg
    have hdeps10 : (world wRoot wEnv (register wRoot wHist)).deps 10 = [1, 2] := by decide
    have hdeps2 : (world wRoot wEnv (register wRoot wHist)).deps 2 = [20] := by decide
    have hdeps1 : (world wRoot wEnv (register wRoot wHist)).deps 1 = [] := by decide
    have hdeps20 : (world wRoot wEnv (register wRoot wHist)).deps 20 = [] := by decide
    rcases pre with _ | ⟨a1, _ | ⟨a2, _ | ⟨a3, _ | ⟨a4, pre⟩⟩⟩⟩ <;> simp at ho
    · obtain ⟨rfl, rfl⟩ := ho; rw [hdeps20] at hd; simp at hd
    · obtain ⟨_, rfl, rfl⟩ := ho; rw [hdeps1] at hd; simp at hd
    · obtain ⟨_, _, rfl, rfl⟩ := ho; rw [hdeps2] at hd; simp at hd; subst hd; decide
    · obtain ⟨_, _, _, rfl, rfl⟩ := ho; rw [hdeps10] at hd; simp at hd; rcases hd with rfl | rfl <;> decide
  · intro c _ _ x hx
    have : (world wRoot wEnv (register wRoot wHist)).ignore c = [] := by
      simp [world, register, regClass, regEntry, wHist, wRoot, Reg.empty, dedup, addHandler]
    rw [this] at hx; simp at hx

/-- the full statement is FALSE of the current code: under context 20 the supplier (2) yields nothing,
yet the point ends up with 7, the value of the context-free implementation it was meant to override -/
theorem point_value_witness : ¬ PointValueFull := by
  intro hfull
  have := (hfull wRoot wEnv wHist 0 10 20 wIn false wSeed [20, 1, 2, 10] rfl rfl witness_order_valid (by decide) rfl
    (by decide) (by decide) (by decide) rfl (by intro x hx; by_cases h : x = 20 <;> simp_all [present, wSeed])).1
  revert this
  decide

/-! ### "declared for c" read as "can run under c": the second finding -/

/-- full-strength statement of the "is executed" clause when 'declared for the active context' is read
as 'its requirements can be met under it': the last implementation of the name whose requirements
are met at the end of the run (every later one reporting missing requirements) is not held back by
the ignore table -/
def LatestRunnableRunsFull : Prop :=
  ∀ (root : Root) (env : World) (h : History) (n : Name) (c : Comp) (inG : Comp → Bool) (ss : Bool)
    (seed : Inst) (o : List Comp),
    Valid (world root env (register root h)) inG seed o →
    present seed c = true → (∀ x, present seed x = true → x = c) →
    ∀ (pre post : List Comp) (v : Comp) (d : Decl), implsOf h n = pre ++ v :: post →
      (world root env (register root h)).decl v = some d →
      missingDeps d (runComponents (world root env (register root h)) inG ss o (Broker.seeded seed)).inst = none →
      (∀ v' ∈ post, ∀ d', (world root env (register root h)).decl v' = some d' →
        (missingDeps d' (runComponents (world root env (register root h)) inG ss o (Broker.seeded seed)).inst).isSome = true) →
      ∀ x ∈ (world root env (register root h)).ignore v,
        present (runComponents (world root env (register root h)) inG ss o (Broker.seeded seed)).inst x = false

/-- what holds: for the implementation the RULE designates (`supplier`: the last one whose dependency
tree contained `c` when it was registered) nothing it is told to ignore is present under `c` -/
theorem latest_runnable_runs_partial (h : History) (n : Name) (c v : Comp) (inG : Comp → Bool) (ss : Bool)
    (seed : Inst) (o : List Comp)
    (hv : Valid (world root env (register root h)) inG seed o)
    (honly : ∀ x, present seed x = true → x = c)
    (hnd : ((flat h).map (·.impl)).Nodup) (hl : supplier h n c = some v)
    (hctx : ∀ e ∈ flat h, ∀ x ∈ e.ctxs, (world root env (register root h)).decl x = none) :
    ∀ x ∈ (world root env (register root h)).ignore v,
      present (runComponents (world root env (register root h)) inG ss o (Broker.seeded seed)).inst x = false := by
  intro x hx
  have hnot := (latest_not_ignored root env h n c v hnd hl).1
  obtain ⟨_, _, e, he, _, _, hxe⟩ := ignore_only_earlier root h v x hx
  have hxc : x ≠ c := fun hh => hnot (hh ▸ hx)
  have hsx : seed x = none := by
    cases hs : seed x with
    | none => rfl
    | some val => exact absurd (honly x (by simp [present, hs])) hxc
  simp [present, undeclared_absent _ inG ss seed o hv x (hctx e he x hxe) hsx]

/-! the witness: specs 0 (point 10) and 1 (point 11); class 1 binds 1 ↦ spec 0 and 2 ↦ spec 1 to context 20;
class 2 registers 3 ↦ spec 1, which requires context 21 AND the registry point 10 — its dependency tree
therefore contains context 20 (through 10 and 1), and 2 is told to ignore 20 -/
private def rRoot : Root :=
  ⟨fun n => if n = 0 then some 10 else if n = 1 then some 11 else none,
   fun c => if c = 10 then some 0 else if c = 11 then some 1 else none⟩
private def rEnv : World where
  decl c := if c = 1 ∨ c = 2 then some ⟨.datasource, [.one 20], []⟩
    else if c = 3 then some ⟨.datasource, [.one 21, .one 10], []⟩ else none
  enabled _ := true
  ignore _ := []
  regPoints _ := []
  body c _ := .value (.atom (1000 + c))
  elemBody _ _ := .noResult
private def rHist : History := [⟨true, [⟨0, 1, [20]⟩, ⟨1, 2, [20]⟩]⟩, ⟨true, [⟨1, 3, [21, 20]⟩]⟩]
private def rSeed : Inst := fun c => if c = 20 then some (.atom 0) else none
private def rIn : Comp → Bool := fun c => c = 1 ∨ c = 2 ∨ c = 3 ∨ c = 10 ∨ c = 11 ∨ c = 20 ∨ c = 21

theorem reach_order_valid : Valid (world rRoot rEnv (register rRoot rHist)) rIn rSeed [20, 21, 1, 2, 10, 3, 11] := by
  refine ⟨by decide, ?_, ?_⟩
  · intro pre c post ho hc d hd hdg
    have h20 : (world rRoot rEnv (register rRoot rHist)).deps 20 = [] := by decide
    have h21 : (world rRoot rEnv (register rRoot rHist)).deps 21 = [] := by decide
    have h1 : (world rRoot rEnv (register rRoot rHist)).deps 1 = [20] := by decide
    have h2 : (world rRoot rEnv (register rRoot rHist)).deps 2 = [20] := by decide
    have h3 : (world rRoot rEnv (register rRoot rHist)).deps 3 = [21, 10] := by decide
    have h10 : (world rRoot rEnv (register rRoot rHist)).deps 10 = [1] := by decide
    have h11 : (world rRoot rEnv (register rRoot rHist)).deps 11 = [2, 3] := by decide
    rcases pre with _ | ⟨a1, _ | ⟨a2, _ | ⟨a3, _ | ⟨a4, _ | ⟨a5, _ | ⟨a6, _ | ⟨a7, pre⟩⟩⟩⟩⟩⟩⟩ <;> simp at ho
    · obtain ⟨rfl, rfl⟩ := ho; rw [h20] at hd; simp at hd
    · obtain ⟨_, rfl, rfl⟩ := ho; rw [h21] at hd; simp at hd
    · obtain ⟨_, _, rfl, rfl⟩ := ho; rw [h1] at hd; simp at hd; subst hd; decide
    · obtain ⟨_, _, _, rfl, rfl⟩ := ho; rw [h2] at hd; simp at hd; subst hd; decide
    · obtain ⟨_, _, _, _, rfl, rfl⟩ := ho; rw [h10] at hd; simp at hd; subst hd; decide
    · obtain ⟨_, _, _, _, _, rfl, rfl⟩ := ho; rw [h3] at hd; simp at hd; rcases hd with rfl | rfl <;> decide
    · obtain ⟨_, _, _, _, _, _, rfl, rfl⟩ := ho; rw [h11] at hd; simp at hd; rcases hd with rfl | rfl <;> decide
  · intro c hc _ x hx
    have hi2 : (world rRoot rEnv (register rRoot rHist)).ignore 2 = [20] := by decide
    have hi : ∀ k ∈ [20, 21, 1, 10, 3, 11], (world rRoot rEnv (register rRoot rHist)).ignore k = [] := by decide
    simp only [List.mem_cons, List.not_mem_nil, or_false] at hc
    rcases hc with rfl | rfl | rfl | rfl | rfl | rfl | rfl
    · rw [hi 20 (by decide)] at hx; simp at hx
    · rw [hi 21 (by decide)] at hx; simp at hx
    · rw [hi 1 (by decide)] at hx; simp at hx
    · rw [hi2] at hx; simp at hx; subst hx; right; decide
    · rw [hi 10 (by decide)] at hx; simp at hx
    · rw [hi 3 (by decide)] at hx; simp at hx
    · rw [hi 11 (by decide)] at hx; simp at hx

/-- that statement is FALSE of the current code: under context 20 implementation 2 has its requirement
(20) met, the later implementation 3 reports missing requirements (21), yet 2 is told to ignore 20 -/
theorem reach_witness : ¬ LatestRunnableRunsFull := by
  intro hfull
  have := hfull rRoot rEnv rHist 1 20 rIn false rSeed [20, 21, 1, 2, 10, 3, 11] reach_order_valid rfl
    (by intro x hx; by_cases h : x = 20 <;> simp_all [present, rSeed])
    [] [3] 2 ⟨.datasource, [.one 20], []⟩ (by decide) (by decide) (by decide) (by decide) 20 (by decide)
  revert this
  decide

/-! ### glue: the invocation log the driver prints -/

/-- `invoked` (Model/Specs, used by the driver's log) is the firing decision of C02 -/
theorem invoked_eq_fires (w : World) (inG : Comp → Bool) (i : Inst) (c : Comp) (d : Decl) (hd : w.decl c = some d) :
    invoked w inG i c = fires w inG c d i := by
  simp [invoked, fires, hd]

/-- the broker `runLogged` returns is the one of `runComponents` -/
theorem runLogged_broker (w : World) (inG : Comp → Bool) (ss : Bool) (o : List Comp) (b : Broker) :
    (runLogged w inG ss o b).2 = runComponents w inG ss o b := by
  induction o generalizing b with
  | nil => rfl
  | cons c o ih => simp only [runLogged, run_cons]; exact ih _

/-! ### hierarchies: registry points re-declared in intermediate spec-set classes

`hRegister h` is the general registration fold (Model/Specs, second half): every class carries its
`parents` chain and may declare registry points as well as datasources; the handler table a
registration lands in is the one of the TOPMOST class of the chain of classes that declare the name.
The override theorems are stated on these tables: whatever the hierarchy, all entries of a table
but the last are told to ignore the context (and nobody else is), implementations attached directly
and through intermediate classes land in the SAME table, and the value seen at every level's
registry point is the one of the single implementation that is allowed to run, or nothing. -/

/-- override, for every hierarchy: every entry of a (top class, name, context) handler table but the
last one registered has the context in its ignore list — whichever class level it was attached at —
hence is skipped before its requirements are looked at and its body is not invoked -/
theorem hier_earlier_ignored (h : HHistory) (t : ClassId) (n : Name) (c v : Comp)
    (hv : v ∈ ((hRegister h).handlers t n c).dropLast) :
    c ∈ (hWorld env (hRegister h)).ignore v ∧
    ∀ (inG : Comp → Bool) (ss : Bool) (d : Decl) (i : Inst), present i c = true →
      process (hWorld env (hRegister h)) ss v d i = .skipped .skip [] ∧
      fires (hWorld env (hRegister h)) inG v d i = false := by
  have hc : c ∈ (hRegister h).ignore v := hregister_InvA h t n c v hv
  refine ⟨hc, ?_⟩
  intro inG ss d i hp
  have hany : ((hWorld env (hRegister h)).ignore v).any (present i) = true :=
    List.any_eq_true.mpr ⟨c, hc, hp⟩
  exact ⟨(process_cases _ ss v d i).1 hany, by simp [fires, hany]⟩

/-- …and only they are: nothing is told to ignore a context except the non-last entries of some table -/
theorem hier_ignore_only_earlier (h : HHistory) (v c : Comp) (hc : c ∈ (hRegister h).ignore v) :
    ∃ t n, v ∈ ((hRegister h).handlers t n c).dropLast :=
  hregister_InvB h v c hc

/-- the last entry of a table is not told to ignore the context, provided it was registered once
(it occurs once in that table and in no other table of the context) -/
theorem hier_latest_not_ignored (h : HHistory) (t : ClassId) (n : Name) (c v : Comp)
    (hl : ((hRegister h).handlers t n c).getLast? = some v)
    (hnd : ((hRegister h).handlers t n c).Nodup)
    (honce : ∀ t' n', v ∈ (hRegister h).handlers t' n' c → t' = t ∧ n' = n) :
    c ∉ (hWorld env (hRegister h)).ignore v := by
  intro hc
  obtain ⟨t', n', hm⟩ := hier_ignore_only_earlier h v c hc
  obtain ⟨rfl, rfl⟩ := honce t' n' (List.dropLast_subset _ hm)
  exact getLast_not_mem_dropLast _ v hnd hl hm

/-- the override table is SHARED by everything that implements the same top-level point: a class whose
parents chain is `mids ++ [top]`, all of which declare the name, registers in the table of `top` —
the same table as a class that extends `top` directly; a class in the chain that does NOT declare the
name cuts the chain (`handlerRoot_eq`, the general form) -/
theorem hier_shared_table (r : HReg) (n : Name) (top : ClassId) (mids : List ClassId)
    (hall : ∀ x ∈ mids ++ [top], (r.registry x n).isSome = true) :
    handlerRoot r [top] n = some top ∧ handlerRoot r (mids ++ [top]) n = some top := by
  have ht : (r.registry top n).isSome = true := hall top (by simp)
  constructor
  · exact handlerRoot_eq r n [] [] top (by simp) ht (by simp)
  · exact handlerRoot_eq r n mids [] top (fun x hx => hall x (by simp [hx])) ht (by simp)

/-- what one wiring step does: the attribute becomes the LAST dependency of the point of `bases[0]` and
the last entry of the shared table for each of its contexts -/
theorem hier_attach_lands (r : HReg) (b : ClassId) (ps : List ClassId) (n : Name) (v pt : Comp) (ctxs : List Comp)
    (t : ClassId) (hb : r.registry b n = some pt) (ht : handlerRoot r (b :: ps) n = some t) :
    (hAttach (b :: ps) n v ctxs r).deps pt = r.deps pt ++ [v] ∧
    ∀ c ∈ ctxs, (hAttach (b :: ps) n v ctxs r).handlers t n c = r.handlers t n c ++ [v] := by
  unfold hAttach
  simp only [hb, ht]
  constructor
  · rw [(hfoldCtx_deps t n v _ _).1]; simp
  · intro c hc
    rw [hfoldCtx_handlers t n v _ (dedup_nodup _)]
    simp [dedup_mem, hc]

/-- the value at ANY level's registry point: the entry of its last dependency that ended up with a value
(a dependency is an implementation attached at this level or the re-declared point of a subclass) -/
theorem hier_point_value_general (h : HHistory) (p : Comp) (hp : (hRegister h).isPoint p = true)
    (inG : Comp → Bool) (ss : Bool) (seed : Inst) (o : List Comp)
    (hv : Valid (hWorld env (hRegister h)) inG seed o)
    (hpo : p ∈ evald inG o) (hen : env.enabled p = true) (hps : seed p = none)
    (hph : ∀ t n c, p ∉ (hRegister h).handlers t n c) :
    (runComponents (hWorld env (hRegister h)) inG ss o (Broker.seeded seed)).inst p =
      lastPresent (((hRegister h).deps p).map (runComponents (hWorld env (hRegister h)) inG ss o (Broker.seeded seed)).inst) := by
  have hin : inG p = true := (List.mem_filter.mp hpo).2
  have hign : ∀ x ∈ (hRegister h).ignore p,
      present (runComponents (hWorld env (hRegister h)) inG ss o (Broker.seeded seed)).inst x = false := by
    intro x hx
    obtain ⟨t, n, hm⟩ := hier_ignore_only_earlier h p x hx
    exact absurd (List.dropLast_subset _ hm) (hph t n x)
  have := (run_view _ inG ss seed o hv p hpo).1
  simp only [entry, present, hps] at this
  rw [this]
  exact hpoint_record inG ss env _ p hp _ hin hen hign

/-- a family of components closed under "dependencies of its registry points": if every DATASOURCE of the
family ends up absent or with the entry `x`, so does every registry point of the family — at every level -/
theorem hier_family_value (h : HHistory) (inG : Comp → Bool) (ss : Bool) (seed : Inst) (o : List Comp)
    (hv : Valid (hWorld env (hRegister h)) inG seed o)
    (fam : Comp → Prop)
    (hclosed : ∀ p, fam p → (hRegister h).isPoint p = true → ∀ d ∈ (hRegister h).deps p, fam d)
    (x : Option Val)
    (hleaf : ∀ v, fam v → (hRegister h).isPoint v = false →
      (runComponents (hWorld env (hRegister h)) inG ss o (Broker.seeded seed)).inst v = none ∨
      (runComponents (hWorld env (hRegister h)) inG ss o (Broker.seeded seed)).inst v = x)
    (hpt : ∀ p, (hRegister h).isPoint p = true →
      seed p = none ∧ env.enabled p = true ∧ ∀ t n c, p ∉ (hRegister h).handlers t n c) :
    ∀ p, fam p →
      (runComponents (hWorld env (hRegister h)) inG ss o (Broker.seeded seed)).inst p = none ∨
      (runComponents (hWorld env (hRegister h)) inG ss o (Broker.seeded seed)).inst p = x := by
  -- along the order: a point's dependencies that are evaluated at all come before it
  have key : ∀ (post pre : List Comp), o = pre ++ post →
      (∀ c ∈ pre, fam c →
        (runComponents (hWorld env (hRegister h)) inG ss o (Broker.seeded seed)).inst c = none ∨
        (runComponents (hWorld env (hRegister h)) inG ss o (Broker.seeded seed)).inst c = x) →
      ∀ c ∈ pre ++ post, fam c →
        (runComponents (hWorld env (hRegister h)) inG ss o (Broker.seeded seed)).inst c = none ∨
        (runComponents (hWorld env (hRegister h)) inG ss o (Broker.seeded seed)).inst c = x := by
    intro post
    induction post with
    | nil => intro pre _ hp c hc; exact hp c (by simpa using hc)
    | cons d post ih =>
      intro pre ho hp
      have hd : fam d →
          (runComponents (hWorld env (hRegister h)) inG ss o (Broker.seeded seed)).inst d = none ∨
          (runComponents (hWorld env (hRegister h)) inG ss o (Broker.seeded seed)).inst d = x := by
        intro hfd
        cases hip : (hRegister h).isPoint d with
        | false => exact hleaf d hfd hip
        | true =>
          obtain ⟨hsd, hed, hhd⟩ := hpt d hip
          by_cases hde : d ∈ evald inG o
          · rw [hier_point_value_general env h d hip inG ss seed o hv hde hed hsd hhd]
            apply lastPresent_all_eq
            intro a ha
            obtain ⟨y, hy, rfl⟩ := List.mem_map.mp ha
            have hfy := hclosed d hfd hip y hy
            cases hiy : (hRegister h).isPoint y with
            | false => exact hleaf y hfy hiy
            | true =>
              by_cases hye : y ∈ evald inG o
              · have hyg := (List.mem_filter.mp hye).2
                have hyo := (List.mem_filter.mp hye).1
                have hdeps : y ∈ (hWorld env (hRegister h)).deps d := by
                  simp [World.deps, hWorld, hip, pointDecl, Decl.deps, hy]
                obtain ⟨h1, h2⟩ := hv.depsFirst pre d post ho (List.mem_filter.mp hde).2 y hdeps hyg
                rw [ho] at hyo
                rcases List.mem_append.mp hyo with h3 | h3
                · exact hp y h3 hfy
                · rcases List.mem_cons.mp h3 with h4 | h4
                  · exact absurd h4 h2
                  · exact absurd h4 h1
              · left
                rw [(run_view_out _ inG ss seed o y hye).1]
                exact (hpt y hiy).1
          · left
            rw [(run_view_out _ inG ss seed o d hde).1]
            exact hsd
      have := ih (pre ++ [d]) (by simp [ho]) (by
        intro c hc hfc
        rcases List.mem_append.mp hc with h1 | h1
        · exact hp c h1 hfc
        · have : c = d := by simpa using h1
          rw [this] at hfc ⊢; exact hd hfc)
      intro c hc
      exact this c (by simpa using hc)
  intro p hfp
  by_cases hpo : p ∈ o
  · exact key o [] (by simp) (by simp) p (by simpa using hpo) hfp
  · have hpe : p ∉ evald inG o := fun m => hpo (List.mem_filter.mp m).1
    cases hip : (hRegister h).isPoint p with
    | false => exact hleaf p hfp hip
    | true =>
      left
      rw [(run_view_out _ inG ss seed o p hpe).1]
      exact (hpt p hip).1

/-- …and a registry point from which the implementation `vL` is reached (through re-declared points) holds
exactly `vL`'s entry: its value if it produced one, nothing otherwise -/
theorem hier_path_value (h : HHistory) (inG : Comp → Bool) (ss : Bool) (seed : Inst) (o : List Comp)
    (hv : Valid (hWorld env (hRegister h)) inG seed o)
    (fam : Comp → Prop)
    (hclosed : ∀ p, fam p → (hRegister h).isPoint p = true → ∀ d ∈ (hRegister h).deps p, fam d)
    (vL : Comp)
    (hgood : ∀ q, fam q →
      (runComponents (hWorld env (hRegister h)) inG ss o (Broker.seeded seed)).inst q = none ∨
      (runComponents (hWorld env (hRegister h)) inG ss o (Broker.seeded seed)).inst q =
        (runComponents (hWorld env (hRegister h)) inG ss o (Broker.seeded seed)).inst vL)
    (hpt : ∀ p, fam p → (hRegister h).isPoint p = true →
      p ∈ evald inG o ∧ seed p = none ∧ env.enabled p = true ∧ ∀ t n c, p ∉ (hRegister h).handlers t n c)
    (p : Comp) (hfp : fam p) (hpath : Path (hRegister h) p vL) :
    (runComponents (hWorld env (hRegister h)) inG ss o (Broker.seeded seed)).inst p =
      (runComponents (hWorld env (hRegister h)) inG ss o (Broker.seeded seed)).inst vL := by
  induction hpath with
  | direct p v hip hvd =>
    obtain ⟨hpe, hsp, hen, hph⟩ := hpt p hfp hip
    rw [hier_point_value_general env h p hip inG ss seed o hv hpe hen hsp hph]
    apply lastPresent_all_eq_mem
    · intro a ha
      obtain ⟨y, hy, rfl⟩ := List.mem_map.mp ha
      exact hgood y (hclosed p hfp hip y hy)
    · exact List.mem_map.mpr ⟨v, hvd, rfl⟩
  | step p q v hip hqd _ ih =>
    obtain ⟨hpe, hsp, hen, hph⟩ := hpt p hfp hip
    have hfq := hclosed p hfp hip q hqd
    rw [hier_point_value_general env h p hip inG ss seed o hv hpe hen hsp hph]
    apply lastPresent_all_eq_mem
    · intro a ha
      obtain ⟨y, hy, rfl⟩ := List.mem_map.mp ha
      exact hgood y (hclosed p hfp hip y hy)
    · exact List.mem_map.mpr ⟨q, hqd, ih hgood hfq⟩

/-- the value clause over a hierarchy.  `c` is the active context, `L` the handler table of the spec's top
class `T` for `c`, `fam` the spec: the top-level point, its re-declarations and everything wired to them
(closed under the dependency lists of its registry points).  Under hypothesis (H) — every implementation
of the spec is either in the shared table `L` or bound (`Requires`) to contexts other than `c` —
(1) no implementation other than the last entry of `L` ends up with a value, whichever level it is attached
at; (2) every registry point of the spec, at every level, holds that last entry's value or nothing; (3) a
point from which the last entry is reached holds exactly its entry (its value, or nothing if it produced none).
PARTIAL: (H) is a hypothesis on the registration state; it is derived from the history for the flat shape
(`registration_lists` + `point_value_partial`), and for generated hierarchies it is computed by the driver
on every case (`H=ok` in the registration stream), not proved from the fold in general. -/
theorem hier_point_value_partial (h : HHistory) (T : ClassId) (n : Name) (c : Comp)
    (inG : Comp → Bool) (ss : Bool) (seed : Inst) (o : List Comp)
    (hv : Valid (hWorld env (hRegister h)) inG seed o)
    (hc : present seed c = true) (honly : ∀ x, present seed x = true → x = c)
    (hdecl : ∀ x, ((hWorld env (hRegister h)).decl x).isSome = true → x ≠ c)
    (fam : Comp → Prop) (hcf : ¬ fam c)
    (hclosed : ∀ p, fam p → (hRegister h).isPoint p = true → ∀ d ∈ (hRegister h).deps p, fam d)
    (hH : ∀ v, fam v → (hRegister h).isPoint v = false →
      v ∈ (hRegister h).handlers T n c ∨ ∃ cs, Requires (hWorld env (hRegister h)) cs v ∧ c ∉ cs)
    (hpt : ∀ p, (hRegister h).isPoint p = true →
      env.enabled p = true ∧ ∀ t' n' c', p ∉ (hRegister h).handlers t' n' c')
    (hpe : ∀ p, fam p → (hRegister h).isPoint p = true → p ∈ evald inG o) :
    let b := runComponents (hWorld env (hRegister h)) inG ss o (Broker.seeded seed)
    let x : Option Val := match ((hRegister h).handlers T n c).getLast? with | none => none | some vL => b.inst vL
    (∀ v, fam v → (hRegister h).isPoint v = false → ((hRegister h).handlers T n c).getLast? ≠ some v → b.inst v = none) ∧
    (∀ p, fam p → b.inst p = none ∨ b.inst p = x) ∧
    (∀ p vL, fam p → ((hRegister h).handlers T n c).getLast? = some vL → Path (hRegister h) p vL → b.inst p = b.inst vL) := by
  intro b x
  have hseednone : ∀ y, y ≠ c → seed y = none := by
    intro y hy
    cases hsy : seed y with
    | none => rfl
    | some val => exact absurd (honly y (by simp [present, hsy])) hy
  have hcpres : present b.inst c = true := seeded_stays _ inG ss seed o c hc
  have hpdecl : ∀ p, (hRegister h).isPoint p = true → p ≠ c := by
    intro p hp; apply hdecl; simp [hWorld, hp]
  have h1 : ∀ v, fam v → (hRegister h).isPoint v = false →
      ((hRegister h).handlers T n c).getLast? ≠ some v → b.inst v = none := by
    intro v hfv hiv hne
    have hvc : v ≠ c := fun hh => hcf (hh ▸ hfv)
    rcases hH v hfv hiv with hL | ⟨cs, hr, hccs⟩
    · have hdl := mem_dropLast_of_ne_getLast _ v hL hne
      have hig := (hier_earlier_ignored env h T n c v hdl).1
      rcases inst_eq_record _ inG ss seed o hv v (hseednone v hvc) with h0 | ⟨_, h1⟩
      · exact h0
      · rw [h1]
        cases hdv : (hWorld env (hRegister h)).decl v with
        | none => simp [record, eligible, hdv]
        | some d =>
          exact record_val_none _ inG ss v d hdv _ (Or.inl (List.any_eq_true.mpr ⟨c, hig, hcpres⟩))
    · exact (requires_absent _ inG ss seed o hv cs
        (fun y hy => hseednone y (fun hh => hccs (hh ▸ hy)))
        (fun y hy => hseednone y (hdecl y hy)) v hr).1
  have hpt' : ∀ p, (hRegister h).isPoint p = true →
      seed p = none ∧ env.enabled p = true ∧ ∀ t' n' c', p ∉ (hRegister h).handlers t' n' c' :=
    fun p hp => ⟨hseednone p (hpdecl p hp), (hpt p hp).1, (hpt p hp).2⟩
  have h2 : ∀ p, fam p → b.inst p = none ∨ b.inst p = x := by
    apply hier_family_value env h inG ss seed o hv fam hclosed x _ hpt'
    intro v hfv hiv
    cases hl : ((hRegister h).handlers T n c).getLast? with
    | none => left; exact h1 v hfv hiv (by rw [hl]; simp)
    | some vL =>
      by_cases hvv : vL = v
      · right; show b.inst v = x; simp only [x, hl, hvv]
      · left; exact h1 v hfv hiv (by rw [hl]; intro hh; exact hvv (Option.some.inj hh))
  refine ⟨h1, h2, ?_⟩
  intro p vL hfp hl hpath
  apply hier_path_value env h inG ss seed o hv fam hclosed vL _ _ p hfp hpath
  · intro q hfq
    have := h2 q hfq
    simp only [x, hl] at this
    exact this
  · intro q hfq hiq
    exact ⟨hpe q hfq hiq, (hpt' q hiq).1, (hpt' q hiq).2.1, (hpt' q hiq).2.2⟩

/-! a hierarchy witness-free example: Top = class 0 declares spec 0 as point 10; Mid = class 1 extends Top
and re-declares it as point 11; Direct = class 2 extends Top with implementation 1 for context 20;
Nested = class 3 extends Mid with implementation 2 for context 20 (registered later) -/
private def hHist : HHistory :=
  [⟨[], [⟨0, 10, true, [], true⟩]⟩, ⟨[0], [⟨0, 11, true, [], true⟩]⟩, ⟨[0], [⟨0, 1, false, [20], true⟩]⟩, ⟨[1, 0], [⟨0, 2, false, [20], true⟩]⟩]
example : (hRegister hHist).deps 10 = [11, 1] ∧ (hRegister hHist).deps 11 = [2] ∧
    (hRegister hHist).handlers 0 0 20 = [1, 2] ∧ (hRegister hHist).handlers 1 0 20 = [] ∧
    (hRegister hHist).ignore 1 = [20] ∧ (hRegister hHist).ignore 2 = [] := by decide
example : hWellFormed 0 hHist = true ∧ famLeaves (hRegister hHist) 5 10 = [2, 1] := by decide
example : Path (hRegister hHist) 10 2 := .step 10 11 2 (by decide) (by decide) (.direct 11 2 (by decide) (by decide))

/-! ### handler lists of any length -/

/-- the handler history of a (top spec, context) is a list of any length; EVERY implementation in it that has
a later one after it — the first, the second, …, in particular the one that was the latest before the newest
registration — is told to ignore the context (positions, so repeated entries are covered too) -/
theorem all_but_last_ignored (h : HHistory) (t : ClassId) (n : Name) (c v : Comp) (pre post : List Comp)
    (hs : (hRegister h).handlers t n c = pre ++ v :: post) (hpost : post ≠ []) :
    c ∈ (hWorld env (hRegister h)).ignore v ∧
    ∀ (inG : Comp → Bool) (ss : Bool) (d : Decl) (i : Inst), present i c = true →
      process (hWorld env (hRegister h)) ss v d i = .skipped .skip [] ∧
      fires (hWorld env (hRegister h)) inG v d i = false :=
  hier_earlier_ignored env h t n c v (by rw [hs]; exact mem_dropLast_of_split pre post v hpost)

/-- the same for the flat reading: the list is `implsFor h n c` -/
theorem all_but_last_ignored_flat (h : History) (n : Name) (c v : Comp) (pre post : List Comp)
    (hreg : (root.registry n).isSome = true) (hs : implsFor h n c = pre ++ v :: post) (hpost : post ≠ []) :
    c ∈ (world root env (register root h)).ignore v :=
  (earlier_ignored root env h n c hreg v (by rw [hs]; exact mem_dropLast_of_split pre post v hpost)).1

/-- one registration step: wiring a new implementation declared for `c` tells every implementation already in
the table of `c` — the previous latest included, not only the first — to ignore `c`, and nothing is ever
removed from an ignore list -/
theorem previous_latest_ignored (r : HReg) (b : ClassId) (ps : List ClassId) (n : Name) (v pt : Comp)
    (ctxs : List Comp) (t : ClassId) (hb : r.registry b n = some pt) (ht : handlerRoot r (b :: ps) n = some t)
    (c u : Comp) (hc : c ∈ ctxs) (hu : u ∈ r.handlers t n c) :
    c ∈ (hAttach (b :: ps) n v ctxs r).ignore u ∧
    ∀ x w, x ∈ r.ignore w → x ∈ (hAttach (b :: ps) n v ctxs r).ignore w := by
  unfold hAttach
  simp only [hb, ht]
  exact ⟨hfoldCtx_ignore t n v _ (dedup_nodup _) _ c u ((dedup_mem _ _).mpr hc) hu,
    fun x w hx => hfoldCtx_ignore_mono t n v _ _ x w hx⟩

private def sortDedupIgnore (l : List Comp) : List Comp := dedup l
private def cHist : HHistory :=
  [⟨[], [⟨0, 10, true, [], true⟩, ⟨1, 11, true, [], true⟩]⟩, ⟨[0], [⟨0, 5, false, [20], true⟩, ⟨1, 1, false, [20], true⟩]⟩,
   ⟨[0], [⟨0, 6, false, [21], true⟩, ⟨1, 2, false, [20, 21], true⟩]⟩, ⟨[0], [⟨1, 3, false, [20], true⟩]⟩, ⟨[0], [⟨0, 7, false, [20], true⟩, ⟨1, 4, false, [20], true⟩]⟩]
example : (hRegister cHist).handlers 0 1 20 = [1, 2, 3, 4] ∧ (hRegister cHist).ignore 3 = [20] ∧
    (sortDedupIgnore ((hRegister cHist).ignore 2)) = [20] ∧ (hRegister cHist).ignore 4 = [] := by decide

/-! ### specialised datasource types -/

/-- registration looks at the `isDs` flag of an attribute and at nothing else about its type: an attribute that
is neither a RegistryPoint nor (by type hierarchy) a datasource leaves the registration state untouched — and a
datasource of a specialised type is wired by the very same `hAttach` as a plain one (definitionally) -/
theorem only_datasources_registered (k : ClassId) (ps : List ClassId) (r : HReg) (e : HEntry)
    (hp : e.isPoint = false) :
    (e.isDs = false → hRegEntry k ps r e = r) ∧
    (e.isDs = true → hRegEntry k ps r e = hAttach ps e.name e.comp e.ctxs r) := by
  constructor <;> intro hd <;> simp [hRegEntry, hp, hd]

private def sHist : HHistory :=
  [⟨[], [⟨0, 10, true, [], true⟩]⟩, ⟨[0], [⟨0, 1, false, [20], true⟩]⟩, ⟨[0], [⟨0, 2, false, [20], false⟩]⟩,
   ⟨[0], [⟨0, 3, false, [20], true⟩]⟩]
example : (hRegister sHist).deps 10 = [1, 3] ∧ (hRegister sHist).handlers 0 0 20 = [1, 3] ∧
    (hRegister sHist).ignore 1 = [20] ∧ (hRegister sHist).ignore 2 = [] := by decide

/-! ### returning None is a value

Presence, not value, decides in this engine (C02): a datasource that returns None has SUCCEEDED with the value
None.  The spec is then present with None — the latest implementation's own result; nothing is taken from an
overridden implementation.  Only a raising implementation produces nothing. -/

/-- what the model does with a datasource body that returns None: the result is stored like any value -/
theorem none_result_is_a_value (w : World) (ss : Bool) (c : Comp) (d : Decl) (i : Inst)
    (hk : d.kind = .datasource) (hb : w.body c (d.deps.map i) = .value .none) :
    invoke w ss c d i = .stored .none [] := by
  simp [invoke, hk, hb]

private def nEnv : World where
  decl c := if c = 2 then some ⟨.datasource, [.one 20], []⟩ else none
  enabled _ := true
  ignore _ := []
  regPoints _ := []
  body _ _ := .value .none
  elemBody _ _ := .noResult
private def nHist : History := [⟨true, [⟨0, 2, [20]⟩]⟩]
private def nIn : Comp → Bool := fun c => c = 2 ∨ c = 10 ∨ c = 20
example : (runComponents (world wRoot nEnv (register wRoot nHist)) nIn false [20, 2, 10] (Broker.seeded wSeed)).inst 10
    = some .none := by decide

/-! ### derived execution contexts

A context class derived from another one (21 := `class JBossCtx(HostCtx)`, 20 := `HostCtx`) is a key of its own:
implementation 1 is declared for the parent, 2 for the derived one, 3 for the list mixing both, 4 later for the
derived one only.  Under the derived context the supplier is 4 and 2, 3 are told to ignore it; under the parent
the supplier stays 3 and only 1 is told to ignore it (IGNORE is a set: the model's list may repeat an entry) — `earlier_ignored`, `other_context_silent` and
`point_value_partial` apply to 20 and 21 like to any two keys. -/
private def dHist : History :=
  [⟨true, [⟨0, 1, [20]⟩]⟩, ⟨true, [⟨0, 2, [21]⟩]⟩, ⟨true, [⟨0, 3, [20, 21]⟩]⟩, ⟨true, [⟨0, 4, [21]⟩]⟩]
example : supplier dHist 0 21 = some 4 ∧ supplier dHist 0 20 = some 3 ∧
    (register wRoot dHist).ignore 1 = [20] ∧ (register wRoot dHist).ignore 2 = [21, 21] ∧
    (register wRoot dHist).ignore 3 = [21] ∧ (register wRoot dHist).ignore 4 = [] := by decide

/-! ### non-vacuity -/
private def exHist : History :=
  [⟨true, [⟨0, 1, [20]⟩, ⟨5, 9, [20]⟩]⟩, ⟨true, [⟨0, 2, [20, 21]⟩]⟩, ⟨false, [⟨0, 4, [20]⟩]⟩, ⟨true, [⟨0, 3, [21, 21]⟩]⟩]
example : implsOf exHist 0 = [1, 2, 3] ∧ implsFor exHist 0 20 = [1, 2] ∧ implsFor exHist 0 21 = [2, 3] := by decide
example : supplier exHist 0 20 = some 2 ∧ supplier exHist 0 21 = some 3 ∧ supplier exHist 0 22 = none := by decide
example : (register wRoot exHist).deps 0 = [1, 2, 3] ∧ (register wRoot exHist).ignore 1 = [20] ∧
    (register wRoot exHist).ignore 2 = [21] ∧ (register wRoot exHist).ignore 3 = [] ∧
    (register wRoot exHist).ignore 4 = [] ∧ (register wRoot exHist).deps 5 = [] := by decide
example : supplier rHist 1 20 = some 3 ∧ implsOf rHist 1 = [2, 3] := by decide
example : Requires wEnv [20] 2 := .req 2 _ 20 rfl (by decide) (by decide) (.ctx 20 (by decide) rfl)
example : (runComponents (world wRoot wEnv (register wRoot wHist)) wIn false [20, 1, 2, 10] (Broker.seeded wSeed)).inst 10
    = some (.atom 7) := by decide

/-! ### propagation of the registry point's flags (filterable, raw, multi_output, no_obfuscate, no_redact, prio)

`fRegister own h` (Model/Specs, third part) runs over the same class-creation history as `hRegister h`;
`own c` = the flags the component `c` was created with. -/

/-- the flag machine wires exactly what `hRegister` wires: same class count, same registries, same dependency lists -/
theorem flags_machine_agrees (own : Comp → Flags) (h : HHistory) :
    (fRegister own h).nclasses = (hRegister h).nclasses ∧ (fRegister own h).registry = (hRegister h).registry ∧
    (fRegister own h).deps = (hRegister h).deps := fRegister_sim own h

/-- one wiring step: what is attached takes the flags the point of `bases[0]` has at that moment (not the flags of
the top of the chain, not its own), and nothing else changes its flags -/
theorem flags_from_base_point (b : ClassId) (ps : List ClassId) (n : Name) (v pt : Comp) (r : FReg)
    (hreg : r.registry b n = some pt) :
    (fAttach (b :: ps) n v r).flags v = r.flags pt ∧ ∀ x, x ≠ v → (fAttach (b :: ps) n v r).flags x = r.flags x := by
  unfold fAttach
  simp only [hreg]
  exact ⟨by simp, fun x hx => by simp [hx]⟩

/-- for every history in which every attribute is a component of its own: every dependency of a registry point —
an implementation, or a re-declared registry point — carries exactly the flags of that point -/
theorem flags_follow_point (own : Comp → Flags) (h : HHistory) (hnd : (hComps h).Nodup) (p d : Comp)
    (hd : d ∈ (hRegister h).deps p) : (fRegister own h).flags d = (fRegister own h).flags p := by
  have hi := fHist_inv h (FReg.init own) (fun _ => False)
    ⟨by intro k n p hp; simp [FReg.init] at hp, by intro p d hd; simp [FReg.init] at hd⟩ hnd (by intro x _ hx; exact hx)
  rw [← (fRegister_sim own h).2.2] at hd
  exact (hi.2 p d hd).2.2

/-- hence down every chain of re-declarations: whatever is reached from a registry point through registry points
carries that point's flags — all implementations of a spec, at whatever level they are attached, and every
re-declared point, agree with the top-level point -/
theorem family_flags (own : Comp → Flags) (h : HHistory) (hnd : (hComps h).Nodup) (p v : Comp)
    (hp : Path (hRegister h) p v) : (fRegister own h).flags v = (fRegister own h).flags p := by
  induction hp with
  | direct p v _ hv => exact flags_follow_point own h hnd p v hv
  | step p q v _ hq _ ih => rw [ih]; exact flags_follow_point own h hnd p q hq

/-- a component that is a dependency of no registry point (a top-level point, a grandchild's datasource, a
datasource under a name nobody declares, something that is not a datasource) keeps the flags it was created with -/
theorem unwired_keeps_own_flags (own : Comp → Flags) (h : HHistory) (x : Comp)
    (hx : ∀ p, x ∉ (hRegister h).deps p) : (fRegister own h).flags x = own x := by
  apply fRegister_own own h x
  intro p
  rw [(fRegister_sim own h).2.2]
  exact hx p

/-- together: every member of a spec's family carries the flags the TOP-LEVEL point was declared with -/
theorem family_flags_are_the_top_points (own : Comp → Flags) (h : HHistory) (hnd : (hComps h).Nodup) (p v : Comp)
    (hp : Path (hRegister h) p v) (htop : ∀ q, p ∉ (hRegister h).deps q) : (fRegister own h).flags v = own p := by
  rw [family_flags own h hnd p v hp]; exact unwired_keeps_own_flags own h p htop

private def fHist : HHistory :=
  [⟨[], [⟨0, 10, true, [], true⟩]⟩, ⟨[0], [⟨0, 11, true, [], true⟩]⟩, ⟨[1, 0], [⟨0, 2, false, [20], true⟩]⟩,
   ⟨[0], [⟨0, 1, false, [20], true⟩, ⟨3, 4, false, [20], true⟩]⟩]
private def fOwn : Comp → Flags := fun c => if c = 10 then 5 else if c = 11 then 7 else if c = 4 then 9 else 0
example : (hComps fHist).Nodup ∧ (hRegister fHist).deps 10 = [11, 1] ∧ (hRegister fHist).deps 11 = [2] := by decide
example : (fRegister fOwn fHist).flags 11 = 5 ∧ (fRegister fOwn fHist).flags 2 = 5 ∧ (fRegister fOwn fHist).flags 1 = 5 ∧
    (fRegister fOwn fHist).flags 10 = 5 ∧ (fRegister fOwn fHist).flags 4 = 9 := by decide
example : Path (hRegister fHist) 10 2 := .step 10 11 2 (by decide) (by decide) (.direct 11 2 (by decide) (by decide))
example : ∀ q ∈ [10, 11, 1, 2, 4], (10 : Comp) ∉ (hRegister fHist).deps q := by decide
example : (fAttach [0] 0 1 (fRegister fOwn (fHist.take 2))).flags 1 = 5 := by decide

/-- the hypothesis of `flags_follow_point` is needed, and it is where the code stops propagating: ONE component
attached twice — first as implementation of a point with flags 5, then under a point with flags 7 — ends with the
flags of the second point although it is still a dependency of the first -/
theorem flags_scope_distinct_components :
    ¬ (∀ (own : Comp → Flags) (h : HHistory) (p d : Comp), d ∈ (hRegister h).deps p →
        (fRegister own h).flags d = (fRegister own h).flags p) := by
  intro hall
  have := hall (fun c => if c = 10 then 5 else if c = 12 then 7 else 0)
    [⟨[], [⟨0, 10, true, [], true⟩, ⟨1, 12, true, [], true⟩]⟩, ⟨[0], [⟨0, 1, false, [20], true⟩]⟩,
     ⟨[0], [⟨1, 1, false, [20], true⟩]⟩] 10 1 (by decide)
  revert this
  decide

/-! ### one implementation OBJECT attached twice (`p0 = Earlier.p0`)

The hypotheses `hnd` / `honce` of `hier_latest_not_ignored` ("registered once") are needed: the full statement is
false of the code.  Re-exporting the same datasource object under the same spec name in a second class makes
`_register_context_handler` find the object itself in the handler list and tell it to ignore its own context. -/
def LatestNotIgnoredFull : Prop :=
  ∀ (h : HHistory) (t : ClassId) (n : Name) (c v : Comp),
    ((hRegister h).handlers t n c).getLast? = some v → c ∉ (hRegister h).ignore v

private def tHist : HHistory :=
  [⟨[], [⟨0, 10, true, [], true⟩]⟩, ⟨[0], [⟨0, 3, false, [20], true⟩]⟩, ⟨[0], [⟨0, 3, false, [20], true⟩]⟩]

/-- known finding `same-implementation-registered-twice` (corpus/C05, replayed on the code every run) -/
theorem reexport_witness : ¬ LatestNotIgnoredFull := by
  intro hall
  exact hall tHist 0 0 20 3 (by decide) (by decide)

example : (hRegister tHist).deps 10 = [3, 3] ∧ (hRegister tHist).handlers 0 0 20 = [3, 3] ∧
    (hRegister tHist).ignore 3 = [20] := by decide

end IV.Specs
