import IV.Lemmas.CleanState
/-!
C10 — cleaning is a deterministic, order-preserving function of content and configuration.

`cleanContent` is ONE function of (recognisers, configuration, state, call): the stage list `stages` is a
fixed sub-list of `pattern, allow_filter, hostname, ip, ipv6, keyword, mac, password`.  That the
implementation computes this function under every PYTHONHASHSEED is what the correspondence run checks
(child interpreters, many seeds); the theorems below are about the shape of the function, for every
recogniser `Env`, configuration, cleaner state and call.
-/
namespace IV.CleanState

/-- **state threading made explicit**: `clean_content` = reverse ∘ (filterMap with state, bottom-up) ∘ reverse,
i.e. the non-`None` entries of `runUp` in input order, or `[]` when none of them is non-blank -/
theorem cleanContent_eq_runUp (E : Env) (cfg : Cfg) (st : St) (call : Call) :
    (cleanContent E cfg st call).2 =
      (let out := (runUp E cfg call (st, call.allowlist.getD []) call.lines).2.filterMap id
       if out.any (fun l => !l.isEmpty) then out else []) := by
  simp only [cleanContent, lineLoop_reverse, List.any_reverse, List.reverse_reverse]
  split <;> rfl

/-- the cleaner state in which input line `i` is cleaned -/
def stateBefore (E : Env) (cfg : Cfg) (st : St) (call : Call) (i : Nat) : LSt :=
  (runUp E cfg call (st, call.allowlist.getD []) (call.lines.drop (i + 1))).1

/-- **clean_monotone** — there is a STRICTLY INCREASING list of input indices, one per output line, such that
output line `j` is exactly what `_clean_line` returns for input line `idx[j]` in the state the bottom-up
loop has reached there.  Strictly increasing = relative order kept and no two output lines share a source;
the equation = every output line derives from exactly that one input line. -/
theorem clean_monotone (E : Env) (cfg : Cfg) (st : St) (call : Call) :
    ∃ idx : List Nat, idx.Pairwise (· < ·) ∧ (∀ i ∈ idx, i < call.lines.length) ∧
      idx.map (fun i => (call.lines[i]?).bind
        (fun l => (cleanLine E cfg call (stateBefore E cfg st call i) l).2)) =
      (cleanContent E cfg st call).2.map some := by
  rw [cleanContent_eq_runUp]
  simp only
  split
  · obtain ⟨idx, hp, hb, hm⟩ := filterMap_indices (runUp E cfg call (st, call.allowlist.getD []) call.lines).2
    have hlen : (runUp E cfg call (st, call.allowlist.getD []) call.lines).2.length = call.lines.length := by
      generalize (st, call.allowlist.getD []) = s
      induction call.lines with
      | nil => rfl
      | cons l ls ih => simp [runUp, ih]
    refine ⟨idx, hp, fun i hi => by rw [← hlen]; exact hb i hi, ?_⟩
    rw [← hm]
    apply List.map_congr_left
    intro i _
    rw [runUp_get]
    unfold stateBefore
    cases call.lines[i]? <;> rfl
  · exact ⟨[], List.Pairwise.nil, by simp, by simp⟩

example : (cleanContent ⟨fun _ => [], fun _ => [], fun _ => [], fun _ => false, fun _ => [], fun _ => false,
    fun _ => [], id, {}⟩ ⟨"h.d".toList, false, false, false, false, [], ["x".toList]⟩ {}
    ⟨[], false, none, ["a".toList, "x".toList, "".toList, "b".toList]⟩).2 = ["a".toList, [], "b".toList] := by decide

/-- **blank_collapses** — when no line comes out non-blank (each result is `None` or `''`), the call returns `[]` -/
theorem blank_collapses (E : Env) (cfg : Cfg) (st : St) (call : Call)
    (h : ∀ r ∈ (runUp E cfg call (st, call.allowlist.getD []) call.lines).2, r = none ∨ r = some []) :
    (cleanContent E cfg st call).2 = [] := by
  rw [cleanContent_eq_runUp]
  simp only
  split
  · rename_i hany
    rw [List.any_eq_true] at hany
    obtain ⟨l, hl, hne⟩ := hany
    rw [List.mem_filterMap] at hl
    obtain ⟨r, hr, e⟩ := hl
    rcases h r hr with h1 | h1
    · rw [h1] at e; cases e
    · rw [h1] at e; simp at e; subst e; simp at hne
  · rfl

/-- an empty line goes through every stage untouched (each parser starts with `if not line: return line`) -/
theorem cleanLine_blank (E : Env) (cfg : Cfg) (call : Call) (s : LSt) :
    cleanLine E cfg call s [] = (s, some []) := by
  unfold cleanLine
  generalize stages cfg call = stgs
  simp only [List.take_nil]
  induction stgs with
  | nil => rfl
  | cons x xs ih => simp only [List.foldl_cons, stageStep]; exact ih

theorem runUp_blank (E : Env) (cfg : Cfg) (call : Call) (ls : List Str) (s : LSt) (h : ∀ l ∈ ls, l = []) :
    ∀ r ∈ (runUp E cfg call s ls).2, r = none ∨ r = some [] := by
  induction ls with
  | nil => intro r hr; simp [runUp] at hr
  | cons l ls ih =>
    intro r hr
    have hl : l = [] := h l (by simp)
    subst hl
    simp only [runUp, cleanLine_blank, List.mem_cons] at hr
    rcases hr with e | hm
    · exact Or.inr e
    · exact ih (fun l hl => h l (List.mem_cons_of_mem _ hl)) r hm

/-- in particular: content that consists of blank lines only is dropped, whatever the configuration -/
theorem blank_input_collapses (E : Env) (cfg : Cfg) (st : St) (call : Call) (h : ∀ l ∈ call.lines, l = []) :
    (cleanContent E cfg st call).2 = [] :=
  blank_collapses E cfg st call (runUp_blank E cfg call call.lines _ h)

/-- conversely, as soon as one line comes out non-blank NOTHING but the redacted / filtered lines is dropped:
the output is every non-`None` result, blank ones included, in input order -/
theorem nonblank_kept (E : Env) (cfg : Cfg) (st : St) (call : Call) (x : Str) (hx : x ≠ [])
    (h : some x ∈ (runUp E cfg call (st, call.allowlist.getD []) call.lines).2) :
    (cleanContent E cfg st call).2 =
      (runUp E cfg call (st, call.allowlist.getD []) call.lines).2.filterMap id := by
  rw [cleanContent_eq_runUp]
  simp only
  split
  · rfl
  · rename_i hany
    exfalso; apply hany
    rw [List.any_eq_true]
    refine ⟨x, List.mem_filterMap.mpr ⟨some x, h, rfl⟩, ?_⟩
    cases x with
    | nil => exact absurd rfl hx
    | cons c cs => rfl

/-- **empty_not_stored** — under a host context with a cleaner and some cleaning requested, a spec whose
cleaned content is `[]` is answered with the content error and the destination is left as it was
(no file is written); the same for a spec that is empty before cleaning -/
theorem empty_not_stored (E : Env) (cfg : Cfg) (st : St) (p : Provider) (file : Option Str)
    (hh : p.hostCtx = true) :
    (p.content = [] →
      (providerWrite E cfg st p file).2 = (.error .emptyContent, file)) ∧
    (p.content ≠ [] → p.hasCleaner = true → wantsCleaning p = true →
      (cleanContent E cfg st { p.call with lines := p.content }).2 = [] →
      (providerWrite E cfg st p file).2 = (.error .emptyAfterCleaning, file)) := by
  constructor
  · intro he
    simp [providerWrite, providerClean, he, hh]
  · intro hne hc hw hcl
    have : p.content.isEmpty = false := by cases hp : p.content <;> simp_all
    simp [providerWrite, providerClean, this, hh, hc, hw, hcl]

example : (match (providerWrite ⟨fun _ => [], fun _ => [], fun _ => [], fun _ => false, fun _ => [], fun _ => false,
    fun _ => [], id, {}⟩ ⟨"h.d".toList, false, false, false, false, [], ["x".toList]⟩ {}
    ⟨true, true, ["ax".toList, [], "x".toList], ⟨[], false, none, []⟩⟩ none).2 with
    | (.error .emptyAfterCleaning, none) => true | _ => false) = true := by decide

/-- and what IS stored under a host context after cleaning has at least one non-blank line -/
theorem stored_has_nonblank (E : Env) (cfg : Cfg) (st : St) (p : Provider) (file : Option Str) (st' : St)
    (txt : Option Str) (hh : p.hostCtx = true) (hc : p.hasCleaner = true) (hw : wantsCleaning p = true)
    (hok : providerWrite E cfg st p file = (st', .ok (), txt)) :
    ∃ ls : List Str, txt = some (join ['\n'] ls) ∧ ls = (cleanContent E cfg st { p.call with lines := p.content }).2 ∧
      ∃ l ∈ ls, l ≠ [] := by
  simp only [providerWrite, providerClean, hh, hc, hw, Bool.and_self, if_true] at hok
  split at hok
  · rename_i st'' e heq
    cases hok
  · rename_i st'' ls heq
    split at heq
    · cases heq
    · split at heq
      · cases heq
      · rename_i hne
        simp only [Prod.mk.injEq, Except.ok.injEq] at heq hok
        refine ⟨ls, hok.2.2.symm, heq.2.symm, ?_⟩
        rw [← heq.2]
        have hx := cleanContent_eq_runUp E cfg st { p.call with lines := p.content }
        simp only at hx
        split at hx
        · rename_i hany
          rw [hx]
          rw [List.any_eq_true] at hany
          obtain ⟨l, hl, hb⟩ := hany
          exact ⟨l, hl, by intro e; subst e; simp at hb⟩
        · rw [hx] at hne; simp at hne

/-- ONE fixed order: whatever the configuration and the call, the parser list is a sub-list of
`pattern, allow_filter, hostname, ip, ipv6, keyword, mac, password` -/
theorem stage_order_fixed (cfg : Cfg) (call : Call) :
    (stages cfg call).Sublist [.pattern, .allow, .hostname, .ip, .ipv6, .keyword, .mac, .password] := by
  unfold stages
  have h3 : (obfOrder.filter (fun s => s.enabled cfg && !call.noObfuscate.contains s.name)).Sublist obfOrder :=
    List.filter_sublist
  have e : [Stage.pattern, .allow, .hostname, .ip, .ipv6, .keyword, .mac, .password] =
      [Stage.pattern] ++ ([Stage.allow] ++ obfOrder) := rfl
  rw [e, List.append_assoc]
  apply List.Sublist.append
  · split
    · exact List.Sublist.refl _
    · exact List.nil_sublist _
  · apply List.Sublist.append
    · split
      · exact List.Sublist.refl _
      · exact List.nil_sublist _
    · exact h3

/-- and it depends on `no_obfuscate` only as a SET: order and repetition of the names do not matter -/
theorem stages_noObfuscate_set (cfg : Cfg) (c1 c2 : Call) (hr : c1.noRedact = c2.noRedact)
    (ha : c1.allowlist.isSome = c2.allowlist.isSome) (hn : ∀ n, n ∈ c1.noObfuscate ↔ n ∈ c2.noObfuscate) :
    stages cfg c1 = stages cfg c2 := by
  unfold stages
  rw [hr, ha]
  congr 2
  funext s
  have : c1.noObfuscate.contains s.name = c2.noObfuscate.contains s.name := by
    rw [Bool.eq_iff_iff]; simp [hn]
  rw [this]

/-! ### numbering of substitutes: a list, never a set

Which of several NEW items of one line becomes `10.230.230.N` / `host<N>` is fixed by the order of the LIST the
recogniser returned (IPv4: longest first, ties in order of occurrence; host names: order of occurrence, then the
system's own name): `addNew` appends the not-yet-known items one by one, the first occurrence deciding.  The
keys are consecutive (`range'`, `hostKeys`), so the i-th new item gets the i-th next number — whatever the
hash seed.  The correspondence compares exactly this numbering with the implementation under every seed. -/

theorem ip_numbering_first_occurrence (E : Env) (cfg : Cfg) (st : St) (line : Str) (h : Inv E cfg st) :
    (ipStage E st line).1.ipDb.map Prod.snd =
      addNew (st.ipDb.map Prod.snd)
        (((sortByLenDesc (E.findIp line)).filter (fun ip => !ipIgnore.contains ip)).map ip2int) ∧
    (ipStage E st line).1.ipDb.map Prod.fst = List.range' startIp (ipStage E st line).1.ipDb.length :=
  ⟨ipFold_vals E cfg _ (st, line) h, ((ipStage_pres E cfg st line) h).1.ipKeys⟩

theorem host_numbering_first_occurrence (E : Env) (cfg : Cfg) (hE : HexDigest E) (st : St) (line : Str)
    (h : Inv E cfg st) :
    (hostStage E cfg st line).1.hnDb.map Prod.snd =
      addNew (st.hnDb.map Prod.snd) ((if (domainOf cfg).isSome then E.findHost line else []) ++ [cfg.fqdn]) ∧
    (hostStage E cfg st line).1.hnDb.map Prod.fst = hostKeys E cfg (hostStage E cfg st line).1.hnCount := by
  refine ⟨?_, ((hostStage_pres E cfg hE st line) h).1.hnKeys⟩
  have happ : ∀ (v a b : List Str), addNew v (a ++ b) = addNew (addNew v a) b := by
    intro v a b; simp [addNew, List.foldl_append]
  rw [happ]
  unfold hostStage
  simp only
  have hinner : ∀ sl : St × Str, Inv E cfg sl.1 →
      (hn2db cfg sl.1 cfg.fqdn).1.hnDb.map Prod.snd = addNew (sl.1.hnDb.map Prod.snd) [cfg.fqdn] := by
    intro sl hi
    rw [hostStep_vals E cfg hE sl.1 cfg.fqdn hi]
    simp only [addNew, List.foldl_cons, List.foldl_nil]
    congr
  unfold dnDb
  cases hd : domainOf cfg with
  | none =>
    simp only [List.foldl_nil, Option.isSome_none]
    rw [hinner (st, line) h]; rfl
  | some d =>
    simp only [List.foldl_cons, List.foldl_nil, Option.isSome_some, if_true]
    have hi2 := (foldl_pres E cfg (fun sl : St × Str => sl.1) (hostStep cfg)
      (fun sl x => hostStep_pres E cfg hE sl x) (E.findHost line) (st, line) h).1
    rw [hinner _ hi2, hostFold_vals E cfg hE _ (st, line) h]

/-- two new host names and two new addresses on one line: numbered in list order -/
example :
    let E : Env := ⟨fun _ => ["9.9.9.9".toList, "1.2.3.4".toList], fun _ => ["www.db.d".toList, "db.d".toList],
      fun _ => [], fun _ => false, fun _ => [], fun _ => false, fun _ => "0123456789ab".toList, id, {}⟩
    let cfg : Cfg := ⟨"h.d".toList, true, false, true, false, [], []⟩
    let st := (cleanContent E cfg (initSt E cfg) ⟨[], false, none, ["x".toList]⟩).1
    hostMapping st = [("h.d".toList, "0123456789ab.example.com".toList), ("www.db.d".toList, "host2.example.com".toList),
      ("db.d".toList, "host3.example.com".toList)] ∧
    ipMapping st = [("9.9.9.9".toList, "10.230.230.1".toList), ("1.2.3.4".toList, "10.230.230.2".toList)] := by
  decide

/-! ### the allow list is an ORDERED dict

Which budget a line uses up is decided by the order of the filters: the FIRST pattern (in dict order) that the line
contains.  `core/filters.py` (fix 5473340) makes that order the order of registration; the correspondence compares the
glue path under every hash seed with this function applied to the registration-ordered list. -/

theorem allowStage_first_match (al : List (Str × Int)) (line : Str) :
    (∀ k n, al.find? (fun kv => contains kv.1 line) = some (k, n) →
      (allowStage al line).2 = some line ∧
      (allowStage al line).1 = (if n - 1 = 0 then al.filter (fun kv => kv.1 != k)
                                else al.map (fun kv => if kv.1 == k then (k, n - 1) else kv))) ∧
    (al.find? (fun kv => contains kv.1 line) = none → allowStage al line = (al, none)) := by
  constructor
  · intro k n h; simp [allowStage, h]
  · intro h; simp [allowStage, h]

/-- two patterns with budget 1 compete for the lower line: in the order alpha, beta the upper line is dropped, in
the order beta, alpha it is kept (the two answers the implementation gave under different hash seeds before the fix) -/
example :
    let E : Env := ⟨fun _ => [], fun _ => [], fun _ => [], fun _ => false, fun _ => [], fun _ => false, fun _ => [], id, {}⟩
    let cfg : Cfg := ⟨"h.d".toList, false, false, false, false, [], []⟩
    let ls := ["only alpha here".toList, "alpha and beta".toList]
    (cleanContent E cfg {} ⟨["password".toList], true, some [("alpha".toList, 1), ("beta".toList, 1)], ls⟩).2 = ["alpha and beta".toList] ∧
    (cleanContent E cfg {} ⟨["password".toList], true, some [("beta".toList, 1), ("alpha".toList, 1)], ls⟩).2 = ls := by
  decide

/-! ### the file entry point: `clean_file` = read, `clean_content`, replace the whole content -/

theorem readlinesGo_flatten (txt cur : Str) : (readlinesGo txt cur).flatten = cur.reverse ++ txt := by
  induction txt generalizing cur with
  | nil => cases cur <;> simp [readlinesGo]
  | cons c cs ih =>
    simp only [readlinesGo]
    split
    · simp [ih]
    · rw [ih]; simp

/-- reading loses nothing: the lines `readlines` hands over, put together again, are the file -/
theorem readlines_flatten (txt : Str) : (readlines txt).flatten = txt := by
  simp [readlines, readlinesGo_flatten]

theorem readlines_ne_nil (txt : Str) (h : txt ≠ []) : readlines txt ≠ [] := by
  intro e
  have := readlines_flatten txt
  rw [e] at this
  exact h (by simpa using this.symm)

theorem universalNewlines_ne_nil (txt : Str) (h : txt ≠ []) : universalNewlines txt ≠ [] := by
  cases txt with
  | nil => exact absurd rfl h
  | cons c cs =>
    by_cases hc : c = '\r'
    · subst hc
      cases cs with
      | nil => simp [universalNewlines]
      | cons d ds =>
        by_cases hd : d = '\n'
        · subst hd; simp [universalNewlines]
        · rw [universalNewlines.eq_def]; simp
          split <;> simp_all
    · rw [universalNewlines.eq_def]; simp
      split <;> simp_all

/-- a text without carriage returns is handed over as it is -/
theorem universalNewlines_id (txt : Str) (h : '\r' ∉ txt) : universalNewlines txt = txt := by
  induction txt with
  | nil => rfl
  | cons c cs ih =>
    simp only [List.mem_cons, not_or] at h
    have hc : c ≠ '\r' := fun e => h.1 e.symm
    rw [universalNewlines.eq_def]
    split
    · rename_i heq; cases heq
    · rename_i heq; cases heq; exact absurd rfl hc
    · rename_i heq; cases heq; exact absurd rfl hc
    · rename_i heq; cases heq; rw [ih h.2]

/-- **cleanFile_is_cleanContent** — for a non-empty regular file, what is at the path after `clean_file` is decided by
`clean_content` on the lines read from it (cut behind `'\n'` only, after the newline translation of text mode) and by
nothing else: the file holds EXACTLY the concatenation of the cleaned lines (whole content replaced: no byte of the old
text survives behind it), or is gone when nothing is left; the cleaner's state is the one `clean_content` leaves -/
theorem cleanFile_is_cleanContent (E : Env) (cfg : Cfg) (st : St) (call : Call) (txt : Str) (h : txt ≠ []) :
    cleanFile E cfg st call (.file txt) =
      ((cleanContent E cfg st { call with lines := readlines (universalNewlines txt) }).1,
       if (cleanContent E cfg st { call with lines := readlines (universalNewlines txt) }).2.isEmpty then FileSt.absent
       else FileSt.file (cleanContent E cfg st { call with lines := readlines (universalNewlines txt) }).2.flatten) := by
  have hr : (readlines (universalNewlines txt)).isEmpty = false := by
    cases hx : readlines (universalNewlines txt) with
    | nil => exact absurd hx (readlines_ne_nil _ (universalNewlines_ne_nil txt h))
    | cons a b => rfl
  simp only [cleanFile, hr]
  by_cases he : (cleanContent E cfg st { call with lines := readlines (universalNewlines txt) }).2.isEmpty = true
  · simp [he]
  · simp [he]

/-- nothing there, a symbolic link, an empty file: left exactly as they are, the cleaner is not even consulted for the
first two -/
theorem cleanFile_untouched (E : Env) (cfg : Cfg) (st : St) (call : Call) :
    cleanFile E cfg st call .absent = (st, .absent) ∧ cleanFile E cfg st call .link = (st, .link) ∧
    (cleanFile E cfg st call (.file [])).2 = .file [] := by
  refine ⟨rfl, rfl, ?_⟩
  simp [cleanFile, universalNewlines, readlines, readlinesGo]

/-- every line stored by `clean_file` derives from exactly one line of the file, in the original order
(`clean_monotone` carried over to the file) -/
theorem cleanFile_monotone (E : Env) (cfg : Cfg) (st : St) (call : Call) (txt new : Str)
    (hf : (cleanFile E cfg st call (.file txt)).2 = .file new) (h : txt ≠ []) :
    ∃ (idx : List Nat) (out : List Str), idx.Pairwise (· < ·) ∧ (∀ i ∈ idx, i < (readlines (universalNewlines txt)).length) ∧
      idx.map (fun i => ((readlines (universalNewlines txt))[i]?).bind (fun l =>
        (cleanLine E cfg { call with lines := readlines (universalNewlines txt) }
          (stateBefore E cfg st { call with lines := readlines (universalNewlines txt) } i) l).2)) = out.map some ∧
      new = out.flatten := by
  rw [cleanFile_is_cleanContent E cfg st call txt h] at hf
  obtain ⟨idx, hp, hb, hm⟩ := clean_monotone E cfg st { call with lines := readlines (universalNewlines txt) }
  refine ⟨idx, (cleanContent E cfg st { call with lines := readlines (universalNewlines txt) }).2, hp, hb, hm, ?_⟩
  simp only at hf
  split at hf
  · cases hf
  · cases hf; rfl

/-- three lines, the middle one redacted, no trailing newline, a long keyword replaced by a shorter substitute: the
new file is shorter than the old one and holds nothing but the two cleaned lines -/
example :
    let E : Env := ⟨fun _ => [], fun _ => [], fun _ => [], fun _ => false, fun _ => [], fun _ => false, fun _ => [], id, {}⟩
    let cfg : Cfg := ⟨"h.d".toList, false, false, false, false, ["averylongkeyword".toList], ["DROP".toList]⟩
    (cleanFile E cfg {} ⟨["password".toList], false, none, []⟩ (.file "a averylongkeyword\nDROP me\nlast".toList)).2 =
      .file "a keyword0\nlast".toList := by
  decide

/-- a vertical tab, a form feed, U+0085 and U+2028 do NOT end a line: the pattern behind them removes the whole physical
line; a carriage return does: the lines of a file are Python's text-mode lines (universal newlines), so `head` and
`DROP tail` are two input lines and only the second is removed -/
example :
    let E : Env := ⟨fun _ => [], fun _ => [], fun _ => [], fun _ => false, fun _ => [], fun _ => false, fun _ => [], id, {}⟩
    let cfg : Cfg := ⟨"h.d".toList, false, false, false, false, [], ["DROP".toList]⟩
    (cleanFile E cfg {} ⟨["password".toList], false, none, []⟩
      (.file "a\x0bDROP\nb\x0cDROP\nc\u0085DROP\nd\u2028DROP\nkept\n".toList)).2 = .file "kept\n".toList ∧
    (cleanFile E cfg {} ⟨["password".toList], false, none, []⟩ (.file "head\rDROP tail\nkept\n".toList)).2 =
      .file "head\nkept\n".toList := by
  decide

/-! ### one string instead of a list

`clean_content(text)` hands the WHOLE text to the parsers as one line (`cleanString`); nothing in the cleaner cuts it at
its line breaks.  It therefore equals `clean_content([text])` (below) — and equals cleaning the physical lines one by
one exactly as far as no parser looks across a line break, which is a property of the recognisers (`Env`), i.e. of the
patterns: it is checked on the implementation by the correspondence stream `seam` (string route = list route = file route
on texts whose line ends and line starts could together look like an item). -/

/-- **string route = one-element list**: a non-blank result is returned as the only line, a blank or `None` result
gives `[]`; the cleaner is left in the same state -/
theorem cleanString_eq_single (E : Env) (cfg : Cfg) (st : St) (call : Call) (text : Str) :
    (cleanContent E cfg st { call with lines := [text] }).1 = (cleanString E cfg st call text).1 ∧
    (cleanContent E cfg st { call with lines := [text] }).2 =
      (match (cleanString E cfg st call text).2 with
       | some (c :: cs) => [c :: cs]
       | _ => []) := by
  have hst : stages cfg { call with lines := [text] } = stages cfg call := rfl
  have hcl : cleanLine E cfg { call with lines := [text] } (st, call.allowlist.getD []) text =
      cleanLine E cfg call (st, call.allowlist.getD []) text := by
    simp only [cleanLine, hst]
  simp only [cleanContent, cleanString, List.reverse_cons, List.reverse_nil, List.nil_append, lineLoop, hcl]
  cases h : (cleanLine E cfg call (st, call.allowlist.getD []) text).2 with
  | none => simp [lineLoop]
  | some x =>
    cases x with
    | nil => simp [lineLoop]
    | cons c cs => simp [lineLoop]

end IV.CleanState
