import IV.Lemmas.TextFormats
import IV.Lemmas.TextFormats2
import IV.Lemmas.TextFormatsExt
import IV.Gen.Matchers
import IV.Gen.IniChars
/-!
C15 — shared text-format helpers recover the data that was rendered.

Every theorem is about the executable model `IV.TextFormats` of insights/parsers/__init__.py
(`get_active_lines`, `optlist_to_dict`, `split_kv_pairs`, `unsplit_lines`, `calc_offset`, `parse_fixed_table`,
`parse_delimited_table`, `keyword_search`) and of the dictionary view `IniConfigFile` builds over the parsed INI tree
(with its write accessor `set`), for ALL
documents of the stated shape (no bound on the number of lines, columns, cells or characters).
-/
namespace IV.TextFormats

/-! ### key/value documents -/

/-- Round trip: a document of `key sep value` lines (arbitrary padding, optional trailing comment),
    interleaved with arbitrary comment lines and blank lines, parses to the last-wins map of its
    pairs, in order of first occurrence — for both settings of `use_partition`. -/
theorem kv_roundtrip (cc sep : Char) (hcs : cc ≠ sep) (hc : isSpace cc = false) (hs : isSpace sep = false)
    (doc : List KvItem) (hdoc : ∀ it ∈ doc, KvItemOk cc sep it) (usePartition : Bool) :
    splitKvPairs (renderKv cc sep doc) (some [cc]) none [sep] usePartition = .ok (fromPairs (kvPairsOf doc)) :=
  kv_roundtrip_aux cc sep hcs hc hs doc hdoc usePartition

example : splitKvPairs (renderKv '#' '=' [.comment 0 " k = hidden".toList, .pair 1 "a".toList 1 1 "1".toList 0 none,
      .blank 3, .pair 0 "b c".toList 0 2 "x = y".toList 2 (some " note".toList), .pair 0 "a".toList 1 1 "".toList 0 none])
      (some ['#']) none ['='] false
    = .ok [("a".toList, "".toList), ("b c".toList, "x = y".toList)] := by decide

/-- "last-wins map": looking a key up gives the value of its LAST pair -/
theorem kv_lookup_last (ps : List (Str × Str)) (k : Str) :
    dictGet (fromPairs ps) k = (ps.reverse.find? (fun p => p.1 = k)).map (·.2) :=
  dictGet_fromPairs ps k

/-- Comment and blank lines never contribute: for ANY text and ANY flags, inserting a line whose part
    before the comment string is blank changes nothing. -/
theorem comments_inert (cc : Str) (hcc : cc ≠ []) (pre post : List Str) (l : Str)
    (hl : strip (before cc l) = []) (filter : Option Str) (splitOn : Str) (up : Bool) :
    splitKvPairs (pre ++ l :: post) (some cc) filter splitOn up
      = splitKvPairs (pre ++ post) (some cc) filter splitOn up :=
  comments_inert_aux cc hcc pre post l hl filter splitOn up

/-- the same for `get_active_lines` itself -/
theorem active_lines_inert (cc : Str) (hcc : cc ≠ []) (pre post : List Str) (l : Str)
    (hl : strip (before cc l) = []) :
    getActiveLines (pre ++ l :: post) cc = getActiveLines (pre ++ post) cc :=
  getActiveLines_inert cc hcc pre post l hl

/-- rendered comment lines and blank lines satisfy the hypothesis of `comments_inert` -/
theorem rendered_comment_inert (cc sep : Char) (hc : isSpace cc = false) (indent n : Nat) (text : Str) :
    strip (before [cc] (renderKvItem cc sep (.comment indent text))) = [] ∧
    strip (before [cc] (renderKvItem cc sep (.blank n))) = [] :=
  ⟨active_comment cc sep hc indent text, active_blank cc sep hc n⟩

example : strip (before ['#'] "   # key = value".toList) = [] := by decide

/-! ### fixed-width tables -/

/-- Round trip at full strength: any number of columns; space-free non-empty headers (they may be
    substrings of one another, or equal); cells stripped and fitting their column, with inner spaces,
    empty cells and cells that fill the column exactly; junk lines before the heading; footer lines
    after the data.  Every row comes back as the dict of its (header, cell) pairs. -/
theorem fixed_roundtrip (t : FixedTable) (hi ti : List Str) (h : t.WF hi ti) :
    parseFixedTable (renderFixed t) hi [] ti false
      = .ok (t.rows.map (fun r => fromPairs (t.names.zip (rowCells r)))) :=
  fixed_roundtrip_aux t hi ti h

/-- with distinct headers a row dict is exactly the list of (header, cell) pairs in column order -/
theorem fixed_roundtrip_nodup (t : FixedTable) (hi ti : List Str) (h : t.WF hi ti) (hn : t.names.Nodup) :
    parseFixedTable (renderFixed t) hi [] ti false = .ok (t.rows.map (fun r => t.names.zip (rowCells r))) := by
  rw [fixed_roundtrip t hi ti h]
  congr 1
  apply List.map_congr_left
  intro r hr
  apply fromPairs_of_nodup
  have hl : (rowCells r).length = t.names.length := by
    simp [rowCells, FixedTable.names, (h.rows_ok r hr).1]
  rw [List.map_fst_zip (by omega)]
  exact hn

/-- the regression table of fix 564ef64: header `NAME ME X` (ME is a substring of NAME), a row with an
    empty cell and a cell with an inner space, one junk line, one footer line -/
def nameMeX : FixedTable :=
  { junk := ["warning".toList], lead := 0, cols := [⟨"NAME".toList, 5⟩, ⟨"ME".toList, 4⟩], lastName := "X".toList,
    lastPad := 0, rows := [(["ab".toList, "c d".toList], "ef".toList, 0), (["".toList, "".toList], "z".toList, 1)],
    footer := ["Total 2".toList] }

example : parseFixedTable (renderFixed nameMeX) ["NAME".toList] [] ["Total".toList] false
    = .ok [[("NAME".toList, "ab".toList), ("ME".toList, "c d".toList), ("X".toList, "ef".toList)],
           [("NAME".toList, []), ("ME".toList, []), ("X".toList, "z".toList)]] := by decide

/-- the old index rule (search from the previous index + 1) puts ME inside NAME; the repaired rule
    (search from the END of the previous header) finds its true start -/
theorem old_index_rule_witness :
    calcColumnIndicesOld "NAME ME X".toList ["NAME".toList, "ME".toList, "X".toList] 0 = some [0, 2, 8] ∧
    calcColumnIndices "NAME ME X".toList ["NAME".toList, "ME".toList, "X".toList] 0 = some [0, 5, 8] := by decide

/-! ### delimited tables -/

/-- SPLIT UNDOES JOIN (the core of the delimited round trip): for a non-empty delimiter string `d` of
    any length, cells that pass `sepFree d` (for a one-character delimiter: do not contain it), and an
    unlimited or sufficient `maxsplit`: `d.join(cells).split(d, maxsplit) == cells` -/
theorem split_join_inverse (d : Str) (hd : d ≠ []) (cells : List Str) (hne : cells ≠ []) (max : Option Nat)
    (hc : ∀ c ∈ cells, sepFree d c = true) (hmax : budgetOk max cells.length = true) :
    pySplit (some d) max (joinStr d cells) = some cells := by
  have : d.isEmpty = false := by cases d with
    | nil => exact absurd rfl hd
    | cons _ _ => rfl
  simp only [pySplit, this, Bool.false_eq_true, if_false]
  rw [splitSep_joinStr d hd cells max hne hc hmax]

/-- for a one-character delimiter `sepFree` says: the character is not in the cell; `sepOk`: it is not white space -/
theorem sepFree_one_char (ch : Char) (c : Str) : (sepFree [ch] c = true ↔ ch ∉ c) ∧ (sepOk [ch] = !isSpace ch) :=
  ⟨sepFree_char ch c, sepOk_char ch⟩

/-- `sepFree` is needed for longer delimiters: no cell contains "aa", yet join-then-split moves a character -/
example : contains "aa".toList "a".toList = false ∧ contains "aa".toList [] = false ∧
    pySplit (some "aa".toList) none (joinStr "aa".toList ["a".toList, []]) = some [[], "a".toList] := by decide

/-- the same for white-space splitting: non-empty cells without white space, joined by any non-empty
    white-space gap, with white space before and after -/
theorem split_join_inverse_ws (l : WsLine) (h : l.ok = true) (max : Option Nat)
    (hmax : budgetOk max l.cells.length = true) :
    pySplit none none l.render = some l.cells ∧ pySplit none max (strip l.render) = some l.cells := by
  have hw := l.wf_of_ok h
  constructor
  · simp only [pySplit]
    rw [← splitWs_strip, l.strip_render hw]
    exact congrArg some (splitWs_joinStr _ hw.gap_ok _ none hw.cells_ok rfl)
  · simp only [pySplit, splitWs]
    rw [l.strip_render hw, splitWs_joinStr _ hw.gap_ok _ _ hw.cells_ok hmax]

/-- Round trip, explicit delimiter: a delimiter string `d` of any length that neither starts nor ends
    with white space; headers and cells written with arbitrary white-space padding around them and
    passing `sepFree d`; rows of any length (ragged rows are zipped like `dict(zip(...))`); any
    `max_splits` that is negative or at least the number of cells − 1; junk lines before the heading
    (`heading_ignore`), footer lines after the data (`trailing_ignore`); `strip=True`;
    `header_delim` left alone or given as `d`.  Every data line comes back as the dict of its
    (stripped header, stripped cell) pairs, in order.  `DelimTable.ok` is the decidable list of these
    conditions (IV/Lemmas/TextFormats2.lean). -/
theorem delimited_roundtrip (d : Str) (max : Option Nat) (hi ti : List Str) (t : DelimTable)
    (h : t.ok d max hi ti = true) (hdl : HeaderDelim) (hh : hdl = .same ∨ hdl = .other (some d)) :
    parseDelimitedTable (renderDelimTable d t) (some d) max true hdl hi [] ti none
      = .ok (t.rows.map (fun r => fromPairs ((t.names.map strip).zip (r.map strip)))) := by
  rcases hh with rfl | rfl
  · rw [parseDelimitedTable_same]; exact delimited_roundtrip_aux d max hi ti t h
  · exact delimited_roundtrip_aux d max hi ti t h

/-- a two-character delimiter, padded cells, an empty cell, a ragged row, a junk line, two footer lines, `max_splits=2` -/
def exDelim : DelimTable :=
  { junk := ["# x".toList], names := ["id".toList, " nm ".toList, "k".toList],
    rows := [["1".toList, " a b".toList, "".toList], ["2 ".toList, "c".toList]],
    footer := ["".toList, "-- 2".toList] }

example : exDelim.ok "::".toList (some 2) ["id".toList] ["--".toList] = true := by decide

example : parseDelimitedTable (renderDelimTable "::".toList exDelim) (some "::".toList) (some 2) true .same
      ["id".toList] [] ["--".toList] none
    = .ok [[("id".toList, "1".toList), ("nm".toList, "a b".toList), ("k".toList, [])],
           [("id".toList, "2".toList), ("nm".toList, "c".toList)]] := by decide

/-- the model's one-character renderer `renderDelimited` is the case of no junk and no footer -/
theorem renderDelimited_eq (ch : Char) (names : List Str) (rows : List (List Str)) :
    renderDelimited ch names rows = renderDelimTable [ch] ⟨[], names, rows, []⟩ := by
  simp only [renderDelimited, renderDelimTable, List.nil_append, List.append_nil, joinWith_eq_joinStr]
  congr 1
  apply List.map_congr_left
  intro r _
  exact joinWith_eq_joinStr ch r

/-- Round trip of `renderDelimited`, stated without the test function: a one-character delimiter that
    is not white space and occurs in no header and no cell; headers and cells stripped, headers
    distinct, every row as long as the header and not blank.  The rows come back exactly as the lists
    of (header, cell) pairs. -/
theorem delimited_roundtrip_char (ch : Char) (hch : isSpace ch = false) (names : List Str) (rows : List (List Str))
    (hne : names ≠ []) (hn : ∀ n ∈ names, ch ∉ n ∧ Stripped n) (hnd : names.Nodup)
    (hr : ∀ r ∈ rows, r.length = names.length ∧ rowVisible r = true ∧ ∀ c ∈ r, ch ∉ c ∧ Stripped c) :
    parseDelimitedTable (renderDelimited ch names rows) (some [ch]) none true .same [] [] [] none
      = .ok (rows.map (fun r => names.zip r)) := by
  have hok : (⟨[], names, rows, []⟩ : DelimTable).ok [ch] none [] [] = true := by
    have h1 : sepOk [ch] = true := by rw [sepOk_char, hch]; rfl
    have h2 : names.isEmpty = false := by cases names with
      | nil => exact absurd rfl hne
      | cons _ _ => rfl
    have h3 : names.all (sepFree [ch]) = true :=
      List.all_eq_true.mpr (fun n h => (sepFree_char ch n).mpr (hn n h).1)
    have h4 : rows.all (fun r => rowVisible r && r.all (sepFree [ch]) && budgetOk none r.length &&
        !foundAny (([] : List Str).map strip) (strip (joinStr [ch] r))) = true := by
      apply List.all_eq_true.mpr
      intro r h
      have h41 : r.all (sepFree [ch]) = true :=
        List.all_eq_true.mpr (fun c hc => (sepFree_char ch c).mpr ((hr r h).2.2 c hc).1)
      simp only [(hr r h).2.1, h41, budgetOk, foundAny, List.map_nil, List.any_nil, Bool.not_false, Bool.and_self]
    have h5 : aroundOk [] [] [] [] (joinStr [ch] names) = true := rfl
    simp only [DelimTable.ok, h1, h2, h3, h4, h5, Bool.not_false, Bool.and_self]
  rw [renderDelimited_eq, delimited_roundtrip [ch] none [] [] _ hok .same (Or.inl rfl)]
  have hsn : names.map strip = names := by
    have : ∀ l : List Str, (∀ n ∈ l, Stripped n) → l.map strip = l := by
      intro l
      induction l with
      | nil => intro _; rfl
      | cons x xs ih =>
        intro h
        rw [List.map_cons, strip_of_stripped x (h x (by simp)), ih (fun y hy => h y (by simp [hy]))]
    exact this names (fun n h => (hn n h).2)
  congr 1
  apply List.map_congr_left
  intro r hrm
  have hsr : r.map strip = r := by
    have : ∀ l : List Str, (∀ n ∈ l, Stripped n) → l.map strip = l := by
      intro l
      induction l with
      | nil => intro _; rfl
      | cons x xs ih =>
        intro h
        rw [List.map_cons, strip_of_stripped x (h x (by simp)), ih (fun y hy => h y (by simp [hy]))]
    exact this r (fun c h => ((hr r hrm).2.2 c h).2)
  simp only
  rw [hsn, hsr]
  apply fromPairs_of_nodup
  rw [List.map_fst_zip (by rw [(hr r hrm).1]; exact Nat.le_refl _)]
  exact hnd

example : parseDelimitedTable (renderDelimited ',' ["a".toList, "b c".toList] [["1".toList, []], [[], "x y".toList]])
      (some [',']) none true .same [] [] [] none
    = .ok [[("a".toList, "1".toList), ("b c".toList, [])], [("a".toList, []), ("b c".toList, "x y".toList)]] := by decide

/-- Round trip, white-space delimiter (`delim=None`): every line is white space, then non-empty
    cells without inner white space separated by a non-empty white-space gap, then white space; rows
    of any positive length; `max_splits` negative or at least the number of cells − 1; junk and footer
    lines as above; EITHER setting of `strip` (the docstring's "will not change output in that case");
    `header_delim` left alone or `None`.  `WsTable.ok` is the decidable list of these conditions. -/
theorem delimited_roundtrip_ws (max : Option Nat) (st : Bool) (hi ti : List Str) (t : WsTable)
    (h : t.ok max hi ti = true) (hdl : HeaderDelim) (hh : hdl = .same ∨ hdl = .other none) :
    parseDelimitedTable (renderWsTable t) none max st hdl hi [] ti none
      = .ok (t.rows.map (fun r => fromPairs (t.head.cells.zip r.cells))) := by
  rcases hh with rfl | rfl
  · rw [parseDelimitedTable_same]; exact delimited_roundtrip_ws_aux max st hi ti t h
  · exact delimited_roundtrip_ws_aux max st hi ti t h

/-- tabs and spaces as gaps, leading and trailing white space, a junk line, a footer line, `max_splits=1` -/
def exWs : WsTable :=
  { junk := ["note".toList], head := ⟨[' '], [' ', ' '], ["A".toList, "B".toList], []⟩,
    rows := [⟨[], ['\t'], ["1".toList, "x".toList], [' ']⟩, ⟨[' '], [' '], ["2".toList], []⟩],
    footer := ["Total 2".toList] }

example : exWs.ok (some 1) ["A".toList] ["Total".toList] = true := by decide

example : parseDelimitedTable (renderWsTable exWs) none (some 1) false .same ["A".toList] [] ["Total".toList] none
    = .ok [[("A".toList, "1".toList), ("B".toList, "x".toList)], [("A".toList, "2".toList)]] := by decide

/-! ### keyword_search: the matcher table of the live module -/

/-- what the five matchers of `keyword_search` mean (generated table = this table) -/
def specTable : List (Str × Matcher) := [
  ("equals".toList, fun s v => s == some v),
  ("contains".toList, fun s v => s.isSome && s.any (fun x => contains v x)),
  ("startswith".toList, fun s v => s.isSome && s.any (fun x => startsWith v x)),
  ("endswith".toList, fun s v => s.isSome && s.any (fun x => endsWith v x)),
  ("lower_value".toList, fun s v => s.isSome && s.any (fun x => lower x == lower v))]

theorem matchers_spec : IV.Gen.Matchers.table = specTable := rfl

/-- no keyword arguments: no rows (documented) -/
theorem keyword_search_no_kwargs (table : List (Str × Matcher)) (rows : List Row) (rkc : Bool) :
    keywordSearch table rows rkc [] = [] := by simp [keywordSearch, keywordSearchTx]

/-- the condition one keyword argument `kw=v` puts on a row: the keyword resolves (through the
    transformed keys of the rows) to a field the row has, and the matcher named by the suffix accepts
    the field's value; a keyword that resolves to no field is a condition no row satisfies -/
def kwCond (table : List (Str × Matcher)) (tx : Dict) (row : Row) (kw v : Str) : Bool :=
  match dictGet tx (splitKeyword (table.map (·.1)) kw).1 with
  | none => false
  | some key => keyMatch table row key (splitKeyword (table.map (·.1)) kw).2 v

theorem searchTerms_spec (table : List (Str × Matcher)) (tx : Dict) (row : Row) :
    ∀ kwargs : List (Str × Str),
      match searchTerms (table.map (·.1)) tx kwargs with
      | none => kwargs.all (fun kv => kwCond table tx row kv.1 kv.2) = false
      | some terms => terms.all (fun t => keyMatch table row t.1 t.2.1 t.2.2)
                        = kwargs.all (fun kv => kwCond table tx row kv.1 kv.2) := by
  intro kwargs
  induction kwargs with
  | nil => simp [searchTerms]
  | cons kv rest ih =>
    obtain ⟨kw, v⟩ := kv
    simp only [searchTerms, List.all_cons]
    cases hk : dictGet tx (splitKeyword (table.map (·.1)) kw).1 with
    | none =>
      have hc : kwCond table tx row kw v = false := by simp [kwCond, hk]
      simp [hc]
    | some key =>
      have hc : kwCond table tx row kw v = keyMatch table row key (splitKeyword (table.map (·.1)) kw).2 v := by
        simp [kwCond, hk]
      cases hr : searchTerms (table.map (·.1)) tx rest with
      | none =>
        rw [hr] at ih
        simp only at ih
        simp only [Option.map_none, hc, ih, Bool.and_false]
      | some terms =>
        rw [hr] at ih
        simp only at ih
        simp only [Option.map_some, List.all_cons, hc, ih]

/-- keyword_search returns EXACTLY the rows that satisfy every keyword condition, in their original
    order — for at least one keyword argument, any rows, and ANY transformation table (computed from
    the key set in any iteration order, or taken from a parent's cache) -/
theorem keyword_search_tx_exact (table : List (Str × Matcher)) (tx : Dict) (rows : List Row)
    (kwargs : List (Str × Str)) (hk : kwargs ≠ []) :
    keywordSearchTx table tx rows kwargs
      = rows.filter (fun row => kwargs.all (fun kv => kwCond table tx row kv.1 kv.2)) := by
  have hk' : kwargs.isEmpty = false := by cases kwargs with
    | nil => exact absurd rfl hk
    | cons _ _ => rfl
  unfold keywordSearchTx
  cases hr : rows.isEmpty with
  | true =>
    have : rows = [] := by simpa using hr
    simp [this]
  | false =>
    simp only [hk', Bool.or_self, Bool.false_eq_true, if_false]
    cases hs : searchTerms (table.map (·.1)) tx kwargs with
    | none =>
      simp only
      symm
      apply List.filter_eq_nil_iff.mpr
      intro row _
      have := searchTerms_spec table tx row kwargs
      rw [hs] at this
      simp [this]
    | some terms =>
      simp only
      apply List.filter_congr
      intro row _
      have := searchTerms_spec table tx row kwargs
      rw [hs] at this
      exact this

/-- the same for the plain call (`parent=None`, key set in first-occurrence order) -/
theorem keyword_search_exact (table : List (Str × Matcher)) (rows : List Row) (rkc : Bool)
    (kwargs : List (Str × Str)) (hk : kwargs ≠ []) :
    keywordSearch table rows rkc kwargs
      = rows.filter (fun row => kwargs.all (fun kv => kwCond table (txKeys rows rkc) row kv.1 kv.2)) :=
  keyword_search_tx_exact table _ rows kwargs hk

example : keywordSearch IV.Gen.Matchers.table
    [[("fix-up path".toList, some "/a/b".toList)], [("fix-up path".toList, some "/c".toList)]] false
    [("fix_up_path__startswith".toList, "/a".toList)] = [[("fix-up path".toList, some "/a/b".toList)]] := by decide

/-! ### keyword_search: which keyword names which heading (table as built since fix 1e9b608) -/

/-- the transformation in the code (`key.replace(' ', '_').replace('-', '_')`) is the documented one:
    only space and dash are written as '_', every other character — `%`, `/`, `.`, `(`, `:`, letters
    of any script — stands for itself -/
theorem txKey_eq_kwOf (k : Str) : txKey k = kwOf k := txKey_eq_kwOf_aux k

example : txKey "Use% (KB)/s-1".toList = "Use%_(KB)/s_1".toList := by decide

/-- the model's order is a total order on strings (Python's: code-point lexicographic) and `sortKeys`
    sorts by it, keeping exactly the given keys -/
theorem sortKeys_sorted (keys : List Str) :
    (sortKeys keys).Pairwise (fun a b => strLe a b = true) ∧ (sortKeys keys).Perm keys ∧
    (∀ a b : Str, strLe a b = true → strLe b a = true → a = b) ∧ (∀ a b : Str, (strLe a b || strLe b a) = true) :=
  ⟨sortKeys_pairwise keys, sortKeys_perm keys, strLe_antisymm, strLe_total⟩

/-- the table is a function of the key SET only: any two iteration orders of the set give the same
    table (so the answer cannot depend on the hash seed) -/
theorem txkeys_order_independent (keys₁ keys₂ : List Str) (h : keys₁.Perm keys₂) :
    txKeysFix keys₁ = txKeysFix keys₂ :=
  txKeysFix_perm keys₁ keys₂ h

/-- which heading the keyword `kw` names: `kw` itself when it is a heading (and a keyword of the
    table), otherwise the LAST heading in sorted order whose documented keyword is `kw`; none when no
    heading has that keyword -/
theorem keyword_names_heading (keys : List Str) (kw : Str) :
    dictGet (txKeysFix keys) kw
      = ((sortKeys keys).reverse.find? (fun k => kwOf k = kw)).map (fun h => if kw ∈ keys then kw else h) :=
  txKeysFix_get keys kw

/-- a heading with neither space nor dash is its own keyword and ALWAYS names itself — also when
    other headings (`a b`, `a-b`) share the keyword -/
theorem exact_heading_names_itself (keys : List Str) (h : Str) (hm : h ∈ keys) (h1 : ' ' ∉ h) (h2 : '-' ∉ h) :
    kwOf h = h ∧ dictGet (txKeysFix keys) h = some h := by
  have e := kwOf_self h h1 h2
  refine ⟨e, ?_⟩
  rw [keyword_names_heading]
  cases hf : (sortKeys keys).reverse.find? (fun k => kwOf k = h) with
  | none =>
    have hs : h ∈ (sortKeys keys).reverse := by simpa using (sortKeys_perm keys).mem_iff.mpr hm
    have := List.find?_eq_none.mp hf h hs
    simp [e] at this
  | some h' => simp [hm]

/-- a keyword that is not itself a heading names the GREATEST heading, in code-point order, among those
    whose documented keyword it is -/
theorem translated_greatest_wins (keys : List Str) (kw h : Str) (hkw : kw ∉ keys)
    (hg : dictGet (txKeysFix keys) kw = some h) :
    h ∈ keys ∧ kwOf h = kw ∧ ∀ k ∈ keys, kwOf k = kw → strLe k h = true := by
  rw [keyword_names_heading] at hg
  cases hf : (sortKeys keys).reverse.find? (fun k => kwOf k = kw) with
  | none => rw [hf] at hg; simp at hg
  | some h' =>
    rw [hf] at hg
    simp only [Option.map_some, hkw, if_false, Option.some.injEq] at hg
    subst hg
    refine ⟨?_, ?_, ?_⟩
    · have := List.mem_of_find?_eq_some hf
      exact (sortKeys_perm keys).mem_iff.mp (by simpa using this)
    · simpa using List.find?_some hf
    · intro k hk hkk
      exact last_found_is_greatest _ _ (sortKeys_pairwise keys) h' hf k ((sortKeys_perm keys).mem_iff.mpr hk) (by simpa using hkk)

/-- every heading's documented keyword is recognised and names a heading with that keyword — the
    heading itself when no other heading shares it -/
theorem heading_keyword_recognised (keys : List Str) (h : Str) (hm : h ∈ keys) :
    (∃ h', dictGet (txKeysFix keys) (kwOf h) = some h' ∧ h' ∈ keys ∧ kwOf h' = kwOf h) ∧
    ((∀ k ∈ keys, kwOf k = kwOf h → k = h) → dictGet (txKeysFix keys) (kwOf h) = some h) := by
  have hs : h ∈ (sortKeys keys).reverse := by simpa using (sortKeys_perm keys).mem_iff.mpr hm
  rw [keyword_names_heading]
  cases hf : (sortKeys keys).reverse.find? (fun k => kwOf k = kwOf h) with
  | none =>
    have := List.find?_eq_none.mp hf h hs
    simp at this
  | some h' =>
    have h3 : kwOf h' = kwOf h := by simpa using List.find?_some hf
    have h4 : h' ∈ keys := (sortKeys_perm keys).mem_iff.mp (by simpa using List.mem_of_find?_eq_some hf)
    constructor
    · by_cases hk : kwOf h ∈ keys
      · refine ⟨kwOf h, by simp [hk], hk, ?_⟩
        -- a heading that is a keyword contains neither space nor dash: it is its own keyword
        have : kwOf (kwOf h) = kwOf h := by
          unfold kwOf
          rw [List.map_map]
          apply List.map_congr_left
          intro c _
          simp only [Function.comp]
          by_cases c1 : c = ' '
          · subst c1; decide
          · by_cases c2 : c = '-'
            · subst c2; decide
            · simp [c1, c2]
        exact this
      · exact ⟨h', by simp [hk], h4, h3⟩
    · intro huniq
      have e : h' = h := huniq h' h4 h3
      subst e
      by_cases hk : kwOf h' ∈ keys
      · have := huniq (kwOf h') hk (by
          unfold kwOf
          rw [List.map_map]
          apply List.map_congr_left
          intro c _
          simp only [Function.comp]
          by_cases c1 : c = ' '
          · subst c1; decide
          · by_cases c2 : c = '-'
            · subst c2; decide
            · simp [c1, c2])
        simp [hk, this]
      · simp [hk]

example : dictGet (txKeysFix ["a b".toList, "a_b".toList, "a-b".toList]) "a_b".toList = some "a_b".toList ∧
    dictGet (txKeysFix ["a-b".toList, "a b".toList, "Use%".toList]) "a_b".toList = some "a-b".toList ∧
    dictGet (txKeysFix ["a-b".toList, "a b".toList, "Use%".toList]) "Use%".toList = some "Use%".toList ∧
    dictGet (txKeysFix ["a-b".toList, "a b".toList, "Use%".toList]) "Use_".toList = none := by decide

/-- a keyword that is the documented keyword of no heading selects nothing -/
theorem keyword_unknown_field_empty (table : List (Str × Matcher)) (keys : List Str) (rows : List Row)
    (kwargs : List (Str × Str)) (kw v : Str) (hm : (kw, v) ∈ kwargs)
    (hno : ∀ k ∈ keys, kwOf k ≠ (splitKeyword (table.map (·.1)) kw).1) :
    keywordSearchTx table (txKeysFix keys) rows kwargs = [] := by
  have hk : kwargs ≠ [] := by intro e; rw [e] at hm; simp at hm
  rw [keyword_search_tx_exact table _ rows kwargs hk]
  apply List.filter_eq_nil_iff.mpr
  intro row _
  have hnone : dictGet (txKeysFix keys) (splitKeyword (table.map (·.1)) kw).1 = none := by
    rw [keyword_names_heading]
    have : (sortKeys keys).reverse.find? (fun k => kwOf k = (splitKeyword (table.map (·.1)) kw).1) = none := by
      apply List.find?_eq_none.mpr
      intro k hk'
      have := hno k ((sortKeys_perm keys).mem_iff.mp (by simpa using hk'))
      simpa using this
    rw [this]; rfl
  have : kwCond table (txKeysFix keys) row kw v = false := by simp [kwCond, hnone]
  intro hall
  have := List.all_eq_true.mp hall (kw, v) hm
  simp_all

/-- the rule before fix 1e9b608 (the table over the key set in hash order, nothing else) was order
    dependent: the keyword `a_b` named `a_b` in one order and `a b` in the other -/
theorem old_txkeys_rule_witness :
    dictGet (txKeysOf ["a b".toList, "a_b".toList]) "a_b".toList = some "a_b".toList ∧
    dictGet (txKeysOf ["a_b".toList, "a b".toList]) "a_b".toList = some "a b".toList ∧
    txKeysFix ["a b".toList, "a_b".toList] = txKeysFix ["a_b".toList, "a b".toList] := by decide

/-- repeated searches on the same `parent`: whatever the cache holds after earlier calls on the same
    rows (nothing, or the table built from the key set), every call answers like an uncached search -/
theorem cached_search_eq (table : List (Str × Matcher)) (keys : List Str) (rows : List Row)
    (cache : Option Dict) (hc : cache = none ∨ cache = some (txKeysFix keys)) (kwargs : List (Str × Str)) :
    (keywordSearchCached table cache keys rows kwargs).1 = keywordSearchTx table (txKeysFix keys) rows kwargs ∧
    ((keywordSearchCached table cache keys rows kwargs).2 = none ∨
     (keywordSearchCached table cache keys rows kwargs).2 = some (txKeysFix keys)) := by
  unfold keywordSearchCached
  cases hb : (kwargs.isEmpty || rows.isEmpty) with
  | true =>
    simp only [if_true]
    exact ⟨by simp [keywordSearchTx, hb], hc⟩
  | false =>
    rcases hc with rfl | rfl <;> simp

theorem cached_sequence_eq (table : List (Str × Matcher)) (keys : List Str) (rows : List Row) :
    ∀ (kws : List (List (Str × Str))) (cache : Option Dict), (cache = none ∨ cache = some (txKeysFix keys)) →
      keywordSearchSeq table keys rows cache kws = kws.map (keywordSearchTx table (txKeysFix keys) rows) := by
  intro kws
  induction kws with
  | nil => intro _ _; rfl
  | cons kw rest ih =>
    intro cache hc
    obtain ⟨h1, h2⟩ := cached_search_eq table keys rows cache hc kw
    simp only [keywordSearchSeq, List.map_cons, h1]
    rw [ih _ h2]

/-! ### IniConfigFile -/

/-- option lookup is case-insensitive (ASCII): two spellings of an option give the same answer -/
theorem ini_get_case_insensitive (d : IniDict) (sec o o' : Str) (h : lower o = lower o') :
    iniGet d sec o = iniGet d sec o' ∧ iniHasOption d sec o = iniHasOption d sec o' := by
  simp [iniGet, iniHasOption, h]

example : lower "Log_Level".toList = lower "LOG_LEVEL".toList := by decide

/-- `sections()` = the section names of the document in order of first occurrence (repeated
    sections merge), without `DEFAULT` itself — for every parsed tree and either `allow_no_value` -/
theorem ini_sections (anv : Bool) (t : IniTree) :
    iniSections (iniView anv t) = (dedup (t.map (·.name))).filter (· ≠ DEFAULT) :=
  ini_sections_aux anv t

/-- regression of fix 9172b50: a section whose name merely contains DEFAULT is listed -/
theorem ini_sections_regression :
    iniSections (iniView false [⟨"main".toList, [⟨"k".toList, some "v".toList⟩]⟩, ⟨"MY_DEFAULTS".toList, []⟩,
                                ⟨"DEFAULT".toList, [⟨"d".toList, some "1".toList⟩]⟩])
      = ["main".toList, "MY_DEFAULTS".toList] := by decide

/-- FULL statement of "a section's own option beats DEFAULT": false of the current code -/
def IniExplicitBeatsDefault : Prop :=
  ∀ (t : IniTree) (sec : Str) (o : IniOpt) (v : Str), sec ≠ DEFAULT →
    (∃ s ∈ t, s.name = sec ∧ o ∈ s.opts) → o.value = some v →
    (∀ s ∈ t, s.name = sec → ∀ o' ∈ s.opts, lower o'.name = lower o.name → o' = o) →
    iniGet (iniView false t) sec o.name = .ok (some v)

/-- known finding ini-default-overrides-explicit: `[s] Key = explicit  [DEFAULT] KEY = dflt` -/
theorem ini_default_precedence_witness : ¬ IniExplicitBeatsDefault := by
  intro h
  have := h [⟨"s".toList, [⟨"Key".toList, some "explicit".toList⟩]⟩, ⟨DEFAULT, [⟨"KEY".toList, some "dflt".toList⟩]⟩]
    "s".toList ⟨"Key".toList, some "explicit".toList⟩ "explicit".toList (by decide)
    ⟨⟨"s".toList, [⟨"Key".toList, some "explicit".toList⟩]⟩, by simp, rfl, by simp⟩ rfl (by decide)
  revert this
  decide

/-- the same finding through a repeated section: `[a] k = explicit  [DEFAULT] k = dflt  [a] q = r` -/
theorem ini_default_repeated_section_witness :
    iniGet (iniView false [⟨"a".toList, [⟨"k".toList, some "explicit".toList⟩]⟩,
                           ⟨DEFAULT, [⟨"k".toList, some "dflt".toList⟩]⟩,
                           ⟨"a".toList, [⟨"q".toList, some "r".toList⟩]⟩]) "a".toList "k".toList
      = .ok (some "dflt".toList) := by decide

/-- known finding ini-default-duplicate-first-inherited: `[DEFAULT] a = 1, a = 2  [s] b = x` -/
theorem ini_default_duplicate_witness :
    let d := iniView false [⟨DEFAULT, [⟨"a".toList, some "1".toList⟩, ⟨"a".toList, some "2".toList⟩]⟩,
                            ⟨"s".toList, [⟨"b".toList, some "x".toList⟩]⟩]
    iniGet d DEFAULT "a".toList = .ok (some "2".toList) ∧ iniGet d "s".toList "a".toList = .ok (some "1".toList) := by
  decide

/-! ### IniConfigFile: duplicates and repeated sections -/

/-- LAST DUPLICATE WINS.  `occurrences t sec k` are the options of the sections called `sec` whose
    lower-cased name is `k`, in document order (all repetitions of the section, all spellings of the
    name).  If the last of them, `o`, carries a value (or `allow_no_value` is set), `get(sec, opt)`
    returns exactly `o`'s value — for every tree, every spelling of `opt`, padded `sec`.
    Side condition `defaultsInert` (decidable, IV/Lemmas/TextFormats2.lean): the section asked for is
    DEFAULT itself, or every DEFAULT option with the same lower-cased name is spelled exactly like an
    option of every section called `sec`, i.e. `apply_defaults` appends no option of that name to
    them.  (`o` without a value and `allow_no_value=False`: the option line is skipped by the code,
    so an earlier one is returned — not covered here.) -/
theorem ini_last_duplicate_wins (anv : Bool) (t : IniTree) (sec opt : Str) (o : IniOpt)
    (hlast : (occurrences t (strip sec) (lower opt)).getLast? = some o)
    (hval : o.value.isSome = true ∨ anv = true)
    (hdef : defaultsInert t (strip sec) (lower opt) = true) :
    iniGet (iniView anv t) sec opt = .ok o.value :=
  ini_last_duplicate_wins_aux anv t sec opt o hlast hval hdef

/-- three ways to meet the side condition: asking for DEFAULT itself; a document without a DEFAULT
    section; no DEFAULT option of that lower-cased name -/
theorem defaultsInert_of (t : IniTree) (sec k : Str)
    (h : sec = DEFAULT ∨ (∀ s ∈ t, s.name ≠ DEFAULT) ∨ ∀ d ∈ defaultOpts t, lower d.name ≠ k) :
    defaultsInert t sec k = true := by
  simp only [defaultsInert, Bool.or_eq_true, beq_iff_eq, List.all_eq_true, bne_iff_ne, ne_eq]
  rcases h with h | h | h
  · exact Or.inl h
  · right
    intro d hd
    have : defaultOpts t = [] := by
      unfold defaultOpts
      have : t.filter (fun s => decide (s.name = DEFAULT)) = [] := by
        apply List.filter_eq_nil_iff.mpr
        intro s hs; simpa using h s hs
      rw [this]; rfl
    rw [this] at hd; simp at hd
  · right
    intro d hd
    exact Or.inl (h d hd)

/-- a DEFAULT option spelled exactly like an option of every `[a]` does not interfere; one spelled
    differently (`[a] Key … [DEFAULT] key`) does, and the side condition says so -/
example : defaultsInert [⟨"a".toList, [⟨"key".toList, some "1".toList⟩]⟩, ⟨DEFAULT, [⟨"key".toList, some "d".toList⟩]⟩,
      ⟨"a".toList, [⟨"key".toList, some "2".toList⟩]⟩] "a".toList "key".toList = true ∧
    iniGet (iniView false [⟨"a".toList, [⟨"key".toList, some "1".toList⟩]⟩, ⟨DEFAULT, [⟨"key".toList, some "d".toList⟩]⟩,
      ⟨"a".toList, [⟨"key".toList, some "2".toList⟩]⟩]) "a".toList "KEY".toList = .ok (some "2".toList) ∧
    defaultsInert [⟨"a".toList, [⟨"Key".toList, some "1".toList⟩]⟩, ⟨DEFAULT, [⟨"key".toList, some "d".toList⟩]⟩]
      "a".toList "key".toList = false := by decide

/-- a document that meets every hypothesis: `[a] Key=1 KEY=2  [DEFAULT] zz=d  [a] key=0 other key=3` -/
def exIni2 : IniTree :=
  [⟨"a".toList, [⟨"Key".toList, some "1".toList⟩, ⟨"KEY".toList, some "2".toList⟩]⟩,
   ⟨DEFAULT, [⟨"zz".toList, some "d".toList⟩]⟩,
   ⟨"a".toList, [⟨"key".toList, some "0".toList⟩, ⟨"other".toList, none⟩, ⟨"key".toList, some "3".toList⟩]⟩]

example : (occurrences exIni2 (strip " a ".toList) (lower "kEY".toList)).getLast? = some ⟨"key".toList, some "3".toList⟩ ∧
    defaultsInert exIni2 (strip " a ".toList) (lower "kEY".toList) = true ∧
    iniGet (iniView false exIni2) " a ".toList "kEY".toList = .ok (some "3".toList) := by decide

/-- the statement WITHOUT the side condition: false of the current code -/
def IniLastDuplicateWinsFull : Prop :=
  ∀ (anv : Bool) (t : IniTree) (sec opt : Str) (o : IniOpt),
    (occurrences t (strip sec) (lower opt)).getLast? = some o → (o.value.isSome = true ∨ anv = true) →
    iniGet (iniView anv t) sec opt = .ok o.value

/-- known finding ini-default-overrides-explicit again: `[s] Key = explicit  [DEFAULT] KEY = dflt` —
    `apply_defaults` appends `KEY` to `[s]` because no option of `[s]` is spelled `KEY` -/
theorem ini_last_duplicate_wins_witness : ¬ IniLastDuplicateWinsFull := by
  intro h
  have := h false [⟨"s".toList, [⟨"Key".toList, some "explicit".toList⟩]⟩, ⟨DEFAULT, [⟨"KEY".toList, some "dflt".toList⟩]⟩]
    "s".toList "key".toList ⟨"Key".toList, some "explicit".toList⟩ (by decide) (by decide)
  revert this
  decide

/-- an option that occurs in no section of that name (and is not inherited) is reported absent -/
theorem ini_option_absent (anv : Bool) (t : IniTree) (sec opt : Str)
    (hocc : occurrences t (strip sec) (lower opt) = [])
    (hdef : defaultsInert t (strip sec) (lower opt) = true) :
    iniHasOption (iniView anv t) sec opt = false := by
  have h := buildDict_absent anv (applyDefaults t) (strip sec) (lower opt)
    (by rw [occurrences_applyDefaults t _ _ hdef]; exact hocc)
  unfold iniLookup at h
  unfold iniHasOption iniView
  cases hs : dictGet (buildDict anv (applyDefaults t)) (strip sec) with
  | none => rfl
  | some hd =>
    rw [hs] at h
    simp only [Option.bind_some] at h
    simp [h]

/-- REPEATED SECTIONS MERGE: parsing one more section `s` (`d[s.name][k]` written `iniLookup d s.name k`)
    (1) an option of `s` overrides the value merged so far, any other option keeps it;
    (2) the entry of `s.name` is the old entry `.update`d with the new section's dict (or the new
        dict, for a first occurrence);
    (3) every other section is untouched. -/
theorem ini_repeated_sections_merge (anv : Bool) (t : IniTree) (s : IniSec) :
    (∀ k, iniLookup (buildDict anv (t ++ [s])) s.name k
        = (dictGet (sectionDict anv s) k).or (iniLookup (buildDict anv t) s.name k)) ∧
    dictGet (buildDict anv (t ++ [s])) s.name
        = some (match dictGet (buildDict anv t) s.name with
                | some old => dictUpdate old (sectionDict anv s)
                | none => sectionDict anv s) ∧
    (∀ sec, sec ≠ s.name → dictGet (buildDict anv (t ++ [s])) sec = dictGet (buildDict anv t) sec) := by
  have e : buildDict anv (t ++ [s]) = buildStep anv (buildDict anv t) s := by
    simp only [buildDict_eq, List.foldl_append, List.foldl_cons, List.foldl_nil]
  refine ⟨?_, ?_, ?_⟩
  · intro k
    rw [e, buildStep_lookup, if_pos rfl]
  · rw [e]
    unfold buildStep
    cases dictGet (buildDict anv t) s.name <;> simp [dictGet_dictSet]
  · intro sec hsec
    rw [e]
    unfold buildStep
    have : ¬ s.name = sec := fun h => hsec h.symm
    cases dictGet (buildDict anv t) s.name <;> simp [dictGet_dictSet, this]

/-- … with later occurrences overriding earlier ones: what `get` sees depends only on the sequence of
    occurrences of the option across the repetitions of the section — a repeated section reads like
    ONE section holding all its options in document order -/
theorem ini_lookup_determined_by_occurrences (anv : Bool) (t t' : IniTree) (sec k : Str)
    (h : occurrences t sec k = occurrences t' sec k)
    (hval : ∀ o, (occurrences t sec k).getLast? = some o → o.value.isSome = true ∨ anv = true) :
    iniLookup (buildDict anv t) sec k = iniLookup (buildDict anv t') sec k := by
  cases hl : (occurrences t sec k).getLast? with
  | none =>
    have h0 := List.getLast?_eq_none_iff.mp hl
    rw [buildDict_absent anv t sec k h0, buildDict_absent anv t' sec k (h ▸ h0)]
  | some o =>
    rw [buildDict_last anv t sec k o hl (hval o hl), buildDict_last anv t' sec k o (h ▸ hl) (hval o hl)]

example : occurrences [⟨"a".toList, [⟨"k".toList, some "1".toList⟩]⟩, ⟨"b".toList, []⟩, ⟨"a".toList, [⟨"K".toList, some "2".toList⟩]⟩] "a".toList "k".toList
    = occurrences [⟨"a".toList, [⟨"k".toList, some "1".toList⟩, ⟨"K".toList, some "2".toList⟩]⟩, ⟨"b".toList, []⟩] "a".toList "k".toList := by decide

example : iniLookup (buildDict false [⟨"a".toList, [⟨"k".toList, some "1".toList⟩, ⟨"j".toList, some "x".toList⟩]⟩, ⟨"b".toList, []⟩,
      ⟨"a".toList, [⟨"K".toList, some "2".toList⟩]⟩]) "a".toList "k".toList = some (some "2".toList) ∧
    iniLookup (buildDict false [⟨"a".toList, [⟨"k".toList, some "1".toList⟩, ⟨"j".toList, some "x".toList⟩]⟩, ⟨"b".toList, []⟩,
      ⟨"a".toList, [⟨"K".toList, some "2".toList⟩]⟩]) "a".toList "j".toList = some (some "x".toList) := by decide

/-! ### INI documents: names over the whole alphabet of the grammar -/

def printableAscii : List Char := (List.range 95).map (fun i => Char.ofNat (i + 32))

/-- the character sets of the UNCHANGED grammar, written from first principles: header characters are
    the printable ASCII characters (blank included) except `[` `]`; key characters are those except the
    separators `=` `:`; value characters are printable ASCII plus TAB, VT, FF; `#` and `;` start comments -/
def specAlphabet : IniAlphabet :=
  { header := printableAscii.filter (fun c => c ≠ '[' ∧ c ≠ ']'),
    key := printableAscii.filter (fun c => c ≠ '[' ∧ c ≠ ']' ∧ c ≠ '=' ∧ c ≠ ':'),
    sep := [':', '='],
    value := [Char.ofNat 9, Char.ofNat 11, Char.ofNat 12] ++ printableAscii,
    comment := ['#', ';'] }

/-- the alphabet regenerated from the live source IS that alphabet (a change of `key_chars`,
    `header_chars`, `sep_chars`, `value_chars` or of the comment starters breaks this obligation) -/
theorem ini_alphabet_spec : IV.Gen.IniChars.alphabet = specAlphabet := by decide

theorem ini_alphabet_ok : IniAlphaOk IV.Gen.IniChars.alphabet := by
  rw [ini_alphabet_spec]
  refine ⟨by decide, by decide, by decide, by decide, by decide, by decide, by decide, ?_⟩
  intro c h
  have : c = ':' ∨ c = '=' := by simpa [specAlphabet] using h
  rcases this with rfl | rfl <;> decide

/-- EVERY printable ASCII character other than `[ ] = :` is a key character — `;`, `#`, `%`, `/`, `(`, `)`,
    `@`, `!`, `*`, `?`, `+`, quotes, blank … — and may stand at any position of an option name -/
theorem key_char_admitted (c : Char) (h1 : 32 ≤ c.toNat) (h2 : c.toNat ≤ 126)
    (h3 : c ≠ '[' ∧ c ≠ ']' ∧ c ≠ '=' ∧ c ≠ ':') : IV.Gen.IniChars.alphabet.key.contains c = true := by
  rw [ini_alphabet_spec]
  have hm : c ∈ printableAscii := by
    unfold printableAscii
    apply List.mem_map.mpr
    refine ⟨c.toNat - 32, by simp; omega, ?_⟩
    have : c.toNat - 32 + 32 = c.toNat := by omega
    rw [this]; exact Char.ofNat_toNat c
  simp only [specAlphabet, List.contains_eq_mem, List.mem_filter, hm, true_and, decide_eq_true_eq]
  simpa using h3

/-- a rendered `name = value` / `name: value` line, with a name over the whole key alphabet (a comment
    starter or `[` only not in first position), is read back as exactly that option with exactly that
    value: it cannot vanish into a value-less option plus a comment -/
theorem ini_option_line_readback (n v : Str) (s1 s2 : Nat) (sep : Char)
    (hn : OptNameOk IV.Gen.IniChars.alphabet n) (hsep : IV.Gen.IniChars.alphabet.sep.contains sep = true)
    (hv : IniValOk IV.Gen.IniChars.alphabet v) :
    classifyIniLine IV.Gen.IniChars.alphabet (renderIniItem (.opt n s1 sep s2 v)) = .opt ⟨n, some v⟩ (!v.isEmpty) :=
  (classify_opt_line _ ini_alphabet_ok n v s1 s2 sep hn hsep hv).1

example : classifyIniLine IV.Gen.IniChars.alphabet "max;size = a;b ;c".toList
      = .opt ⟨"max;size".toList, some "a;b ;c".toList⟩ true ∧
    classifyIniLine IV.Gen.IniChars.alphabet "comment # in key: value".toList
      = .opt ⟨"comment # in key".toList, some "value".toList⟩ true := by decide

/-- leading backslashes of a value, and of a continuation line, come back exactly; only the trailing
    continuation backslash (and trailing blanks) of each line is dropped -/
example : classifyIniLine IV.Gen.IniChars.alphabet "path = \\\\fileserver\\public\\docs".toList
      = .opt ⟨"path".toList, some "\\\\fileserver\\public\\docs".toList⟩ true ∧
    classifyIniLine IV.Gen.IniChars.alphabet "x = \\ leading".toList = .opt ⟨"x".toList, some "\\ leading".toList⟩ true ∧
    parseIni IV.Gen.IniChars.alphabet ["[s]".toList, "k = a \\".toList, "   \\d+\\.\\d+ \\".toList, "  \\\\x".toList]
      = some [⟨"s".toList, [⟨"k".toList, some "a \\d+\\.\\d+ \\\\x".toList⟩]⟩] := by decide

/-- a comment line — blanks in front or not, whatever it contains — is never an option -/
theorem ini_comment_line_never_option (semi : Bool) (text : Str) (indent : Nat) :
    classifyIniLine IV.Gen.IniChars.alphabet (renderIniItem (.comment semi text indent)) = .comment :=
  classify_comment_line _ ini_alphabet_ok semi text indent

/-- FULL statement: a rendered document — comment lines with any indentation — is read back as its
    sections and options.  False of the current code (indented comments join the preceding value). -/
def IniItemOkAnyIndent (A : IniAlphabet) : IniItem → Prop
  | .comment _ _ _ => True
  | it => IniItemOk A it

def IniReadbackFull : Prop :=
  ∀ doc : List IniItem, (∀ it ∈ doc, IniItemOkAnyIndent IV.Gen.IniChars.alphabet it) →
    (∀ l ∈ renderIni doc, asciiReplace l = l) →
    parseIni IV.Gen.IniChars.alphabet (renderIni doc) = iniTreeOf doc

/-- the part that holds: with comment lines starting in column 0, every document over the whole
    alphabet is read back exactly — sections, options, values, order -/
theorem ini_readback_partial (doc : List IniItem) (hdoc : ∀ it ∈ doc, IniItemOk IV.Gen.IniChars.alphabet it)
    (hascii : ∀ l ∈ renderIni doc, asciiReplace l = l) :
    parseIni IV.Gen.IniChars.alphabet (renderIni doc) = iniTreeOf doc := by
  unfold parseIni iniTreeOf
  have : (renderIni doc).map asciiReplace = renderIni doc := by
    conv => rhs; rw [← List.map_id (renderIni doc)]
    apply List.map_congr_left
    intro l hl; simp [hascii l hl]
  rw [this]
  exact iniLinesGo_render _ ini_alphabet_ok doc none [] none hdoc

/-- known finding ini-indented-comment-joins-value: `[s]`, `k = v`, `   ; c = 1` -/
def indentedCommentDoc : List IniItem :=
  [.sec 0 "s".toList 0, .opt "k".toList 1 '=' 1 "v".toList, .comment true " c = 1".toList 3]

theorem ini_indented_comment_witness :
    parseIni IV.Gen.IniChars.alphabet (renderIni indentedCommentDoc)
      = some [⟨"s".toList, [⟨"k".toList, some "v ; c = 1".toList⟩]⟩] ∧
    iniTreeOf indentedCommentDoc = some [⟨"s".toList, [⟨"k".toList, some "v".toList⟩]⟩] := by decide

theorem ini_readback_full_false : ¬ IniReadbackFull := by
  intro h
  have hs : Stripped ['s'] := ⟨by intro c hc; simp at hc; subst hc; decide, by intro c hc; simp at hc; subst hc; decide⟩
  have hk : Stripped ['k'] := ⟨by intro c hc; simp at hc; subst hc; decide, by intro c hc; simp at hc; subst hc; decide⟩
  have := h indentedCommentDoc (by
    intro it hit
    simp only [indentedCommentDoc, List.mem_cons, List.mem_nil_iff, or_false] at hit
    rcases hit with rfl | rfl | rfl
    · exact ⟨by decide, hs, by intro c hc; simp at hc; subst hc; decide⟩
    · refine ⟨⟨by decide, hk, by intro c hc; simp at hc; subst hc; decide, by intro c hc; simp at hc; subst hc; decide⟩, by decide, ?_⟩
      exact ⟨by intro c hc; simp at hc; subst hc; decide, by decide, by intro c hc; simp at hc; subst hc; decide,
             by intro c hc; simp at hc; subst hc; decide⟩
    · trivial) (by decide)
  rw [ini_indented_comment_witness.1, ini_indented_comment_witness.2] at this
  revert this; decide

/-! ### unsplit_lines (round 10) -/

/-- Round trip: logical lines, each written as any number of pieces followed by the continuation character `c` and
    blanks and then a last physical line that does not end in `c`, are recombined exactly: the pieces come back
    untouched (with or without `c`, as `keep_cont_char` says), only trailing white space of the last physical line is
    dropped — one output line per logical line, in order, for any number of lines and pieces. -/
theorem unsplit_roundtrip (c : Char) (hc : isSpace c = false) (keep : Bool) (doc : List Logical)
    (h : ∀ lg ∈ doc, endsWith [c] (rstrip lg.last) = false) :
    unsplitLines (renderLogicals c doc) [c] keep = doc.map (Logical.joined c keep) := by
  have := unsplitGo_doc c hc keep doc h []
  simpa [unsplitLines, unsplitGo] using this

example : unsplitLines (renderLogicals '\\' [⟨[("Line one ".toList, 0), ("  part 2".toList, 2)], " end  ".toList⟩, ⟨[], "Line two".toList⟩])
      ['\\'] false = ["Line one   part 2 end".toList, "Line two".toList] := by decide

/-- A document that ENDS inside a continuation loses nothing: the pieces collected so far are yielded as the last line. -/
theorem unsplit_trailing_continuation (c : Char) (hc : isSpace c = false) (keep : Bool) (doc : List Logical)
    (h : ∀ lg ∈ doc, endsWith [c] (rstrip lg.last) = false) (ps : List (Str × Nat)) (hps : ps ≠ []) :
    unsplitLines (renderLogicals c doc ++ renderParts c ps) [c] keep
      = doc.map (Logical.joined c keep) ++ [joinedParts c keep ps] := by
  have h1 := unsplitGo_doc c hc keep doc h (renderParts c ps)
  have h2 := unsplitGo_parts c hc keep ps [] []
  simp only [List.append_nil, List.nil_append] at h2
  have hne : (keptParts c keep ps).isEmpty = false := by
    cases ps with
    | nil => exact absurd rfl hps
    | cons p ps => simp [keptParts]
  simp only [unsplitLines, h1, h2, unsplitGo, hne, joinedParts_eq]
  simp

example : unsplitLines (renderLogicals '\\' [⟨[], "a".toList⟩] ++ renderParts '\\' [("".toList, 0)]) ['\\'] false
    = ["a".toList, "".toList] := by decide

/-! ### optlist_to_dict (round 10) -/

/-- Round trip (full strength): options joined by any non-empty separator string `d` that occurs in none of them
    (`sepFree`), a flag written as its name, a key/value option as padded key, `kv`, value: the result is the last-wins
    map of the options in order of first occurrence, flags carrying `True` (`none`), values coming back exactly — EMPTY
    values included — and, with `strip_quotes`, as `unquote` says (matching outer quotes removed; a value that is one
    lone quote character becomes empty, as `v[1:-1]` does). -/
theorem optlist_roundtrip (d : Str) (hd : d ≠ []) (kv : Char) (sq : Bool) (items : List OptItem) (hne : items ≠ [])
    (hit : ∀ it ∈ items, OptItemOk kv it) (hsep : ∀ it ∈ items, sepFree d (renderOptItem kv it) = true) :
    optlistToDict (joinStr d (items.map (renderOptItem kv))) d (some [kv]) sq = .ok (fromPairs (items.map (optPairSq sq))) := by
  have hd' : d.isEmpty = false := by cases d with
    | nil => exact absurd rfl hd
    | cons _ _ => rfl
  have hsplit := splitSep_joinStr d hd (items.map (renderOptItem kv)) none (by simpa using hne)
    (by intro c hc; simp only [List.mem_map] at hc; obtain ⟨it, hi, rfl⟩ := hc; exact hsep it hi) rfl
  simp only [optlistToDict, hd', Bool.false_eq_true, if_false, hsplit, mapM_makeKv kv sq items hit]
  rfl

example : optlistToDict "rw, rsize = \"32 k\", ro, rw, e=".toList ", ".toList (some ['=']) true
    = .ok [("rw".toList, none), ("rsize".toList, some " \"32 k\"".toList), ("ro".toList, none), ("e".toList, some [])] := by decide

/-- what `strip_quotes` does to a value, spelled out: empty stays empty, `"x"` and `'x'` lose their quotes, mismatched or
    inner quotes stay -/
example : unquote [] = [] ∧ unquote "\"a b\"".toList = "a b".toList ∧ unquote "'x'".toList = "x".toList ∧
    unquote "\"mis'".toList = "\"mis'".toList ∧ unquote "a\"b\"".toList = "a\"b\"".toList := by decide

/-- the round-trip statement for the rule used BEFORE fix d975e2b (`makeKvOld`: `v[0]` evaluated on the empty value) -/
def OptlistRoundtripOld : Prop :=
  ∀ (d : Str) (kv : Char) (sq : Bool) (items : List OptItem), d ≠ [] → items ≠ [] →
    (∀ it ∈ items, OptItemOk kv it) → (∀ it ∈ items, sepFree d (renderOptItem kv it) = true) →
    optlistToDictOld (joinStr d (items.map (renderOptItem kv))) d (some [kv]) sq = .ok (fromPairs (items.map (optPairSq sq)))

/-- regression of fix d975e2b: on `'rw,k='` with `strip_quotes=True` the old rule raised IndexError; the code as it is
    returns `{'rw': True, 'k': ''}` -/
theorem optlist_old_rule_witness :
    optlistToDictOld "rw,k=".toList ",".toList (some ['=']) true = .error .indexError ∧
    optlistToDict "rw,k=".toList ",".toList (some ['=']) true = .ok [("rw".toList, none), ("k".toList, some [])] := by decide

/-- the old rule violated the round-trip statement that `optlist_roundtrip` proves of the present code -/
theorem optlist_old_rule_violates : ¬ OptlistRoundtripOld := by
  intro h
  have hk : Stripped ['k'] := ⟨by intro c hc; simp at hc; subst hc; decide, by intro c hc; simp at hc; subst hc; decide⟩
  have := h [','] '=' true [.flag "rw".toList, .kv 0 ['k'] 0 []] (by decide) (by decide)
    (by
      intro it hit
      simp only [List.mem_cons, List.mem_nil_iff, or_false] at hit
      rcases hit with rfl | rfl
      · show '=' ∉ "rw".toList; decide
      · exact ⟨by decide, hk, by decide⟩)
    (by decide)
  revert this; decide

/-- without a key/value separator (`kv_sep=None`) every option is a flag, whatever it contains -/
theorem optlist_no_kv_sep (d : Str) (hd : d ≠ []) (sq : Bool) (opts : List Str) (hne : opts ≠ [])
    (hsep : ∀ o ∈ opts, sepFree d o = true) :
    optlistToDict (joinStr d opts) d none sq = .ok (fromPairs (opts.map (fun o => (o, none)))) := by
  have hd' : d.isEmpty = false := by cases d with
    | nil => exact absurd rfl hd
    | cons _ _ => rfl
  have hsplit := splitSep_joinStr d hd opts none hne hsep rfl
  have hm : ∀ l : List Str, l.mapM (makeKv none sq) = .ok (l.map (fun o => (o, none))) := by
    intro l; induction l with
    | nil => rfl
    | cons o l ih => simp only [List.mapM_cons, makeKv, ih, List.map_cons]; rfl
  simp only [optlistToDict, hd', Bool.false_eq_true, if_false, hsplit, hm]
  rfl

example : optlistToDict "a=1|b|a=1".toList "|".toList none false = .ok [("a=1".toList, none), ("b".toList, none)] := by decide

/-! ### IniConfigFile.set (round 10) -/

/-- An assignment is read back: after `set(sec, opt, v)` on an existing section, `get` with any padding of the section
    name and any spelling of the (stripped) option name returns `v`, and the option is reported as present. -/
theorem ini_set_get (d d' : IniDict) (sec opt : Str) (v : Option Str) (h : iniSet d sec opt v = .ok d')
    (sec' opt' : Str) (hs : strip sec' = strip sec) (ho : lower opt' = lower (strip opt)) :
    iniGet d' sec' opt' = .ok v ∧ iniHasOption d' sec' opt' = true := by
  unfold iniSet at h
  cases hg : dictGet d (strip sec) with
  | none => simp [hg] at h
  | some hh =>
    simp only [hg, Except.ok.injEq] at h
    subst h
    simp [iniGet, iniHasOption, hs, ho, dictGet_dictSet_self]

example : iniSet [("main".toList, [("k".toList, some "v".toList)])] " main ".toList " K ".toList (some "w".toList)
    = .ok [("main".toList, [("k".toList, some "w".toList)])] := by decide

/-- Frame: an assignment changes nothing else — every other (section, option) answers as before, and the list of
    sections is the same. -/
theorem ini_set_frame (d d' : IniDict) (sec opt : Str) (v : Option Str) (h : iniSet d sec opt v = .ok d')
    (sec' opt' : Str) (hne : strip sec' ≠ strip sec ∨ lower opt' ≠ lower (strip opt)) :
    iniGet d' sec' opt' = iniGet d sec' opt' ∧ iniSections d' = iniSections d := by
  unfold iniSet at h
  cases hg : dictGet d (strip sec) with
  | none => simp [hg] at h
  | some hh =>
    simp only [hg, Except.ok.injEq] at h
    subst h
    refine ⟨?_, ?_⟩
    · by_cases e : strip sec' = strip sec
      · have ho : lower opt' ≠ lower (strip opt) := by
          rcases hne with h1 | h1
          · exact absurd e h1
          · exact h1
        simp only [iniGet, e, dictGet_dictSet_self, hg]
        rw [dictGet_dictSet_ne _ _ _ _ (fun x => ho x.symm)]
      · simp only [iniGet]
        rw [dictGet_dictSet_ne _ _ _ _ (fun x => e x.symm)]
    · simp only [iniSections]
      rw [keys_dictSet_present d (strip sec) _ (by simp [hg])]

example : iniSet [("a".toList, [("k".toList, some "v".toList)]), ("b".toList, [])] "b".toList "New".toList none
    = .ok [("a".toList, [("k".toList, some "v".toList)]), ("b".toList, [("new".toList, none)])] := by decide

/-- an assignment into a section that does not exist is rejected (KeyError); nothing is created -/
theorem ini_set_absent (d : IniDict) (sec opt : Str) (v : Option Str) (h : iniHasSection d sec = false) :
    iniSet d sec opt v = .error .keyError := by
  unfold iniHasSection at h
  unfold iniSet
  cases hg : dictGet d (strip sec) with
  | none => rfl
  | some _ => simp [hg] at h

example : iniSet [("a".toList, [])] "nosuch".toList "k".toList none = .error .keyError := by decide

/-! ### split_kv_pairs with filter_string (round 10) -/

/-- `filter_string` selects PAIRS, by their active text only: a rendered document parsed with `filter_string = f` gives
    the last-wins map of exactly those pairs in whose active line (comment cut off, stripped) `f` occurs — text inside
    a trailing comment or a comment line never makes a line pass, for every `f` and both `use_partition` settings. -/
theorem kv_filter_roundtrip (cc sep : Char) (hcs : cc ≠ sep) (hc : isSpace cc = false) (hs : isSpace sep = false)
    (doc : List KvItem) (hdoc : ∀ it ∈ doc, KvItemOk cc sep it) (usePartition : Bool) (f : Str) :
    splitKvPairs (renderKv cc sep doc) (some [cc]) (some f) [sep] usePartition
      = .ok (fromPairs (kvPairsOf (doc.filter (kvKeeps cc sep f)))) := by
  have := kv_fold_filter cc sep hcs hc hs usePartition f doc [] hdoc
  simp only [splitKvPairs, getActiveLines, List.isEmpty_cons, Bool.false_eq_true, if_false, bind, Except.bind, pure, Except.pure]
  unfold fromPairs
  rw [← this]
  rfl

example : splitKvPairs (renderKv '#' '=' [.pair 0 "a".toList 1 1 "1".toList 1 (some " x = 2".toList), .comment 0 " x".toList,
      .pair 0 "x".toList 0 0 "3".toList 0 none]) (some ['#']) (some ['x']) ['='] false = .ok [("x".toList, "3".toList)] := by decide

/-! ### parse_fixed_table with empty_exception=True (round 10) -/

/-- For EVERY input and every setting of the other arguments: where the lax parse (`empty_exception=False`) returns rows,
    the strict parse either raises ParseException or returns exactly the same rows, and then no returned cell is empty. -/
theorem fixed_strict_refines (lines hi : List Str) (sub : List (Str × Str)) (ti : List Str) (rows : List Dict)
    (h : parseFixedTable lines hi sub ti false = .ok rows) :
    parseFixedTable lines hi sub ti true = .error .parseException ∨
    (parseFixedTable lines hi sub ti true = .ok rows ∧ ∀ r ∈ rows, ∀ p ∈ r, p.2 ≠ []) := by
  unfold parseFixedTable at h ⊢
  cases h1 : calcOffset lines hi false false with
  | none => simp [h1] at h
  | some first =>
    simp only [h1] at h ⊢
    cases h2 : lines[first]? with
    | none => simp [h2] at h
    | some header0 =>
      simp only [h2] at h ⊢
      cases h3 : calcColumnIndices (applySubst sub header0) (splitWs none (strip (applySubst sub header0))) 0 with
      | none => simp [h3] at h
      | some idx =>
        simp only [h3] at h ⊢
        revert h
        generalize sliceLines lines (first + 1) _ = L
        intro h
        obtain ⟨rs, hlax, hstrict⟩ := fixedRows_strict (splitWs none (strip (applySubst sub header0))) (idxPairs idx) L
        rw [hlax] at h
        cases h
        exact hstrict

example : parseFixedTable ["A  B".toList, "1  2".toList, "3   ".toList] [] [] [] false
      = .ok [[("A".toList, "1".toList), ("B".toList, "2".toList)], [("A".toList, "3".toList), ("B".toList, [])]] ∧
    parseFixedTable ["A  B".toList, "1  2".toList, "3   ".toList] [] [] [] true = .error .parseException ∧
    parseFixedTable ["A  B".toList, "1  2".toList] [] [] [] true = .ok [[("A".toList, "1".toList), ("B".toList, "2".toList)]] :=
  ⟨by decide, by decide, by decide⟩

/-- ... and where the lax parse fails (heading not found, no heading line), the strict parse fails in the same way -/
theorem fixed_strict_error_agree (lines hi : List Str) (sub : List (Str × Str)) (ti : List Str) (e : Err)
    (h : parseFixedTable lines hi sub ti false = .error e) : parseFixedTable lines hi sub ti true = .error e := by
  unfold parseFixedTable at h ⊢
  cases h1 : calcOffset lines hi false false with
  | none => simpa [h1] using h
  | some first =>
    simp only [h1] at h ⊢
    cases h2 : lines[first]? with
    | none => simpa [h2] using h
    | some header0 =>
      simp only [h2] at h ⊢
      cases h3 : calcColumnIndices (applySubst sub header0) (splitWs none (strip (applySubst sub header0))) 0 with
      | none => simpa [h3] using h
      | some idx =>
        simp only [h3] at h ⊢
        revert h
        generalize sliceLines lines (first + 1) _ = L
        intro h
        obtain ⟨rs, hlax, _⟩ := fixedRows_strict (splitWs none (strip (applySubst sub header0))) (idxPairs idx) L
        rw [hlax] at h
        cases h

example : parseFixedTable ["x".toList] ["NAME".toList] [] [] false = .error .valueError := by decide

end IV.TextFormats
