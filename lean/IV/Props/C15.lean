import IV.Lemmas.TextFormats
import IV.Gen.Matchers
/-!
C15 — shared text-format helpers recover the data that was rendered.

Every theorem is about the executable model `IV.TextFormats` of insights/parsers/__init__.py
(`get_active_lines`, `split_kv_pairs`, `calc_offset`, `parse_fixed_table`, `parse_delimited_table`,
`keyword_search`) and of the dictionary view `IniConfigFile` builds over the parsed INI tree, for ALL
documents of the stated shape (no bound on the number of lines, columns, cells or characters).
-/
namespace IV.TextFormats

/-! ### key/value documents -/

/-- Round trip: a document of `key sep value` lines (arbitrary padding, optional trailing comment),
    interleaved with arbitrary comment lines and blank lines, parses to the last-wins map of its
    pairs, in order of first occurrence — for both settings of `use_partition`. -/
theorem kv_roundtrip (cc sep : Char) (hcs : cc ≠ sep) (hc : isSpace cc = false) (hs : isSpace sep = false)
    (doc : List KvItem) (hdoc : ∀ it ∈ doc, KvItemOk cc sep it) (usePartition : Bool) :
    splitKvPairs (renderKv cc sep doc) (some [cc]) none [sep] usePartition = .ok (fromPairs (kvPairsOf doc)) :=
  kv_roundtrip_aux cc sep hcs hc hs doc hdoc usePartition

example : splitKvPairs (renderKv '#' '=' [.comment 0 " k = hidden".toList, .pair 1 "a".toList 1 1 "1".toList 0 none,
      .blank 3, .pair 0 "b c".toList 0 2 "x = y".toList 2 (some " note".toList), .pair 0 "a".toList 1 1 "".toList 0 none])
      (some ['#']) none ['='] false
    = .ok [("a".toList, "".toList), ("b c".toList, "x = y".toList)] := by decide

/-- "last-wins map": looking a key up gives the value of its LAST pair -/
theorem kv_lookup_last (ps : List (Str × Str)) (k : Str) :
    dictGet (fromPairs ps) k = (ps.reverse.find? (fun p => p.1 = k)).map (·.2) :=
  dictGet_fromPairs ps k

/-- Comment and blank lines never contribute: for ANY text and ANY flags, inserting a line whose part
    before the comment string is blank changes nothing. -/
theorem comments_inert (cc : Str) (hcc : cc ≠ []) (pre post : List Str) (l : Str)
    (hl : strip (before cc l) = []) (filter : Option Str) (splitOn : Str) (up : Bool) :
    splitKvPairs (pre ++ l :: post) (some cc) filter splitOn up
      = splitKvPairs (pre ++ post) (some cc) filter splitOn up :=
  comments_inert_aux cc hcc pre post l hl filter splitOn up

/-- the same for `get_active_lines` itself -/
theorem active_lines_inert (cc : Str) (hcc : cc ≠ []) (pre post : List Str) (l : Str)
    (hl : strip (before cc l) = []) :
    getActiveLines (pre ++ l :: post) cc = getActiveLines (pre ++ post) cc :=
  getActiveLines_inert cc hcc pre post l hl

/-- rendered comment lines and blank lines satisfy the hypothesis of `comments_inert` -/
theorem rendered_comment_inert (cc sep : Char) (hc : isSpace cc = false) (indent n : Nat) (text : Str) :
    strip (before [cc] (renderKvItem cc sep (.comment indent text))) = [] ∧
    strip (before [cc] (renderKvItem cc sep (.blank n))) = [] :=
  ⟨active_comment cc sep hc indent text, active_blank cc sep hc n⟩

example : strip (before ['#'] "   # key = value".toList) = [] := by decide

/-! ### fixed-width tables -/

/-- Round trip at full strength: any number of columns; space-free non-empty headers (they may be
    substrings of one another, or equal); cells stripped and fitting their column, with inner spaces,
    empty cells and cells that fill the column exactly; junk lines before the heading; footer lines
    after the data.  Every row comes back as the dict of its (header, cell) pairs. -/
theorem fixed_roundtrip (t : FixedTable) (hi ti : List Str) (h : t.WF hi ti) :
    parseFixedTable (renderFixed t) hi [] ti false
      = .ok (t.rows.map (fun r => fromPairs (t.names.zip (rowCells r)))) :=
  fixed_roundtrip_aux t hi ti h

/-- with distinct headers a row dict is exactly the list of (header, cell) pairs in column order -/
theorem fixed_roundtrip_nodup (t : FixedTable) (hi ti : List Str) (h : t.WF hi ti) (hn : t.names.Nodup) :
    parseFixedTable (renderFixed t) hi [] ti false = .ok (t.rows.map (fun r => t.names.zip (rowCells r))) := by
  rw [fixed_roundtrip t hi ti h]
  congr 1
  apply List.map_congr_left
  intro r hr
  apply fromPairs_of_nodup
  have hl : (rowCells r).length = t.names.length := by
    simp [rowCells, FixedTable.names, (h.rows_ok r hr).1]
  rw [List.map_fst_zip (by omega)]
  exact hn

/-- the regression table of fix 564ef64: header `NAME ME X` (ME is a substring of NAME), a row with an
    empty cell and a cell with an inner space, one junk line, one footer line -/
def nameMeX : FixedTable :=
  { junk := ["warning".toList], lead := 0, cols := [⟨"NAME".toList, 5⟩, ⟨"ME".toList, 4⟩], lastName := "X".toList,
    lastPad := 0, rows := [(["ab".toList, "c d".toList], "ef".toList, 0), (["".toList, "".toList], "z".toList, 1)],
    footer := ["Total 2".toList] }

example : parseFixedTable (renderFixed nameMeX) ["NAME".toList] [] ["Total".toList] false
    = .ok [[("NAME".toList, "ab".toList), ("ME".toList, "c d".toList), ("X".toList, "ef".toList)],
           [("NAME".toList, []), ("ME".toList, []), ("X".toList, "z".toList)]] := by decide

/-- the old index rule (search from the previous index + 1) puts ME inside NAME; the repaired rule
    (search from the END of the previous header) finds its true start -/
theorem old_index_rule_witness :
    calcColumnIndicesOld "NAME ME X".toList ["NAME".toList, "ME".toList, "X".toList] 0 = some [0, 2, 8] ∧
    calcColumnIndices "NAME ME X".toList ["NAME".toList, "ME".toList, "X".toList] 0 = some [0, 5, 8] := by decide

/-! ### keyword_search: the matcher table of the live module -/

/-- what the five matchers of `keyword_search` mean (generated table = this table) -/
def specTable : List (Str × Matcher) := [
  ("equals".toList, fun s v => s == some v),
  ("contains".toList, fun s v => s.isSome && s.any (fun x => contains v x)),
  ("startswith".toList, fun s v => s.isSome && s.any (fun x => startsWith v x)),
  ("endswith".toList, fun s v => s.isSome && s.any (fun x => endsWith v x)),
  ("lower_value".toList, fun s v => s.isSome && s.any (fun x => lower x == lower v))]

theorem matchers_spec : IV.Gen.Matchers.table = specTable := rfl

/-- no keyword arguments: no rows (documented) -/
theorem keyword_search_no_kwargs (table : List (Str × Matcher)) (rows : List Row) (rkc : Bool) :
    keywordSearch table rows rkc [] = [] := by simp [keywordSearch]

/-- the condition one keyword argument `kw=v` puts on a row: the keyword resolves (through the
    transformed keys of the rows) to a field the row has, and the matcher named by the suffix accepts
    the field's value; a keyword that resolves to no field is a condition no row satisfies -/
def kwCond (table : List (Str × Matcher)) (tx : Dict) (row : Row) (kw v : Str) : Bool :=
  match dictGet tx (splitKeyword (table.map (·.1)) kw).1 with
  | none => false
  | some key => keyMatch table row key (splitKeyword (table.map (·.1)) kw).2 v

theorem searchTerms_spec (table : List (Str × Matcher)) (tx : Dict) (row : Row) :
    ∀ kwargs : List (Str × Str),
      match searchTerms (table.map (·.1)) tx kwargs with
      | none => kwargs.all (fun kv => kwCond table tx row kv.1 kv.2) = false
      | some terms => terms.all (fun t => keyMatch table row t.1 t.2.1 t.2.2)
                        = kwargs.all (fun kv => kwCond table tx row kv.1 kv.2) := by
  intro kwargs
  induction kwargs with
  | nil => simp [searchTerms]
  | cons kv rest ih =>
    obtain ⟨kw, v⟩ := kv
    simp only [searchTerms, List.all_cons]
    cases hk : dictGet tx (splitKeyword (table.map (·.1)) kw).1 with
    | none =>
      have hc : kwCond table tx row kw v = false := by simp [kwCond, hk]
      simp [hc]
    | some key =>
      have hc : kwCond table tx row kw v = keyMatch table row key (splitKeyword (table.map (·.1)) kw).2 v := by
        simp [kwCond, hk]
      cases hr : searchTerms (table.map (·.1)) tx rest with
      | none =>
        rw [hr] at ih
        simp only at ih
        simp only [Option.map_none, hc, ih, Bool.and_false]
      | some terms =>
        rw [hr] at ih
        simp only at ih
        simp only [Option.map_some, List.all_cons, hc, ih]

/-- keyword_search returns EXACTLY the rows that satisfy every keyword condition, in their original
    order (for at least one keyword argument; any rows, any `row_keys_change`) -/
theorem keyword_search_exact (table : List (Str × Matcher)) (rows : List Row) (rkc : Bool)
    (kwargs : List (Str × Str)) (hk : kwargs ≠ []) :
    keywordSearch table rows rkc kwargs
      = rows.filter (fun row => kwargs.all (fun kv => kwCond table (txKeys rows rkc) row kv.1 kv.2)) := by
  have hk' : kwargs.isEmpty = false := by cases kwargs with
    | nil => exact absurd rfl hk
    | cons _ _ => rfl
  unfold keywordSearch
  cases hr : rows.isEmpty with
  | true =>
    have : rows = [] := by simpa using hr
    simp [this]
  | false =>
    simp only [hk', Bool.or_self, Bool.false_eq_true, if_false]
    cases hs : searchTerms (table.map (·.1)) (txKeys rows rkc) kwargs with
    | none =>
      simp only
      symm
      apply List.filter_eq_nil_iff.mpr
      intro row _
      have := searchTerms_spec table (txKeys rows rkc) row kwargs
      rw [hs] at this
      simp [this]
    | some terms =>
      simp only
      apply List.filter_congr
      intro row _
      have := searchTerms_spec table (txKeys rows rkc) row kwargs
      rw [hs] at this
      exact this

example : keywordSearch IV.Gen.Matchers.table
    [[("fix-up path".toList, some "/a/b".toList)], [("fix-up path".toList, some "/c".toList)]] false
    [("fix_up_path__startswith".toList, "/a".toList)] = [[("fix-up path".toList, some "/a/b".toList)]] := by decide

/-! ### IniConfigFile -/

/-- option lookup is case-insensitive (ASCII): two spellings of an option give the same answer -/
theorem ini_get_case_insensitive (d : IniDict) (sec o o' : Str) (h : lower o = lower o') :
    iniGet d sec o = iniGet d sec o' ∧ iniHasOption d sec o = iniHasOption d sec o' := by
  simp [iniGet, iniHasOption, h]

example : lower "Log_Level".toList = lower "LOG_LEVEL".toList := by decide

/-- `sections()` = the section names of the document in order of first occurrence (repeated
    sections merge), without `DEFAULT` itself — for every parsed tree and either `allow_no_value` -/
theorem ini_sections (anv : Bool) (t : IniTree) :
    iniSections (iniView anv t) = (dedup (t.map (·.name))).filter (· ≠ DEFAULT) :=
  ini_sections_aux anv t

/-- regression of fix 9172b50: a section whose name merely contains DEFAULT is listed -/
theorem ini_sections_regression :
    iniSections (iniView false [⟨"main".toList, [⟨"k".toList, some "v".toList⟩]⟩, ⟨"MY_DEFAULTS".toList, []⟩,
                                ⟨"DEFAULT".toList, [⟨"d".toList, some "1".toList⟩]⟩])
      = ["main".toList, "MY_DEFAULTS".toList] := by decide

/-- FULL statement of "a section's own option beats DEFAULT": false of the current code -/
def IniExplicitBeatsDefault : Prop :=
  ∀ (t : IniTree) (sec : Str) (o : IniOpt) (v : Str), sec ≠ DEFAULT →
    (∃ s ∈ t, s.name = sec ∧ o ∈ s.opts) → o.value = some v →
    (∀ s ∈ t, s.name = sec → ∀ o' ∈ s.opts, lower o'.name = lower o.name → o' = o) →
    iniGet (iniView false t) sec o.name = .ok (some v)

/-- known finding ini-default-overrides-explicit: `[s] Key = explicit  [DEFAULT] KEY = dflt` -/
theorem ini_default_precedence_witness : ¬ IniExplicitBeatsDefault := by
  intro h
  have := h [⟨"s".toList, [⟨"Key".toList, some "explicit".toList⟩]⟩, ⟨DEFAULT, [⟨"KEY".toList, some "dflt".toList⟩]⟩]
    "s".toList ⟨"Key".toList, some "explicit".toList⟩ "explicit".toList (by decide)
    ⟨⟨"s".toList, [⟨"Key".toList, some "explicit".toList⟩]⟩, by simp, rfl, by simp⟩ rfl (by decide)
  revert this
  decide

/-- the same finding through a repeated section: `[a] k = explicit  [DEFAULT] k = dflt  [a] q = r` -/
theorem ini_default_repeated_section_witness :
    iniGet (iniView false [⟨"a".toList, [⟨"k".toList, some "explicit".toList⟩]⟩,
                           ⟨DEFAULT, [⟨"k".toList, some "dflt".toList⟩]⟩,
                           ⟨"a".toList, [⟨"q".toList, some "r".toList⟩]⟩]) "a".toList "k".toList
      = .ok (some "dflt".toList) := by decide

/-- known finding ini-default-duplicate-first-inherited: `[DEFAULT] a = 1, a = 2  [s] b = x` -/
theorem ini_default_duplicate_witness :
    let d := iniView false [⟨DEFAULT, [⟨"a".toList, some "1".toList⟩, ⟨"a".toList, some "2".toList⟩]⟩,
                            ⟨"s".toList, [⟨"b".toList, some "x".toList⟩]⟩]
    iniGet d DEFAULT "a".toList = .ok (some "2".toList) ∧ iniGet d "s".toList "a".toList = .ok (some "1".toList) := by
  decide

end IV.TextFormats
