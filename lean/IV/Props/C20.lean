import IV.Lemmas.Query
/-!
C20 — configuration-tree queries return exactly the matching nodes.

Every theorem is about the model in IV/Model/Query.lean (`selectNodes`, `select`, `rootsOf`,
`entrySelect`/`entryFind`/`entryGetitem`, `resultSelect`/`resultGetitem`, `BExp.interp`,
`BExp.compiled`), for ALL trees, queries, option combinations, values and opaque callables `ρ`.

"Document order" is stated without reference to identities: a result is in document order and
free of duplicates when it is a `List.Sublist` of the pre-order flattening of the forest.
-/
namespace IV.Query

/-! ## 1. a query returns exactly the end points of the matching chains -/

/-- `select()` without a query is rejected (IndexError in `match`) -/
theorem select_no_query (ρ : Env) (nodes : List Node) (deep : Bool) : selectNodes ρ [] nodes deep = none := rfl

/-- the result of a k-level query is the enumeration of all chains n₁ ∈ nodes (or anywhere below,
for a deep search), n_{i+1} ∈ children n_i, with q_i n_i — one entry per chain, ordered by
parents first, then siblings -/
theorem select_exact (ρ : Env) (q : Query) (qs : List Query) (nodes : List Node) (deep : Bool) :
    selectNodes ρ (q :: qs) nodes deep =
      some (chains Node.kids (q.eval ρ) (qs.map (Query.eval ρ)) (if deep then flatten nodes else nodes)) := by
  simp [selectNodes, runQueries, matchLv_eq_chains]

/-- no more, no fewer: membership in the result is the existence of a matching chain -/
theorem select_mem_iff (ρ : Env) (q : Query) (qs : List Query) (nodes : List Node) (deep : Bool)
    (res : List Node) (h : selectNodes ρ (q :: qs) nodes deep = some res) (n : Node) :
    n ∈ res ↔ Chain Node.kids (q.eval ρ) (qs.map (Query.eval ρ)) (if deep then flatten nodes else nodes) n := by
  rw [select_exact] at h
  cases h
  exact mem_chains _ _ _ _ _

example : selectNodes ⟨fun _ _ => .ret true, id⟩ [.name (.lit (.str ['a'])), .name .any]
    [top 0 (.node (.str ['a']) [] [.node (.str ['b']) [] [], .node .none [] []])] false
    = some [⟨[.node (.str ['a']) [] [.node (.str ['b']) [] [], .node .none [] []]], .node (.str ['b']) [] [], [0, 0]⟩,
            ⟨[.node (.str ['a']) [] [.node (.str ['b']) [] [], .node .none [] []]], .node .none [] [], [0, 1]⟩] := by
  rfl

/-- no duplicates, nothing foreign: up to order the result is a selection of occurrences of the
flattened forest — every node occurrence of the document is returned at most once, whatever
the query and the options -/
theorem select_each_node_once (ρ : Env) (qs : List Query) (nodes : List Node) (deep : Bool)
    (res : List Node) (h : selectNodes ρ qs nodes deep = some res) : SubPerm res (flatten nodes) := by
  cases qs with
  | nil => cases h
  | cons q qs =>
    simp only [selectNodes, List.map_cons, runQueries, Option.some.injEq] at h
    subst h
    apply subPerm_matchLv
    cases deep
    · exact SubPerm.of_sublist (self_sublist_flatten nodes)
    · exact SubPerm.of_sublist (List.Sublist.refl _)

/-! ## 2. document order -/

/-- FULL statement (false of the current code, see `order_witness`): every result is in document order -/
def DocumentOrder : Prop :=
  ∀ (ρ : Env) (qs : List Query) (nodes : List Node) (deep : Bool) (res : List Node),
    selectNodes ρ qs nodes deep = some res → res.Sublist (flatten nodes)

/-- PARTIAL (exact hypothesis): the result is in document order — and therefore free of duplicates —
 * for every non-deep query,
 * for every single-level deep query,
 * for a multi-level deep query provided no node matched by the FIRST level lies below another node
   matched by the first level (then no matched node of any level lies below another one of that level).
The start nodes may be any document-ordered, un-nested selection (`Cut`) of a document forest `l`
— the children of an Entry, or the grandchildren of a Result whose nodes do not nest — and the order
is the order of `l`. -/
theorem select_document_order_partial (ρ : Env) (l nodes : List Node) (qs : List Query) (deep : Bool)
    (res : List Node) (hcut : Cut l nodes) (h : selectNodes ρ qs nodes deep = some res)
    (hn : deep = true → ∀ q q' qs', qs = q :: q' :: qs' → NoNest (q.eval ρ) nodes) :
    res.Sublist (flatten l) := by
  cases qs with
  | nil => cases h
  | cons q qs =>
    simp only [selectNodes, List.map_cons, runQueries, Option.some.injEq] at h
    subst h
    cases deep with
    | false => exact cut_sublist (cut_matchLv _ _ _ hcut)
    | true =>
      cases qs with
      | nil =>
        simp only [List.map_nil, matchLv, if_true]
        exact List.filter_sublist.trans (cut_flatten_sublist hcut)
      | cons q' qs' =>
        have hc := cut_filter_flatten (q.eval ρ) hcut (hn rfl q q' qs' rfl)
        simp only [List.map_cons, matchLv, if_true]
        split
        · exact cut_sublist hc
        · exact cut_sublist (cut_matchLv _ _ _ (cut_kids hc))

/-- the plain case: queries started at a list of sibling / unrelated nodes -/
theorem select_document_order_plain (ρ : Env) (nodes : List Node) (qs : List Query) (deep : Bool)
    (res : List Node) (h : selectNodes ρ qs nodes deep = some res)
    (hn : deep = true → ∀ q q' qs', qs = q :: q' :: qs' → NoNest (q.eval ρ) nodes) :
    res.Sublist (flatten nodes) :=
  select_document_order_partial ρ nodes nodes qs deep res (cut_self nodes) h hn

/-! the witness tree of the known findings (`wTop` = A1[A2[B2], B1] below a document top, `qA`, `qB`,
`wEnv`) is defined in IV/Lemmas/Query.lean -/

/-- KNOWN FINDING deep-nested-order: `top.find("A", "B")` returns B1 (at 0.0.1) before B2 (at 0.0.0.0) -/
theorem order_witness_ids : entryFind wEnv (top 0 wTop) [qA, qB] false = some [[0, 0, 1], [0, 0, 0, 0]] := by decide

theorem order_witness : ¬ DocumentOrder := by
  intro h
  have hs := h wEnv [qA, qB] (top 0 wTop).kids true _ rfl
  exact absurd (hs.map Node.path) (by decide)

/-- the hypothesis of the partial theorem is what fails on the witness -/
example : ¬ NoNest (qA.eval wEnv) (top 0 wTop).kids := by
  intro h
  have e2 : flatten (⟨[wTop], wA1, [0, 0]⟩ : Node).kids =
      [⟨[wA1, wTop], wA2, [0, 0, 0]⟩, ⟨[wA2, wA1, wTop], wB2, [0, 0, 0, 0]⟩, ⟨[wA1, wTop], wB1, [0, 0, 1]⟩] := rfl
  have := h ⟨[wTop], wA1, [0, 0]⟩ (by rw [wFlat]; simp) (by decide) ⟨[wA1, wTop], wA2, [0, 0, 0]⟩ (by rw [e2]; simp)
  revert this; decide

/-- non-vacuity of the partial theorem: a two-level deep query on the same tree whose first level does not nest -/
example : NoNest (qB.eval wEnv) (top 0 wTop).kids := by
  intro n hn hq m hm
  rw [wFlat] at hn
  simp only [List.mem_cons, List.not_mem_nil, or_false] at hn
  rcases hn with rfl | rfl | rfl | rfl
  · exact absurd hq (by decide)
  · exact absurd hq (by decide)
  · have e : flatten (⟨[wA2, wA1, wTop], wB2, [0, 0, 0, 0]⟩ : Node).kids = [] := rfl
    rw [e] at hm; cases hm
  · have e : flatten (⟨[wA1, wTop], wB1, [0, 0, 1]⟩ : Node).kids = [] := rfl
    rw [e] at hm; cases hm

/-- FULL statement for chained queries (false, see `nested_result_duplicates_witness`): a query on the
result of a deep query is again in document order, without duplicates -/
def ChainedDocumentOrder : Prop :=
  ∀ (ρ : Env) (e : Node) (q1 : Query) (qs : List Query) (deep : Bool) (r1 r2 : List Node),
    selectNodes ρ [q1] e.kids true = some r1 →
    selectNodes ρ qs (grandchildren r1) deep = some r2 → r2.Sublist (flatten e.kids)

/-- KNOWN FINDING nested-result-duplicates: `top.find("A").find("B")` returns B2, B1, B2 -/
theorem nested_result_duplicates_ids :
    (selectNodes wEnv [qA] (top 0 wTop).kids true).bind (fun r1 => resultFind wEnv r1 [qB] false)
      = some [[0, 0, 0, 0], [0, 0, 1], [0, 0, 0, 0]] := by decide

theorem nested_result_duplicates_witness : ¬ ChainedDocumentOrder := by
  intro h
  have hs := h wEnv (top 0 wTop) qA [qB] true _ _ rfl rfl
  exact absurd (hs.map Node.path) (by decide)

/-- PARTIAL: chained queries are in document order when the first result does not nest -/
theorem chained_document_order_partial (ρ : Env) (e : Node) (q1 : Query) (qs : List Query) (deep : Bool)
    (r1 r2 : List Node) (h1 : selectNodes ρ [q1] e.kids true = some r1)
    (h2 : selectNodes ρ qs (grandchildren r1) deep = some r2)
    (hn1 : NoNest (q1.eval ρ) e.kids)
    (hn : deep = true → ∀ q q' qs', qs = q :: q' :: qs' → NoNest (q.eval ρ) (grandchildren r1)) :
    r2.Sublist (flatten e.kids) := by
  have hr1 : r1 = (flatten e.kids).filter (q1.eval ρ) := by
    simp only [selectNodes, runQueries, List.map_cons, List.map_nil, matchLv, if_true, Option.some.injEq] at h1
    exact h1.symm
  have hc : Cut e.kids (grandchildren r1) := by
    rw [hr1]; exact cut_kids (cut_of_noNest _ _ hn1)
  exact select_document_order_partial ρ e.kids (grandchildren r1) qs deep r2 hc h2 hn

/-! ## 3. roots, parents, upto: de-duplication by identity

An entry is an object; its identity in the model is `Node.path` (where it is), never its content
(`Node.tree`: name, attributes, children).  Two entries with identical content — the same manifest
loaded twice, a repeated section — are two nodes. -/

/-- with `roots` (and for `Result.roots`) the loop over the results yields, for every result, its
furthest ancestor (`Entry.root`) or the node itself when it has no parent, de-duplicated BY IDENTITY
in first-occurrence order -/
theorem roots_exact (res : List Node) : rootsOf res = firstOcc Node.path (res.map Node.rootNode) := by
  simp only [rootsOf, dedupLoop_nil]

theorem select_roots_exact (ρ : Env) (qs : List Query) (nodes : List Node) (deep : Bool) :
    select ρ qs nodes deep true =
      (selectNodes ρ qs nodes deep).map (fun res => (firstOcc Node.path (res.map Node.rootNode)).map Node.path) := by
  simp [select, roots_exact]

/-- … which means: no identity twice, every result's root present, nothing else, in the order of
the first result that has the root -/
theorem roots_spec (res : List Node) :
    ((rootsOf res).map Node.path).Nodup ∧
    (∀ n ∈ res, n.rootPath ∈ (rootsOf res).map Node.path) ∧
    (rootsOf res).Sublist (res.map Node.rootNode) := by
  rw [roots_exact]
  refine ⟨firstOcc_nodup _ _, ?_, firstOcc_sublist _ _⟩
  intro n hn
  obtain ⟨y, hy, hk⟩ := firstOcc_covers Node.path (res.map Node.rootNode) n.rootNode (List.mem_map_of_mem hn)
  exact List.mem_map.mpr ⟨y, hy, hk⟩

/-- the de-duplication is by identity, not by content: every root identity among the results is
reported exactly once — so results whose roots are DIFFERENT entries get different roots in the
answer even when those roots have identical content, and the number of roots is the number of
distinct root identities, whatever the content -/
theorem roots_dedup_by_identity (res : List Node) :
    (∀ n ∈ res, ((rootsOf res).map Node.path).count n.rootPath = 1) ∧
    (∀ n ∈ res, ∀ m ∈ res, n.rootPath ≠ m.rootPath →
        ∃ r ∈ rootsOf res, ∃ r' ∈ rootsOf res, r.path = n.rootPath ∧ r'.path = m.rootPath ∧ r.path ≠ r'.path) := by
  obtain ⟨hnd, hcov, _⟩ := roots_spec res
  refine ⟨?_, ?_⟩
  · intro n hn
    rw [List.Nodup.count hnd, if_pos (hcov n hn)]
  · intro n hn m hm hne
    obtain ⟨r, hr, hrp⟩ := List.mem_map.mp (hcov n hn)
    obtain ⟨r', hr', hrp'⟩ := List.mem_map.mp (hcov m hm)
    exact ⟨r, hr, r', hr', hrp, hrp', by rw [hrp, hrp']; exact hne⟩

/-- two documents with IDENTICAL content, one hit in each: two roots (a content-keyed `seen` set would give one) -/
example :
    let d : Tree := .node .none [] [.node (.str ['a']) [.int 1] []]
    select wEnv [.name (.lit (.str ['a']))] (grandchildren (tops [d, d])) false true = some [[0], [1]] ∧
    select wEnv [.name (.lit (.str ['a']))] (grandchildren (tops [d, d])) false false = some [[0, 0], [1, 0]] ∧
    select wEnv [.name (.lit (.str ['a']))] (tops [.node (.str ['a']) [] [], .node (.str ['a']) [] []]) false true
      = some [[0], [1]] := by decide

/-- `Result.parents` and `Result.upto(q)`: the parents (or the node itself when parentless) / the first
ancestors satisfying `q`, de-duplicated by identity in first-occurrence order -/
theorem parents_upto_exact (q : Node → Bool) (children : List Node) :
    parentsOf children = firstOcc Node.path (children.map Node.parentOrSelf) ∧
    uptoOf q children = firstOcc Node.path (children.filterMap (Node.upto q)) ∧
    ((parentsOf children).map Node.path).Nodup ∧ ((uptoOf q children).map Node.path).Nodup := by
  refine ⟨by simp only [parentsOf, dedupLoop_nil], by simp only [uptoOf, dedupLoop_nil], ?_, ?_⟩
  · simp only [parentsOf, dedupLoop_nil]; exact firstOcc_nodup _ _
  · simp only [uptoOf, dedupLoop_nil]; exact firstOcc_nodup _ _

/-- the parent of a child is the entry it is a child of — same content, same identity -/
theorem parentOrSelf_kids {n c : Node} (h : c ∈ n.kids) : c.parentOrSelf = n := by
  obtain ⟨ha, j, hp⟩ := mem_kidsFrom h
  obtain ⟨anc, t, path⟩ := n
  simp only [Node.parentOrSelf, ha, hp, List.dropLast_concat]

/-- two identical sibling sections with one hit each have two parents -/
example :
    let s : Tree := .node (.str ['s']) [] [.node (.str ['a']) [] []]
    (parentsOf ((top 0 (.node .none [] [s, s])).kids.flatMap Node.kids)).map Node.path = [[0, 0], [0, 1]] := by decide

/-- FULL statement (true since fix 9796838; it was false before: a parentless result gave `None`):
every root returned is an Entry, namely the furthest ancestor of one of the results, or that
result itself when it has no parent -/
def RootsAreNodes : Prop :=
  ∀ (res : List Node), ∀ r ∈ rootsOf res, ∃ n ∈ res,
    (n.anc = [] → r.tree = n.tree ∧ r.path = n.path) ∧ (∀ a, n.anc.getLast? = some a → r.tree = a)

theorem roots_are_nodes : RootsAreNodes := by
  intro res r hr
  have hsub := (roots_spec res).2.2.subset hr
  obtain ⟨n, hn, rfl⟩ := List.mem_map.mp hsub
  refine ⟨n, hn, ?_, ?_⟩
  · intro ha; simp [Node.rootNode, Node.rootOrSelf, Node.rootPath, Node.root, ha]
  · intro a ha; simp [Node.rootNode, Node.rootOrSelf, Node.root, ha]

/-- regression of fix 9796838: `select(compile_queries("a"), [Entry("a")], roots=True)` returns the entry itself -/
theorem roots_parentless_regression :
    select wEnv [.name (.lit (.str ['a']))] [top 0 (.node (.str ['a']) [] [])] false true = some [[0]] := by decide

/-- the root of every returned node is the root of the start node it was reached from: whatever
holds of the roots (or selves) of all start nodes holds of the roots of all results -/
theorem roots_ultimate (ρ : Env) (R : Node → Prop) (qs : List Query) (nodes : List Node) (deep : Bool)
    (res : List Node) (hR : ∀ s ∈ nodes, R s.rootNode) (h : selectNodes ρ qs nodes deep = some res) :
    ∀ m ∈ res, R m.rootNode := by
  cases qs with
  | nil => cases h
  | cons q qs =>
    intro m hm
    have hc := (select_mem_iff ρ q qs nodes deep res h m).mp hm
    refine rooted_chain R hc ?_
    cases deep
    · exact hR
    · exact rooted_flatten R nodes hR

/-- `e.select(..., roots=True)` / `e.find(..., roots=True)`: every result has the root of `e`
(`e` itself when `e` is a document top) — content and identity — so the answer is empty or that single root -/
theorem entry_roots (ρ : Env) (e : Node) (qs : List Query) (deep : Bool) (res : List Node)
    (h : selectNodes ρ qs e.kids deep = some res) : ∀ m ∈ res, m.rootNode = e.rootNode :=
  roots_ultimate ρ (fun r => r = e.rootNode) qs e.kids deep res (fun _ hs => rootNode_kids hs) h

example : (top 0 wTop).rootNode = top 0 wTop ∧ selectNodes wEnv [qB] (top 0 wTop).kids true ≠ some [] := by
  refine ⟨rfl, ?_⟩
  intro h
  have := congrArg (Option.map (List.map Node.path)) h
  revert this; decide

/-! ## 4. find, __getitem__ -/

/-- `find` is `select` with `deep=True` (Entry and Result) -/
theorem find_eq_select_deep (ρ : Env) (e : Node) (children : List Node) (qs : List Query) (roots : Bool) :
    entryFind ρ e qs roots = entrySelect ρ e qs true roots ∧
    resultFind ρ children qs roots = resultSelect ρ children qs true roots := ⟨rfl, rfl⟩

/-- `entry[q]` is the one-level, non-deep select -/
theorem getitem_eq_select (ρ : Env) (e : Node) (q : Query) :
    entrySelect ρ e [q] false false = some ((entryGetitem ρ e q).map Node.path) := by
  simp [entrySelect, select, selectNodes, runQueries, matchLv, entryGetitem]

/-- `result[q]` is the one-level, non-deep select over the grandchildren -/
theorem result_getitem_eq_select (ρ : Env) (children : List Node) (q : Query) :
    resultSelect ρ children [q] false false = some ((resultGetitem ρ children q).map Node.path) := by
  simp [resultSelect, select, selectNodes, runQueries, matchLv, resultGetitem]

/-- a tuple query: the name matches and (no attribute query, or some attribute satisfies some of them) -/
theorem tuple_query_iff (ρ : Env) (n : NameQ) (as : List AttrQ) (e : Node) :
    (Query.tuple n as).eval ρ e = true ↔
      n.eval ρ e.name = true ∧ (as = [] ∨ ∃ v ∈ e.attrs, ∃ a ∈ as, a.eval ρ v = true) := by
  simp [Query.eval, attrsMatch, List.isEmpty_iff]

/-! ## 5. interpreted and compiled predicates -/

/-- whenever the compiled body returns (no evaluated predicate raises), the interpreted form has the same value -/
theorem evalC_ret_interp (ρ : Env) (b : BExp) (v : Val) : ∀ r, b.evalC ρ v = .ret r → b.interp ρ v = r := by
  induction b with
  | tt => intro r h; simp [BExp.evalC] at h; simp [BExp.interp, h]
  | ff => intro r h; simp [BExp.evalC] at h; simp [BExp.interp, h]
  | prim op arg => intro r h; simp [BExp.evalC] at h; simp [BExp.interp, h]
  | primI op arg => intro r h; simp [BExp.evalC] at h; simp [BExp.interp, h]
  | opq k c => intro r h; simp [BExp.evalC] at h; simp [BExp.interp, h]
  | and a b iha ihb =>
    intro r h
    simp only [BExp.evalC] at h
    cases ha : a.evalC ρ v with
    | raise => rw [ha] at h; cases h
    | ret x =>
      rw [ha] at h
      cases x with
      | true => simp only at h; simp [BExp.interp, iha _ ha, ihb _ h]
      | false => simp only at h; cases h; simp [BExp.interp, iha _ ha]
  | or a b iha ihb =>
    intro r h
    simp only [BExp.evalC] at h
    cases ha : a.evalC ρ v with
    | raise => rw [ha] at h; cases h
    | ret x =>
      rw [ha] at h
      cases x with
      | false => simp only at h; simp [BExp.interp, iha _ ha, ihb _ h]
      | true => simp only at h; cases h; simp [BExp.interp, iha _ ha]
  | not a iha =>
    intro r h
    simp only [BExp.evalC] at h
    cases ha : a.evalC ρ v with
    | raise => rw [ha] at h; cases h
    | ret x => rw [ha] at h; simp only at h; cases h; simp [BExp.interp, iha _ ha]

/-- if no predicate of the expression raises on `v`, the compiled body returns -/
theorem nonRaising_evalC (ρ : Env) (b : BExp) (v : Val) : b.nonRaising ρ v = true → ∃ r, b.evalC ρ v = .ret r := by
  induction b with
  | tt => intro _; exact ⟨true, rfl⟩
  | ff => intro _; exact ⟨false, rfl⟩
  | prim op arg =>
    intro h; simp only [BExp.nonRaising] at h; simp only [BExp.evalC]
    cases hl : leafOut ρ (.prim op arg) v with
    | ret x => exact ⟨x, rfl⟩
    | raise => simp [hl] at h
  | primI op arg =>
    intro h; simp only [BExp.nonRaising] at h; simp only [BExp.evalC]
    cases hl : leafOut ρ (.primI op arg) v with
    | ret x => exact ⟨x, rfl⟩
    | raise => simp [hl] at h
  | opq k c =>
    intro h; simp only [BExp.nonRaising] at h; simp only [BExp.evalC]
    cases hl : leafOut ρ (.opq k c) v with
    | ret x => exact ⟨x, rfl⟩
    | raise => simp [hl] at h
  | and a b iha ihb =>
    intro h
    simp only [BExp.nonRaising, Bool.and_eq_true] at h
    obtain ⟨x, hx⟩ := iha h.1
    obtain ⟨y, hy⟩ := ihb h.2
    simp only [BExp.evalC, hx]
    cases x
    · exact ⟨false, rfl⟩
    · exact ⟨y, hy⟩
  | or a b iha ihb =>
    intro h
    simp only [BExp.nonRaising, Bool.and_eq_true] at h
    obtain ⟨x, hx⟩ := iha h.1
    obtain ⟨y, hy⟩ := ihb h.2
    simp only [BExp.evalC, hx]
    cases x
    · exact ⟨y, hy⟩
    · exact ⟨true, rfl⟩
  | not a iha =>
    intro h
    simp only [BExp.nonRaising] at h
    obtain ⟨x, hx⟩ := iha h
    exact ⟨!x, by simp [BExp.evalC, hx]⟩

/-- boolean combinations of non-raising predicates (incl. the caseless ones, on values of any type)
have the same truth value interpreted and compiled -/
theorem compiled_eq_interp (ρ : Env) (b : BExp) (v : Val) (h : b.nonRaising ρ v = true) :
    b.compiled ρ v = b.interp ρ v := by
  obtain ⟨r, hr⟩ := nonRaising_evalC ρ b v h
  simp [BExp.compiled, hr, evalC_ret_interp ρ b v r hr]

/-- stronger: it suffices that no predicate the compiled form actually evaluates raises -/
theorem compiled_eq_interp_of_returns (ρ : Env) (b : BExp) (v : Val) (h : b.evalC ρ v ≠ .raise) :
    b.compiled ρ v = b.interp ρ v := by
  cases hr : b.evalC ρ v with
  | raise => exact absurd hr h
  | ret r => simp [BExp.compiled, hr, evalC_ret_interp ρ b v r hr]

/-- the case-insensitive variants apply ONE lower-casing function — `ρ.lower`, whatever it is: Unicode
lower-casing is a parameter, not modelled — to the tested string and to the stored argument, and pass
non-strings through unchanged, in BOTH forms (`leafOut` is shared by `interp` and `evalC`) — so `ieq` never raises -/
theorem caseless_semantics (ρ : Env) (op : Op) (arg : Str) :
    (∀ s, leafOut ρ (.primI op arg) (.str s) = primEval op (.str (ρ.lower s)) (.str (ρ.lower arg))) ∧
    (∀ i, leafOut ρ (.primI op arg) (.int i) = primEval op (.int i) (.str (ρ.lower arg))) ∧
    leafOut ρ (.primI op arg) .none = primEval op .none (.str (ρ.lower arg)) ∧
    (∀ v, (BExp.primI .eq arg).nonRaising ρ v = true) ∧
    (∀ s, (BExp.primI .eq arg).compiled ρ (.str s) = decide (ρ.lower s = ρ.lower arg)) := by
  refine ⟨fun _ => rfl, fun _ => rfl, rfl, ?_, ?_⟩
  · intro v; cases v <;> simp [BExp.nonRaising, leafOut, lowerVal, primEval]
  · intro s; simp [BExp.compiled, BExp.evalC, leafOut, lowerVal, primEval]

/-- regression of fix e053fd8: `~ieq("a")` on the int 5 is True in both forms -/
example : (BExp.not (.primI .eq ['a'])).interp wEnv (.int 5) = true ∧
    (BExp.not (.primI .eq ['a'])).compiled wEnv (.int 5) = true := by decide

example : (BExp.and (.prim .startswith (.str ['/'])) (.not (.primI .contains ['W']))).nonRaising wEnv (.str ['/', 'w']) = true := by decide

/-- a compiled expression in which an evaluated predicate raises is False -/
theorem raising_is_false (ρ : Env) (b : BExp) (v : Val) (h : b.evalC ρ v = .raise) : b.compiled ρ v = false := by
  simp [BExp.compiled, h]

def BExp.isLeaf : BExp → Bool
  | .prim _ _ => true | .primI _ _ => true | .opq _ _ => true | _ => false

/-- the raise reaches the single try/except from below any `not`, from the left of any `and`/`or`,
and from the right of those that do not short-circuit -/
theorem raise_propagates (ρ : Env) (p : BExp) (v : Val) (h : p.evalC ρ v = .raise) (c : BExp) :
    (BExp.not p).compiled ρ v = false ∧ (BExp.and p c).compiled ρ v = false ∧ (BExp.or p c).compiled ρ v = false ∧
    (c.evalC ρ v = .ret true → (BExp.and c p).compiled ρ v = false) ∧
    (c.evalC ρ v = .ret false → (BExp.or c p).compiled ρ v = false) := by
  refine ⟨?_, ?_, ?_, ?_, ?_⟩
  · simp [BExp.compiled, BExp.evalC, h]
  · simp [BExp.compiled, BExp.evalC, h]
  · simp [BExp.compiled, BExp.evalC, h]
  · intro hc; simp [BExp.compiled, BExp.evalC, h, hc]
  · intro hc; simp [BExp.compiled, BExp.evalC, h, hc]

/-- what the INTERPRETED form does instead: each Predicate swallows its own exception, so a raising
predicate is False, its negation is True, and `raising | x` is `x` — the two forms differ exactly
on expressions in which an evaluated predicate raises (the property claims agreement only for
non-raising predicates) -/
theorem interp_of_raising (ρ : Env) (p : BExp) (v : Val) (hp : p.isLeaf = true) (h : leafOut ρ p v = .raise) (c : BExp) :
    p.interp ρ v = false ∧ (BExp.not p).interp ρ v = true ∧ (BExp.not p).compiled ρ v = false ∧
    (BExp.or p c).interp ρ v = c.interp ρ v := by
  cases p <;> simp [BExp.isLeaf] at hp <;> simp [BExp.interp, BExp.compiled, BExp.evalC, h]

example : leafOut wEnv (.prim .startswith (.str ['x'])) (.int 5) = .raise ∧
    (BExp.prim .startswith (.str ['x'])).isLeaf = true := by decide

/-- "a query whose predicate raises counts as not matching":
 * a Boolean in name position that raises on the node's name,
 * a bare callable in name position that raises,
 * a Boolean / callable in attribute position that raises on (or rejects) every attribute,
make the node fail the query level, so it is in no result of that level. -/
theorem raising_not_matching (ρ : Env) (e : Node) :
    (∀ b, b.evalC ρ e.name = .raise → (Query.name (.bexp b)).eval ρ e = false) ∧
    (∀ k, ρ.call k e.name = .raise → (Query.name (.fn k)).eval ρ e = false) ∧
    (∀ n b, (∀ a ∈ e.attrs, b.evalC ρ a = .raise ∨ b.evalC ρ a = .ret false) →
        (Query.tuple n [.bexp b]).eval ρ e = false) ∧
    (∀ n k, (∀ a ∈ e.attrs, ρ.call k a = .raise ∨ ρ.call k a = .ret false) →
        (Query.tuple n [.fn k]).eval ρ e = false) := by
  refine ⟨?_, ?_, ?_, ?_⟩
  · intro b h; simp [Query.eval, NameQ.eval, BExp.compiled, h]
  · intro k h; simp [Query.eval, NameQ.eval, guard, h]
  · intro n b h
    simp only [Query.eval, attrsMatch, List.isEmpty_cons, Bool.false_or, Bool.and_eq_false_iff]
    right
    rw [List.any_eq_false]
    intro a ha
    rcases h a ha with h | h <;> simp [AttrQ.eval, BExp.compiled, h]
  · intro n k h
    simp only [Query.eval, attrsMatch, List.isEmpty_cons, Bool.false_or, Bool.and_eq_false_iff]
    right
    rw [List.any_eq_false]
    intro a ha
    rcases h a ha with h | h <;> simp [AttrQ.eval, guard, h]

example : (BExp.prim .startswith (.str ['x'])).evalC wEnv (Node.name ⟨[], .node (.int 5) [] [], [7]⟩) = .raise := by decide

/-- … and therefore such a node is not returned by the one-level query -/
theorem raising_not_selected (ρ : Env) (b : BExp) (nodes : List Node) (deep : Bool) (res : List Node)
    (h : selectNodes ρ [.name (.bexp b)] nodes deep = some res) :
    ∀ e ∈ res, b.evalC ρ e.name ≠ .raise := by
  intro e he hr
  have := (select_mem_iff ρ _ [] nodes deep res h e).mp he
  cases this with
  | last _ hq => rw [(raising_not_matching ρ e).1 b hr] at hq; cases hq

/-! ## 6. where -/

/-- `result.where(q)` keeps exactly the result's own children that satisfy the entry query, in their order;
`entry.where(q)` is all of the entry's children or nothing -/
theorem where_exact (ρ : Env) (q : EQ) (children : List Node) (e : Node) :
    (∀ n, n ∈ resultWhere ρ children q ↔ n ∈ children ∧ q.eval ρ n = true) ∧
    (resultWhere ρ children q).Sublist children ∧
    (q.eval ρ e = true → entryWhere ρ e q = e.kids) ∧ (q.eval ρ e = false → entryWhere ρ e q = []) := by
  refine ⟨fun n => by simp [resultWhere], List.filter_sublist, ?_, ?_⟩
  · intro h; simp [entryWhere, h]
  · intro h; simp [entryWhere, h]

/-! ## 7. combinations are values

Building `b & c`, `c | b`, `~b`, `(b & c) & d`, … from a combination `b` that was built before
yields a NEW combination and leaves `b` — and every other earlier combination — what it was.
In the model this is immediate (the environment only grows); the weight of this clause is on
the correspondence, where the harness re-evaluates every binding of a program after every later
binding was made. -/

theorem letB_appends (env : List BExp) (t : BTerm) (env' : List BExp) (h : letB env t = some env') :
    ∃ b, t.resolve env = some b ∧ env' = env ++ [b] := by
  simp only [letB, Option.map_eq_some_iff] at h
  obtain ⟨b, hb, rfl⟩ := h
  exact ⟨b, hb, rfl⟩

/-- whatever is built later, the i-th combination stays the same value (hence the same truth table,
interpreted and compiled, and the same query results) -/
theorem binding_is_value (ts : List BTerm) : ∀ (env env' : List BExp), runLets env ts = some env' →
    ∀ (i : Nat) (b : BExp), env[i]? = some b → env'[i]? = some b := by
  induction ts with
  | nil => intro env env' h i b hi; simp only [runLets, Option.some.injEq] at h; subst h; exact hi
  | cons t ts ih =>
    intro env env' h i b hi
    simp only [runLets, Option.bind_eq_some_iff] at h
    obtain ⟨env1, h1, h2⟩ := h
    obtain ⟨x, _, rfl⟩ := letB_appends env t env1 h1
    refine ih _ _ h2 i b ?_
    have hlt : i < env.length := by
      rcases Nat.lt_or_ge i env.length with h | h
      · exact h
      · rw [List.getElem?_eq_none h] at hi; cases hi
    rw [List.getElem?_append_left hlt]; exact hi

/-- a derived combination means the combination of what its operands mean, whichever side the
existing combination is used on -/
theorem derived_meaning (env : List BExp) (i j : Nat) (bi bj : BExp)
    (hi : env[i]? = some bi) (hj : env[j]? = some bj) (ρ : Env) (v : Val) :
    (BTerm.and (.ref i) (.ref j)).resolve env = some (.and bi bj) ∧
    (BTerm.or (.ref i) (.ref j)).resolve env = some (.or bi bj) ∧
    (BTerm.not (.ref i)).resolve env = some (.not bi) ∧
    (BExp.and bi bj).interp ρ v = (bi.interp ρ v && bj.interp ρ v) ∧
    (BExp.or bi bj).interp ρ v = (bi.interp ρ v || bj.interp ρ v) ∧
    (BExp.not bi).interp ρ v = !bi.interp ρ v := by
  simp [BTerm.resolve, hi, hj, BExp.interp]

example : runLets [] [.prim .eq (.str ['a']), .not (.ref 0), .and (.ref 0) (.ref 1), .or (.ref 2) (.ref 0)]
    = some [.prim .eq (.str ['a']), .not (.prim .eq (.str ['a'])),
            .and (.prim .eq (.str ['a'])) (.not (.prim .eq (.str ['a']))),
            .or (.and (.prim .eq (.str ['a'])) (.not (.prim .eq (.str ['a'])))) (.prim .eq (.str ['a']))] := by rfl

/-! ## 8. plain callables are partial functions: raising = no match, on every path

A name / attribute query, the argument of `upto` or of `where` may be a plain Python callable.  Whatever it
raises for a node (the model's `Out.raise` carries no exception class: no path can depend on it), the
node does not match and nothing escapes.  `ρ.call k` is arbitrary in all theorems. -/

/-- a callable in name or attribute position matches a value iff the call RETURNS something true -/
theorem callable_matches_iff (ρ : Env) (k : Nat) (v : Val) :
    ((NameQ.fn k).eval ρ v = true ↔ ρ.call k v = .ret true) ∧
    ((AttrQ.fn k).eval ρ v = true ↔ ρ.call k v = .ret true) := by
  constructor <;> (simp only [NameQ.eval, AttrQ.eval, guard]; cases h : ρ.call k v <;> simp)

example : (NameQ.fn 100).eval ⟨natCall ∘ (· - 100), id⟩ (.str []) = false ∧
    (NameQ.fn 100).eval ⟨natCall ∘ (· - 100), id⟩ (.str ['L']) = true := by decide

/-- whatever the levels and options: every returned node satisfies the last level's query -/
theorem selected_satisfies_last (ρ : Env) (qs : List Query) (nodes : List Node) (deep : Bool) (res : List Node)
    (h : selectNodes ρ qs nodes deep = some res) (q : Query) (hq : qs.getLast? = some q) :
    ∀ e ∈ res, q.eval ρ e = true := by
  intro e he
  cases qs with
  | nil => cases h
  | cons q0 qs =>
    have hc := (select_mem_iff ρ q0 qs nodes deep res h e).mp he
    have hl : ((q0 :: qs).map (Query.eval ρ)).getLast? = some (q.eval ρ) := by
      rw [List.getLast?_map, hq]; rfl
    exact hc.last_holds _ hl

/-- a node for whose name the callable of the last level raises (or returns something false) is not
returned by select / find, at any number of levels, deep or not, bare or in a tuple; in attribute position
some attribute of a returned node made the callable return true -/
theorem raising_callable_not_selected (ρ : Env) (qs : List Query) (nodes : List Node) (deep : Bool) (res : List Node)
    (k : Nat) (as : List AttrQ) :
    (selectNodes ρ (qs ++ [.name (.fn k)]) nodes deep = some res → ∀ e ∈ res, ρ.call k e.name = .ret true) ∧
    (selectNodes ρ (qs ++ [.tuple (.fn k) as]) nodes deep = some res → ∀ e ∈ res, ρ.call k e.name = .ret true) ∧
    (∀ n, selectNodes ρ (qs ++ [.tuple n [.fn k]]) nodes deep = some res →
        ∀ e ∈ res, ∃ a ∈ e.attrs, ρ.call k a = .ret true) := by
  refine ⟨?_, ?_, ?_⟩
  · intro h e he
    have := selected_satisfies_last ρ _ nodes deep res h (.name (.fn k)) (by simp) e he
    exact (callable_matches_iff ρ k e.name).1.mp (by simpa [Query.eval] using this)
  · intro h e he
    have := selected_satisfies_last ρ _ nodes deep res h (.tuple (.fn k) as) (by simp) e he
    simp only [Query.eval, Bool.and_eq_true] at this
    exact (callable_matches_iff ρ k e.name).1.mp this.1
  · intro n h e he
    have := selected_satisfies_last ρ _ nodes deep res h (.tuple n [.fn k]) (by simp) e he
    simp only [Query.eval, attrsMatch, List.isEmpty_cons, Bool.false_or, Bool.and_eq_true, List.any_eq_true,
      List.mem_cons, List.not_mem_nil, or_false, exists_eq_left] at this
    obtain ⟨_, a, ha, hm⟩ := this
    exact ⟨a, ha, (callable_matches_iff ρ k a).2.mp hm⟩

/-- the demo of the round-9 change: names '' (IndexError), 0 and 5 (TypeError) under `'A' <= n[0] <= 'Z'`,
and 0 (ZeroDivisionError) / strs (TypeError) under `10 % n == 0`: only the nodes on which the call returns
true come back, in document order -/
example :
    let ρ : Env := ⟨fun k v => natCall (k - 100) v, id⟩
    let doc := Tree.node .none [] [.node (.str ['L']) [] [.node (.str []) [] [], .node (.str ['A']) [] []],
      .node (.str []) [] [], .node (.int 0) [] [], .node (.int 5) [] [], .node (.str ['A']) [] []]
    entryFind ρ (top 0 doc) [.name (.fn 100)] false = some [[0, 0], [0, 0, 1], [0, 4]] ∧
    entrySelect ρ (top 0 doc) [.name (.fn 102)] false false = some [[0, 3]] := by decide

/-- the same for the entry queries built from a callable: any_(f), all_(f), child_query(f) -/
theorem raising_callable_entry_queries (ρ : Env) (k : Nat) (e : Node) :
    ((∀ a ∈ e.attrs, ρ.call k a ≠ .ret true) → (EQ.anyAttr (.fn k)).eval ρ e = false) ∧
    ((∃ a ∈ e.attrs, ρ.call k a ≠ .ret true) → (EQ.allAttr (.fn k)).eval ρ e = false) ∧
    ((∀ c ∈ e.kids, ρ.call k c.name ≠ .ret true) → (EQ.child (.fn k) none).eval ρ e = false) := by
  refine ⟨?_, ?_, ?_⟩
  · intro h
    simp only [EQ.eval, List.any_eq_false]
    intro a ha hm
    exact h a ha ((callable_matches_iff ρ k a).2.mp hm)
  · intro ⟨a, ha, hn⟩
    simp only [EQ.eval, List.all_eq_false]
    exact ⟨a, ha, fun hm => hn ((callable_matches_iff ρ k a).2.mp hm)⟩
  · intro h
    simp only [EQ.eval, List.any_eq_false]
    intro c hc hm
    exact h c hc ((callable_matches_iff ρ k c.name).1.mp hm)

example : (EQ.allAttr (.fn 102)).eval ⟨fun k v => natCall (k - 100) v, id⟩ ⟨[], .node .none [.int 5, .int 0] [], [0]⟩ = false := by
  decide

/-- `Entry.upto(f)` / `Result.upto(f)`: the ancestor returned made the callable return true, and every nearer
ancestor made it return false or raise -/
theorem upto_callable (ρ : Env) (k : Nat) (n a : Node) (h : n.upto (Query.eval ρ (.name (.fn k))) = some a) :
    ρ.call k a.name = .ret true ∧
    ∃ nearer further, n.ancestors = nearer ++ a :: further ∧ ∀ b ∈ nearer, ρ.call k b.name ≠ .ret true := by
  simp only [Node.upto, List.find?_eq_some_iff_append] at h
  obtain ⟨hm, as, bs, hab, hn⟩ := h
  refine ⟨(callable_matches_iff ρ k a.name).1.mp (by simpa [Query.eval] using hm), as, bs, hab, ?_⟩
  intro b hb hr
  have := hn b hb
  simp [Query.eval, (callable_matches_iff ρ k b.name).1.mpr hr] at this

example : (Node.mk [.node (.str []) [] [], .node (.str ['A']) [] []] (.node .none [] []) [0, 0, 0]).upto
    (Query.eval ⟨fun k v => natCall (k - 100) v, id⟩ (.name (.fn 100))) = some ⟨[], .node (.str ['A']) [] [], [0]⟩ := by rfl

/-- `where(f)` with a plain callable (called on the entry itself): a Result keeps exactly its own children on
which `f` returns something true, in their order; an Entry gives all its children or nothing; a raise
counts as false -/
theorem where_callable_exact (f : Node → Out) (children : List Node) (e : Node) :
    (∀ n, n ∈ resultWhereFn f children ↔ n ∈ children ∧ f n = .ret true) ∧
    (resultWhereFn f children).Sublist children ∧
    (f e = .ret true → entryWhereFn f e = e.kids) ∧ (f e ≠ .ret true → entryWhereFn f e = []) := by
  have hg : ∀ o : Out, guard o = true ↔ o = .ret true := by
    intro o; cases o with
    | ret b => cases b <;> simp [guard]
    | raise => simp [guard]
  refine ⟨fun n => by simp [resultWhereFn, hg], List.filter_sublist, ?_, ?_⟩
  · intro h; simp [entryWhereFn, h, guard]
  · intro h
    have : guard (f e) = false := by
      cases hgv : guard (f e)
      · rfl
      · exact absurd ((hg _).mp hgv) h
    simp [entryWhereFn, this]

example : resultWhereFn (natCallE 0) [⟨[], .node .none [] [], [0]⟩, ⟨[], .node .none [.str ['a']] [], [1]⟩,
    ⟨[], .node .none [.int 3] [], [2]⟩] = [⟨[], .node .none [.str ['a']] [], [1]⟩] := by rfl

/-- each natural predicate of the harness raises somewhere (IndexError, KeyError, ZeroDivisionError, TypeError,
a user-defined class, ValueError, StopIteration, AssertionError, UnicodeEncodeError; on '', None, 0, ints,
non-ASCII) and returns true somewhere, except the one that never raises -/
theorem natural_family_raises :
    natCall 0 (.str []) = .raise ∧ natCall 0 .none = .raise ∧ natCall 0 (.int 5) = .raise ∧
    natCall 1 (.str ['c']) = .raise ∧ natCall 2 (.int 0) = .raise ∧ natCall 2 (.str ['a']) = .raise ∧
    natCall 3 .none = .raise ∧ natCall 4 (.str ['b']) = .raise ∧ natCall 5 (.str ['b']) = .raise ∧
    natCall 6 (.str []) = .raise ∧ natCall 7 (.int 0) = .raise ∧ natCall 9 (.str ['é']) = .raise ∧
    (∀ v, natCall 8 v ≠ .raise) ∧
    natCallE 0 ⟨[], .node .none [] [], [0]⟩ = .raise ∧ natCallE 2 ⟨[], .node .none [] [], [0]⟩ = .raise ∧
    natCallE 3 ⟨[], .node .none [.str ['a']] [], [0]⟩ = .raise ∧ natCallE 4 ⟨[], .node .none [] [], [0]⟩ = .raise := by
  refine ⟨by decide, by decide, by decide, by decide, by decide, by decide, by decide, by decide, by decide,
    by decide, by decide, by decide, ?_, by decide, by decide, by decide, by decide⟩
  intro v; simp [natCall]

example : natCall 0 (.str ['L']) = .ret true ∧ natCall 1 (.str ['a']) = .ret true ∧ natCall 2 (.int 5) = .ret true ∧
    natCall 5 (.str ['b', 'a']) = .ret true ∧ natCall 9 (.str ['x']) = .ret true := by decide

/-! ## 9. the other spellings of a one-level query: `q in x` and `x.<name>` -/

/-- `q in entry` / `q in result` is true iff some child / grandchild satisfies the query; `entry.<name>` and
`result.<name>` are exactly the children / grandchildren whose name is that string, in their order -/
theorem contains_getattr_exact (ρ : Env) (e : Node) (children : List Node) (q : Query) (name : Str) :
    (entryContains ρ e q = true ↔ ∃ c ∈ e.kids, q.eval ρ c = true) ∧
    (resultContains ρ children q = true ↔ ∃ c ∈ grandchildren children, q.eval ρ c = true) ∧
    entryGetattr ρ e name = e.kids.filter (fun c => decide (c.name = .str name)) ∧
    resultGetattr ρ children name = (grandchildren children).filter (fun c => decide (c.name = .str name)) := by
  refine ⟨?_, ?_, rfl, rfl⟩
  · simp [entryContains, entryGetitem, List.filter_eq_nil_iff]
  · simp [resultContains, resultGetitem, List.filter_eq_nil_iff]

example : entryContains wEnv (top 0 wTop) qA = true ∧ entryContains wEnv (top 0 wTop) qB = false ∧
    (entryGetattr wEnv (top 0 wTop) ['A']).map Node.path = [[0, 0]] := by decide

end IV.Query
