import IV.Lemmas.BaseParsers
import IV.Lemmas.BaseParsersExt
import IV.Gen.BadLines
/-!
C14 — base parsers accept well-formed content and reject bad content as documented.

All theorems are about `IV.BaseParsers` (the model of CommandParser / JSONParser / YAMLParser /
TextFileOutput / LogFileOutput in insights/core/__init__.py) for ALL contents, phrase lists, logs, terms and
limits, and for EVERY instantiation of the parameters `lower` (str.lower), `loads` (json.loads / yaml.load),
`stamp` (regular expression + strptime field extraction).  `IV.Gen.BadLines` holds the bad-line lists of the
live class, regenerated on every run.
-/
namespace IV.BaseParsers
open IV.Gen.BadLines

/-! ### CommandParser -/

/-- THE REJECTION RULE, exactly as `validate_lines` + `__init__` implement it.  The content error is raised iff
  * the output is ONE line and its lower-cased text contains a single-line phrase (`bad_single_lines`) or an
    extra phrase, or
  * the output has SEVERAL lines and some lower-cased line contains a multi-line phrase (`bad_lines`) or an
    extra phrase.
`BadOutput lower single multi content` is that disjunction for one pair of lists; the extra phrases are used for
both cases.  Phrases are matched AS GIVEN against the lower-cased line (extra phrases are not lower-cased). -/
theorem command_reject_iff (lower : Str → Str) (single multi extra : List Str) (content : List Line) :
    (∃ f, commandInit lower single multi extra content = .contentError f) ↔
      (BadOutput lower single multi content ∨ BadOutput lower extra extra content) := by
  rw [← cmdValid_false_iff]
  unfold commandInit
  cases cmdValid lower single multi extra content <;> simp

/-- the message of the content error names the first line: the "<no content>" branch is unreachable -/
theorem command_error_names_first_line (lower : Str → Str) (single multi extra : List Str) (content : List Line) (f : Line)
    (h : commandInit lower single multi extra content = .contentError f) : ∃ rest, content = f :: rest := by
  have hb := (command_reject_iff lower single multi extra content).mp ⟨f, h⟩
  have hne : content ≠ [] := by
    rcases hb with hb | hb <;> exact badOutput_nonempty hb
  unfold commandInit at h
  cases content with
  | nil => exact absurd rfl hne
  | cons f' rest =>
    cases hv : cmdValid lower single multi extra (f' :: rest) <;> simp [hv] at h
    exact ⟨rest, by rw [h]⟩

/-- any other output reaches `parse_content` unchanged -/
theorem command_accept_unchanged (lower : Str → Str) (single multi extra : List Str) (content : List Line)
    (h : ¬ (BadOutput lower single multi content ∨ BadOutput lower extra extra content)) :
    commandInit lower single multi extra content = .parsed content := by
  rw [← cmdValid_false_iff] at h
  unfold commandInit
  cases hv : cmdValid lower single multi extra content
  · exact absurd hv h
  · simp


example : commandInit asciiLower badSingleLines badLines [] ["bash: foo: Command Not FOUND".toList]
    = .contentError "bash: foo: Command Not FOUND".toList := by decide
example : commandInit asciiLower badSingleLines badLines [] ["ls: No such file or directory".toList, "x".toList]
    = .parsed ["ls: No such file or directory".toList, "x".toList] := by decide
example : commandInit asciiLower badSingleLines badLines [] ["a".toList, "Missing Dependencies: x".toList]
    = .contentError "a".toList := by decide
example : commandInit asciiLower badSingleLines badLines ["timed out".toList] ["a".toList, "x Timed Out".toList]
    = .contentError "a".toList := by decide
example : commandInit asciiLower badSingleLines badLines ["Error:".toList] ["Error: x".toList]
    = .parsed ["Error: x".toList] := by decide

/-- error phrases are caught in any letter case and at any position of a single-line output: whenever the
line is `pre ++ w ++ post` and `w` lower-cases to a single-line phrase of the LIVE class -/
theorem command_reject_any_case_position (extra : List Str) (pre w post : Str)
    (hw : asciiLower w ∈ badSingleLines) :
    commandInit asciiLower badSingleLines badLines extra [pre ++ w ++ post] = .contentError (pre ++ w ++ post) := by
  have hb : BadOutput asciiLower badSingleLines badLines [pre ++ w ++ post] := by
    left
    refine ⟨_, rfl, asciiLower w, hw, ?_⟩
    rw [asciiLower_append, asciiLower_append]
    exact (contains_iff _ _).mpr ⟨_, _, rfl⟩
  obtain ⟨f, hf⟩ := (command_reject_iff asciiLower badSingleLines badLines extra _).mpr (Or.inl hb)
  obtain ⟨rest, hr⟩ := command_error_names_first_line _ _ _ _ _ _ hf
  simp only [List.cons.injEq] at hr
  rw [hf, ← hr.1]

example : asciiLower "COMMAND not Found".toList ∈ badSingleLines := by decide

/-- the same for multi-line output and the multi-line phrases of the live class -/
theorem command_reject_multiline (extra : List Str) (before after : List Line) (l0 : Line) (pre w post : Str)
    (hw : asciiLower w ∈ badLines) (hlen : (before ++ (pre ++ w ++ post) :: after).length > 1)
    (h0 : (before ++ (pre ++ w ++ post) :: after).head? = some l0) :
    commandInit asciiLower badSingleLines badLines extra (before ++ (pre ++ w ++ post) :: after) = .contentError l0 := by
  have hb : BadOutput asciiLower badSingleLines badLines (before ++ (pre ++ w ++ post) :: after) := by
    right
    refine ⟨hlen, pre ++ w ++ post, by simp, asciiLower w, hw, ?_⟩
    rw [asciiLower_append, asciiLower_append]
    exact (contains_iff _ _).mpr ⟨_, _, rfl⟩
  obtain ⟨f, hf⟩ := (command_reject_iff asciiLower badSingleLines badLines extra _).mpr (Or.inl hb)
  obtain ⟨rest, hr⟩ := command_error_names_first_line _ _ _ _ _ _ hf
  rw [hr] at h0
  simp only [List.head?_cons, Option.some.injEq] at h0
  rw [hf, h0]

example : asciiLower "Missing Dependencies:".toList ∈ badLines := by decide

/-- the class comment "make sure text is all lower case" holds of the live lists (a phrase with an upper-case
letter could never match the lower-cased line) and no phrase is empty (an empty phrase would reject everything) -/
theorem bad_lists_wellformed :
    ∀ p ∈ badSingleLines ++ badLines, asciiLower p = p ∧ p ≠ [] := by decide

/-! ### JSONParser -/

/-- empty content signals a skip -/
theorem json_empty_skip (loads : Str → Except Unit JVal) : jsonParse loads [] = .skip := rfl

/-- noise lines before the document are skipped and kept as `unparsed_lines`: the text from the first line whose
stripped form begins with `{` or `[` is what the library gets.  PARTIAL: holds when no noise line itself begins
with `{` / `[` (`JsonSkipsNonJsonNoise` below is the full statement, false of the code). -/
theorem json_contract_partial (loads : Str → Except Unit JVal) (noise : List Line) (d : Line) (rest : List Line)
    (hn : ∀ l ∈ noise, startsDoc l = false) (hd : startsDoc d = true) :
    jsonParse loads (noise ++ d :: rest) = docOutcome loads (joinNl (d :: rest)) (some noise) := by
  unfold jsonParse jsonStartIdx
  rw [findStart_noise 0 noise d rest hn hd]
  simp

/-- no line begins with `{`/`[`: the whole content is loaded -/
theorem json_contract_nostart (loads : Str → Except Unit JVal) (content : List Line) (hne : content ≠ [])
    (hn : ∀ l ∈ content, startsDoc l = false) :
    jsonParse loads content = docOutcome loads (joinNl content) (some []) := by
  unfold jsonParse jsonStartIdx
  rw [findStart_none 0 content hn]
  cases content with
  | nil => exact absurd rfl hne
  | cons c cs => simp

example : jsonParse (fun _ => .error ()) ["not json".toList, "at all".toList] = .parseError := by decide
example : jsonParse (fun _ => .ok ⟨.null, "null".toList⟩) ["null".toList] = .skip := by decide

/-- every run ends in exactly one of three outcomes — skip, parse error, or an object whose data is what the
library returned for the text from some line on, with the lines before it as `unparsed_lines`; a null document
is a skip; a library failure is a parse error (`docOutcome`).  No other exception type exists in the model; the
harness checks that on the implementation. -/
theorem json_three_outcomes (loads : Str → Except Unit JVal) (content : List Line) :
    jsonParse loads content = .skip ∨ jsonParse loads content = .parseError ∨
    ∃ v i, jsonParse loads content = .data v (some (content.take i)) ∧ loads (joinNl (content.drop i)) = .ok v ∧ v.kind ≠ .null := by
  unfold jsonParse
  split
  · left; rfl
  · simp only [docOutcome]
    cases hv : loads (joinNl (List.drop (jsonStartIdx content) content)) with
    | error e => right; left; rfl
    | ok v =>
      by_cases hk : v.kind = .null
      · left; simp [hk]
      · right; right; exact ⟨v, _, by simp [hk], hv, hk⟩

/-- `docOutcome` spelled out: failure ⇒ parse error, null ⇒ skip, otherwise the value -/
theorem doc_outcome_spec (loads : Str → Except Unit JVal) (text : Str) (u : Option (List Line)) :
    (loads text = .error () → docOutcome loads text u = .parseError) ∧
    (∀ v, loads text = .ok v → v.kind = .null → docOutcome loads text u = .skip) ∧
    (∀ v, loads text = .ok v → v.kind ≠ .null → docOutcome loads text u = .data v u) := by
  refine ⟨fun h => by simp [docOutcome, h], fun v h hk => by simp [docOutcome, h, hk], fun v h hk => by simp [docOutcome, h, hk]⟩

example : jsonParse (fun t => if t = "{\"a\": 1}".toList then .ok ⟨.map, "M".toList⟩ else .error ())
    ["Loading...".toList, "{\"a\": 1}".toList] = .data ⟨.map, "M".toList⟩ (some ["Loading...".toList]) := by decide

/-- FULL STATEMENT of the noise clause ("JSON also when preceded by non-JSON noise lines"): whatever the noise
lines look like, as long as none of them is JSON by itself.  False of the current code (known finding
json-noise-bracket-line): a noise line beginning with `[` or `{` is taken for the start of the document. -/
def JsonSkipsNonJsonNoise : Prop :=
  ∀ (loads : Str → Except Unit JVal) (noise : List Line) (d : Line) (rest : List Line) (v : JVal),
    (∀ l ∈ noise, loads l = .error ()) → startsDoc d = true → loads (joinNl (d :: rest)) = .ok v →
    (v.kind = .map ∨ v.kind = .seq) → jsonParse loads (noise ++ d :: rest) = .data v (some noise)

theorem json_noise_bracket_witness : ¬ JsonSkipsNonJsonNoise := by
  intro h
  have := h (fun t => if t = "{}".toList then .ok ⟨.map, "{}".toList⟩ else .error ())
    ["[INFO] x".toList] "{}".toList [] ⟨.map, "{}".toList⟩ (by simp) (by decide) (by simp [joinNl]) (by decide)
  revert this
  decide

/-- FULL STATEMENT of "a parse error for anything else": data is only ever a mapping or a sequence.  False of
the current code (known finding json-scalar-accepted). -/
def JsonRejectsNonContainer : Prop :=
  ∀ (loads : Str → Except Unit JVal) (content : List Line) (v : JVal) (u : Option (List Line)),
    jsonParse loads content = .data v u → v.kind = .map ∨ v.kind = .seq

theorem json_scalar_witness : ¬ JsonRejectsNonContainer := by
  intro h
  have := h (fun _ => .ok ⟨.scalar, "123".toList⟩) ["123".toList] ⟨.scalar, "123".toList⟩ (some []) (by decide)
  simp at this


/-- what does hold: data is never null -/
theorem json_data_not_null_partial (loads : Str → Except Unit JVal) (content : List Line) (v : JVal) (u : Option (List Line))
    (h : jsonParse loads content = .data v u) : v.kind ≠ .null := by
  rcases json_three_outcomes loads content with h1 | h1 | ⟨v', i, h1, _, hk⟩
  · rw [h1] at h; cases h
  · rw [h1] at h; cases h
  · rw [h1] at h; cases h; exact hk

/-- string content (the `else:` branch): same three outcomes, no `unparsed_lines` -/
theorem json_str_contract (loads : Str → Except Unit JVal) (content : Str) :
    jsonParseStr loads content = if content = [] then .skip else docOutcome loads content none := by
  unfold jsonParseStr
  cases content <;> simp

/-! ### YAMLParser -/

/-- the YAML contract: the lines whose first keyword (after `lstrip().lower()`) starts with an `ignore_lines`
prefix are dropped, the rest is loaded; library failure ⇒ parse error, null ⇒ skip, a mapping or sequence ⇒
data, ANYTHING ELSE (scalars, dates, sets, …) ⇒ parse error -/
theorem yaml_contract (lower : Str → Str) (loads : Str → Except Unit JVal) (ignore : List Str) (content : List Line) :
    yamlParse lower loads ignore content =
      match loads (joinNl (content.filter (fun l => !(yamlIgnored lower ignore l)))) with
      | .error _ => .parseError
      | .ok v => if v.kind = .null then .skip
                 else if v.kind = .map ∨ v.kind = .seq then .data v none else .parseError := by
  cases h : loads (joinNl (content.filter (fun l => !(yamlIgnored lower ignore l)))) with
  | error e => simp [yamlParse, yamlOutcome, h]
  | ok v => obtain ⟨k, r⟩ := v; cases k <;> simp [yamlParse, yamlOutcome, h]

/-- for YAML the full statement holds: data is always a mapping or a sequence -/
theorem yaml_rejects_non_container (lower : Str → Str) (loads : Str → Except Unit JVal) (ignore : List Str)
    (content : List Line) (v : JVal) (u : Option (List Line))
    (h : yamlParse lower loads ignore content = .data v u) : v.kind = .map ∨ v.kind = .seq := by
  rw [yaml_contract] at h
  split at h
  · cases h
  · rename_i w _
    by_cases h1 : w.kind = .null
    · simp [h1] at h
    · by_cases h2 : w.kind = .map ∨ w.kind = .seq
      · simp only [h1, h2, ↓reduceIte, DocOutcome.data.injEq] at h
        rw [← h.1]; exact h2
      · simp [h1, h2] at h

/-- string content (the `else:` branch): the same outcomes on the text as it is; in particular EVERY failure of
the library — `loads` returns `.error` for any exception type (YAMLError, ValueError, AttributeError, KeyError,
RecursionError …) — is a parse error -/
theorem yaml_str_contract (loads : Str → Except Unit JVal) (content : Str) :
    yamlParseStr loads content =
      match loads content with
      | .error _ => .parseError
      | .ok v => if v.kind = .null then .skip
                 else if v.kind = .map ∨ v.kind = .seq then .data v none else .parseError := by
  cases h : loads content with
  | error e => simp [yamlParseStr, yamlOutcome, h]
  | ok v => obtain ⟨k, r⟩ := v; cases k <;> simp [yamlParseStr, yamlOutcome, h]

/-- a library failure of ANY kind is a parse error, for list and for string content -/
theorem yaml_failure_is_parse_error (lower : Str → Str) (loads : Str → Except Unit JVal) (ignore : List Str)
    (content : List Line) (text : Str)
    (h1 : loads (joinNl (content.filter (fun l => !(yamlIgnored lower ignore l)))) = .error ())
    (h2 : loads text = .error ()) :
    yamlParse lower loads ignore content = .parseError ∧ yamlParseStr loads text = .parseError := by
  rw [yaml_contract, yaml_str_contract, h1, h2]
  exact ⟨rfl, rfl⟩

example : yamlParseStr (fun _ => .error ()) "date: 2019-02-30".toList = .parseError := by decide

/-- a blank or whitespace-only line (`not line.strip()`) -/
def isBlank (l : Line) : Bool := l.all isSpace

/-- THE ONLY pre-processing of YAML list content is dropping the lines whose first keyword starts with an
`ignore_lines` prefix.  Every other line reaches the library unchanged and in its original order; in particular
blank and whitespace-only lines — which are CONTENT inside literal / folded block scalars and multi-line quoted
scalars — are never dropped (for non-empty prefixes; `lower "" = ""` holds of `str.lower`), and when no line
matches a prefix the library gets exactly `'\n'.join(content)`. -/
theorem filter_keeps_blank (lower : Str → Str) (hl : lower [] = []) (loads : Str → Except Unit JVal)
    (ignore : List Str) (hi : ∀ p ∈ ignore, p ≠ []) (content : List Line) :
    yamlParse lower loads ignore content =
        yamlOutcome loads (joinNl (content.filter (fun l => !(yamlIgnored lower ignore l)))) ∧
    (content.filter (fun l => !(yamlIgnored lower ignore l))).Sublist content ∧
    (∀ l, l ∈ content.filter (fun l => !(yamlIgnored lower ignore l)) ↔
          l ∈ content ∧ yamlIgnored lower ignore l = false) ∧
    (content.filter (fun l => !(yamlIgnored lower ignore l))).filter isBlank = content.filter isBlank ∧
    ((∀ l ∈ content, yamlIgnored lower ignore l = false) →
      content.filter (fun l => !(yamlIgnored lower ignore l)) = content) := by
  have hblank : ∀ l : Line, isBlank l = true → yamlIgnored lower ignore l = false := by
    intro l hb
    have hs : lstrip l = [] := by
      induction l with
      | nil => rfl
      | cons c cs ih =>
        simp only [isBlank, List.all_cons, Bool.and_eq_true] at hb
        simp only [lstrip, hb.1, ↓reduceIte]
        exact ih (by simpa [isBlank] using hb.2)
    simp only [yamlIgnored, hs, hl, Bool.eq_false_iff, ne_eq, List.any_eq_true, not_exists, not_and]
    intro p hp
    cases p with
    | nil => exact absurd rfl (hi [] hp)
    | cons a as => simp [isPrefix]
  refine ⟨rfl, List.filter_sublist, ?_, ?_, ?_⟩
  · intro l; simp [List.mem_filter]
  · rw [List.filter_filter]
    apply List.filter_congr
    intro l _
    cases hb : isBlank l
    · simp
    · simp [hblank l hb]
  · intro h
    apply List.filter_eq_self.mpr
    intro l hlc
    simp [h l hlc]

example : (["a: |".toList, "  x".toList, "".toList, "   ".toList, "  y".toList].filter
    (fun l => !(yamlIgnored asciiLower ["warning:".toList, "note".toList] l))).length = 5 := by decide
example : yamlParse asciiLower (fun t => if t = "a: |\n  x\n\n  y".toList then .ok ⟨.map, "M".toList⟩ else .error ())
    ["note".toList] ["a: |".toList, "  x".toList, "".toList, "  y".toList] = .data ⟨.map, "M".toList⟩ none := by decide

/-- without `ignore_lines` every line is loaded -/
theorem yaml_no_ignore (lower : Str → Str) (content : List Line) :
    content.filter (fun l => !(yamlIgnored lower [] l)) = content := by
  simp [yamlIgnored]

example : yamlParse asciiLower (fun _ => .ok ⟨.scalar, "123".toList⟩) [] ["123".toList] = .parseError := by decide
example : yamlParse asciiLower (fun t => if t = "a: 1".toList then .ok ⟨.map, "M".toList⟩ else .error ())
    ["warning:".toList] ["  WARNING: x".toList, "a: 1".toList] = .data ⟨.map, "M".toList⟩ none := by decide

/-! ### TextFileOutput: `get`, `in` -/

/-- `get`: plain filtering in original order; with a limit the FIRST n matches, with `reverse` the LAST n
matches, in both cases in original order -/
theorem get_exact (t : Term) (c : Chk) (num : Option Int) (reverse : Bool) (lines : List Line)
    (p : Line → Bool) (hp : validSearch t c = some p) :
    get t c num reverse lines = some (
      let hits := lines.filter p
      let n := limit num hits.length
      if reverse then hits.drop (hits.length - n) else hits.take n) := by
  unfold get
  simp only [hp]
  cases reverse with
  | false => simp [getLoop_eq]
  | true =>
    simp only [↓reduceIte, getLoop_eq, List.filter_reverse, List.length_reverse, Option.some.injEq]
    rw [List.take_reverse, List.reverse_reverse]

/-- TypeError exactly for the empty list of terms -/
theorem get_type_error_iff (t : Term) (c : Chk) (num : Option Int) (reverse : Bool) (lines : List Line) :
    get t c num reverse lines = none ↔ t = .many [] := by
  unfold get
  cases t with
  | one s => simp [validSearch]
  | many ws => cases ws <;> simp [validSearch]

/-- `s in parser` (and the `token_scan` attribute): some line satisfies the predicate -/
theorem contains_exact (t : Term) (c : Chk) (lines : List Line) (p : Line → Bool) (hp : validSearch t c = some p) :
    ∃ b, textContains t c lines = some b ∧ (b = true ↔ ∃ l ∈ lines, p l = true) := by
  refine ⟨lines.any p, by simp [textContains, hp], ?_⟩
  simp [List.any_eq_true]

/-- the search predicate: the line contains the string / all (any) of the strings of the list -/
theorem search_pred_spec (t : Term) (c : Chk) (p : Line → Bool) (hp : validSearch t c = some p) (l : Line) :
    p l = true ↔
      match t, c with
      | .one s, _ => contains s l = true
      | .many ws, .all => ∀ w ∈ ws, contains w l = true
      | .many ws, .any => ∃ w ∈ ws, contains w l = true := by
  cases t with
  | one s => simp only [validSearch, Option.some.injEq] at hp; subst hp; simp
  | many ws =>
    cases ws with
    | nil => simp [validSearch] at hp
    | cons w ws =>
      simp only [validSearch, Option.some.injEq] at hp; subst hp
      cases c <;> simp [List.all_eq_true, List.any_eq_true]


example : get (.many ["err".toList, "k".toList]) .all (some 1) true
    ["kernel err".toList, "x".toList, "k err 2".toList] = some ["k err 2".toList] := by decide
example : get (.one "e".toList) .all (some 2) true
    ["e1".toList, "x".toList, "e2".toList, "e3".toList] = some ["e2".toList, "e3".toList] := by decide
example : get (.one "e".toList) .all (some (-1)) false ["e1".toList] = some [] := by decide

/-! ### LogFileOutput.get_after -/

/-- the `s` filter of `get_after`: a falsy `s` (None, "") keeps every line, otherwise the lines containing
the string / ALL strings of the list -/
theorem after_keep_spec (s : Option Term) (keep : Line → Bool) (h : afterKeep s = some keep) (l : Line) :
    keep l = true ↔
      match s with
      | none => True
      | some (.one w) => contains w l = true
      | some (.many ws) => ∀ w ∈ ws, contains w l = true := by
  cases s with
  | none => simp only [afterKeep, Option.some.injEq] at h; subst h; simp
  | some t =>
    cases t with
    | one w =>
      cases w with
      | nil =>
        simp only [afterKeep, validSearch, Option.some.injEq] at h; subst h
        cases l <;> simp [contains, isPrefix]
      | cons c cs => simp only [afterKeep, validSearch, Option.some.injEq] at h; subst h; simp
    | many ws =>
      cases ws with
      | nil => simp [afterKeep, validSearch] at h
      | cons w ws =>
        simp only [afterKeep, validSearch, Option.some.injEq] at h; subst h
        simp [List.all_eq_true]

/-- the resolved time of a line: regular expression + strptime fields (`stamp`), then `resolve` -/
def lineTime (stamp : Line → Option RawStamp) (hasYear : Bool) (thr : Time) (l : Line) : Option Time :=
  (stamp l).bind (resolve hasYear thr)

/-- THE TIME SEARCH.  Over the considered lines (those passing the `s` filter), give every line the time of the
nearest timestamped line at or before it (`owner`; lines before the first stamp have none): the result is
exactly the lines whose owner's time is at or after the threshold, in original order — i.e. the timestamped
lines at or after the threshold plus the un-stamped lines that follow such a line before the next stamped one.
Hypothesis: no stamp conversion raises (see `get_after_error_iff`). -/
theorem get_after_exact (stamp : Line → Option RawStamp) (hasYear : Bool) (thr : Time) (s : Option Term)
    (keep : Line → Bool) (hk : afterKeep s = some keep) (lines : List Line)
    (hok : ∀ l ∈ lines.filter keep, ∀ r, stamp l = some r → resolve hasYear thr r ≠ none) :
    getAfter stamp hasYear thr s lines =
      .ok (((owner (lineTime stamp hasYear thr) none (lines.filter keep)).filter
              (fun e => atOrAfter thr e.2)).map (·.1)) := by
  unfold getAfter
  simp only [hk]
  rw [afterGo_filter]
  have h := afterGo_owner (fun l => (stamp l).map (resolve hasYear thr)) thr none (lines.filter keep)
    (by
      intro l hl
      cases hs : stamp l with
      | none => simp
      | some r => simpa using hok l hl r hs)
  have h0 : atOrAfter thr none = false := rfl
  have : (fun l => ((stamp l).map (resolve hasYear thr)).join) = lineTime stamp hasYear thr := by
    funext l; unfold lineTime; cases stamp l <;> simp
  rw [h0, this] at h
  rw [h]

/-- what `owner` is: position by position, the line's own time if it has one, else the time owned by the
line before it (none at the start) -/
theorem owner_entry (tm : Line → Option Time) (pre : List Line) (l : Line) (post : List Line) :
    owner tm none (pre ++ l :: post) =
      owner tm none pre ++ (l, lastStamp tm none (pre ++ [l])) :: owner tm (lastStamp tm none (pre ++ [l])) post ∧
    lastStamp tm none (pre ++ [l]) = (match tm l with | some t => some t | none => lastStamp tm none pre) ∧
    (owner tm none (pre ++ l :: post)).map (·.1) = pre ++ l :: post :=
  ⟨owner_append tm none pre l post, lastStamp_snoc tm none pre l, owner_lines tm none _⟩

/-- ValueError escapes exactly when a considered line carries a stamp whose conversion raises -/
theorem get_after_error_iff (stamp : Line → Option RawStamp) (hasYear : Bool) (thr : Time) (s : Option Term)
    (keep : Line → Bool) (hk : afterKeep s = some keep) (lines : List Line) :
    getAfter stamp hasYear thr s lines = .valueError ↔
      ∃ l ∈ lines.filter keep, ∃ r, stamp l = some r ∧ resolve hasYear thr r = none := by
  unfold getAfter
  simp only [hk]
  rw [afterGo_filter]
  have h := afterGo_error_iff (fun l => (stamp l).map (resolve hasYear thr)) thr false (lines.filter keep)
  cases hg : afterGo (fun _ => true) (fun l => (stamp l).map (resolve hasYear thr)) thr false (lines.filter keep) with
  | none =>
    simp only [true_iff]
    obtain ⟨l, hl, hs⟩ := h.mp hg
    cases hr : stamp l with
    | none => simp [hr] at hs
    | some r => exact ⟨l, hl, r, hr, by simpa [hr] using hs⟩
  | some res =>
    simp only [reduceCtorEq, false_iff]
    rintro ⟨l, hl, r, hr, hn⟩
    have : afterGo (fun _ => true) (fun l => (stamp l).map (resolve hasYear thr)) thr false (lines.filter keep) = none :=
      h.mpr ⟨l, hl, by simp [hr, hn]⟩
    rw [this] at hg; cases hg

/-- the result of a call is a function of THAT call's arguments only, and of the stamps of its OWN lines only: two
stamp functions (say, the extraction of two processes with different call histories, or the same text read in two
other logs) that agree on the lines of this log give the same result.  There is no other state in the model; the
`get_after-history` stream checks the implementation against this call by call. -/
theorem get_after_depends_only_on_own_lines (stamp₁ stamp₂ : Line → Option RawStamp) (hasYear : Bool) (thr : Time)
    (s : Option Term) (lines : List Line) (h : ∀ l ∈ lines, stamp₁ l = stamp₂ l) :
    getAfter stamp₁ hasYear thr s lines = getAfter stamp₂ hasYear thr s lines := by
  unfold getAfter
  cases afterKeep s with
  | none => rfl
  | some keep =>
    simp only
    have key : ∀ (inc : Bool) (ls : List Line), (∀ l ∈ ls, stamp₁ l = stamp₂ l) →
        afterGo keep (fun l => (stamp₁ l).map (resolve hasYear thr)) thr inc ls =
        afterGo keep (fun l => (stamp₂ l).map (resolve hasYear thr)) thr inc ls := by
      intro inc ls
      induction ls generalizing inc with
      | nil => intro _; rfl
      | cons l ls ih =>
        intro hl
        have h1 := hl l (by simp)
        have ih' := fun inc => ih inc (fun x hx => hl x (by simp [hx]))
        rw [afterGo, afterGo, h1]
        simp only [ih']
    rw [key false lines h]

/-- TypeError exactly for the empty list of terms -/
theorem get_after_type_error_iff (stamp : Line → Option RawStamp) (hasYear : Bool) (thr : Time) (s : Option Term)
    (lines : List Line) : getAfter stamp hasYear thr s lines = .typeError ↔ s = some (.many []) := by
  unfold getAfter
  cases s with
  | none => simp only [afterKeep]; split <;> simp
  | some t =>
    cases t with
    | one w => simp only [afterKeep, validSearch]; split <;> simp
    | many ws =>
      cases ws with
      | nil => simp [afterKeep, validSearch]
      | cons w ws => simp only [afterKeep, validSearch]; split <;> simp

/-! ### year inference -/

/-- the year chosen by lines 1381-1389 -/
def chosenYear (thr : Time) (m d tod : Nat) : Nat :=
  if (Time.mk thr.year m d tod).micros > thr.micros + d330 then thr.year - 1
  else if thr.micros > (Time.mk thr.year m d tod).micros + d330 then thr.year + 1
  else thr.year

/-- year inference: a month/day that exists in 1900 (anything but Feb 29) is placed in the threshold's year,
or in the year before / after when that puts it more than 330 days after / before the threshold;
no exception is possible -/
theorem year_inference (thr : Time) (m d tod : Nat) (hY1 : 2 ≤ thr.year) (hY2 : thr.year ≤ 9998)
    (hv : validDate 1900 m d = true) (ht : tod < usPerDay) :
    resolve false thr ⟨none, m, d, tod⟩ = some ⟨chosenYear thr m d tod, m, d, tod⟩ := by
  unfold resolve inferYear Time.replaceYear chosenYear
  simp only [Option.getD_none, mkTime_of_1900 1900 m d tod (by omega) (by omega) hv ht,
    mkTime_of_1900 thr.year m d tod (by omega) (by omega) hv ht, Bool.false_eq_true, ↓reduceIte]
  split
  · exact mkTime_of_1900 _ m d tod (by omega) (by omega) hv ht
  · split
    · exact mkTime_of_1900 _ m d tod (by omega) (by omega) hv ht
    · rfl

/-- a format with a year: the stamp is taken as it is -/
theorem resolve_with_year (thr : Time) (y m d tod : Nat) :
    resolve true thr ⟨some y, m, d, tod⟩ = mkTime y m d tod := by
  cases h : mkTime y m d tod <;> simp [resolve, h]

/-- two-digit years (`%y`): the conversion is the POSIX pivot.  The result always lies in 1969–2068 and keeps the
two digits; every year of 1969–2068 round-trips through its last two digits, and NO other year does (a year
outside that window cannot be written with `%y`: 2069 written as "69" denotes 1969) -/
theorem pivot_year_spec (yy : Nat) (h : yy < 100) :
    1969 ≤ pivotYear yy ∧ pivotYear yy ≤ 2068 ∧ pivotYear yy % 100 = yy ∧
    (∀ y, pivotYear (y % 100) = y ↔ (1969 ≤ y ∧ y ≤ 2068)) := by
  refine ⟨?_, ?_, ?_, ?_⟩
  · unfold pivotYear; split <;> omega
  · unfold pivotYear; split <;> omega
  · unfold pivotYear; split <;> omega
  · intro y; unfold pivotYear; split <;> omega

example : pivotYear 68 = 2068 ∧ pivotYear 69 = 1969 ∧ pivotYear 0 = 2000 ∧ pivotYear 99 = 1999 := by decide
-- a line written "690113 04:42:44" (%y%m%d) is a line of 1969: not after a threshold in 2067
example : getAfter (fun _ => some (RawStamp.ofTwoDigitYear 69 1 13 16964000000)) true ⟨2067, 12, 5, 3540000001⟩ none
    ["690113 04:42:44 x".toList] = .ok [] := by decide
example : getAfter (fun _ => some (RawStamp.ofTwoDigitYear 68 1 13 16964000000)) true ⟨2067, 12, 5, 3540000001⟩ none
    ["680113 04:42:44 x".toList] = .ok ["680113 04:42:44 x".toList] := by decide

/-- a stamp with a two-digit year is taken in the pivoted year -/
theorem resolve_two_digit_year (thr : Time) (yy m d tod : Nat) :
    resolve true thr (RawStamp.ofTwoDigitYear yy m d tod) = mkTime (pivotYear yy) m d tod :=
  resolve_with_year thr (pivotYear yy) m d tod

def d34 : Nat := 34 * usPerDay

/-- the inference recovers the true date of a yearless stamp whenever the log line is less than 35 days
away from the threshold (in particular across a year boundary), or in the threshold's year and at most 330
days away -/
theorem year_inference_correct (thr : Time) (T : Time) (hY1 : 2 ≤ thr.year) (hY2 : thr.year ≤ 9998)
    (hv : validDate 1900 T.month T.day = true) (ht : T.tod < usPerDay)
    (hclose : (T.year = thr.year ∧ T.micros ≤ thr.micros + 330 * 86400000000 ∧ thr.micros ≤ T.micros + 330 * 86400000000) ∨
              (T.year + 1 = thr.year ∧ thr.micros ≤ T.micros + d34) ∨
              (T.year = thr.year + 1 ∧ T.micros ≤ thr.micros + d34)) :
    resolve false thr ⟨none, T.month, T.day, T.tod⟩ = some T := by
  rw [year_inference thr T.month T.day T.tod hY1 hY2 hv ht]
  obtain ⟨yT, mT, dT, todT⟩ := T
  simp only at hv ht hclose ⊢
  have e1 : (Time.mk thr.year mT dT todT).micros = ordinal thr.year mT dT * 86400000000 + todT := rfl
  have e2 : thr.micros = ordinal thr.year thr.month thr.day * 86400000000 + thr.tod := rfl
  have e3 : d330 = 28512000000000 := by decide
  have e4 : d34 = 2937600000000 := by decide
  have e5 : (Time.mk yT mT dT todT).micros = ordinal yT mT dT * 86400000000 + todT := rfl
  rw [e2, e5] at hclose
  unfold chosenYear
  rcases hclose with ⟨hy, h1, h2⟩ | ⟨hy, h1⟩ | ⟨hy, h1⟩
  · subst hy
    rw [if_neg (by rw [e1, e2, e3]; omega), if_neg (by rw [e1, e2, e3]; omega)]
  · have ho := (ordinal_succ_year yT mT dT (by omega)).1
    rw [hy] at ho
    rw [if_pos (by rw [e1, e2, e3]; omega)]
    have : thr.year - 1 = yT := by omega
    rw [this]
  · have ho := (ordinal_succ_year thr.year mT dT (by omega)).1
    rw [← hy] at ho
    rw [if_neg (by rw [e1, e2, e3]; omega), if_pos (by rw [e1, e2, e3]; omega), hy]


-- hypotheses of `year_inference_correct` are met across a year boundary: threshold 2024-01-02, line of 2023-12-31
example : validDate 1900 12 31 = true ∧ (2023 + 1 = (Time.mk 2024 1 2 0).year ∧
    (Time.mk 2024 1 2 0).micros ≤ (Time.mk 2023 12 31 5).micros + d34) := by decide
-- … and fail for Feb 29 (the excluded case)
example : validDate 1900 2 29 = false := by decide

/-- FULL STATEMENT for logs without a year: if every stamp of the log is a date that exists in the threshold's
year, `get_after` does not raise.  False of the current code (known finding feb29-yearless): strptime builds
the date in 1900 first, so Feb 29 raises whatever the threshold's year. -/
def GetAfterTotalOnValidDates : Prop :=
  ∀ (stamp : Line → Option RawStamp) (thr : Time) (lines : List Line),
    2 ≤ thr.year → thr.year ≤ 9998 →
    (∀ l ∈ lines, ∀ r, stamp l = some r → r.year = none ∧ validDate thr.year r.month r.day = true ∧ r.tod < usPerDay) →
    getAfter stamp false thr none lines ≠ .valueError

theorem get_after_feb29_witness : ¬ GetAfterTotalOnValidDates := by
  intro h
  have := h (fun _ => some ⟨none, 2, 29, 36000000000⟩) ⟨2024, 2, 28, 0⟩ ["Feb 29 10:00:00 x".toList]
    (by decide) (by decide) (by
      intro l _ r hr
      simp only [Option.some.injEq] at hr; subst hr
      decide)
  exact this (by decide)

/-- what does hold: if every stamp is a month/day that exists in a non-leap year (anything but Feb 29), no
exception escapes -/
theorem get_after_total_partial (stamp : Line → Option RawStamp) (thr : Time) (s : Option Term)
    (keep : Line → Bool) (hk : afterKeep s = some keep) (lines : List Line)
    (hY1 : 2 ≤ thr.year) (hY2 : thr.year ≤ 9998)
    (hv : ∀ l ∈ lines, ∀ r, stamp l = some r → r.year = none ∧ validDate 1900 r.month r.day = true ∧ r.tod < usPerDay) :
    getAfter stamp false thr s lines ≠ .valueError := by
  intro he
  obtain ⟨l, hl, r, hr, hn⟩ := (get_after_error_iff stamp false thr s keep hk lines).mp he
  obtain ⟨h1, h2, h3⟩ := hv l (List.mem_filter.mp hl).1 r hr
  obtain ⟨y, m, d, tod⟩ := r
  simp only at h1 h2 h3; subst h1
  rw [year_inference thr m d tod hY1 hY2 h2 h3] at hn
  cases hn

example : getAfter (fun _ => some ⟨none, 2, 28, 0⟩) false ⟨2024, 2, 28, 0⟩ none ["Feb 28 00:00:00 x".toList]
    = .ok ["Feb 28 00:00:00 x".toList] := by decide
example : resolve false ⟨2024, 1, 2, 0⟩ ⟨none, 12, 31, 0⟩ = some ⟨2023, 12, 31, 0⟩ := by decide
example : resolve false ⟨2023, 12, 30, 0⟩ ⟨none, 1, 1, 0⟩ = some ⟨2024, 1, 1, 0⟩ := by decide
example : resolve false ⟨2024, 6, 1, 0⟩ ⟨none, 1, 1, 0⟩ = some ⟨2024, 1, 1, 0⟩ := by decide
example : getAfter (fun l => if l = "s1".toList then some ⟨none, 1, 1, 5⟩ else if l = "s0".toList then some ⟨none, 12, 31, 5⟩ else none)
    false ⟨2024, 1, 1, 0⟩ none ["c0".toList, "s0".toList, "c1".toList, "s1".toList, "c2".toList]
    = .ok ["s1".toList, "c2".toList] := by decide

/-! ### round 10 — argument checks of `get` / `in` (lines 1059-1064, 1085-1086) -/

/-- glue: an optional int as the `num` argument -/
def numArgOf : Option Int → NumArg
  | none => .none
  | some k => .int k

/-- TypeError exactly when `num` is not an int / None, the search item is of a wrong type or an empty list, or the
item is None and a line is examined while there is still room (`None(l)` is called) -/
theorem get_py_type_error_iff (t : TermArg) (c : Chk) (num : NumArg) (rev : Bool) (lines : List Line) :
    getPy t c num rev lines = .typeError ↔
      num = .bad ∨ t = .bad ∨ t = .ok (.many []) ∨
      (t = .none ∧ num ≠ .bad ∧ lines ≠ [] ∧ ∀ k, num = .int k → 0 < k) := by
  cases num with
  | bad => simp [getPy, numOf]
  | none =>
    cases t with
    | bad => simp [getPy, numOf]
    | ok t' =>
      have h := get_type_error_iff t' c none rev lines
      cases hg : get t' c none rev lines <;> simp_all [getPy, numOf]
    | none => cases lines <;> simp [getPy, numOf, roomAtStart]
  | int n =>
    cases t with
    | bad => simp [getPy, numOf]
    | ok t' =>
      have h := get_type_error_iff t' c (some n) rev lines
      cases hg : get t' c (some n) rev lines <;> simp_all [getPy, numOf]
    | none => cases lines <;> simp [getPy, numOf, roomAtStart]

example : getPy .none .all (.int 0) false ["x".toList] = .ok [] := by decide
example : getPy .none .all .none false ["x".toList] = .typeError := by decide
example : getPy (.ok (.one "x".toList)) .all .bad false [] = .typeError := by decide

/-- with arguments of the right types `get` is the function `get_exact` is about -/
theorem get_py_valid (t : Term) (c : Chk) (n : Option Int) (rev : Bool) (lines r : List Line) :
    getPy (.ok t) c (numArgOf n) rev lines = .ok r ↔ get t c n rev lines = some r := by
  cases n <;> cases hg : get t c _ rev lines <;> simp [getPy, numOf, numArgOf, hg]

example : getPy (.ok (.one "e".toList)) .all (numArgOf (some 1)) true ["e1".toList, "e2".toList] = .ok ["e2".toList] := by
  decide

/-- `s in parser`: TypeError for a wrong type, an empty list, or None on a non-empty file -/
theorem contains_py_type_error_iff (t : TermArg) (lines : List Line) :
    containsPy t lines = .typeError ↔ t = .bad ∨ t = .ok (.many []) ∨ (t = .none ∧ lines ≠ []) := by
  cases t with
  | bad => simp [containsPy]
  | ok t' =>
    cases t' with
    | one s => simp [containsPy, textContains, validSearch]
    | many ws => cases ws <;> simp [containsPy, textContains, validSearch]
  | none => cases lines <;> simp [containsPy]

example : containsPy .none [] = .ok false := by decide

theorem contains_py_valid (t : Term) (lines : List Line) (b : Bool) :
    containsPy (.ok t) lines = .ok b ↔ textContains t .all lines = some b := by
  cases h : textContains t .all lines <;> simp [containsPy, h]

example : containsPy (.ok (.one "e".toList)) ["x".toList, "err".toList] = .ok true := by decide

/-! ### round 10 — `time_format` (lines 1277-1357) -/

theorem fmt_ok_iff (f : Str) : fmtOk f = true ↔ ∀ c ∈ directives f, c ∈ knownDirectives := by
  simp [fmtOk, List.all_eq_true]

example : directives "%Y-%m-%d %H:%M:%S".toList = ['Y', 'm', 'd', 'H', 'M', 'S'] := by decide
example : directives "100%% %j %%Y".toList = ['j', 'Y'] := by decide
example : fmtOk "%d/%b/%Y:%H:%M:%S %z".toList = false := by decide

/-- `logs_have_year` of one format: the text contains `%Y` or `%y` -/
theorem fmt_has_year_iff (f : Str) :
    fmtHasYear f = true ↔ (∃ a b, f = a ++ ['%', 'Y'] ++ b) ∨ (∃ a b, f = a ++ ['%', 'y'] ++ b) := by
  simp [fmtHasYear, contains_iff]

example : fmtHasYear "%y%m%d %H:%M:%S".toList = true ∧ fmtHasYear "%b %d %H:%M:%S".toList = false := by decide

/-- which error the format raises: RuntimeError exactly for None; ParseException exactly for a type that is neither
str nor list/dict and for a format with a directive outside the table -/
theorem fmt_check_error_iff (fa : FmtArg) :
    (fmtCheck fa = .error .runtime ↔ fa = .none) ∧
    (fmtCheck fa = .error .parse ↔
      fa = .other ∨ (∃ f, fa = .str f ∧ fmtOk f = false) ∨ (∃ fs, fa = .many fs ∧ ∃ f ∈ fs, fmtOk f = false)) := by
  cases fa with
  | none => simp [fmtCheck]
  | other => simp [fmtCheck]
  | str f => cases h : fmtOk f <;> simp [fmtCheck, h]
  | many fs =>
    cases h : fs.all fmtOk
    · simp only [fmtCheck, h]
      have : ∃ f ∈ fs, fmtOk f = false := by
        simpa [List.all_eq_true] using h
      simp [this]
    · simp only [fmtCheck, h]
      have : ¬ ∃ f ∈ fs, fmtOk f = false := by
        intro ⟨f, hf, hb⟩
        have := (List.all_eq_true.mp h) f hf
        simp [hb] at this
      simp [this]

example : fmtCheck (.many ["%Y-%m-%d".toList, "%j".toList]) = .error .parse := by rfl

/-- `logs_have_year` as the code derives it: of the one format, or of ALL formats of a list / dict -/
theorem fmt_check_year (fa : FmtArg) (hy : Bool) (h : fmtCheck fa = .ok hy) :
    (∃ f, fa = .str f ∧ hy = fmtHasYear f) ∨
    (∃ fs, fa = .many fs ∧ (hy = true ↔ ∀ f ∈ fs, fmtHasYear f = true)) := by
  cases fa with
  | none => simp [fmtCheck] at h
  | other => simp [fmtCheck] at h
  | str f =>
    left
    cases hf : fmtOk f <;> simp [fmtCheck, hf] at h
    exact ⟨f, rfl, h.symm⟩
  | many fs =>
    right
    cases hf : fs.all fmtOk <;> simp only [fmtCheck, hf] at h
    · simp at h
    · simp only [↓reduceIte, Except.ok.injEq] at h
      exact ⟨fs, rfl, by rw [← h]; simp [List.all_eq_true]⟩

example : fmtCheck (.many ["%Y-%m-%d %H:%M:%S".toList, "%b %d %H:%M:%S".toList]) = .ok false := by rfl
example : fmtCheck (.many ["%y%m%d %H:%M:%S".toList, "%Y-%m-%d %H:%M:%S".toList]) = .ok true := by rfl

/-- the format is examined before anything else: its error does not depend on the log, the threshold or `s` -/
theorem get_after_f_format_error (fa : FmtArg) (stamp : Line → Option RawStamp) (thr : Time) (s : Option Term)
    (lines : List Line) :
    (getAfterF fa stamp thr s lines = .runtimeError ↔ fmtCheck fa = .error .runtime) ∧
    (getAfterF fa stamp thr s lines = .parseError ↔ fmtCheck fa = .error .parse) := by
  unfold getAfterF
  cases h : fmtCheck fa with
  | error e => cases e <;> simp
  | ok hy => simp

example : getAfterF .none (fun _ => none) ⟨2024, 1, 1, 0⟩ (some (.many [])) [] = .runtimeError := by decide

/-- with a good format `get_after` is the function of `get_after_exact`, with `logs_have_year` derived from the format -/
theorem get_after_f_ok (fa : FmtArg) (hy : Bool) (h : fmtCheck fa = .ok hy) (stamp : Line → Option RawStamp)
    (thr : Time) (s : Option Term) (lines : List Line) :
    getAfterF fa stamp thr s lines = .res (getAfter stamp hy thr s lines) := by
  simp [getAfterF, h]

example : getAfterF (.str "%b %d %H:%M:%S".toList) (fun _ => some ⟨none, 12, 31, 0⟩) ⟨2024, 1, 2, 0⟩ none ["Dec 31 00:00:00 x".toList]
    = .res (.ok []) := by decide

/-! ### round 10 — scanner registration (lines 842-845, 1026-1033, 1096-1179) -/

/-- registering fails (ValueError) exactly when the class already has a scanner with that key -/
theorem register_dup_iff (r : Registry) (d : ScanDef) :
    register r d = none ↔ ∃ d' ∈ r, d'.key = d.key := by
  simp [register, hasKey, List.any_eq_true]

/-- a successful registration appends to the class's registry: earlier scanners keep their place -/
example : register [] ⟨"k".toList, .last, .one [], .all⟩ = some [⟨"k".toList, .last, .one [], .all⟩] := by decide

theorem register_appends (r r' : Registry) (d : ScanDef) (h : register r d = some r') : r' = r ++ [d] := by
  unfold register at h
  split at h <;> simp_all

example : register [⟨"k".toList, .last, .one [], .all⟩] ⟨"k".toList, .token, .one [], .any⟩ = none := by decide

/-- an operation on one class leaves the registry of every other class as it was (parent, subclass, sibling) -/
theorem step_isolated (w : World) (op : Op) (c' : Nat) (h : c' ≠ op.cls) : (step w op).1 c' = w c' := by
  cases op with
  | newClass c => simp [step, setReg, Op.cls] at *; exact fun e => absurd e h
  | reg c d =>
    simp only [step]
    cases register (w c) d with
    | none => rfl
    | some r => simp [setReg, Op.cls] at *; exact fun e => absurd e h
  | build c ls => rfl

example : (step (setReg emptyWorld 1 [⟨"k".toList, .last, .one [], .all⟩]) (.newClass 2)).1 1
    = [⟨"k".toList, .last, .one [], .all⟩] := by decide

/-- HISTORIES: after any sequence of operations the registry of a class is what the operations addressed to that
class alone make of it -/
theorem class_projection (ops : List Op) (w : World) (c : Nat) : (runOps w ops).1 c = ownReg c (w c) ops := by
  induction ops generalizing w with
  | nil => rfl
  | cons op ops ih =>
    simp only [runOps]
    rw [ih]
    cases op with
    | newClass c' =>
      simp only [step, ownReg, setReg]
      by_cases h : c' = c
      · subst h; simp
      · have : ¬ c = c' := fun e => h e.symm
        simp [h, this]
    | reg c' d =>
      simp only [step, ownReg]
      by_cases h : c' = c
      · subst h
        cases hr : register (w c') d <;> simp [setReg]
      · have : ¬ c = c' := fun e => h e.symm
        cases hr : register (w c') d <;> simp [setReg, h, this]
    | build c' ls => simp [step, ownReg]

example : (runOps emptyWorld [.newClass 0, .reg 0 ⟨"k".toList, .last, .one [], .all⟩, .newClass 1,
    .reg 1 ⟨"j".toList, .token, .one [], .all⟩]).1 0 = [⟨"k".toList, .last, .one [], .all⟩] := by decide

/-- a class created after its parent got scanners starts with none: its objects carry no scanner attribute -/
theorem fresh_class_has_no_scanners (w : World) (c : Nat) (lines : List Line) :
    (step (step w (.newClass c)).1 (.build c lines)).2 = .attrs [] := by
  simp [step, setReg, runScanners]

example : (step (step (setReg emptyWorld 0 [⟨"k".toList, .last, .one [], .all⟩]) (.newClass 0)).1 (.build 0 ["x".toList])).2
    = .attrs [] := by decide

/-- an object is built exactly when no scanner of its class has an empty list of terms -/
theorem run_scanners_type_error_iff (r : Registry) (lines : List Line) :
    runScanners r lines = none ↔ ∃ d ∈ r, d.term = .many [] := by
  induction r with
  | nil => simp [runScanners]
  | cons d ds ih =>
    have hd : evalScan d lines = none ↔ d.term = .many [] := by
      unfold evalScan
      cases d.kind <;> simp [get_type_error_iff, textContains] <;>
        (cases d.term with
         | one s => simp [validSearch]
         | many ws => cases ws <;> simp [validSearch])
    simp only [runScanners]
    cases he : evalScan d lines with
    | none => simp [hd.mp he]
    | some v =>
      have : d.term ≠ .many [] := fun e => by simp [hd.mpr e] at he
      simp [ih, this]

example : runScanners [⟨"k".toList, .token, .one "e".toList, .all⟩, ⟨"j".toList, .last, .many [], .all⟩] ["e".toList] = none := by
  decide

/-- the scanner attributes of a new object: one per registered scanner, in registration order, each the value of
its own scanner on the object's own lines -/
theorem run_scanners_exact (r : Registry) (lines : List Line) (a : List (Str × AttrVal))
    (h : runScanners r lines = some a) :
    a.map (·.1) = r.map (·.key) ∧
      r.map (fun d => (evalScan d lines).map (fun v => (d.key, v))) = a.map some := by
  induction r generalizing a with
  | nil => simp [runScanners] at h; subst h; simp
  | cons d ds ih =>
    simp only [runScanners] at h
    cases he : evalScan d lines with
    | none => simp [he] at h
    | some v =>
      simp only [he] at h
      cases hr : runScanners ds lines with
      | none => simp [hr] at h
      | some a' =>
        simp only [hr, Option.map_some, Option.some.injEq] at h
        subst h
        have := ih a' hr
        exact ⟨by simp [this.1], by simp [he, this.2]⟩

example : runScanners [⟨"k".toList, .token, .one "e".toList, .all⟩, ⟨"j".toList, .last, .one "e".toList, .all⟩] ["e".toList, "x".toList]
    = some [("k".toList, .flag true), ("j".toList, .last (some "e".toList))] := by decide

/-- keep_scan: the attribute is `get` on the object's lines -/
theorem eval_keep_spec (d : ScanDef) (num : Option Int) (rev : Bool) (hk : d.kind = .keep num rev) (lines : List Line)
    (p : Line → Bool) (hp : validSearch d.term d.chk = some p) :
    evalScan d lines = some (.lines (
      let hits := lines.filter p
      let n := limit num hits.length
      if rev then hits.drop (hits.length - n) else hits.take n)) := by
  simp only [evalScan, hk, get_exact d.term d.chk num rev lines p hp, Option.map_some]

example : evalScan ⟨"k".toList, .keep (some 1) true, .one "e".toList, .all⟩ ["e1".toList, "x".toList, "e2".toList]
    = some (.lines ["e2".toList]) := by decide

/-- last_scan: the LAST line satisfying the predicate, or the empty dictionary -/
theorem eval_last_spec (d : ScanDef) (hk : d.kind = .last) (lines : List Line)
    (p : Line → Bool) (hp : validSearch d.term d.chk = some p) :
    evalScan d lines = some (.last (lines.filter p).getLast?) := by
  simp only [evalScan, hk, get_exact d.term d.chk (some 1) true lines p hp, Option.map_some, limit]
  congr 2
  generalize lines.filter p = hits
  simp only [↓reduceIte, List.head?_drop, List.getLast?_eq_getElem?]
  congr 1

example : evalScan ⟨"k".toList, .last, .one "e".toList, .all⟩ ["e1".toList, "e2".toList, "x".toList]
    = some (.last (some "e2".toList)) := by decide
example : evalScan ⟨"k".toList, .last, .one "z".toList, .all⟩ ["e1".toList] = some (.last none) := by decide

/-- token_scan: some line satisfies the predicate (with the `check` that was registered) -/
theorem eval_token_spec (d : ScanDef) (hk : d.kind = .token) (lines : List Line)
    (p : Line → Bool) (hp : validSearch d.term d.chk = some p) :
    evalScan d lines = some (.flag (lines.any p)) := by
  simp [evalScan, hk, textContains, hp]

example : (runOps emptyWorld [.newClass 0, .reg 0 ⟨"k".toList, .last, .one "e".toList, .all⟩, .newClass 1,
    .reg 0 ⟨"k".toList, .token, .one "e".toList, .all⟩, .build 1 ["e".toList], .build 0 ["e1".toList, "x".toList, "e2".toList]]).2
    = [.created, .registered, .created, .dupKey, .attrs [], .attrs [("k".toList, .last (some "e2".toList))]] := by decide

/-! ### round 10 — LazyLogFileOutput.do_scan -/

/-- each scanner is executed at most once per object: repeating `do_scan(key)` changes nothing -/
theorem do_scan_key_once (r : Registry) (o o' : LazyObj) (k : Str) (h : doScanKey r o k = some o') :
    doScanKey r o' k = some o' := by
  unfold doScanKey at h ⊢
  by_cases hc : o.scanned.contains k = true
  · simp only [hc, ↓reduceIte, Option.some.injEq] at h; subst h; rw [if_pos hc]
  · simp only [hc] at h
    cases hf : r.find? (fun d => d.key == k) with
    | none => simp [hf] at h; subst h; rw [if_neg hc]
    | some d =>
      cases he : evalScan d o.lines with
      | none => simp [hf, he] at h
      | some v => simp [hf, he] at h; subst h; simp

example : doScanKey [⟨"k".toList, .token, .one "e".toList, .all⟩] ⟨["e".toList], [], []⟩ "k".toList
    = some ⟨["e".toList], ["k".toList], [("k".toList, .flag true)]⟩ := by decide

/-- `do_scan()` executes every registered scanner of the class (all keys end up in `_scanned`), and a second
`do_scan()` changes nothing: each scanner runs at most once per object -/
theorem do_scan_all_once (r : Registry) (o o' : LazyObj) (h : doScanAll r o = some o') :
    (∀ d ∈ r, d.key ∈ o'.scanned) ∧ doScanAll r o' = some o' :=
  ⟨doScanAll_covers r o o' h, doScanAll_fixed r o' (doScanAll_covers r o o' h)⟩

example : doScanAll [⟨"k".toList, .token, .one "e".toList, .all⟩, ⟨"j".toList, .last, .one "e".toList, .all⟩]
    ⟨["e".toList], ["k".toList], []⟩ = some ⟨["e".toList], ["k".toList, "j".toList], [("j".toList, .last (some "e".toList))]⟩ := by
  decide

/-! ### round 10 — `plugins.parser.invoke` (plugins.py 149-206) -/

/-- a single (non-list) datasource value: an object is stored iff the construction gave one; an error-message
output (content error) stores nothing -/
theorem invoke_one_spec {α : Type} (b : Built α) (v : α) : invokeOne b = .value v ↔ b = .obj v := by
  cases b <;> simp [invokeOne]

example : invokeOne (Built.obj 7) = .value 7 := by decide

/-- a list datasource: what is stored is exactly the objects of the constructions that gave one, in order — never
anything for an element whose construction raised; nothing at all when there is no object, or when
`continue_on_error=False` and some construction raised the content error or another exception -/
theorem invoke_many_spec {α : Type} (coe : Bool) (bs : List (Built α)) :
    invokeMany coe bs =
      if (!coe && bs.any isErr) || (objsOf bs).isEmpty then .skipped else .values (objsOf bs) := by
  cases coe with
  | true => simp [invokeMany, invokeLoop_coe]
  | false =>
    cases h : bs.any isErr
    · simp [invokeMany, invokeLoop_strict_ok bs h]
    · simp [invokeMany, invokeLoop_strict_err bs h]

example : invokeMany true [Built.contentError, .obj 1, .skip, .failed, .obj 2] = .values [1, 2] := by decide
example : invokeMany false [Built.obj 1, .skip, .contentError, .obj 2] = .skipped := by decide
example : invokeMany true [Built.contentError, (.skip : Built Nat)] = .skipped := by decide
example : invokeOne (Built.contentError : Built Nat) = .skipped := by decide

/-! ### round 10 — END TO END: command output → CommandParser → `parser.invoke` → what the broker holds -/

/-- glue: the construction of a command parser as the framework sees it -/
def builtOfCmd : CmdOutcome → Built (List Line)
  | .contentError _ => .contentError
  | .parsed c => .obj c

/-- a single command output: the broker holds an object iff the output is not an error message, and then the
object was built from the unchanged output -/
theorem framework_single (lower : Str → Str) (single multi extra : List Str) (content : List Line) :
    (invokeOne (builtOfCmd (commandInit lower single multi extra content)) = .skipped ↔
      (BadOutput lower single multi content ∨ BadOutput lower extra extra content)) ∧
    (¬ (BadOutput lower single multi content ∨ BadOutput lower extra extra content) →
      invokeOne (builtOfCmd (commandInit lower single multi extra content)) = .value content) := by
  constructor
  · rw [← command_reject_iff]
    cases h : commandInit lower single multi extra content <;> simp [builtOfCmd, invokeOne]
  · intro hb
    rw [command_accept_unchanged lower single multi extra content hb]
    rfl

example : invokeOne (builtOfCmd (commandInit asciiLower badSingleLines badLines [] ["bash: x: command not found".toList]))
    = .skipped := by decide

/-- a list datasource (one output per element), `continue_on_error=True`: the broker holds exactly the unchanged
outputs that are not error messages, in order; nothing when every element is an error message -/
theorem framework_list (lower : Str → Str) (single multi extra : List Str) (contents : List (List Line)) :
    invokeMany true (contents.map (fun c => builtOfCmd (commandInit lower single multi extra c))) =
      (let good := contents.filter (fun c => cmdValid lower single multi extra c)
       if good.isEmpty then .skipped else .values good) := by
  rw [invoke_many_spec]
  have h : objsOf (contents.map (fun c => builtOfCmd (commandInit lower single multi extra c)))
      = contents.filter (fun c => cmdValid lower single multi extra c) := by
    induction contents with
    | nil => rfl
    | cons c cs ih =>
      have hc : builtOfCmd (commandInit lower single multi extra c) =
          if cmdValid lower single multi extra c then .obj c else .contentError := by
        unfold commandInit
        cases cmdValid lower single multi extra c <;> simp [builtOfCmd]
      rw [List.map_cons, hc, List.filter_cons]
      cases hv : cmdValid lower single multi extra c <;> simp [objsOf, ih]
  simp [h]

example : invokeMany true ([["ok".toList], ["ls: No such file or directory".toList], ["a".toList, "b".toList]].map
    (fun c => builtOfCmd (commandInit asciiLower badSingleLines badLines [] c)))
    = .values [["ok".toList], ["a".toList, "b".toList]] := by decide

end IV.BaseParsers
