import IV.Lemmas.BaseParsers
import IV.Gen.BadLines
/-!
C14 — base parsers accept well-formed content and reject bad content as documented.

All theorems are about `IV.BaseParsers` (the model of CommandParser / JSONParser / YAMLParser /
TextFileOutput / LogFileOutput in insights/core/__init__.py) for ALL contents, phrase lists, logs, terms and
limits, and for EVERY instantiation of the parameters `lower` (str.lower), `loads` (json.loads / yaml.load),
`stamp` (regular expression + strptime field extraction).  `IV.Gen.BadLines` holds the bad-line lists of the
live class, regenerated on every run.
-/
namespace IV.BaseParsers
open IV.Gen.BadLines

/-! ### CommandParser -/

/-- THE REJECTION RULE, exactly as `validate_lines` + `__init__` implement it.  The content error is raised iff
  * the output is ONE line and its lower-cased text contains a single-line phrase (`bad_single_lines`) or an
    extra phrase, or
  * the output has SEVERAL lines and some lower-cased line contains a multi-line phrase (`bad_lines`) or an
    extra phrase.
`BadOutput lower single multi content` is that disjunction for one pair of lists; the extra phrases are used for
both cases.  Phrases are matched AS GIVEN against the lower-cased line (extra phrases are not lower-cased). -/
theorem command_reject_iff (lower : Str → Str) (single multi extra : List Str) (content : List Line) :
    (∃ f, commandInit lower single multi extra content = .contentError f) ↔
      (BadOutput lower single multi content ∨ BadOutput lower extra extra content) := by
  rw [← cmdValid_false_iff]
  unfold commandInit
  cases cmdValid lower single multi extra content <;> simp

/-- the message of the content error names the first line: the "<no content>" branch is unreachable -/
theorem command_error_names_first_line (lower : Str → Str) (single multi extra : List Str) (content : List Line) (f : Line)
    (h : commandInit lower single multi extra content = .contentError f) : ∃ rest, content = f :: rest := by
  have hb := (command_reject_iff lower single multi extra content).mp ⟨f, h⟩
  have hne : content ≠ [] := by
    rcases hb with hb | hb <;> exact badOutput_nonempty hb
  unfold commandInit at h
  cases content with
  | nil => exact absurd rfl hne
  | cons f' rest =>
    cases hv : cmdValid lower single multi extra (f' :: rest) <;> simp [hv] at h
    exact ⟨rest, by rw [h]⟩

/-- any other output reaches `parse_content` unchanged -/
theorem command_accept_unchanged (lower : Str → Str) (single multi extra : List Str) (content : List Line)
    (h : ¬ (BadOutput lower single multi content ∨ BadOutput lower extra extra content)) :
    commandInit lower single multi extra content = .parsed content := by
  rw [← cmdValid_false_iff] at h
  unfold commandInit
  cases hv : cmdValid lower single multi extra content
  · exact absurd hv h
  · simp


example : commandInit asciiLower badSingleLines badLines [] ["bash: foo: Command Not FOUND".toList]
    = .contentError "bash: foo: Command Not FOUND".toList := by decide
example : commandInit asciiLower badSingleLines badLines [] ["ls: No such file or directory".toList, "x".toList]
    = .parsed ["ls: No such file or directory".toList, "x".toList] := by decide
example : commandInit asciiLower badSingleLines badLines [] ["a".toList, "Missing Dependencies: x".toList]
    = .contentError "a".toList := by decide
example : commandInit asciiLower badSingleLines badLines ["timed out".toList] ["a".toList, "x Timed Out".toList]
    = .contentError "a".toList := by decide
example : commandInit asciiLower badSingleLines badLines ["Error:".toList] ["Error: x".toList]
    = .parsed ["Error: x".toList] := by decide

/-- error phrases are caught in any letter case and at any position of a single-line output: whenever the
line is `pre ++ w ++ post` and `w` lower-cases to a single-line phrase of the LIVE class -/
theorem command_reject_any_case_position (extra : List Str) (pre w post : Str)
    (hw : asciiLower w ∈ badSingleLines) :
    commandInit asciiLower badSingleLines badLines extra [pre ++ w ++ post] = .contentError (pre ++ w ++ post) := by
  have hb : BadOutput asciiLower badSingleLines badLines [pre ++ w ++ post] := by
    left
    refine ⟨_, rfl, asciiLower w, hw, ?_⟩
    rw [asciiLower_append, asciiLower_append]
    exact (contains_iff _ _).mpr ⟨_, _, rfl⟩
  obtain ⟨f, hf⟩ := (command_reject_iff asciiLower badSingleLines badLines extra _).mpr (Or.inl hb)
  obtain ⟨rest, hr⟩ := command_error_names_first_line _ _ _ _ _ _ hf
  simp only [List.cons.injEq] at hr
  rw [hf, ← hr.1]

example : asciiLower "COMMAND not Found".toList ∈ badSingleLines := by decide

/-- the same for multi-line output and the multi-line phrases of the live class -/
theorem command_reject_multiline (extra : List Str) (before after : List Line) (l0 : Line) (pre w post : Str)
    (hw : asciiLower w ∈ badLines) (hlen : (before ++ (pre ++ w ++ post) :: after).length > 1)
    (h0 : (before ++ (pre ++ w ++ post) :: after).head? = some l0) :
    commandInit asciiLower badSingleLines badLines extra (before ++ (pre ++ w ++ post) :: after) = .contentError l0 := by
  have hb : BadOutput asciiLower badSingleLines badLines (before ++ (pre ++ w ++ post) :: after) := by
    right
    refine ⟨hlen, pre ++ w ++ post, by simp, asciiLower w, hw, ?_⟩
    rw [asciiLower_append, asciiLower_append]
    exact (contains_iff _ _).mpr ⟨_, _, rfl⟩
  obtain ⟨f, hf⟩ := (command_reject_iff asciiLower badSingleLines badLines extra _).mpr (Or.inl hb)
  obtain ⟨rest, hr⟩ := command_error_names_first_line _ _ _ _ _ _ hf
  rw [hr] at h0
  simp only [List.head?_cons, Option.some.injEq] at h0
  rw [hf, h0]

example : asciiLower "Missing Dependencies:".toList ∈ badLines := by decide

/-- the class comment "make sure text is all lower case" holds of the live lists (a phrase with an upper-case
letter could never match the lower-cased line) and no phrase is empty (an empty phrase would reject everything) -/
theorem bad_lists_wellformed :
    ∀ p ∈ badSingleLines ++ badLines, asciiLower p = p ∧ p ≠ [] := by decide

/-! ### JSONParser -/

/-- empty content signals a skip -/
theorem json_empty_skip (loads : Str → Except Unit JVal) : jsonParse loads [] = .skip := rfl

/-- noise lines before the document are skipped and kept as `unparsed_lines`: the text from the first line whose
stripped form begins with `{` or `[` is what the library gets.  PARTIAL: holds when no noise line itself begins
with `{` / `[` (`JsonSkipsNonJsonNoise` below is the full statement, false of the code). -/
theorem json_contract_partial (loads : Str → Except Unit JVal) (noise : List Line) (d : Line) (rest : List Line)
    (hn : ∀ l ∈ noise, startsDoc l = false) (hd : startsDoc d = true) :
    jsonParse loads (noise ++ d :: rest) = docOutcome loads (joinNl (d :: rest)) (some noise) := by
  unfold jsonParse jsonStartIdx
  rw [findStart_noise 0 noise d rest hn hd]
  simp

/-- no line begins with `{`/`[`: the whole content is loaded -/
theorem json_contract_nostart (loads : Str → Except Unit JVal) (content : List Line) (hne : content ≠ [])
    (hn : ∀ l ∈ content, startsDoc l = false) :
    jsonParse loads content = docOutcome loads (joinNl content) (some []) := by
  unfold jsonParse jsonStartIdx
  rw [findStart_none 0 content hn]
  cases content with
  | nil => exact absurd rfl hne
  | cons c cs => simp

example : jsonParse (fun _ => .error ()) ["not json".toList, "at all".toList] = .parseError := by decide
example : jsonParse (fun _ => .ok ⟨.null, "null".toList⟩) ["null".toList] = .skip := by decide

/-- every run ends in exactly one of three outcomes — skip, parse error, or an object whose data is what the
library returned for the text from some line on, with the lines before it as `unparsed_lines`; a null document
is a skip; a library failure is a parse error (`docOutcome`).  No other exception type exists in the model; the
harness checks that on the implementation. -/
theorem json_three_outcomes (loads : Str → Except Unit JVal) (content : List Line) :
    jsonParse loads content = .skip ∨ jsonParse loads content = .parseError ∨
    ∃ v i, jsonParse loads content = .data v (some (content.take i)) ∧ loads (joinNl (content.drop i)) = .ok v ∧ v.kind ≠ .null := by
  unfold jsonParse
  split
  · left; rfl
  · simp only [docOutcome]
    cases hv : loads (joinNl (List.drop (jsonStartIdx content) content)) with
    | error e => right; left; rfl
    | ok v =>
      by_cases hk : v.kind = .null
      · left; simp [hk]
      · right; right; exact ⟨v, _, by simp [hk], hv, hk⟩

/-- `docOutcome` spelled out: failure ⇒ parse error, null ⇒ skip, otherwise the value -/
theorem doc_outcome_spec (loads : Str → Except Unit JVal) (text : Str) (u : Option (List Line)) :
    (loads text = .error () → docOutcome loads text u = .parseError) ∧
    (∀ v, loads text = .ok v → v.kind = .null → docOutcome loads text u = .skip) ∧
    (∀ v, loads text = .ok v → v.kind ≠ .null → docOutcome loads text u = .data v u) := by
  refine ⟨fun h => by simp [docOutcome, h], fun v h hk => by simp [docOutcome, h, hk], fun v h hk => by simp [docOutcome, h, hk]⟩

example : jsonParse (fun t => if t = "{\"a\": 1}".toList then .ok ⟨.map, "M".toList⟩ else .error ())
    ["Loading...".toList, "{\"a\": 1}".toList] = .data ⟨.map, "M".toList⟩ (some ["Loading...".toList]) := by decide

/-- FULL STATEMENT of the noise clause ("JSON also when preceded by non-JSON noise lines"): whatever the noise
lines look like, as long as none of them is JSON by itself.  False of the current code (known finding
json-noise-bracket-line): a noise line beginning with `[` or `{` is taken for the start of the document. -/
def JsonSkipsNonJsonNoise : Prop :=
  ∀ (loads : Str → Except Unit JVal) (noise : List Line) (d : Line) (rest : List Line) (v : JVal),
    (∀ l ∈ noise, loads l = .error ()) → startsDoc d = true → loads (joinNl (d :: rest)) = .ok v →
    (v.kind = .map ∨ v.kind = .seq) → jsonParse loads (noise ++ d :: rest) = .data v (some noise)

theorem json_noise_bracket_witness : ¬ JsonSkipsNonJsonNoise := by
  intro h
  have := h (fun t => if t = "{}".toList then .ok ⟨.map, "{}".toList⟩ else .error ())
    ["[INFO] x".toList] "{}".toList [] ⟨.map, "{}".toList⟩ (by simp) (by decide) (by simp [joinNl]) (by decide)
  revert this
  decide

/-- FULL STATEMENT of "a parse error for anything else": data is only ever a mapping or a sequence.  False of
the current code (known finding json-scalar-accepted). -/
def JsonRejectsNonContainer : Prop :=
  ∀ (loads : Str → Except Unit JVal) (content : List Line) (v : JVal) (u : Option (List Line)),
    jsonParse loads content = .data v u → v.kind = .map ∨ v.kind = .seq

theorem json_scalar_witness : ¬ JsonRejectsNonContainer := by
  intro h
  have := h (fun _ => .ok ⟨.scalar, "123".toList⟩) ["123".toList] ⟨.scalar, "123".toList⟩ (some []) (by decide)
  simp at this


/-- what does hold: data is never null -/
theorem json_data_not_null_partial (loads : Str → Except Unit JVal) (content : List Line) (v : JVal) (u : Option (List Line))
    (h : jsonParse loads content = .data v u) : v.kind ≠ .null := by
  rcases json_three_outcomes loads content with h1 | h1 | ⟨v', i, h1, _, hk⟩
  · rw [h1] at h; cases h
  · rw [h1] at h; cases h
  · rw [h1] at h; cases h; exact hk

/-- string content (the `else:` branch): same three outcomes, no `unparsed_lines` -/
theorem json_str_contract (loads : Str → Except Unit JVal) (content : Str) :
    jsonParseStr loads content = if content = [] then .skip else docOutcome loads content none := by
  unfold jsonParseStr
  cases content <;> simp

/-! ### YAMLParser -/

/-- the YAML contract: the lines whose first keyword (after `lstrip().lower()`) starts with an `ignore_lines`
prefix are dropped, the rest is loaded; library failure ⇒ parse error, null ⇒ skip, a mapping or sequence ⇒
data, ANYTHING ELSE (scalars, dates, sets, …) ⇒ parse error -/
theorem yaml_contract (lower : Str → Str) (loads : Str → Except Unit JVal) (ignore : List Str) (content : List Line) :
    yamlParse lower loads ignore content =
      match loads (joinNl (content.filter (fun l => !(yamlIgnored lower ignore l)))) with
      | .error _ => .parseError
      | .ok v => if v.kind = .null then .skip
                 else if v.kind = .map ∨ v.kind = .seq then .data v none else .parseError := by
  cases h : loads (joinNl (content.filter (fun l => !(yamlIgnored lower ignore l)))) with
  | error e => simp [yamlParse, yamlOutcome, h]
  | ok v => obtain ⟨k, r⟩ := v; cases k <;> simp [yamlParse, yamlOutcome, h]

/-- for YAML the full statement holds: data is always a mapping or a sequence -/
theorem yaml_rejects_non_container (lower : Str → Str) (loads : Str → Except Unit JVal) (ignore : List Str)
    (content : List Line) (v : JVal) (u : Option (List Line))
    (h : yamlParse lower loads ignore content = .data v u) : v.kind = .map ∨ v.kind = .seq := by
  rw [yaml_contract] at h
  split at h
  · cases h
  · rename_i w _
    by_cases h1 : w.kind = .null
    · simp [h1] at h
    · by_cases h2 : w.kind = .map ∨ w.kind = .seq
      · simp only [h1, h2, ↓reduceIte, DocOutcome.data.injEq] at h
        rw [← h.1]; exact h2
      · simp [h1, h2] at h

/-- string content (the `else:` branch): the same outcomes on the text as it is; in particular EVERY failure of
the library — `loads` returns `.error` for any exception type (YAMLError, ValueError, AttributeError, KeyError,
RecursionError …) — is a parse error -/
theorem yaml_str_contract (loads : Str → Except Unit JVal) (content : Str) :
    yamlParseStr loads content =
      match loads content with
      | .error _ => .parseError
      | .ok v => if v.kind = .null then .skip
                 else if v.kind = .map ∨ v.kind = .seq then .data v none else .parseError := by
  cases h : loads content with
  | error e => simp [yamlParseStr, yamlOutcome, h]
  | ok v => obtain ⟨k, r⟩ := v; cases k <;> simp [yamlParseStr, yamlOutcome, h]

/-- a library failure of ANY kind is a parse error, for list and for string content -/
theorem yaml_failure_is_parse_error (lower : Str → Str) (loads : Str → Except Unit JVal) (ignore : List Str)
    (content : List Line) (text : Str)
    (h1 : loads (joinNl (content.filter (fun l => !(yamlIgnored lower ignore l)))) = .error ())
    (h2 : loads text = .error ()) :
    yamlParse lower loads ignore content = .parseError ∧ yamlParseStr loads text = .parseError := by
  rw [yaml_contract, yaml_str_contract, h1, h2]
  exact ⟨rfl, rfl⟩

example : yamlParseStr (fun _ => .error ()) "date: 2019-02-30".toList = .parseError := by decide

/-- a blank or whitespace-only line (`not line.strip()`) -/
def isBlank (l : Line) : Bool := l.all isSpace

/-- THE ONLY pre-processing of YAML list content is dropping the lines whose first keyword starts with an
`ignore_lines` prefix.  Every other line reaches the library unchanged and in its original order; in particular
blank and whitespace-only lines — which are CONTENT inside literal / folded block scalars and multi-line quoted
scalars — are never dropped (for non-empty prefixes; `lower "" = ""` holds of `str.lower`), and when no line
matches a prefix the library gets exactly `'\n'.join(content)`. -/
theorem filter_keeps_blank (lower : Str → Str) (hl : lower [] = []) (loads : Str → Except Unit JVal)
    (ignore : List Str) (hi : ∀ p ∈ ignore, p ≠ []) (content : List Line) :
    yamlParse lower loads ignore content =
        yamlOutcome loads (joinNl (content.filter (fun l => !(yamlIgnored lower ignore l)))) ∧
    (content.filter (fun l => !(yamlIgnored lower ignore l))).Sublist content ∧
    (∀ l, l ∈ content.filter (fun l => !(yamlIgnored lower ignore l)) ↔
          l ∈ content ∧ yamlIgnored lower ignore l = false) ∧
    (content.filter (fun l => !(yamlIgnored lower ignore l))).filter isBlank = content.filter isBlank ∧
    ((∀ l ∈ content, yamlIgnored lower ignore l = false) →
      content.filter (fun l => !(yamlIgnored lower ignore l)) = content) := by
  have hblank : ∀ l : Line, isBlank l = true → yamlIgnored lower ignore l = false := by
    intro l hb
    have hs : lstrip l = [] := by
      induction l with
      | nil => rfl
      | cons c cs ih =>
        simp only [isBlank, List.all_cons, Bool.and_eq_true] at hb
        simp only [lstrip, hb.1, ↓reduceIte]
        exact ih (by simpa [isBlank] using hb.2)
    simp only [yamlIgnored, hs, hl, Bool.eq_false_iff, ne_eq, List.any_eq_true, not_exists, not_and]
    intro p hp
    cases p with
    | nil => exact absurd rfl (hi [] hp)
    | cons a as => simp [isPrefix]
  refine ⟨rfl, List.filter_sublist, ?_, ?_, ?_⟩
  · intro l; simp [List.mem_filter]
  · rw [List.filter_filter]
    apply List.filter_congr
    intro l _
    cases hb : isBlank l
    · simp
    · simp [hblank l hb]
  · intro h
    apply List.filter_eq_self.mpr
    intro l hlc
    simp [h l hlc]

example : (["a: |".toList, "  x".toList, "".toList, "   ".toList, "  y".toList].filter
    (fun l => !(yamlIgnored asciiLower ["warning:".toList, "note".toList] l))).length = 5 := by decide
example : yamlParse asciiLower (fun t => if t = "a: |\n  x\n\n  y".toList then .ok ⟨.map, "M".toList⟩ else .error ())
    ["note".toList] ["a: |".toList, "  x".toList, "".toList, "  y".toList] = .data ⟨.map, "M".toList⟩ none := by decide

/-- without `ignore_lines` every line is loaded -/
theorem yaml_no_ignore (lower : Str → Str) (content : List Line) :
    content.filter (fun l => !(yamlIgnored lower [] l)) = content := by
  simp [yamlIgnored]

example : yamlParse asciiLower (fun _ => .ok ⟨.scalar, "123".toList⟩) [] ["123".toList] = .parseError := by decide
example : yamlParse asciiLower (fun t => if t = "a: 1".toList then .ok ⟨.map, "M".toList⟩ else .error ())
    ["warning:".toList] ["  WARNING: x".toList, "a: 1".toList] = .data ⟨.map, "M".toList⟩ none := by decide

/-! ### TextFileOutput: `get`, `in` -/

/-- `get`: plain filtering in original order; with a limit the FIRST n matches, with `reverse` the LAST n
matches, in both cases in original order -/
theorem get_exact (t : Term) (c : Chk) (num : Option Int) (reverse : Bool) (lines : List Line)
    (p : Line → Bool) (hp : validSearch t c = some p) :
    get t c num reverse lines = some (
      let hits := lines.filter p
      let n := limit num hits.length
      if reverse then hits.drop (hits.length - n) else hits.take n) := by
  unfold get
  simp only [hp]
  cases reverse with
  | false => simp [getLoop_eq]
  | true =>
    simp only [↓reduceIte, getLoop_eq, List.filter_reverse, List.length_reverse, Option.some.injEq]
    rw [List.take_reverse, List.reverse_reverse]

/-- TypeError exactly for the empty list of terms -/
theorem get_type_error_iff (t : Term) (c : Chk) (num : Option Int) (reverse : Bool) (lines : List Line) :
    get t c num reverse lines = none ↔ t = .many [] := by
  unfold get
  cases t with
  | one s => simp [validSearch]
  | many ws => cases ws <;> simp [validSearch]

/-- `s in parser` (and the `token_scan` attribute): some line satisfies the predicate -/
theorem contains_exact (t : Term) (c : Chk) (lines : List Line) (p : Line → Bool) (hp : validSearch t c = some p) :
    ∃ b, textContains t c lines = some b ∧ (b = true ↔ ∃ l ∈ lines, p l = true) := by
  refine ⟨lines.any p, by simp [textContains, hp], ?_⟩
  simp [List.any_eq_true]

/-- the search predicate: the line contains the string / all (any) of the strings of the list -/
theorem search_pred_spec (t : Term) (c : Chk) (p : Line → Bool) (hp : validSearch t c = some p) (l : Line) :
    p l = true ↔
      match t, c with
      | .one s, _ => contains s l = true
      | .many ws, .all => ∀ w ∈ ws, contains w l = true
      | .many ws, .any => ∃ w ∈ ws, contains w l = true := by
  cases t with
  | one s => simp only [validSearch, Option.some.injEq] at hp; subst hp; simp
  | many ws =>
    cases ws with
    | nil => simp [validSearch] at hp
    | cons w ws =>
      simp only [validSearch, Option.some.injEq] at hp; subst hp
      cases c <;> simp [List.all_eq_true, List.any_eq_true]


example : get (.many ["err".toList, "k".toList]) .all (some 1) true
    ["kernel err".toList, "x".toList, "k err 2".toList] = some ["k err 2".toList] := by decide
example : get (.one "e".toList) .all (some 2) true
    ["e1".toList, "x".toList, "e2".toList, "e3".toList] = some ["e2".toList, "e3".toList] := by decide
example : get (.one "e".toList) .all (some (-1)) false ["e1".toList] = some [] := by decide

/-! ### LogFileOutput.get_after -/

/-- the `s` filter of `get_after`: a falsy `s` (None, "") keeps every line, otherwise the lines containing
the string / ALL strings of the list -/
theorem after_keep_spec (s : Option Term) (keep : Line → Bool) (h : afterKeep s = some keep) (l : Line) :
    keep l = true ↔
      match s with
      | none => True
      | some (.one w) => contains w l = true
      | some (.many ws) => ∀ w ∈ ws, contains w l = true := by
  cases s with
  | none => simp only [afterKeep, Option.some.injEq] at h; subst h; simp
  | some t =>
    cases t with
    | one w =>
      cases w with
      | nil =>
        simp only [afterKeep, validSearch, Option.some.injEq] at h; subst h
        cases l <;> simp [contains, isPrefix]
      | cons c cs => simp only [afterKeep, validSearch, Option.some.injEq] at h; subst h; simp
    | many ws =>
      cases ws with
      | nil => simp [afterKeep, validSearch] at h
      | cons w ws =>
        simp only [afterKeep, validSearch, Option.some.injEq] at h; subst h
        simp [List.all_eq_true]

/-- the resolved time of a line: regular expression + strptime fields (`stamp`), then `resolve` -/
def lineTime (stamp : Line → Option RawStamp) (hasYear : Bool) (thr : Time) (l : Line) : Option Time :=
  (stamp l).bind (resolve hasYear thr)

/-- THE TIME SEARCH.  Over the considered lines (those passing the `s` filter), give every line the time of the
nearest timestamped line at or before it (`owner`; lines before the first stamp have none): the result is
exactly the lines whose owner's time is at or after the threshold, in original order — i.e. the timestamped
lines at or after the threshold plus the un-stamped lines that follow such a line before the next stamped one.
Hypothesis: no stamp conversion raises (see `get_after_error_iff`). -/
theorem get_after_exact (stamp : Line → Option RawStamp) (hasYear : Bool) (thr : Time) (s : Option Term)
    (keep : Line → Bool) (hk : afterKeep s = some keep) (lines : List Line)
    (hok : ∀ l ∈ lines.filter keep, ∀ r, stamp l = some r → resolve hasYear thr r ≠ none) :
    getAfter stamp hasYear thr s lines =
      .ok (((owner (lineTime stamp hasYear thr) none (lines.filter keep)).filter
              (fun e => atOrAfter thr e.2)).map (·.1)) := by
  unfold getAfter
  simp only [hk]
  rw [afterGo_filter]
  have h := afterGo_owner (fun l => (stamp l).map (resolve hasYear thr)) thr none (lines.filter keep)
    (by
      intro l hl
      cases hs : stamp l with
      | none => simp
      | some r => simpa using hok l hl r hs)
  have h0 : atOrAfter thr none = false := rfl
  have : (fun l => ((stamp l).map (resolve hasYear thr)).join) = lineTime stamp hasYear thr := by
    funext l; unfold lineTime; cases stamp l <;> simp
  rw [h0, this] at h
  rw [h]

/-- what `owner` is: position by position, the line's own time if it has one, else the time owned by the
line before it (none at the start) -/
theorem owner_entry (tm : Line → Option Time) (pre : List Line) (l : Line) (post : List Line) :
    owner tm none (pre ++ l :: post) =
      owner tm none pre ++ (l, lastStamp tm none (pre ++ [l])) :: owner tm (lastStamp tm none (pre ++ [l])) post ∧
    lastStamp tm none (pre ++ [l]) = (match tm l with | some t => some t | none => lastStamp tm none pre) ∧
    (owner tm none (pre ++ l :: post)).map (·.1) = pre ++ l :: post :=
  ⟨owner_append tm none pre l post, lastStamp_snoc tm none pre l, owner_lines tm none _⟩

/-- ValueError escapes exactly when a considered line carries a stamp whose conversion raises -/
theorem get_after_error_iff (stamp : Line → Option RawStamp) (hasYear : Bool) (thr : Time) (s : Option Term)
    (keep : Line → Bool) (hk : afterKeep s = some keep) (lines : List Line) :
    getAfter stamp hasYear thr s lines = .valueError ↔
      ∃ l ∈ lines.filter keep, ∃ r, stamp l = some r ∧ resolve hasYear thr r = none := by
  unfold getAfter
  simp only [hk]
  rw [afterGo_filter]
  have h := afterGo_error_iff (fun l => (stamp l).map (resolve hasYear thr)) thr false (lines.filter keep)
  cases hg : afterGo (fun _ => true) (fun l => (stamp l).map (resolve hasYear thr)) thr false (lines.filter keep) with
  | none =>
    simp only [true_iff]
    obtain ⟨l, hl, hs⟩ := h.mp hg
    cases hr : stamp l with
    | none => simp [hr] at hs
    | some r => exact ⟨l, hl, r, hr, by simpa [hr] using hs⟩
  | some res =>
    simp only [reduceCtorEq, false_iff]
    rintro ⟨l, hl, r, hr, hn⟩
    have : afterGo (fun _ => true) (fun l => (stamp l).map (resolve hasYear thr)) thr false (lines.filter keep) = none :=
      h.mpr ⟨l, hl, by simp [hr, hn]⟩
    rw [this] at hg; cases hg

/-- the result of a call is a function of THAT call's arguments only, and of the stamps of its OWN lines only: two
stamp functions (say, the extraction of two processes with different call histories, or the same text read in two
other logs) that agree on the lines of this log give the same result.  There is no other state in the model; the
`get_after-history` stream checks the implementation against this call by call. -/
theorem get_after_depends_only_on_own_lines (stamp₁ stamp₂ : Line → Option RawStamp) (hasYear : Bool) (thr : Time)
    (s : Option Term) (lines : List Line) (h : ∀ l ∈ lines, stamp₁ l = stamp₂ l) :
    getAfter stamp₁ hasYear thr s lines = getAfter stamp₂ hasYear thr s lines := by
  unfold getAfter
  cases afterKeep s with
  | none => rfl
  | some keep =>
    simp only
    have key : ∀ (inc : Bool) (ls : List Line), (∀ l ∈ ls, stamp₁ l = stamp₂ l) →
        afterGo keep (fun l => (stamp₁ l).map (resolve hasYear thr)) thr inc ls =
        afterGo keep (fun l => (stamp₂ l).map (resolve hasYear thr)) thr inc ls := by
      intro inc ls
      induction ls generalizing inc with
      | nil => intro _; rfl
      | cons l ls ih =>
        intro hl
        have h1 := hl l (by simp)
        have ih' := fun inc => ih inc (fun x hx => hl x (by simp [hx]))
        rw [afterGo, afterGo, h1]
        simp only [ih']
    rw [key false lines h]

/-- TypeError exactly for the empty list of terms -/
theorem get_after_type_error_iff (stamp : Line → Option RawStamp) (hasYear : Bool) (thr : Time) (s : Option Term)
    (lines : List Line) : getAfter stamp hasYear thr s lines = .typeError ↔ s = some (.many []) := by
  unfold getAfter
  cases s with
  | none => simp only [afterKeep]; split <;> simp
  | some t =>
    cases t with
    | one w => simp only [afterKeep, validSearch]; split <;> simp
    | many ws =>
      cases ws with
      | nil => simp [afterKeep, validSearch]
      | cons w ws => simp only [afterKeep, validSearch]; split <;> simp

/-! ### year inference -/

/-- the year chosen by lines 1381-1389 -/
def chosenYear (thr : Time) (m d tod : Nat) : Nat :=
  if (Time.mk thr.year m d tod).micros > thr.micros + d330 then thr.year - 1
  else if thr.micros > (Time.mk thr.year m d tod).micros + d330 then thr.year + 1
  else thr.year

/-- year inference: a month/day that exists in 1900 (anything but Feb 29) is placed in the threshold's year,
or in the year before / after when that puts it more than 330 days after / before the threshold;
no exception is possible -/
theorem year_inference (thr : Time) (m d tod : Nat) (hY1 : 2 ≤ thr.year) (hY2 : thr.year ≤ 9998)
    (hv : validDate 1900 m d = true) (ht : tod < usPerDay) :
    resolve false thr ⟨none, m, d, tod⟩ = some ⟨chosenYear thr m d tod, m, d, tod⟩ := by
  unfold resolve inferYear Time.replaceYear chosenYear
  simp only [Option.getD_none, mkTime_of_1900 1900 m d tod (by omega) (by omega) hv ht,
    mkTime_of_1900 thr.year m d tod (by omega) (by omega) hv ht, Bool.false_eq_true, ↓reduceIte]
  split
  · exact mkTime_of_1900 _ m d tod (by omega) (by omega) hv ht
  · split
    · exact mkTime_of_1900 _ m d tod (by omega) (by omega) hv ht
    · rfl

/-- a format with a year: the stamp is taken as it is -/
theorem resolve_with_year (thr : Time) (y m d tod : Nat) :
    resolve true thr ⟨some y, m, d, tod⟩ = mkTime y m d tod := by
  cases h : mkTime y m d tod <;> simp [resolve, h]

/-- two-digit years (`%y`): the conversion is the POSIX pivot.  The result always lies in 1969–2068 and keeps the
two digits; every year of 1969–2068 round-trips through its last two digits, and NO other year does (a year
outside that window cannot be written with `%y`: 2069 written as "69" denotes 1969) -/
theorem pivot_year_spec (yy : Nat) (h : yy < 100) :
    1969 ≤ pivotYear yy ∧ pivotYear yy ≤ 2068 ∧ pivotYear yy % 100 = yy ∧
    (∀ y, pivotYear (y % 100) = y ↔ (1969 ≤ y ∧ y ≤ 2068)) := by
  refine ⟨?_, ?_, ?_, ?_⟩
  · unfold pivotYear; split <;> omega
  · unfold pivotYear; split <;> omega
  · unfold pivotYear; split <;> omega
  · intro y; unfold pivotYear; split <;> omega

example : pivotYear 68 = 2068 ∧ pivotYear 69 = 1969 ∧ pivotYear 0 = 2000 ∧ pivotYear 99 = 1999 := by decide
-- a line written "690113 04:42:44" (%y%m%d) is a line of 1969: not after a threshold in 2067
example : getAfter (fun _ => some (RawStamp.ofTwoDigitYear 69 1 13 16964000000)) true ⟨2067, 12, 5, 3540000001⟩ none
    ["690113 04:42:44 x".toList] = .ok [] := by decide
example : getAfter (fun _ => some (RawStamp.ofTwoDigitYear 68 1 13 16964000000)) true ⟨2067, 12, 5, 3540000001⟩ none
    ["680113 04:42:44 x".toList] = .ok ["680113 04:42:44 x".toList] := by decide

/-- a stamp with a two-digit year is taken in the pivoted year -/
theorem resolve_two_digit_year (thr : Time) (yy m d tod : Nat) :
    resolve true thr (RawStamp.ofTwoDigitYear yy m d tod) = mkTime (pivotYear yy) m d tod :=
  resolve_with_year thr (pivotYear yy) m d tod

def d34 : Nat := 34 * usPerDay

/-- the inference recovers the true date of a yearless stamp whenever the log line is less than 35 days
away from the threshold (in particular across a year boundary), or in the threshold's year and at most 330
days away -/
theorem year_inference_correct (thr : Time) (T : Time) (hY1 : 2 ≤ thr.year) (hY2 : thr.year ≤ 9998)
    (hv : validDate 1900 T.month T.day = true) (ht : T.tod < usPerDay)
    (hclose : (T.year = thr.year ∧ T.micros ≤ thr.micros + 330 * 86400000000 ∧ thr.micros ≤ T.micros + 330 * 86400000000) ∨
              (T.year + 1 = thr.year ∧ thr.micros ≤ T.micros + d34) ∨
              (T.year = thr.year + 1 ∧ T.micros ≤ thr.micros + d34)) :
    resolve false thr ⟨none, T.month, T.day, T.tod⟩ = some T := by
  rw [year_inference thr T.month T.day T.tod hY1 hY2 hv ht]
  obtain ⟨yT, mT, dT, todT⟩ := T
  simp only at hv ht hclose ⊢
  have e1 : (Time.mk thr.year mT dT todT).micros = ordinal thr.year mT dT * 86400000000 + todT := rfl
  have e2 : thr.micros = ordinal thr.year thr.month thr.day * 86400000000 + thr.tod := rfl
  have e3 : d330 = 28512000000000 := by decide
  have e4 : d34 = 2937600000000 := by decide
  have e5 : (Time.mk yT mT dT todT).micros = ordinal yT mT dT * 86400000000 + todT := rfl
  rw [e2, e5] at hclose
  unfold chosenYear
  rcases hclose with ⟨hy, h1, h2⟩ | ⟨hy, h1⟩ | ⟨hy, h1⟩
  · subst hy
    rw [if_neg (by rw [e1, e2, e3]; omega), if_neg (by rw [e1, e2, e3]; omega)]
  · have ho := (ordinal_succ_year yT mT dT (by omega)).1
    rw [hy] at ho
    rw [if_pos (by rw [e1, e2, e3]; omega)]
    have : thr.year - 1 = yT := by omega
    rw [this]
  · have ho := (ordinal_succ_year thr.year mT dT (by omega)).1
    rw [← hy] at ho
    rw [if_neg (by rw [e1, e2, e3]; omega), if_pos (by rw [e1, e2, e3]; omega), hy]


-- hypotheses of `year_inference_correct` are met across a year boundary: threshold 2024-01-02, line of 2023-12-31
example : validDate 1900 12 31 = true ∧ (2023 + 1 = (Time.mk 2024 1 2 0).year ∧
    (Time.mk 2024 1 2 0).micros ≤ (Time.mk 2023 12 31 5).micros + d34) := by decide
-- … and fail for Feb 29 (the excluded case)
example : validDate 1900 2 29 = false := by decide

/-- FULL STATEMENT for logs without a year: if every stamp of the log is a date that exists in the threshold's
year, `get_after` does not raise.  False of the current code (known finding feb29-yearless): strptime builds
the date in 1900 first, so Feb 29 raises whatever the threshold's year. -/
def GetAfterTotalOnValidDates : Prop :=
  ∀ (stamp : Line → Option RawStamp) (thr : Time) (lines : List Line),
    2 ≤ thr.year → thr.year ≤ 9998 →
    (∀ l ∈ lines, ∀ r, stamp l = some r → r.year = none ∧ validDate thr.year r.month r.day = true ∧ r.tod < usPerDay) →
    getAfter stamp false thr none lines ≠ .valueError

theorem get_after_feb29_witness : ¬ GetAfterTotalOnValidDates := by
  intro h
  have := h (fun _ => some ⟨none, 2, 29, 36000000000⟩) ⟨2024, 2, 28, 0⟩ ["Feb 29 10:00:00 x".toList]
    (by decide) (by decide) (by
      intro l _ r hr
      simp only [Option.some.injEq] at hr; subst hr
      decide)
  exact this (by decide)

/-- what does hold: if every stamp is a month/day that exists in a non-leap year (anything but Feb 29), no
exception escapes -/
theorem get_after_total_partial (stamp : Line → Option RawStamp) (thr : Time) (s : Option Term)
    (keep : Line → Bool) (hk : afterKeep s = some keep) (lines : List Line)
    (hY1 : 2 ≤ thr.year) (hY2 : thr.year ≤ 9998)
    (hv : ∀ l ∈ lines, ∀ r, stamp l = some r → r.year = none ∧ validDate 1900 r.month r.day = true ∧ r.tod < usPerDay) :
    getAfter stamp false thr s lines ≠ .valueError := by
  intro he
  obtain ⟨l, hl, r, hr, hn⟩ := (get_after_error_iff stamp false thr s keep hk lines).mp he
  obtain ⟨h1, h2, h3⟩ := hv l (List.mem_filter.mp hl).1 r hr
  obtain ⟨y, m, d, tod⟩ := r
  simp only at h1 h2 h3; subst h1
  rw [year_inference thr m d tod hY1 hY2 h2 h3] at hn
  cases hn

example : getAfter (fun _ => some ⟨none, 2, 28, 0⟩) false ⟨2024, 2, 28, 0⟩ none ["Feb 28 00:00:00 x".toList]
    = .ok ["Feb 28 00:00:00 x".toList] := by decide
example : resolve false ⟨2024, 1, 2, 0⟩ ⟨none, 12, 31, 0⟩ = some ⟨2023, 12, 31, 0⟩ := by decide
example : resolve false ⟨2023, 12, 30, 0⟩ ⟨none, 1, 1, 0⟩ = some ⟨2024, 1, 1, 0⟩ := by decide
example : resolve false ⟨2024, 6, 1, 0⟩ ⟨none, 1, 1, 0⟩ = some ⟨2024, 1, 1, 0⟩ := by decide
example : getAfter (fun l => if l = "s1".toList then some ⟨none, 1, 1, 5⟩ else if l = "s0".toList then some ⟨none, 12, 31, 5⟩ else none)
    false ⟨2024, 1, 1, 0⟩ none ["c0".toList, "s0".toList, "c1".toList, "s1".toList, "c2".toList]
    = .ok ["s1".toList, "c2".toList] := by decide

end IV.BaseParsers
