import IV.Lemmas.Paths
/-!
C06 — collection stays in its root, honours the deny list, writes only to the archive.

(A) containment  : `accept_sound`, `acceptOld_witness`, `mkFile_contained`, `factories_contained`
(B) deny list    : `denyMatch_iff`, `deny_match_spec`, `allow_perm`, `factories_respect_deny`, `trace_no_denied`,
                   `apply_blacklist_files`
(B') validate()  : `validate_ok_allowed`, `validate_deny_reached` (the deny check is reached on every path through the
                   ordered checks of FileProvider / CommandOutputProvider.validate), `mkFile_checks`, `mkCmd_checks`
(B'') fail-closed: `apply_blacklist_seq_complete`, `apply_blacklist_seq_abort_iff`, `apply_blacklist_seq_wellformed`,
                   `collect_fail_closed`, `collect_abort_runs_nothing`, `collect_honours_user_entries` (end to end)
(C) persistence  : `dst_confined_partial`, `DstConfined` (full statement, FALSE of the code) + `dst_witness`,
                   `file_rel_relative`, `cmd_rel_relative`, `mangle_single_component`, `hydration_paths_confined`
All statements are over the model `IV.Paths` for every file-system answer `Fs`, every deny list,
every factory and every string.
-/
namespace IV.Paths

/-! ## (A) containment -/

/-- The comparison of `FileProvider.validate` accepts exactly when the resolved root is a component-wise
prefix of the resolved path — for every root (including "/") and every path. -/
theorem accept_sound (r p : List Str) (hr : ∀ n ∈ r, ValidName n) (hp : ∀ n ∈ p, ValidName n) :
    accept (render r) (render p) = true ↔ r <+: p := by
  cases r with
  | nil =>
    -- root "/" : rstrip gives "", the test is `resolved.startswith("/")`
    have : accept (render []) (render p) = true := by
      cases p with
      | nil => simp [accept, render]
      | cons m p' => simp [accept, render, renderNE, startsWith, rstripSep]
    simp [this]
  | cons n r' =>
    obtain ⟨s, c, hs, hc⟩ := renderNE_ends (n :: r') (by simp) hr
    have hstrip : rstripSep (render (n :: r')) = render (n :: r') := by
      simp only [render]; rw [hs]; exact rstripSep_concat s c hc
    have hR := R_prefix_iff (n :: r') p hr hp
    unfold accept
    rw [hstrip, Bool.or_eq_true, startsWith_iff, beq_iff_eq, ← hR]
    cases p with
    | nil =>
      -- resolved = "/" can be neither the root nor below it
      have hv := hr n (by simp)
      have hlen : 2 ≤ (renderNE (n :: r')).length := by
        rw [renderNE_cons]
        simp only [List.length_cons, List.length_append]
        have : 0 < n.length := List.length_pos_iff.mpr hv.1
        omega
      constructor
      · rintro (h | h)
        · have := congrArg List.length h
          simp only [render, List.length_cons, List.length_nil] at this
          omega
        · have := h.length_le
          simp only [render, List.length_cons, List.length_nil, List.length_append] at this
          omega
      · intro h
        have := h.length_le
        simp only [R, renderNE, List.flatMap_nil, List.nil_append, List.length_cons, List.length_nil,
          List.length_append] at this hlen
        omega
    | cons m p' =>
      simp only [render, R]
      rw [prefix_concat]
      constructor
      · rintro (h | h)
        · right; rw [h]
        · left; exact h
      · rintro (h | h)
        · right; exact h
        · left; exact (List.append_cancel_right h).symm

example : accept (render ["t".toList, "root".toList]) (render ["t".toList, "root".toList, "etc".toList, "passwd".toList]) = true := by decide
example : accept (render []) (render ["etc".toList]) = true := by decide

/-- The comparison used before repair e56526f (`resolved.startswith(real_root)`) accepted a sibling that
shares the root's name as a prefix; the repaired comparison rejects it. -/
theorem acceptOld_witness :
    acceptOld (render ["t".toList, "root".toList]) (render ["t".toList, "root2".toList, "secret".toList]) = true
    ∧ ¬ (["t".toList, "root".toList] <+: ["t".toList, "root2".toList, "secret".toList])
    ∧ accept (render ["t".toList, "root".toList]) (render ["t".toList, "root2".toList, "secret".toList]) = false := by
  refine ⟨by decide, by decide, by decide⟩

/-- every provider `mkFile` constructs lies in the root: if the two `realpath` answers are canonical
renderings of component lists, the root's list is a prefix of the file's -/
theorem mkFile_contained (fs : Fs) (ctx : Ctx) (sp : Spec) (arg : Str) (p : Prov)
    (r q : List Str) (hr : ∀ n ∈ r, ValidName n) (hq : ∀ n ∈ q, ValidName n)
    (hroot : fs.realpath ctx.root = render r)
    (h : mkFile fs ctx sp arg = .ok p) (hpath : fs.realpath (join p.root p.rel) = render q) :
    r <+: q := by
  unfold mkFile at h
  simp only [] at h
  split at h; · cases h
  split at h; · cases h
  split at h; · cases h
  split at h; · cases h
  split at h; · cases h
  rename_i hacc _
  cases h
  simp only [] at hpath
  rw [hroot, hpath] at hacc
  simp only [Bool.not_eq_true, Bool.not_eq_false] at hacc
  exact (accept_sound r q hr hq).mp (by simpa using hacc)

/-- (A) for every factory kind: a file provider that is returned resolves inside the resolved root -/
theorem factories_contained (isWord : Char → Bool) (fs : Fs) (ctx : Ctx) (sp : Spec) (f : Factory)
    (ps : List Prov) (h : f.run isWord fs ctx sp = .ok ps)
    (r : List Str) (hr : ∀ n ∈ r, ValidName n) (hroot : fs.realpath ctx.root = render r) :
    ∀ p ∈ ps, p.kind = .file → ∀ q, (∀ n ∈ q, ValidName n) →
      fs.realpath (join p.root p.rel) = render q → r <+: q := by
  intro p hp hk q hq hpath
  obtain ⟨arg, harg⟩ := file_prov_from_mkFile isWord fs ctx sp f ps h p hp hk
  exact mkFile_contained fs ctx sp arg p r q hr hq hroot harg hpath

/-- non-vacuity: a factory run that returns a provider under a root whose rendering is canonical -/
example :
    (match (Factory.simpleFile "/etc/passwd".toList).run isWordAscii
        { exists_ := fun _ => true, realpath := id, readable := fun _ => true, isDir := fun _ => false,
          glob := fun _ => [], cmdOk := fun _ => none }
        { host := false, root := "/r".toList, denyFiles := [], denyCmds := [] } {} with
      | .ok ps => ps.map (fun p => join p.root p.rel)
      | .error _ => []) = ["/r/etc/passwd".toList] := by decide

/-- … and one that is refused because the resolved path is in the prefix-sharing sibling -/
example :
    (match (Factory.simpleFile "link".toList).run isWordAscii
        { exists_ := fun _ => true, realpath := fun p => if p = "/t/root/link".toList then "/t/root2/secret".toList else p,
          readable := fun _ => true, isDir := fun _ => false, glob := fun _ => [], cmdOk := fun _ => none }
        { host := false, root := "/t/root".toList, denyFiles := [], denyCmds := [] } {} with
      | .ok _ => none
      | .error e => some e) = some Err.outside := by decide

/-! ## (B) deny list -/

/-- exact characterisation of one deny entry: the candidate equals it or continues it with a space -/
theorem denyMatch_iff (f c : Str) : denyMatch f c = true ↔ c = f ∨ f ++ [' '] <+: c := by
  unfold denyMatch
  rw [Bool.and_eq_true, startsWith_iff]
  constructor
  · rintro ⟨⟨t, rfl⟩, h⟩
    rw [Bool.or_eq_true] at h
    rcases h with h | h
    · left
      have hl : (f ++ t).length = f.length := beq_iff_eq.mp h
      rw [List.length_append] at hl
      have : t = [] := List.length_eq_zero_iff.mp (by omega)
      simp [this]
    · right
      cases t with
      | nil => simp at h
      | cons a t' =>
        simp at h
        subst h
        exact ⟨t', by simp⟩
  · rintro (rfl | ⟨t, rfl⟩)
    · exact ⟨List.prefix_refl _, by simp⟩
    · refine ⟨⟨' ' :: t, by simp⟩, ?_⟩
      simp

/-- `allow_file` / `allow_command`: refused exactly when some deny entry equals the candidate or is
followed in it by a space -/
theorem deny_match_spec (deny : List Str) (c : Str) :
    allow deny c = false ↔ ∃ f ∈ deny, c = f ∨ f ++ [' '] <+: c := by
  unfold allow
  simp only [Bool.not_eq_false', List.any_eq_true, denyMatch_iff]

example : allow ["/etc/passwd".toList] "/etc/passwd".toList = false := by decide
example : allow ["/bin/ls".toList] "/bin/ls -l /root".toList = false := by decide
example : allow ["/bin/ls".toList] "/bin/lsblk".toList = true := by decide

/-- the deny sets are Python `set`s: the answer does not depend on their iteration order -/
theorem allow_perm (d d' : List Str) (h : d.Perm d') (c : Str) : allow d c = allow d' c := by
  have : ∀ x, (allow x c = false ↔ ∃ f ∈ x, c = f ∨ f ++ [' '] <+: c) := fun x => deny_match_spec x c
  cases h1 : allow d c <;> cases h2 : allow d' c <;> try rfl
  · obtain ⟨f, hf, hm⟩ := (this d).mp h1
    have := (this d').mpr ⟨f, h.mem_iff.mp hf, hm⟩
    rw [h2] at this; cases this
  · obtain ⟨f, hf, hm⟩ := (this d').mp h2
    have := (this d).mpr ⟨f, h.mem_iff.mpr hf, hm⟩
    rw [h1] at this; cases this

/-- (B) During host collection, for every factory kind, every deny list and every file-system answer:
no provider is returned whose file / command the deny list names. -/
theorem factories_respect_deny (isWord : Char → Bool) (fs : Fs) (ctx : Ctx) (sp : Spec) (f : Factory)
    (hh : ctx.host = true) (ps : List Prov) (h : f.run isWord fs ctx sp = .ok ps) :
    ∀ p ∈ ps, p.load.denied ctx = false := by
  intro p hp
  cases f with
  | simpleFile path =>
    simp only [Factory.run] at h
    cases hm : mkFile fs ctx sp path with
    | error e => simp [hm, Except.map] at h
    | ok q => simp [hm, Except.map] at h; subst h; simp at hp; subst hp; exact mkFile_allowed _ _ _ _ _ hh hm
  | globFile patterns =>
    simp only [Factory.run] at h
    split at h
    · rename_i qs hqs
      split at h; · cases h
      cases h
      obtain ⟨x, _, hx⟩ := collectLoop_mem _ _ _ (nonEmpty_ok _ _ hqs) p hp
      exact mkFile_allowed _ _ _ _ _ hh hx
    · cases h
  | firstFile paths =>
    simp only [Factory.run] at h
    obtain ⟨x, _, hx⟩ := firstLoop_mem _ _ _ h p hp
    exact mkFile_allowed _ _ _ _ _ hh hx
  | foreachCollect tmpl items =>
    simp only [Factory.run] at h
    obtain ⟨x, hx⟩ := foreachLoop_mem _ _ _ _ _ (nonEmpty_ok _ _ h) p hp
    exact mkFile_allowed _ _ _ _ _ hh hx
  | simpleCommand cmd =>
    simp only [Factory.run] at h
    cases hm : mkCmd isWord fs ctx sp .command cmd with
    | error e => simp [hm, Except.map] at h
    | ok q =>
      simp [hm, Except.map] at h; subst h; simp at hp; subst hp
      exact mkCmd_allowed _ _ _ _ _ (by decide) _ _ hh hm
  | commandWithArgs tmpl args =>
    simp only [Factory.run] at h
    split at h; · cases h
    split at h
    · rename_i q hq
      cases h; simp at hp; subst hp
      exact mkCmd_allowed _ _ _ _ _ (by decide) _ _ hh hq
    · cases h
    · cases h
  | foreachExecute tmpl items =>
    simp only [Factory.run] at h
    obtain ⟨x, _, hx⟩ := collectLoop_mem _ _ _ (nonEmpty_ok _ _ h) p hp
    split at hx
    · exact mkCmd_allowed _ _ _ _ _ (by decide) _ _ hh hx
    · cases hx
  | containerExecute tmpl items =>
    simp only [Factory.run] at h
    obtain ⟨x, _, hx⟩ := collectLoop_mem _ _ _ (nonEmpty_ok _ _ h) p hp
    split at hx
    · exact mkCmd_allowed _ _ _ _ _ (by decide) _ _ hh hx
    · cases hx
  | containerCollect tmpl items =>
    simp only [Factory.run] at h
    obtain ⟨x, _, hx⟩ := collectLoop_mem _ _ _ (nonEmpty_ok _ _ h) p hp
    split at hx
    · exact mkCmd_allowed _ _ _ _ _ (by decide) _ _ hh hx
    · cases hx

/-- (B) the open/exec trace of evaluating any datasource and reading all it returned contains no denied entry -/
theorem trace_no_denied (isWord : Char → Bool) (fs : Fs) (ctx : Ctx) (sp : Spec) (f : Factory)
    (hh : ctx.host = true) : ∀ ev ∈ f.trace isWord fs ctx sp, ev.denied ctx = false := by
  intro ev hev
  unfold Factory.trace at hev
  split at hev
  · rename_i ps hps
    obtain ⟨p, hp, rfl⟩ := List.mem_map.mp hev
    exact factories_respect_deny isWord fs ctx sp f hh ps hps p hp
  · simp at hev

/-- a concrete run: two of three globbed files are kept, the denied one yields no provider and no event -/
example :
    let fs : Fs := { exists_ := fun _ => true, realpath := id, readable := fun _ => true, isDir := fun _ => false,
                     glob := fun _ => ["/r/a".toList, "/r/b".toList, "/r/c".toList], cmdOk := fun _ => some true }
    let ctx : Ctx := { host := true, root := "/r".toList, denyFiles := ["/b".toList], denyCmds := [] }
    (Factory.globFile ["/*".toList]).trace isWordAscii fs ctx {} =
      [.open_ "/r".toList "a".toList, .open_ "/r".toList "c".toList] := by decide

/-! ### apply_blacklist -/

/-- a configured file entry that is not a spec's symbolic name always ends up in the file deny set
(so, by `deny_match_spec`, the constructors refuse it) -/
theorem apply_blacklist_files (isSpec isComp : Str → Bool) (files commands components : List Str) (f : Str)
    (hf : f ∈ files) (hs : isSpec f = false) :
    f ∈ (applyBlacklist isSpec isComp files commands components).files := by
  unfold applyBlacklist
  simp only []
  have h1 := (foldl_files_mem isSpec "insights.specs.default.DefaultSpecs.".toList files {} f).mpr (Or.inr ⟨hf, hs⟩)
  -- the two later folds never touch `.files`
  have keep2 : ∀ (xs : List Str) (d : Deny),
      (xs.foldl (fun d c => if isSpec c then { d with disabled := d.disabled ++ ["insights.specs.default.DefaultSpecs.".toList ++ c] }
                             else { d with commands := d.commands ++ [c] }) d).files = d.files := by
    intro xs; induction xs with
    | nil => intro d; rfl
    | cons x xs ih => intro d; simp only [List.foldl_cons]; rw [ih]; split <;> rfl
  have keep3 : ∀ (xs : List Str) (d : Deny),
      (xs.foldl (fun d c => if isComp c then { d with disabled := d.disabled ++ [c] } else d) d).files = d.files := by
    intro xs; induction xs with
    | nil => intro d; rfl
    | cons x xs ih => intro d; simp only [List.foldl_cons]; rw [ih]; split <;> rfl
  rw [keep3, keep2]
  exact h1

example : (applyBlacklist (fun s => s == "hostname".toList) (fun _ => false)
            ["/etc/passwd".toList, "hostname".toList] ["/bin/ls".toList] []).files = ["/etc/passwd".toList] := by decide

/-! ## (C) persistence -/

/-- `rel` has no ".." component -/
def NoDotDot (rel : Str) : Prop := ['.', '.'] ∉ splitSep rel

/-- If the relative path is relative and has no ".." component, the destination `join(out, rel)` names a
location beneath `out` (for every output directory string, with or without a trailing '/'). -/
theorem dst_confined_partial (out rel : Str) (hrel : startsWith rel ['/'] = false) (hdd : NoDotDot rel) :
    norm out <+: norm (dst out rel) := by
  unfold dst join
  rw [if_neg (by simp [hrel])]
  split
  · rename_i h
    rw [Bool.or_eq_true] at h
    rcases h with h | h
    · have : out = [] := by simpa using h
      subst this
      simp [norm, splitSep, normStep]
    · -- out = o ++ "/"
      unfold endsSep at h
      rcases List.eq_nil_or_concat out with rfl | ⟨o, c, rfl⟩
      · simp at h
      · rw [List.concat_eq_append] at h ⊢
        have hc : c = '/' := by simpa using h
        subst hc
        have e1 : norm (o ++ ['/']) = (splitSep o).foldl normStep [] := by
          unfold norm
          rw [splitSep_append_sep]
          simp [splitSep, normStep, List.foldl_append]
        have e2 : norm (o ++ ['/'] ++ rel) = (splitSep rel).foldl normStep ((splitSep o).foldl normStep []) := by
          unfold norm
          rw [List.append_assoc, List.singleton_append, splitSep_append_sep, List.foldl_append]
        rw [e1, e2]
        exact foldl_normStep_prefix _ _ hdd
  · unfold norm
    rw [splitSep_append_sep, List.foldl_append]
    exact foldl_normStep_prefix _ _ hdd

example : NoDotDot "etc/sub/file".toList ∧ startsWith "etc/sub/file".toList ['/'] = false := by
  unfold NoDotDot; decide

/-- the full statement (every relative path), FALSE of the current code: known finding `dotdot-destination` -/
def DstConfined : Prop := ∀ out rel : Str, startsWith rel ['/'] = false → norm out <+: norm (dst out rel)

/-- `../../tmp/x/f` under `/var/tmp/out/data` is persisted at `/var/tmp/tmp/x/f` -/
theorem dst_witness : ¬ DstConfined := by
  intro h
  have := h "/var/tmp/out/data".toList "../../tmp/x/f".toList (by decide)
  revert this
  decide

/-- What the file serializers record as relative path stays relative: `relative_path` has its leading
slashes stripped by the provider constructor, `save_as` by the factory (simple_file / first_file rule). -/
theorem file_rel_relative (arg : Str) (saveRaw : Option Str) (b : Str) (hb : startsWith b ['/'] = false) :
    startsWith (serRel .file (lstripSep arg) (saveAsFile saveRaw)) ['/'] = false
    ∧ (∀ s, truthy (saveAsFile saveRaw) = some s → startsWith (join s b) ['/'] = false) := by
  have key : ∀ s, truthy (saveAsFile saveRaw) = some s → s ≠ [] ∧ startsWith s ['/'] = false := by
    intro s hs
    obtain ⟨h1, hne⟩ := (truthy_some _ _).mp hs
    unfold saveAsFile at h1
    obtain ⟨raw, _, hraw⟩ := Option.map_eq_some_iff.mp h1
    exact ⟨hne, by rw [← hraw]; exact lstripSep_rel raw⟩
  constructor
  · unfold serRel
    simp only []
    split
    · exact lstripSep_rel arg
    · rename_i s hs
      obtain ⟨hne, hrel⟩ := key s hs
      split
      · exact join_rel s _ hne hrel (by
          -- a basename contains no '/'
          unfold basename
          cases hg : (splitSep (lstripSep arg)).getLast? with
          | none => rfl
          | some x =>
            simp only [Option.getD]
            cases x with
            | nil => rfl
            | cons c t =>
              have hmem : (c :: t) ∈ splitSep (lstripSep arg) := List.mem_of_getLast? hg
              have : ∀ (s : Str), ∀ w ∈ splitSep s, '/' ∉ w := by
                intro s
                induction s with
                | nil => intro w hw; simp [splitSep] at hw; subst hw; simp
                | cons d ds ih =>
                  intro w hw
                  unfold splitSep at hw
                  split at hw
                  · rcases List.mem_cons.mp hw with rfl | hw'
                    · simp
                    · exact ih w hw'
                  · rename_i hd
                    split at hw
                    · simp at hw; subst hw; simpa using Ne.symm hd
                    · rename_i hh tt heq
                      rcases List.mem_cons.mp hw with rfl | hw'
                      · have := ih hh (by rw [heq]; simp)
                        simp only [List.mem_cons, not_or]
                        exact ⟨Ne.symm hd, this⟩
                      · exact ih w (by rw [heq]; simp [hw'])
              have hc := this _ _ hmem
              simp only [startsWith, List.isPrefixOf, Bool.and_true]
              simpa using fun e => hc (List.mem_cons.mpr (Or.inl e)))
      · exact hrel
  · intro s hs
    obtain ⟨hne, hrel⟩ := key s hs
    exact join_rel s b hne hrel hb

example : serRel .file (lstripSep "//etc/x".toList) (saveAsFile (some "/d/".toList)) = "d/x".toList := by decide
example : serRel .command "ls_-l".toList (saveAsCmd (some "/d/x/".toList)) = "insights_commands/d/x".toList := by decide

/-! ### mangle_command -/

/-- The mangled command name is a single path component: it contains no '/', and it does not begin with
'.' (so it is neither "." nor ".."), whatever the command and whatever `\w` contains. -/
theorem mangle_single_component (isWord : Char → Bool) (cmd : Str) :
    '/' ∉ mangle isWord cmd ∧ (mangle isWord cmd).head? ≠ some '.' := by
  unfold mangle
  simp only []
  constructor
  · intro h
    have h1 := List.mem_of_mem_take h
    have h2 : '/' ∈ List.dropWhile stripSet _ := (stripMangle_prefix _).subset h1
    have h3 := (List.dropWhile_sublist _).subset h2
    obtain ⟨c, _, hc⟩ := List.mem_map.mp h3
    by_cases e : (c == '/') = true
    · simp [e] at hc
    · simp only [e] at hc
      simp at hc; subst hc; simp at e
  · intro h
    generalize hm : (List.map (fun c => if (c == '/') = true then '.' else c) _) = m at h
    cases hs : stripMangle m with
    | nil => simp [hs] at h
    | cons a t =>
      rw [hs] at h
      simp at h
      subst h
      obtain ⟨u, hu⟩ := stripMangle_prefix m
      rw [hs] at hu
      have := dropWhile_head m '.' (t ++ u) (by rw [← hu]; simp)
      simp [stripSet] at this

example : mangle isWordAscii "/bin/cat /etc/../x y  z".toList = "cat_.etc....x_y_z".toList := by decide

/-- The relative path a COMMAND serializer records never begins with '/', for every command line, every `\w` class and
every `save_as` as the factories normalise it (`strip("/")`): `os.path.join(root, rel)` never discards the output root. -/
theorem cmd_rel_relative (isWord : Char → Bool) (cmd : Str) (saveRaw : Option Str) :
    startsWith (serRel .command (mangle isWord cmd) (saveAsCmd saveRaw)) ['/'] = false := by
  have hic : ("insights_commands".toList : Str) ≠ [] := by decide
  have hir : startsWith "insights_commands".toList ['/'] = false := by decide
  have hm : startsWith (mangle isWord cmd) ['/'] = false := by
    have := (mangle_single_component isWord cmd).1
    cases hmm : mangle isWord cmd with
    | nil => simp [startsWith, List.isPrefixOf]
    | cons c t =>
      rw [hmm] at this
      have : c ≠ '/' := by intro e; subst e; simp at this
      simp [startsWith, List.isPrefixOf, Ne.symm this]
  unfold serRel
  simp only []
  split
  · exact join_rel _ _ hic hir hm
  · rename_i s hs
    obtain ⟨h1, hne⟩ := (truthy_some _ _).mp hs
    unfold saveAsCmd at h1
    obtain ⟨raw, _, hraw⟩ := Option.map_eq_some_iff.mp h1
    have hrel : startsWith s ['/'] = false := by
      rw [← hraw]; unfold stripSep; exact rstripSep_rel _ (lstripSep_rel raw)
    have hpre : startsWith (join "insights_commands".toList s) ['/'] = false := join_rel _ _ hic hir hrel
    split
    · have hne' : join "insights_commands".toList s ≠ [] := by
        unfold join
        rw [if_neg (by simp [hrel])]
        split <;> simp
      refine join_rel _ _ hne' hpre ?_
      -- the basename of a mangled name (no '/') is the name itself or empty: in any case it has no leading '/'
      have hb : ∀ w ∈ splitSep (mangle isWord cmd), startsWith w ['/'] = false := by
        intro w hw
        have : ∀ (s : Str), '/' ∉ s → splitSep s = [s] := by
          intro s
          induction s with
          | nil => intro _; rfl
          | cons d ds ih =>
            intro hd
            have hd1 : d ≠ '/' := by intro e; subst e; simp at hd
            have hd2 : '/' ∉ ds := by intro e; exact hd (List.mem_cons_of_mem _ e)
            unfold splitSep
            rw [if_neg hd1, ih hd2]
        rw [this _ (mangle_single_component isWord cmd).1] at hw
        simp at hw; subst hw; exact hm
      unfold basename
      cases hg : (splitSep (mangle isWord cmd)).getLast? with
      | none => rfl
      | some x => exact hb x (List.mem_of_getLast? hg)
    · exact hpre

example : serRel .command (mangle isWordAscii "/bin/ls -l /".toList) (saveAsCmd (some "//d/".toList)) = "insights_commands/d".toList := by decide

/-- Hydration's own paths: `data_root` and the metadata file of a component lie beneath the root it was given,
for every root string and every component name without '/' and not a dot name -/
theorem hydration_paths_confined (root name : Str) (hn : '/' ∉ name) :
    norm root <+: norm (dataRoot root) ∧ norm root <+: norm (metaPath root name) := by
  constructor
  · exact dst_confined_partial root _ (by decide) (by unfold NoDotDot; decide)
  · unfold metaPath
    have h1 : norm root <+: norm (join root "meta_data".toList) :=
      dst_confined_partial root _ (by decide) (by unfold NoDotDot; decide)
    refine h1.trans (dst_confined_partial _ _ ?_ ?_)
    · cases name with
      | nil => decide
      | cons c t =>
        have : c ≠ '/' := by intro e; exact hn (by simp [e])
        simp [startsWith, List.isPrefixOf, Ne.symm this]
    · -- a string without '/' is a single component; it ends in ".json", so it is not ".."
      unfold NoDotDot
      have single : ∀ (s : Str), '/' ∉ s → splitSep s = [s] := by
        intro s
        induction s with
        | nil => intro _; rfl
        | cons c t ih =>
          intro h
          have hc : c ≠ '/' := by intro e; exact h (by simp [e])
          have ht : '/' ∉ t := by intro e; exact h (by simp [e])
          rw [splitSep, if_neg hc, ih ht]
      rw [single]
      · intro h
        have := List.mem_singleton.mp h
        have hl := congrArg List.length this
        simp only [List.length_cons, List.length_nil, List.length_append] at hl
        have : ".json".toList.length = 5 := by decide
        omega
      · intro h
        rcases List.mem_append.mp h with h | h
        · exact hn h
        · revert h; decide

example : norm (metaPath "/out".toList "a.b".toList) = ["out".toList, "meta_data".toList, "a.b.json".toList] := by decide
example : allow ["a".toList, "b".toList] "b c".toList = allow ["b".toList, "a".toList] "b c".toList := by decide

/-! ## (B') the deny check is reached on every path through validate() -/

/-- Whatever `filterable` / `hasFilters` / containment / readability are: when validate() of a file or of a command
provider returns normally under a host context, the deny list allowed the candidate. -/
theorem validate_ok_allowed (i : VIn) (cs : List VCheck) (hcs : cs = fileChecks ∨ cs = cmdChecks)
    (hh : i.host = true) (hok : runChecks i cs = .ok ()) : i.allowed = true := by
  rcases hcs with rfl | rfl <;>
  · simp only [fileChecks, cmdChecks, runChecks, VCheck.fails, hh] at hok
    cases hf : i.found <;> cases hfl : i.filterable <;> cases hx : i.hasFilters <;> cases ha : i.allowed <;>
      simp [hf, hfl, hx, ha] at hok ⊢

example : runChecks { found := true, host := true, filterable := true, hasFilters := true, allowed := true } fileChecks = .ok () := by
  rfl

/-- The deny check is REACHED whenever the earlier checks pass: the target exists and the "filterable without
filters" guard does not fire — in particular for `filterable = true` with filters registered, and for
`filterable = false` with or without filters — a denied candidate ends validate() with BlacklistedSpec, before
containment / readability are looked at and before anything is opened or executed. -/
theorem validate_deny_reached (i : VIn) (cs : List VCheck) (hcs : cs = fileChecks ∨ cs = cmdChecks)
    (hh : i.host = true) (hf : i.found = true) (hg : (i.filterable && !i.hasFilters) = false)
    (hd : i.allowed = false) : runChecks i cs = .error .blacklisted := by
  rcases hcs with rfl | rfl <;>
    simp [fileChecks, cmdChecks, runChecks, VCheck.fails, hh, hf, hg, hd]

example : runChecks { found := true, host := true, filterable := true, hasFilters := true, allowed := false,
                      contained := false, readable := false } fileChecks = .error .blacklisted := by rfl
example : runChecks { found := true, host := true, filterable := false, hasFilters := true, allowed := false } cmdChecks
    = .error .blacklisted := by rfl

/-- `mkFile` (the constructor used by every file factory) IS this sequence of checks, for every split of its
`noFilters` flag into `filterable` and `hasFilters`. -/
theorem mkFile_checks (fs : Fs) (ctx : Ctx) (sp : Spec) (filterable hasFilters : Bool) (arg : Str) :
    mkFile fs ctx { sp with noFilters := filterable && !hasFilters } arg =
      match runChecks (fileVIn fs ctx filterable hasFilters arg) fileChecks with
      | .ok _ => .ok { kind := .file, root := ctx.root, rel := lstripSep arg, cmd := [], saveAs := sp.saveAs }
      | .error e => .error e := by
  simp only [mkFile, fileVIn, fileChecks, runChecks, VCheck.fails]
  cases fs.exists_ (join ctx.root (lstripSep arg)) <;> cases ctx.host <;> cases filterable <;> cases hasFilters <;>
    cases allow ctx.denyFiles ('/' :: lstripSep arg) <;>
    cases accept (fs.realpath ctx.root) (fs.realpath (join ctx.root (lstripSep arg))) <;>
    cases fs.readable (join ctx.root (lstripSep arg)) <;> rfl

example :
    let fs : Fs := { exists_ := fun _ => true, realpath := id, readable := fun _ => true, isDir := fun _ => false,
                     glob := fun _ => [], cmdOk := fun _ => some true }
    (mkFile fs ⟨true, "/r".toList, ["/a".toList], []⟩ { noFilters := true && !true } "/a".toList).toOption.isSome = false := by
  rfl

/-- the command constructor is the three-check sequence (once the command line parses and its relative path exists) -/
theorem mkCmd_checks (isWord : Char → Bool) (fs : Fs) (ctx : Ctx) (sp : Spec) (filterable hasFilters : Bool)
    (cmd : Str) (b : Bool) (hb : fs.cmdOk cmd = some b) (p : Prov)
    (h : mkCmd isWord fs ctx { sp with noFilters := filterable && !hasFilters } .command cmd = .ok p) :
    runChecks { found := b, host := ctx.host, filterable := filterable, hasFilters := hasFilters,
                allowed := allow ctx.denyCmds cmd } cmdChecks = .ok () := by
  simp only [mkCmd, hb] at h
  simp only [cmdChecks, runChecks, VCheck.fails]
  cases b <;> cases hh : ctx.host <;> cases filterable <;> cases hasFilters <;> cases ha : allow ctx.denyCmds cmd <;>
    simp [hh, ha] at h ⊢

example :
    let fs : Fs := { exists_ := fun _ => true, realpath := id, readable := fun _ => true, isDir := fun _ => false,
                     glob := fun _ => [], cmdOk := fun _ => some true }
    (mkCmd isWordAscii fs ⟨true, [], [], []⟩ { noFilters := true && !true } .command "/bin/ls".toList).toOption.isSome = true := by
  rfl

/-! ## (B'') apply_blacklist / collect() are fail-closed on a malformed deny list -/

/-- After a SUCCESSFUL application every string entry the user wrote is in force: a files / commands entry is in
its deny set or has disabled the spec it names, a components entry that names a loaded component has disabled it. -/
theorem apply_blacklist_seq_complete (isSpec isComp : Str → Bool) (files commands components : Sect) (d : Deny)
    (fi ci co : List Item) (hfi : files.items = some fi) (hci : commands.items = some ci)
    (hco : components.items = some co)
    (h : applyBlacklistSeq isSpec isComp files commands components = .ok d) :
    (∀ s, Item.str s ∈ fi → d.has false s) ∧ (∀ s, Item.str s ∈ ci → d.has true s) ∧
    (∀ s, Item.str s ∈ co → isComp s = true → s ∈ d.disabled) := by
  simp only [applyBlacklistSeq, hfi, hci, hco] at h
  split at h
  · cases h
  · rename_i d1 h1
    split at h
    · cases h
    · rename_i d2 h2
      cases h
      obtain ⟨_, a2, _⟩ := blLoop_ok isSpec false fi _ d1 h1
      obtain ⟨b1, b2, _⟩ := blLoop_ok isSpec true ci d1 d2 h2
      have c1 := blComps_le isComp co d2
      refine ⟨?_, ?_, ?_⟩
      · intro s hs; exact Deny.has_mono (Deny.le_trans b1 c1) (a2 s hs)
      · intro s hs; exact Deny.has_mono c1 (b2 s hs)
      · intro s hs hc; exact blComps_has isComp co d2 s hs hc

example : applyBlacklistSeq (fun s => s == "hostname".toList) (fun _ => false)
    (.list [.str "/etc/passwd".toList, .str "hostname".toList]) (.str "ab".toList) .absent
    = .ok { files := ["/etc/passwd".toList], commands := ["a".toList, "b".toList], disabled := [blPre ++ "hostname".toList] } := by
  rfl

/-- The application aborts exactly when a section is not iterable or the files / commands section holds a
non-string item — wherever in the list it stands, whatever valid entries precede or follow it. -/
theorem apply_blacklist_seq_abort_iff (isSpec isComp : Str → Bool) (files commands components : Sect) :
    applyBlacklistSeq isSpec isComp files commands components = .error () ↔
      (files.items = none ∨ commands.items = none ∨ components.items = none ∨
       (∃ fi, files.items = some fi ∧ Item.other ∈ fi) ∨ (∃ ci, commands.items = some ci ∧ Item.other ∈ ci)) := by
  unfold applyBlacklistSeq
  cases hf : files.items with
  | none => simp
  | some fi =>
    cases h1 : blLoop isSpec false fi {} with
    | error e =>
      have := (blLoop_error_iff isSpec false fi {}).mp (by rw [h1])
      simp [h1, this]
    | ok d1 =>
      have n1 : Item.other ∉ fi := (blLoop_ok isSpec false fi _ d1 h1).2.2
      cases hc : commands.items with
      | none => simp [h1]
      | some ci =>
        cases h2 : blLoop isSpec true ci d1 with
        | error e =>
          have := (blLoop_error_iff isSpec true ci d1).mp (by rw [h2])
          simp [h1, h2, this]
        | ok d2 =>
          have n2 : Item.other ∉ ci := (blLoop_ok isSpec true ci _ d2 h2).2.2
          cases ho : components.items <;> simp [h1, h2, n1, n2]

example : applyBlacklistSeq (fun _ => false) (fun _ => false)
    (.list [.str "/etc/a".toList, .other, .str "/etc/b".toList]) .absent .absent = .error () := by rfl
example : applyBlacklistSeq (fun _ => false) (fun _ => false) .absent .noniter .absent = .error () := by rfl

/-- On a well-formed deny list (three lists of strings) the sequential application is the fold `applyBlacklist`
that the correspondence streams of the earlier rounds compare with the code. -/
theorem apply_blacklist_seq_wellformed (isSpec isComp : Str → Bool) (files commands components : List Str) :
    applyBlacklistSeq isSpec isComp (.list (files.map Item.str)) (.list (commands.map Item.str))
        (.list (components.map Item.str)) = .ok (applyBlacklist isSpec isComp files commands components) := by
  simp only [applyBlacklistSeq, Sect.items, blLoop_strs, blComps_strs, applyBlacklist]
  congr 2

example : applyBlacklistSeq (fun s => s == "date".toList) (fun _ => true) (.list [.str "date".toList]) (.list []) (.list [.str "x.y".toList])
    = .ok (applyBlacklist (fun s => s == "date".toList) (fun _ => true) ["date".toList] [] ["x.y".toList]) := by rfl

/-- collect() is fail-closed: every event of a collection run happened under a deny state in which ALL string
entries of the user's deny list are in force; an aborted application leaves no datasource run. -/
theorem collect_fail_closed {ε : Type} (isSpec isComp : Str → Bool) (files commands components : Sect)
    (run : Deny → List ε) (ev : ε) (hev : ev ∈ collectRun isSpec isComp files commands components run) :
    ∃ d fi ci co, files.items = some fi ∧ commands.items = some ci ∧ components.items = some co ∧
      ev ∈ run d ∧ (∀ s, Item.str s ∈ fi → d.has false s) ∧ (∀ s, Item.str s ∈ ci → d.has true s) ∧
      (∀ s, Item.str s ∈ co → isComp s = true → s ∈ d.disabled) := by
  unfold collectRun at hev
  split at hev
  · simp at hev
  · rename_i d hd
    cases hf : files.items with
    | none => simp [applyBlacklistSeq, hf] at hd
    | some fi =>
      cases hc : commands.items with
      | none =>
        simp only [applyBlacklistSeq, hf, hc] at hd
        split at hd <;> cases hd
      | some ci =>
        cases ho : components.items with
        | none =>
          simp only [applyBlacklistSeq, hf, hc, ho] at hd
          split at hd
          · cases hd
          · split at hd <;> cases hd
        | some co =>
          obtain ⟨a, b, c⟩ := apply_blacklist_seq_complete isSpec isComp files commands components d fi ci co hf hc ho hd
          exact ⟨d, fi, ci, co, rfl, rfl, rfl, hev, a, b, c⟩

theorem collect_abort_runs_nothing {ε : Type} (isSpec isComp : Str → Bool) (files commands components : Sect)
    (run : Deny → List ε) (h : applyBlacklistSeq isSpec isComp files commands components = .error ()) :
    collectRun isSpec isComp files commands components run = [] := by
  unfold collectRun; rw [h]

example : collectRun (fun _ => false) (fun _ => false) (.list [.other, .str "/etc/b".toList]) .absent .absent
    (fun _ => ["datasource ran"]) = [] := by rfl
example : collectRun (fun _ => false) (fun _ => false) (.list [.str "/etc/b".toList]) .absent .absent
    (fun d => d.files) = ["/etc/b".toList] := by rfl

/-- END TO END, for every deny list as the user wrote it (malformed or not), every datasource factory and every file
system: an event of a host collection — a file opened, a command executed — is never matched by ANY string entry of
the user's files (for opens) / commands (for executions) section that is not a spec's symbolic name.  (Entries that
are symbolic names disable the component instead: `apply_blacklist_seq_complete`.) -/
theorem collect_honours_user_entries (isWord : Char → Bool) (fs : Fs) (root : Str) (sp : Spec) (f : Factory)
    (isSpec isComp : Str → Bool) (files commands components : Sect) (ev : Ev)
    (hev : ev ∈ collectRun isSpec isComp files commands components
            (fun d => f.trace isWord fs ⟨true, root, d.files, d.commands⟩ sp)) :
    ∃ fi ci, files.items = some fi ∧ commands.items = some ci ∧
      match ev with
      | .open_ _ rel => ∀ s, Item.str s ∈ fi → isSpec s = false → denyMatch s ('/' :: rel) = false
      | .exec cmd => ∀ s, Item.str s ∈ ci → isSpec s = false → denyMatch s cmd = false := by
  unfold collectRun at hev
  split at hev
  · simp at hev
  · rename_i d hd
    have hnd := trace_no_denied isWord fs ⟨true, root, d.files, d.commands⟩ sp f rfl ev hev
    unfold applyBlacklistSeq at hd
    cases hf : files.items with
    | none => simp [hf] at hd
    | some fi =>
      simp only [hf] at hd
      cases h1 : blLoop isSpec false fi {} with
      | error e => simp [h1] at hd
      | ok d1 =>
        simp only [h1] at hd
        cases hc : commands.items with
        | none => simp [hc] at hd
        | some ci =>
          simp only [hc] at hd
          cases h2 : blLoop isSpec true ci d1 with
          | error e => simp [h2] at hd
          | ok d2 =>
            simp only [h2] at hd
            cases ho : components.items with
            | none => simp [ho] at hd
            | some co =>
              simp only [ho] at hd
              cases hd
              have le2 := (blLoop_ok isSpec true ci d1 d2 h2).1
              have le3 := blComps_le isComp co d2
              refine ⟨fi, ci, rfl, rfl, ?_⟩
              cases ev with
              | open_ r rel =>
                intro s hs hn
                have m1 : s ∈ d1.files := blLoop_ok_lit isSpec false fi _ d1 h1 s hs hn
                have m3 : s ∈ (blComps isComp co d2).files := le3.1 _ (le2.1 _ m1)
                simp only [Ev.denied, allow, Bool.not_not, List.any_eq_false] at hnd
                have := hnd s m3
                simpa using this
              | exec cmd =>
                intro s hs hn
                have m2 : s ∈ d2.commands := blLoop_ok_lit isSpec true ci d1 d2 h2 s hs hn
                have m3 : s ∈ (blComps isComp co d2).commands := le3.2.1 _ m2
                simp only [Ev.denied, allow, Bool.not_not, List.any_eq_false] at hnd
                have := hnd s m3
                simpa using this

/-- a run in which the second of three globbed files is denied by the entry that FOLLOWS a spec name in the user's list -/
example :
    let fs : Fs := { exists_ := fun _ => true, realpath := id, readable := fun _ => true, isDir := fun _ => false,
                     glob := fun _ => ["/r/a".toList, "/r/b".toList, "/r/c".toList], cmdOk := fun _ => some true }
    collectRun (fun s => s == "hostname".toList) (fun _ => false) (.list [.str "hostname".toList, .str "/b".toList]) .absent .absent
      (fun d => (Factory.globFile ["/*".toList]).trace isWordAscii fs ⟨true, "/r".toList, d.files, d.commands⟩ {}) =
      [.open_ "/r".toList "a".toList, .open_ "/r".toList "c".toList] := by decide

/-! ## (B3) several collect() calls in one process -/

/-- HISTORY INDEPENDENCE: whatever earlier collections of the process left behind (deny sets, the record of skipped
specs), the components disabled in a collection are exactly those the deny list of THIS collection disables when applied
once in a fresh process; the literal deny sets keep everything earlier applications put there and contain every entry of
this one. -/
theorem collect_step_history_independent (isSpec isComp : Str → Bool) (st : Proc) (cfg : Cfg) :
    (collectStep isSpec isComp st cfg).disabled = (applyBlacklist isSpec isComp cfg.files cfg.commands cfg.components).disabled ∧
    (collectStep isSpec isComp st cfg).files = st.files ++ (applyBlacklist isSpec isComp cfg.files cfg.commands cfg.components).files ∧
    (collectStep isSpec isComp st cfg).commands = st.commands ++ (applyBlacklist isSpec isComp cfg.files cfg.commands cfg.components).commands := by
  simp [collectStep, applyBlacklistFrom_app, Deny.app]

/-- after ANY history of earlier collections (same deny list, other deny lists, none), the flags of the last collection
are those of applying its deny list once -/
theorem collect_history_independent (isSpec isComp : Str → Bool) (st : Proc) (h : List Cfg) (cfg : Cfg) :
    (runHistory isSpec isComp st (h ++ [cfg])).disabled
      = (applyBlacklist isSpec isComp cfg.files cfg.commands cfg.components).disabled := by
  simp only [runHistory, List.foldl_append, List.foldl_cons, List.foldl_nil]
  exact (collect_step_history_independent isSpec isComp _ cfg).1

example : (runHistory (fun s => s == "date".toList) (fun _ => true) {}
            [⟨["date".toList], [], ["a.date".toList]⟩, ⟨[], [], []⟩, ⟨["date".toList], [], ["a.date".toList, "b.date".toList]⟩]).disabled
          = [blPre ++ "date".toList, "a.date".toList, "b.date".toList] := by rfl

/-- idempotence: collecting twice with the same deny list disables the same components the second time, and every literal
entry is still in force -/
theorem collect_twice_same (isSpec isComp : Str → Bool) (st : Proc) (cfg : Cfg) :
    (runHistory isSpec isComp st [cfg, cfg]).disabled = (runHistory isSpec isComp st [cfg]).disabled ∧
    ∀ f ∈ (runHistory isSpec isComp st [cfg]).files, f ∈ (runHistory isSpec isComp st [cfg, cfg]).files := by
  constructor
  · rw [show [cfg, cfg] = [cfg] ++ [cfg] from rfl, collect_history_independent,
        show [cfg] = ([] : List Cfg) ++ [cfg] from rfl, collect_history_independent]
  · intro f hf
    simp only [runHistory, List.foldl_cons, List.foldl_nil] at hf ⊢
    rw [(collect_step_history_independent isSpec isComp _ cfg).2.1]
    exact List.mem_append_left _ hf

example : (runHistory (fun _ => false) (fun _ => true) {} [⟨["/etc/a".toList], [], []⟩, ⟨[], [], []⟩]).files = ["/etc/a".toList] := by rfl

/-- a registry point and its implementation, the same component twice, two components sharing the last name segment:
every named loaded component ends up disabled (no de-duplication by short name) -/
theorem components_all_disabled (isSpec isComp : Str → Bool) (files commands components : List Str) (c : Str)
    (hc : c ∈ components) (hk : isComp c = true) :
    c ∈ (applyBlacklist isSpec isComp files commands components).disabled := by
  have h := apply_blacklist_seq_wellformed isSpec isComp files commands components
  exact (apply_blacklist_seq_complete isSpec isComp _ _ _ _ (files.map Item.str) (commands.map Item.str)
            (components.map Item.str) rfl rfl rfl h).2.2 c (List.mem_map.mpr ⟨c, hc, rfl⟩) hk

example : (applyBlacklist (fun _ => false) (fun _ => true) [] []
            ["insights.specs.Specs.x".toList, "insights.specs.default.DefaultSpecs.x".toList, "insights.specs.Specs.x".toList]).disabled
          = ["insights.specs.Specs.x".toList, "insights.specs.default.DefaultSpecs.x".toList, "insights.specs.Specs.x".toList] := by rfl

end IV.Paths
