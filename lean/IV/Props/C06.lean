import IV.Lemmas.Paths
/-!
C06 — collection stays in its root, honours the deny list, writes only to the archive.

(A) containment  : `accept_sound`, `acceptOld_witness`, `mkFile_contained`, `factories_contained`
(B) deny list    : `denyMatch_iff`, `deny_match_spec`, `allow_perm`, `factories_respect_deny`, `trace_no_denied`,
                   `apply_blacklist_files`
(C) persistence  : `dst_confined_partial`, `DstConfined` (full statement, FALSE of the code) + `dst_witness`,
                   `file_rel_relative`, `mangle_single_component`, `hydration_paths_confined`
All statements are over the model `IV.Paths` for every file-system answer `Fs`, every deny list,
every factory and every string.
-/
namespace IV.Paths

/-! ## (A) containment -/

/-- The comparison of `FileProvider.validate` accepts exactly when the resolved root is a component-wise
prefix of the resolved path — for every root (including "/") and every path. -/
theorem accept_sound (r p : List Str) (hr : ∀ n ∈ r, ValidName n) (hp : ∀ n ∈ p, ValidName n) :
    accept (render r) (render p) = true ↔ r <+: p := by
  cases r with
  | nil =>
    -- root "/" : rstrip gives "", the test is `resolved.startswith("/")`
    have : accept (render []) (render p) = true := by
      cases p with
      | nil => simp [accept, render]
      | cons m p' => simp [accept, render, renderNE, startsWith, rstripSep]
    simp [this]
  | cons n r' =>
    obtain ⟨s, c, hs, hc⟩ := renderNE_ends (n :: r') (by simp) hr
    have hstrip : rstripSep (render (n :: r')) = render (n :: r') := by
      simp only [render]; rw [hs]; exact rstripSep_concat s c hc
    have hR := R_prefix_iff (n :: r') p hr hp
    unfold accept
    rw [hstrip, Bool.or_eq_true, startsWith_iff, beq_iff_eq, ← hR]
    cases p with
    | nil =>
      -- resolved = "/" can be neither the root nor below it
      have hv := hr n (by simp)
      have hlen : 2 ≤ (renderNE (n :: r')).length := by
        rw [renderNE_cons]
        simp only [List.length_cons, List.length_append]
        have : 0 < n.length := List.length_pos_iff.mpr hv.1
        omega
      constructor
      · rintro (h | h)
        · have := congrArg List.length h
          simp only [render, List.length_cons, List.length_nil] at this
          omega
        · have := h.length_le
          simp only [render, List.length_cons, List.length_nil, List.length_append] at this
          omega
      · intro h
        have := h.length_le
        simp only [R, renderNE, List.flatMap_nil, List.nil_append, List.length_cons, List.length_nil,
          List.length_append] at this hlen
        omega
    | cons m p' =>
      simp only [render, R]
      rw [prefix_concat]
      constructor
      · rintro (h | h)
        · right; rw [h]
        · left; exact h
      · rintro (h | h)
        · right; exact h
        · left; exact (List.append_cancel_right h).symm

example : accept (render ["t".toList, "root".toList]) (render ["t".toList, "root".toList, "etc".toList, "passwd".toList]) = true := by decide
example : accept (render []) (render ["etc".toList]) = true := by decide

/-- The comparison used before repair e56526f (`resolved.startswith(real_root)`) accepted a sibling that
shares the root's name as a prefix; the repaired comparison rejects it. -/
theorem acceptOld_witness :
    acceptOld (render ["t".toList, "root".toList]) (render ["t".toList, "root2".toList, "secret".toList]) = true
    ∧ ¬ (["t".toList, "root".toList] <+: ["t".toList, "root2".toList, "secret".toList])
    ∧ accept (render ["t".toList, "root".toList]) (render ["t".toList, "root2".toList, "secret".toList]) = false := by
  refine ⟨by decide, by decide, by decide⟩

/-- every provider `mkFile` constructs lies in the root: if the two `realpath` answers are canonical
renderings of component lists, the root's list is a prefix of the file's -/
theorem mkFile_contained (fs : Fs) (ctx : Ctx) (sp : Spec) (arg : Str) (p : Prov)
    (r q : List Str) (hr : ∀ n ∈ r, ValidName n) (hq : ∀ n ∈ q, ValidName n)
    (hroot : fs.realpath ctx.root = render r)
    (h : mkFile fs ctx sp arg = .ok p) (hpath : fs.realpath (join p.root p.rel) = render q) :
    r <+: q := by
  unfold mkFile at h
  simp only [] at h
  split at h; · cases h
  split at h; · cases h
  split at h; · cases h
  split at h; · cases h
  split at h; · cases h
  rename_i hacc _
  cases h
  simp only [] at hpath
  rw [hroot, hpath] at hacc
  simp only [Bool.not_eq_true, Bool.not_eq_false] at hacc
  exact (accept_sound r q hr hq).mp (by simpa using hacc)

/-- (A) for every factory kind: a file provider that is returned resolves inside the resolved root -/
theorem factories_contained (isWord : Char → Bool) (fs : Fs) (ctx : Ctx) (sp : Spec) (f : Factory)
    (ps : List Prov) (h : f.run isWord fs ctx sp = .ok ps)
    (r : List Str) (hr : ∀ n ∈ r, ValidName n) (hroot : fs.realpath ctx.root = render r) :
    ∀ p ∈ ps, p.kind = .file → ∀ q, (∀ n ∈ q, ValidName n) →
      fs.realpath (join p.root p.rel) = render q → r <+: q := by
  intro p hp hk q hq hpath
  obtain ⟨arg, harg⟩ := file_prov_from_mkFile isWord fs ctx sp f ps h p hp hk
  exact mkFile_contained fs ctx sp arg p r q hr hq hroot harg hpath

/-- non-vacuity: a factory run that returns a provider under a root whose rendering is canonical -/
example :
    (match (Factory.simpleFile "/etc/passwd".toList).run isWordAscii
        { exists_ := fun _ => true, realpath := id, readable := fun _ => true, isDir := fun _ => false,
          glob := fun _ => [], cmdOk := fun _ => none }
        { host := false, root := "/r".toList, denyFiles := [], denyCmds := [] } {} with
      | .ok ps => ps.map (fun p => join p.root p.rel)
      | .error _ => []) = ["/r/etc/passwd".toList] := by decide

/-- … and one that is refused because the resolved path is in the prefix-sharing sibling -/
example :
    (match (Factory.simpleFile "link".toList).run isWordAscii
        { exists_ := fun _ => true, realpath := fun p => if p = "/t/root/link".toList then "/t/root2/secret".toList else p,
          readable := fun _ => true, isDir := fun _ => false, glob := fun _ => [], cmdOk := fun _ => none }
        { host := false, root := "/t/root".toList, denyFiles := [], denyCmds := [] } {} with
      | .ok _ => none
      | .error e => some e) = some Err.outside := by decide

/-! ## (B) deny list -/

/-- exact characterisation of one deny entry: the candidate equals it or continues it with a space -/
theorem denyMatch_iff (f c : Str) : denyMatch f c = true ↔ c = f ∨ f ++ [' '] <+: c := by
  unfold denyMatch
  rw [Bool.and_eq_true, startsWith_iff]
  constructor
  · rintro ⟨⟨t, rfl⟩, h⟩
    rw [Bool.or_eq_true] at h
    rcases h with h | h
    · left
      have hl : (f ++ t).length = f.length := beq_iff_eq.mp h
      rw [List.length_append] at hl
      have : t = [] := List.length_eq_zero_iff.mp (by omega)
      simp [this]
    · right
      cases t with
      | nil => simp at h
      | cons a t' =>
        simp at h
        subst h
        exact ⟨t', by simp⟩
  · rintro (rfl | ⟨t, rfl⟩)
    · exact ⟨List.prefix_refl _, by simp⟩
    · refine ⟨⟨' ' :: t, by simp⟩, ?_⟩
      simp

/-- `allow_file` / `allow_command`: refused exactly when some deny entry equals the candidate or is
followed in it by a space -/
theorem deny_match_spec (deny : List Str) (c : Str) :
    allow deny c = false ↔ ∃ f ∈ deny, c = f ∨ f ++ [' '] <+: c := by
  unfold allow
  simp only [Bool.not_eq_false', List.any_eq_true, denyMatch_iff]

example : allow ["/etc/passwd".toList] "/etc/passwd".toList = false := by decide
example : allow ["/bin/ls".toList] "/bin/ls -l /root".toList = false := by decide
example : allow ["/bin/ls".toList] "/bin/lsblk".toList = true := by decide

/-- the deny sets are Python `set`s: the answer does not depend on their iteration order -/
theorem allow_perm (d d' : List Str) (h : d.Perm d') (c : Str) : allow d c = allow d' c := by
  have : ∀ x, (allow x c = false ↔ ∃ f ∈ x, c = f ∨ f ++ [' '] <+: c) := fun x => deny_match_spec x c
  cases h1 : allow d c <;> cases h2 : allow d' c <;> try rfl
  · obtain ⟨f, hf, hm⟩ := (this d).mp h1
    have := (this d').mpr ⟨f, h.mem_iff.mp hf, hm⟩
    rw [h2] at this; cases this
  · obtain ⟨f, hf, hm⟩ := (this d').mp h2
    have := (this d).mpr ⟨f, h.mem_iff.mpr hf, hm⟩
    rw [h1] at this; cases this

/-- (B) During host collection, for every factory kind, every deny list and every file-system answer:
no provider is returned whose file / command the deny list names. -/
theorem factories_respect_deny (isWord : Char → Bool) (fs : Fs) (ctx : Ctx) (sp : Spec) (f : Factory)
    (hh : ctx.host = true) (ps : List Prov) (h : f.run isWord fs ctx sp = .ok ps) :
    ∀ p ∈ ps, p.load.denied ctx = false := by
  intro p hp
  cases f with
  | simpleFile path =>
    simp only [Factory.run] at h
    cases hm : mkFile fs ctx sp path with
    | error e => simp [hm, Except.map] at h
    | ok q => simp [hm, Except.map] at h; subst h; simp at hp; subst hp; exact mkFile_allowed _ _ _ _ _ hh hm
  | globFile patterns =>
    simp only [Factory.run] at h
    split at h
    · rename_i qs hqs
      split at h; · cases h
      cases h
      obtain ⟨x, _, hx⟩ := collectLoop_mem _ _ _ (nonEmpty_ok _ _ hqs) p hp
      exact mkFile_allowed _ _ _ _ _ hh hx
    · cases h
  | firstFile paths =>
    simp only [Factory.run] at h
    obtain ⟨x, _, hx⟩ := firstLoop_mem _ _ _ h p hp
    exact mkFile_allowed _ _ _ _ _ hh hx
  | foreachCollect tmpl items =>
    simp only [Factory.run] at h
    obtain ⟨x, hx⟩ := foreachLoop_mem _ _ _ _ _ (nonEmpty_ok _ _ h) p hp
    exact mkFile_allowed _ _ _ _ _ hh hx
  | simpleCommand cmd =>
    simp only [Factory.run] at h
    cases hm : mkCmd isWord fs ctx sp .command cmd with
    | error e => simp [hm, Except.map] at h
    | ok q =>
      simp [hm, Except.map] at h; subst h; simp at hp; subst hp
      exact mkCmd_allowed _ _ _ _ _ (by decide) _ _ hh hm
  | commandWithArgs tmpl args =>
    simp only [Factory.run] at h
    split at h; · cases h
    split at h
    · rename_i q hq
      cases h; simp at hp; subst hp
      exact mkCmd_allowed _ _ _ _ _ (by decide) _ _ hh hq
    · cases h
    · cases h
  | foreachExecute tmpl items =>
    simp only [Factory.run] at h
    obtain ⟨x, _, hx⟩ := collectLoop_mem _ _ _ (nonEmpty_ok _ _ h) p hp
    split at hx
    · exact mkCmd_allowed _ _ _ _ _ (by decide) _ _ hh hx
    · cases hx
  | containerExecute tmpl items =>
    simp only [Factory.run] at h
    obtain ⟨x, _, hx⟩ := collectLoop_mem _ _ _ (nonEmpty_ok _ _ h) p hp
    split at hx
    · exact mkCmd_allowed _ _ _ _ _ (by decide) _ _ hh hx
    · cases hx
  | containerCollect tmpl items =>
    simp only [Factory.run] at h
    obtain ⟨x, _, hx⟩ := collectLoop_mem _ _ _ (nonEmpty_ok _ _ h) p hp
    split at hx
    · exact mkCmd_allowed _ _ _ _ _ (by decide) _ _ hh hx
    · cases hx

/-- (B) the open/exec trace of evaluating any datasource and reading all it returned contains no denied entry -/
theorem trace_no_denied (isWord : Char → Bool) (fs : Fs) (ctx : Ctx) (sp : Spec) (f : Factory)
    (hh : ctx.host = true) : ∀ ev ∈ f.trace isWord fs ctx sp, ev.denied ctx = false := by
  intro ev hev
  unfold Factory.trace at hev
  split at hev
  · rename_i ps hps
    obtain ⟨p, hp, rfl⟩ := List.mem_map.mp hev
    exact factories_respect_deny isWord fs ctx sp f hh ps hps p hp
  · simp at hev

/-- a concrete run: two of three globbed files are kept, the denied one yields no provider and no event -/
example :
    let fs : Fs := { exists_ := fun _ => true, realpath := id, readable := fun _ => true, isDir := fun _ => false,
                     glob := fun _ => ["/r/a".toList, "/r/b".toList, "/r/c".toList], cmdOk := fun _ => some true }
    let ctx : Ctx := { host := true, root := "/r".toList, denyFiles := ["/b".toList], denyCmds := [] }
    (Factory.globFile ["/*".toList]).trace isWordAscii fs ctx {} =
      [.open_ "/r".toList "a".toList, .open_ "/r".toList "c".toList] := by decide

/-! ### apply_blacklist -/

/-- a configured file entry that is not a spec's symbolic name always ends up in the file deny set
(so, by `deny_match_spec`, the constructors refuse it) -/
theorem apply_blacklist_files (isSpec isComp : Str → Bool) (files commands components : List Str) (f : Str)
    (hf : f ∈ files) (hs : isSpec f = false) :
    f ∈ (applyBlacklist isSpec isComp files commands components).files := by
  unfold applyBlacklist
  simp only []
  have h1 := (foldl_files_mem isSpec "insights.specs.default.DefaultSpecs.".toList files {} f).mpr (Or.inr ⟨hf, hs⟩)
  -- the two later folds never touch `.files`
  have keep2 : ∀ (xs : List Str) (d : Deny),
      (xs.foldl (fun d c => if isSpec c then { d with disabled := d.disabled ++ ["insights.specs.default.DefaultSpecs.".toList ++ c] }
                             else { d with commands := d.commands ++ [c] }) d).files = d.files := by
    intro xs; induction xs with
    | nil => intro d; rfl
    | cons x xs ih => intro d; simp only [List.foldl_cons]; rw [ih]; split <;> rfl
  have keep3 : ∀ (xs : List Str) (d : Deny),
      (xs.foldl (fun d c => if isComp c then { d with disabled := d.disabled ++ [c] } else d) d).files = d.files := by
    intro xs; induction xs with
    | nil => intro d; rfl
    | cons x xs ih => intro d; simp only [List.foldl_cons]; rw [ih]; split <;> rfl
  rw [keep3, keep2]
  exact h1

example : (applyBlacklist (fun s => s == "hostname".toList) (fun _ => false)
            ["/etc/passwd".toList, "hostname".toList] ["/bin/ls".toList] []).files = ["/etc/passwd".toList] := by decide

/-! ## (C) persistence -/

/-- `rel` has no ".." component -/
def NoDotDot (rel : Str) : Prop := ['.', '.'] ∉ splitSep rel

/-- If the relative path is relative and has no ".." component, the destination `join(out, rel)` names a
location beneath `out` (for every output directory string, with or without a trailing '/'). -/
theorem dst_confined_partial (out rel : Str) (hrel : startsWith rel ['/'] = false) (hdd : NoDotDot rel) :
    norm out <+: norm (dst out rel) := by
  unfold dst join
  rw [if_neg (by simp [hrel])]
  split
  · rename_i h
    rw [Bool.or_eq_true] at h
    rcases h with h | h
    · have : out = [] := by simpa using h
      subst this
      simp [norm, splitSep, normStep]
    · -- out = o ++ "/"
      unfold endsSep at h
      rcases List.eq_nil_or_concat out with rfl | ⟨o, c, rfl⟩
      · simp at h
      · rw [List.concat_eq_append] at h ⊢
        have hc : c = '/' := by simpa using h
        subst hc
        have e1 : norm (o ++ ['/']) = (splitSep o).foldl normStep [] := by
          unfold norm
          rw [splitSep_append_sep]
          simp [splitSep, normStep, List.foldl_append]
        have e2 : norm (o ++ ['/'] ++ rel) = (splitSep rel).foldl normStep ((splitSep o).foldl normStep []) := by
          unfold norm
          rw [List.append_assoc, List.singleton_append, splitSep_append_sep, List.foldl_append]
        rw [e1, e2]
        exact foldl_normStep_prefix _ _ hdd
  · unfold norm
    rw [splitSep_append_sep, List.foldl_append]
    exact foldl_normStep_prefix _ _ hdd

example : NoDotDot "etc/sub/file".toList ∧ startsWith "etc/sub/file".toList ['/'] = false := by
  unfold NoDotDot; decide

/-- the full statement (every relative path), FALSE of the current code: known finding `dotdot-destination` -/
def DstConfined : Prop := ∀ out rel : Str, startsWith rel ['/'] = false → norm out <+: norm (dst out rel)

/-- `../../tmp/x/f` under `/var/tmp/out/data` is persisted at `/var/tmp/tmp/x/f` -/
theorem dst_witness : ¬ DstConfined := by
  intro h
  have := h "/var/tmp/out/data".toList "../../tmp/x/f".toList (by decide)
  revert this
  decide

/-- What the file serializers record as relative path stays relative: `relative_path` has its leading
slashes stripped by the provider constructor, `save_as` by the factory (simple_file / first_file rule). -/
theorem file_rel_relative (arg : Str) (saveRaw : Option Str) (b : Str) (hb : startsWith b ['/'] = false) :
    startsWith (serRel .file (lstripSep arg) (saveAsFile saveRaw)) ['/'] = false
    ∧ (∀ s, truthy (saveAsFile saveRaw) = some s → startsWith (join s b) ['/'] = false) := by
  have key : ∀ s, truthy (saveAsFile saveRaw) = some s → s ≠ [] ∧ startsWith s ['/'] = false := by
    intro s hs
    obtain ⟨h1, hne⟩ := (truthy_some _ _).mp hs
    unfold saveAsFile at h1
    obtain ⟨raw, _, hraw⟩ := Option.map_eq_some_iff.mp h1
    exact ⟨hne, by rw [← hraw]; exact lstripSep_rel raw⟩
  constructor
  · unfold serRel
    simp only []
    split
    · exact lstripSep_rel arg
    · rename_i s hs
      obtain ⟨hne, hrel⟩ := key s hs
      split
      · exact join_rel s _ hne hrel (by
          -- a basename contains no '/'
          unfold basename
          cases hg : (splitSep (lstripSep arg)).getLast? with
          | none => rfl
          | some x =>
            simp only [Option.getD]
            cases x with
            | nil => rfl
            | cons c t =>
              have hmem : (c :: t) ∈ splitSep (lstripSep arg) := List.mem_of_getLast? hg
              have : ∀ (s : Str), ∀ w ∈ splitSep s, '/' ∉ w := by
                intro s
                induction s with
                | nil => intro w hw; simp [splitSep] at hw; subst hw; simp
                | cons d ds ih =>
                  intro w hw
                  unfold splitSep at hw
                  split at hw
                  · rcases List.mem_cons.mp hw with rfl | hw'
                    · simp
                    · exact ih w hw'
                  · rename_i hd
                    split at hw
                    · simp at hw; subst hw; simpa using Ne.symm hd
                    · rename_i hh tt heq
                      rcases List.mem_cons.mp hw with rfl | hw'
                      · have := ih hh (by rw [heq]; simp)
                        simp only [List.mem_cons, not_or]
                        exact ⟨Ne.symm hd, this⟩
                      · exact ih w (by rw [heq]; simp [hw'])
              have hc := this _ _ hmem
              simp only [startsWith, List.isPrefixOf, Bool.and_true]
              simpa using fun e => hc (List.mem_cons.mpr (Or.inl e)))
      · exact hrel
  · intro s hs
    obtain ⟨hne, hrel⟩ := key s hs
    exact join_rel s b hne hrel hb

example : serRel .file (lstripSep "//etc/x".toList) (saveAsFile (some "/d/".toList)) = "d/x".toList := by decide
example : serRel .command "ls_-l".toList (saveAsCmd (some "/d/x/".toList)) = "insights_commands/d/x".toList := by decide

/-! ### mangle_command -/

/-- The mangled command name is a single path component: it contains no '/', and it does not begin with
'.' (so it is neither "." nor ".."), whatever the command and whatever `\w` contains. -/
theorem mangle_single_component (isWord : Char → Bool) (cmd : Str) :
    '/' ∉ mangle isWord cmd ∧ (mangle isWord cmd).head? ≠ some '.' := by
  unfold mangle
  simp only []
  constructor
  · intro h
    have h1 := List.mem_of_mem_take h
    have h2 : '/' ∈ List.dropWhile stripSet _ := (stripMangle_prefix _).subset h1
    have h3 := (List.dropWhile_sublist _).subset h2
    obtain ⟨c, _, hc⟩ := List.mem_map.mp h3
    by_cases e : (c == '/') = true
    · simp [e] at hc
    · simp only [e] at hc
      simp at hc; subst hc; simp at e
  · intro h
    generalize hm : (List.map (fun c => if (c == '/') = true then '.' else c) _) = m at h
    cases hs : stripMangle m with
    | nil => simp [hs] at h
    | cons a t =>
      rw [hs] at h
      simp at h
      subst h
      obtain ⟨u, hu⟩ := stripMangle_prefix m
      rw [hs] at hu
      have := dropWhile_head m '.' (t ++ u) (by rw [← hu]; simp)
      simp [stripSet] at this

example : mangle isWordAscii "/bin/cat /etc/../x y  z".toList = "cat_.etc....x_y_z".toList := by decide

/-- Hydration's own paths: `data_root` and the metadata file of a component lie beneath the root it was given,
for every root string and every component name without '/' and not a dot name -/
theorem hydration_paths_confined (root name : Str) (hn : '/' ∉ name) :
    norm root <+: norm (dataRoot root) ∧ norm root <+: norm (metaPath root name) := by
  constructor
  · exact dst_confined_partial root _ (by decide) (by unfold NoDotDot; decide)
  · unfold metaPath
    have h1 : norm root <+: norm (join root "meta_data".toList) :=
      dst_confined_partial root _ (by decide) (by unfold NoDotDot; decide)
    refine h1.trans (dst_confined_partial _ _ ?_ ?_)
    · cases name with
      | nil => decide
      | cons c t =>
        have : c ≠ '/' := by intro e; exact hn (by simp [e])
        simp [startsWith, List.isPrefixOf, Ne.symm this]
    · -- a string without '/' is a single component; it ends in ".json", so it is not ".."
      unfold NoDotDot
      have single : ∀ (s : Str), '/' ∉ s → splitSep s = [s] := by
        intro s
        induction s with
        | nil => intro _; rfl
        | cons c t ih =>
          intro h
          have hc : c ≠ '/' := by intro e; exact h (by simp [e])
          have ht : '/' ∉ t := by intro e; exact h (by simp [e])
          rw [splitSep, if_neg hc, ih ht]
      rw [single]
      · intro h
        have := List.mem_singleton.mp h
        have hl := congrArg List.length this
        simp only [List.length_cons, List.length_nil, List.length_append] at hl
        have : ".json".toList.length = 5 := by decide
        omega
      · intro h
        rcases List.mem_append.mp h with h | h
        · exact hn h
        · revert h; decide

example : norm (metaPath "/out".toList "a.b".toList) = ["out".toList, "meta_data".toList, "a.b.json".toList] := by decide
example : allow ["a".toList, "b".toList] "b c".toList = allow ["b".toList, "a".toList] "b c".toList := by decide

end IV.Paths
