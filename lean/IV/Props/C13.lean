import IV.Lemmas.Rpm
import IV.Lemmas.RpmRef
import IV.Lemmas.RpmLex
import IV.Lemmas.RpmPkg
/-!
C13 — package version comparison is RPM's ordering: agreement with RPM's `rpmvercmp()`
(`vercmp_eq_reference`, against the transcription in Model/RpmRef.lean), the comparison as a
lexicographic order on tokens (`vercmp_eq_lex`) and the order laws.

Every theorem is about `IV.Rpm.vercmp` / `evrCmp` / the `pkg*` operators, the model of
`_rpm_vercmp`, `rpm_version_compare` and `InstalledRpm`'s rich comparisons, for ALL strings
(any length, any characters, ASCII or not) and all epochs.
-/
namespace IV.Rpm

/-- `vercmp` is the loop at any sufficient fuel (the `a == b` shortcut agrees with the loop) -/
theorem vercmp_eq_loop (a b : Str) (F : Nat) (hF : a.length + b.length < F) :
    vercmp a b = loop F (norm a) (norm b) := by
  unfold vercmp
  split
  · rename_i h; subst h; rw [loop_refl]
  · exact loop_fuel _ _ _ _ (by simp [norm_length]) (by simp [norm_length]; omega)

/-- reflexive -/
theorem vercmp_refl (a : Str) : vercmp a a = 0 := by simp [vercmp]

/-- the result is always -1, 0 or 1 -/
theorem vercmp_range (a b : Str) : vercmp a b = -1 ∨ vercmp a b = 0 ∨ vercmp a b = 1 := by
  rw [vercmp_eq_loop a b _ (Nat.lt_succ_self _)]; exact loop_range _ _ _

/-- antisymmetric: swapping the arguments negates the result -/
theorem vercmp_antisymm (a b : Str) : vercmp a b = - vercmp b a := by
  rw [vercmp_eq_loop a b (a.length + b.length + 1) (by omega),
      vercmp_eq_loop b a (a.length + b.length + 1) (by omega)]
  exact loop_antisymm _ _ _

/-- transitive, for all triples of strings (no bound on alphabet or length) -/
theorem vercmp_trans_le (a b c : Str) (h1 : vercmp a b ≤ 0) (h2 : vercmp b c ≤ 0) : vercmp a c ≤ 0 := by
  let F := a.length + b.length + c.length + 1
  rw [vercmp_eq_loop a b F (by omega)] at h1
  rw [vercmp_eq_loop b c F (by omega)] at h2
  rw [vercmp_eq_loop a c F (by omega)]
  exact loop_trans_le _ _ _ _ h1 h2

/-- total: any two strings are comparable -/
theorem vercmp_total (a b : Str) : vercmp a b ≤ 0 ∨ vercmp b a ≤ 0 := by
  have := vercmp_antisymm a b; omega

/-- equivalence is transitive too (0 is not an accident of one pair) -/
theorem vercmp_eq_trans (a b c : Str) (h1 : vercmp a b = 0) (h2 : vercmp b c = 0) : vercmp a c = 0 := by
  have t1 := vercmp_trans_le a b c (by omega) (by omega)
  have t2 := vercmp_trans_le c b a (by rw [vercmp_antisymm]; omega) (by rw [vercmp_antisymm]; omega)
  have := vercmp_antisymm a c; omega

/-! ### first clause: the same answer as RPM's own comparison -/

/-- what `vercmp_eq_reference` needs of an encoding of characters as code units: ASCII is kept,
every other character becomes a non-empty run of units ≥ 128 (UTF-8: `utf8_encOk`) -/
def EncOk (enc : Char → List Nat) : Prop :=
  (∀ c : Char, c.toNat < 128 → enc c = [c.toNat]) ∧
  (∀ c : Char, 128 ≤ c.toNat → enc c ≠ [] ∧ ∀ u ∈ enc c, 128 ≤ u)

/-- `_rpm_vercmp` on two strings = RPM's `rpmvercmp()` (transcribed in Model/RpmRef.lean) on
their code units, for every string (any length, any characters) and every such encoding -/
theorem vercmp_eq_reference (enc : Char → List Nat)
    (hlo : ∀ c : Char, c.toNat < 128 → enc c = [c.toNat])
    (hhi : ∀ c : Char, 128 ≤ c.toNat → enc c ≠ [] ∧ ∀ u ∈ enc c, 128 ≤ u) (a b : Str) :
    vercmp a b = Reference.rpmvercmp (a.flatMap enc) (b.flatMap enc) := by
  have ra := rel_norm enc hlo hhi a
  have rb := rel_norm enc hlo hhi b
  have la := rel_length ra
  have lb := rel_length rb
  rw [norm_length] at la lb
  unfold Reference.rpmvercmp
  rw [vercmp_eq_loop a b ((a.flatMap enc).length + (b.flatMap enc).length + 1) (by omega),
      loop_eq_cmpLoop _ _ _ _ _ ra rb]
  split
  · rename_i h; rw [h]; exact cmpLoop_refl _ _
  · rfl

/-- the reference's fuel is sufficient: RPM's answer is the loop's answer at ANY fuel above
|a| + |b| (the `fuel = 0` branch of the transcription is never what decides) -/
theorem reference_fuel (a b : Reference.Bytes) (F : Nat) (hF : a.length + b.length < F) :
    Reference.rpmvercmp a b = Reference.cmpLoop F a b := by
  unfold Reference.rpmvercmp
  split
  · rename_i h; rw [h, cmpLoop_refl]
  · exact cmpLoop_fuel _ _ _ _ (by omega) hF

example : Reference.rpmvercmp [49, 46, 48, 126, 114, 99] [49, 46, 48] =
    Reference.cmpLoop 1000 [49, 46, 48, 126, 114, 99] [49, 46, 48] := by decide
example : Reference.rpmvercmp [49, 46, 48, 126, 114, 99] [49, 46, 48] = -1 := by decide

/-- UTF-8, written out on code points -/
def utf8 (c : Char) : List Nat :=
  let n := c.toNat
  if n < 0x80 then [n]
  else if n < 0x800 then [0xC0 + n / 0x40, 0x80 + n % 0x40]
  else if n < 0x10000 then [0xE0 + n / 0x1000, 0x80 + (n / 0x40) % 0x40, 0x80 + n % 0x40]
  else [0xF0 + n / 0x40000, 0x80 + (n / 0x1000) % 0x40, 0x80 + (n / 0x40) % 0x40, 0x80 + n % 0x40]

/-- UTF-8 meets the hypotheses -/
theorem utf8_encOk : EncOk utf8 := by
  constructor
  · intro c h; simp [utf8, h]
  · intro c h
    have h' : ¬ c.toNat < 128 := by omega
    simp only [utf8, h', if_false]
    split
    · simp; omega
    · split
      · simp; omega
      · simp; omega

/-- `_rpm_vercmp` = RPM's comparison of the UTF-8 bytes -/
theorem vercmp_eq_reference_utf8 (a b : Str) :
    vercmp a b = Reference.rpmvercmp (a.flatMap utf8) (b.flatMap utf8) :=
  vercmp_eq_reference utf8 utf8_encOk.1 utf8_encOk.2 a b

example : "1é2".toList.flatMap utf8 = [49, 195, 169, 50] := by decide
example : Reference.rpmvercmp ("1é2".toList.flatMap utf8) ("1.2".toList.flatMap utf8) = 0 := by decide
example : Reference.rpmvercmp ("1.0~rc1".toList.flatMap utf8) ("1.0".toList.flatMap utf8) = -1 := by decide
example : Reference.rpmvercmp ("1.0^git1".toList.flatMap utf8) ("1.0".toList.flatMap utf8) = 1 := by decide
example : Reference.rpmvercmp ("1.010".toList.flatMap utf8) ("1.9".toList.flatMap utf8) = 1 := by decide
example : Reference.rpmvercmp ("€a".toList.flatMap utf8) ("é.b".toList.flatMap utf8) = -1 := by decide
/-- a different encoding (every non-ASCII character as the two units 255 255) is covered too -/
example : EncOk (fun c => if c.toNat < 128 then [c.toNat] else [255, 255]) := by
  constructor
  · intro c h; simp [h]
  · intro c h
    have h' : ¬ c.toNat < 128 := by omega
    simp [h']

/-! ### the comparison as a lexicographic order on tokens (DESIGN Appendix A.1) -/

/-- `_rpm_vercmp a b` is the lexicographic comparison of the token lists of the two normalised
strings (`tokens`, `tokCmp`, `lexCmpTok`: Lemmas/RpmLex.lean) under the order
`~ < end < ^ < alpha (string order) < num (length, then string order)` -/
theorem vercmp_eq_lex (a b : Str) : vercmp a b = lexCmpTok (tokens (norm a)) (tokens (norm b)) := by
  rw [vercmp_eq_loop a b (a.length + b.length + 1) (by omega), loop_eq_lex,
      ← tokens_eq (norm a) _ (by rw [norm_length]; omega),
      ← tokens_eq (norm b) _ (by rw [norm_length]; omega)]

/-- the token cutter's fuel is sufficient: any fuel above the length gives the same tokens -/
theorem tokens_fuel (s : Str) (F : Nat) (h : s.length < F) : tokens s = tokensF F s :=
  tokens_eq s F h

example : tokens "1.0~rc1".toList = tokensF 1000 "1.0~rc1".toList := by decide

/-- the order on tokens ∪ {end} that is extended is a total preorder -/
theorem tokCmp_total_preorder :
    (∀ x, tokCmp x x = 0) ∧ (∀ x y, tokCmp x y = - tokCmp y x) ∧
    (∀ x y z, tokCmp x y ≤ 0 → tokCmp y z ≤ 0 → tokCmp x z ≤ 0) :=
  ⟨tokCmp_refl, tokCmp_antisymm, tokCmp_trans_le⟩

example : tokens "1.0~rc1".toList =
    [.num "1".toList, .num [], .tilde, .alpha "rc".toList, .num "1".toList] := by decide
example : tokens (norm "1é007^b-".toList) = [.num "1".toList, .num "7".toList, .caret, .alpha "b".toList] := by decide
example : lexCmpTok (tokens "1.0~rc1".toList) (tokens "1.0".toList) = -1 := by decide
example : lexCmpTok (tokens "1.0^git1".toList) (tokens "1.0".toList) = 1 := by decide
example : tokCmp none (some .caret) = -1 ∧ tokCmp (some .tilde) none = -1 ∧
    tokCmp (some (.alpha "z".toList)) (some (.num [])) = -1 := by decide

/-! ### epoch / version / release -/

def intCmp (x y : Int) : Int := if x < y then -1 else if x > y then 1 else 0

/-- lexicographic combination of two comparisons -/
def lex2 {α : Type} (c1 c2 : α → α → Int) (x y : α) : Int := if c1 x y = 0 then c2 x y else c1 x y

theorem lex2_antisymm {α : Type} (c1 c2 : α → α → Int) (a1 : ∀ x y, c1 x y = - c1 y x)
    (a2 : ∀ x y, c2 x y = - c2 y x) (x y : α) : lex2 c1 c2 x y = - lex2 c1 c2 y x := by
  unfold lex2; exact ite_neg_helper _ _ _ _ (a1 x y) (a2 x y)

theorem lex2_trans_le {α : Type} (c1 c2 : α → α → Int) (a1 : ∀ x y, c1 x y = - c1 y x)
    (t1 : ∀ x y z, c1 x y ≤ 0 → c1 y z ≤ 0 → c1 x z ≤ 0)
    (t2 : ∀ x y z, c2 x y ≤ 0 → c2 y z ≤ 0 → c2 x z ≤ 0)
    (x y z : α) (h1 : lex2 c1 c2 x y ≤ 0) (h2 : lex2 c1 c2 y z ≤ 0) : lex2 c1 c2 x z ≤ 0 := by
  unfold lex2 at *
  exact ite_trans_helper _ _ _ _ _ _ (t1 x y z) (cmp_strict_of_trans c1 a1 t1 x y z) (t2 x y z) h1 h2

theorem evrCmp_eq_lex (l r : Evr) :
    evrCmp l r = lex2 (fun a b => intCmp a.epoch b.epoch)
      (lex2 (fun a b => vercmp a.version b.version) (fun a b => vercmp a.release b.release)) l r := by
  unfold evrCmp lex2 intCmp
  by_cases h1 : l.epoch < r.epoch
  · simp [h1]
  · by_cases h2 : l.epoch > r.epoch
    · simp [h1, h2]
    · simp [h1, h2]

theorem intCmp_antisymm (x y : Int) : intCmp x y = - intCmp y x := by
  unfold intCmp; split <;> split <;> first | omega | (split <;> omega)

theorem intCmp_trans_le (x y z : Int) (h1 : intCmp x y ≤ 0) (h2 : intCmp y z ≤ 0) : intCmp x z ≤ 0 := by
  unfold intCmp at *
  split at h1 <;> split at h2 <;> split <;> first | omega | (split <;> omega) | (split at h1 <;> omega) | (split at h2 <;> omega) | skip
  all_goals (split at h1 <;> split at h2 <;> first | omega | (split <;> omega))

theorem evrCmp_refl (x : Evr) : evrCmp x x = 0 := by
  simp [evrCmp, vercmp_refl]

theorem evrCmp_antisymm (x y : Evr) : evrCmp x y = - evrCmp y x := by
  rw [evrCmp_eq_lex, evrCmp_eq_lex]
  apply lex2_antisymm
  · intro a b; exact intCmp_antisymm _ _
  · intro a b; apply lex2_antisymm <;> (intro a b; exact vercmp_antisymm _ _)

theorem evrCmp_trans_le (x y z : Evr) (h1 : evrCmp x y ≤ 0) (h2 : evrCmp y z ≤ 0) : evrCmp x z ≤ 0 := by
  rw [evrCmp_eq_lex] at *
  refine lex2_trans_le _ _ ?_ ?_ ?_ x y z h1 h2
  · intro a b; exact intCmp_antisymm _ _
  · intro a b c; exact intCmp_trans_le _ _ _
  · intro a b c
    refine lex2_trans_le _ _ ?_ ?_ ?_ a b c
    · intro a b; exact vercmp_antisymm _ _
    · intro a b c; exact vercmp_trans_le _ _ _
    · intro a b c; exact vercmp_trans_le _ _ _

theorem evrCmp_total (x y : Evr) : evrCmp x y ≤ 0 ∨ evrCmp y x ≤ 0 := by
  have := evrCmp_antisymm x y; omega

/-! ### operators of `InstalledRpm` -/

/-- for equal names every operator is the corresponding predicate on `evrCmp` -/
theorem ops_agree (a b : Pkg) (hn : a.name = b.name) :
    pkgEq a b = some (evrCmp a.evr b.evr == 0) ∧
    pkgNe a b = some (evrCmp a.evr b.evr != 0) ∧
    pkgLt a b = some (decide (evrCmp a.evr b.evr < 0)) ∧
    pkgLe a b = some (decide (evrCmp a.evr b.evr ≤ 0)) ∧
    pkgGt a b = some (decide (evrCmp a.evr b.evr > 0)) ∧
    pkgGe a b = some (decide (evrCmp a.evr b.evr ≥ 0)) := by
  obtain ⟨an, ae⟩ := a
  obtain ⟨bn, be⟩ := b
  simp only at hn
  subst hn
  have anti := evrCmp_antisymm ae be
  simp only [pkgEq, pkgNe, pkgLt, pkgLe, pkgGt, pkgGe, ne_eq, not_true_eq_false, if_false]
  rcases Int.lt_trichotomy (evrCmp ae be) 0 with h | h | h
  · have h1 : ¬ evrCmp ae be = 0 := by omega
    have h2 : ¬ evrCmp be ae = 0 := by omega
    have h3 : ¬ evrCmp be ae < 0 := by omega
    have h4 : evrCmp ae be ≤ 0 := by omega
    have h5 : ¬ evrCmp ae be > 0 := by omega
    have h6 : ¬ evrCmp ae be ≥ 0 := by omega
    have b1 : (evrCmp ae be == 0) = false := by simp [h1]
    have b2 : (evrCmp be ae == 0) = false := by simp [h2]
    simp [h, b1, b2, h1, h3, h4, h5, h6]
  · have h2 : evrCmp be ae = 0 := by omega
    simp [h, h2]
  · have h1 : ¬ evrCmp ae be = 0 := by omega
    have h2 : ¬ evrCmp be ae = 0 := by omega
    have h3 : evrCmp be ae < 0 := by omega
    have h4 : ¬ evrCmp ae be ≤ 0 := by omega
    have h5 : ¬ evrCmp ae be < 0 := by omega
    have h6 : evrCmp ae be ≥ 0 := by omega
    have b1 : (evrCmp ae be == 0) = false := by simp [h1]
    have b2 : (evrCmp be ae == 0) = false := by simp [h2]
    simp [h, b1, b2, h1, h3, h4, h5, h6]

/-- packages of different names are never silently ordered -/
theorem differing_names_error (a b : Pkg) (hn : a.name ≠ b.name) :
    pkgEq a b = none ∧ pkgLt a b = none ∧ pkgNe a b = none ∧ pkgGe a b = none ∧
    pkgGt a b = none ∧ pkgLe a b = none := by
  have hn' : b.name ≠ a.name := fun h => hn h.symm
  simp [pkgEq, pkgLt, pkgNe, pkgGe, pkgGt, pkgLe, hn, hn']

/-- for the same name exactly one of older / equal / newer holds -/
theorem trichotomy (a b : Pkg) (hn : a.name = b.name) :
    (pkgLt a b = some true ∧ pkgEq a b = some false ∧ pkgGt a b = some false) ∨
    (pkgLt a b = some false ∧ pkgEq a b = some true ∧ pkgGt a b = some false) ∨
    (pkgLt a b = some false ∧ pkgEq a b = some false ∧ pkgGt a b = some true) := by
  obtain ⟨h1, _, h3, _, h5, _⟩ := ops_agree a b hn
  rw [h1, h3, h5]
  by_cases hlt : evrCmp a.evr b.evr < 0
  · left
    have : ¬ evrCmp a.evr b.evr = 0 := by omega
    have : ¬ evrCmp a.evr b.evr > 0 := by omega
    simp [*]
  · by_cases heq : evrCmp a.evr b.evr = 0
    · right; left; simp [heq]
    · right; right
      have : evrCmp a.evr b.evr > 0 := by omega
      simp [*]

/-! ### newest / oldest -/

theorem foldl_max_inv (xs : List Evr) (x : Evr) :
    let m := xs.foldl (fun best y => if evrCmp best y < 0 then y else best) x
    (m = x ∨ m ∈ xs) ∧ evrCmp x m ≤ 0 ∧ ∀ y ∈ xs, evrCmp y m ≤ 0 := by
  induction xs generalizing x with
  | nil => simp [evrCmp_refl]
  | cons z zs ih =>
    simp only [List.foldl_cons]
    by_cases h : evrCmp x z < 0
    · simp only [h, if_true]
      obtain ⟨i1, i2, i3⟩ := ih z
      refine ⟨?_, ?_, ?_⟩
      · rcases i1 with i1 | i1
        · right; simp [i1]
        · right; simp [i1]
      · exact evrCmp_trans_le _ _ _ (by omega) i2
      · intro y hy
        rcases List.mem_cons.mp hy with rfl | hy
        · exact i2
        · exact i3 y hy
    · simp only [h, if_false]
      obtain ⟨i1, i2, i3⟩ := ih x
      refine ⟨?_, i2, ?_⟩
      · rcases i1 with i1 | i1
        · left; exact i1
        · right; simp [i1]
      · intro y hy
        rcases List.mem_cons.mp hy with rfl | hy
        · have := evrCmp_antisymm y x
          exact evrCmp_trans_le _ _ _ (by omega) i2
        · exact i3 y hy

/-- `newest` returns an element of the list that no element exceeds -/
theorem newest_is_max (xs : List Evr) (m : Evr) (h : pyMax xs = some m) :
    m ∈ xs ∧ ∀ y ∈ xs, evrCmp y m ≤ 0 := by
  cases xs with
  | nil => simp [pyMax] at h
  | cons x xs =>
    simp only [pyMax, Option.some.injEq] at h
    obtain ⟨i1, i2, i3⟩ := foldl_max_inv xs x
    simp only [h] at i1 i2 i3
    refine ⟨?_, ?_⟩
    · rcases i1 with i1 | i1
      · simp [i1]
      · simp [i1]
    · intro y hy
      rcases List.mem_cons.mp hy with rfl | hy
      · exact i2
      · exact i3 y hy

theorem foldl_min_inv (xs : List Evr) (x : Evr) :
    let m := xs.foldl (fun best y => if evrCmp y best < 0 then y else best) x
    (m = x ∨ m ∈ xs) ∧ evrCmp m x ≤ 0 ∧ ∀ y ∈ xs, evrCmp m y ≤ 0 := by
  induction xs generalizing x with
  | nil => simp [evrCmp_refl]
  | cons z zs ih =>
    simp only [List.foldl_cons]
    by_cases h : evrCmp z x < 0
    · simp only [h, if_true]
      obtain ⟨i1, i2, i3⟩ := ih z
      refine ⟨?_, ?_, ?_⟩
      · rcases i1 with i1 | i1
        · right; simp [i1]
        · right; simp [i1]
      · exact evrCmp_trans_le _ _ _ i2 (by omega)
      · intro y hy
        rcases List.mem_cons.mp hy with rfl | hy
        · exact i2
        · exact i3 y hy
    · simp only [h, if_false]
      obtain ⟨i1, i2, i3⟩ := ih x
      refine ⟨?_, i2, ?_⟩
      · rcases i1 with i1 | i1
        · left; exact i1
        · right; simp [i1]
      · intro y hy
        rcases List.mem_cons.mp hy with rfl | hy
        · have := evrCmp_antisymm x y
          exact evrCmp_trans_le _ _ _ i2 (by omega)
        · exact i3 y hy

/-- `oldest` returns an element of the list that exceeds no element -/
theorem oldest_is_min (xs : List Evr) (m : Evr) (h : pyMin xs = some m) :
    m ∈ xs ∧ ∀ y ∈ xs, evrCmp m y ≤ 0 := by
  cases xs with
  | nil => simp [pyMin] at h
  | cons x xs =>
    simp only [pyMin, Option.some.injEq] at h
    obtain ⟨i1, i2, i3⟩ := foldl_min_inv xs x
    simp only [h] at i1 i2 i3
    refine ⟨?_, ?_⟩
    · rcases i1 with i1 | i1
      · simp [i1]
      · simp [i1]
    · intro y hy
      rcases List.mem_cons.mp hy with rfl | hy
      · exact i2
      · exact i3 y hy

/-! ### non-vacuity: the comparison is not constant, and the hypotheses above are met -/

example : vercmp "1.0~rc1".toList "1.0".toList = -1 := by decide
example : vercmp "1.0^git1".toList "1.0".toList = 1 := by decide
example : vercmp "1.010".toList "1.9".toList = 1 := by decide
example : vercmp "1.0a".toList "1.0.1".toList = -1 := by decide
example : vercmp "1é2".toList "1.2".toList = 0 := by decide
example : vercmp "1.0".toList "1.0~rc1".toList ≤ 0 → False := by decide
example : pyMax [⟨0, "1".toList, "1".toList⟩, ⟨1, "0".toList, "1".toList⟩] = some ⟨1, "0".toList, "1".toList⟩ := by decide

/-! ### round 10: equality is compatible with the order -/

theorem evrCmp_range (x y : Evr) : evrCmp x y = -1 ∨ evrCmp x y = 0 ∨ evrCmp x y = 1 := by
  have h1 := vercmp_range x.version y.version
  have h2 := vercmp_range x.release y.release
  unfold evrCmp
  split
  · simp
  · split
    · simp
    · simp only []
      split <;> assumption
example : evrCmp ⟨1, "1".toList, "1".toList⟩ ⟨0, "9".toList, "9".toList⟩ = 1 := by decide

/-- packages that compare equal are interchangeable on the left of every comparison … -/
theorem evrCmp_congr_left (a b c : Evr) (h : evrCmp a b = 0) : evrCmp a c = evrCmp b c := by
  have ab := evrCmp_antisymm a b
  have ac := evrCmp_antisymm a c
  have bc := evrCmp_antisymm b c
  have r1 := evrCmp_range a c
  have r2 := evrCmp_range b c
  have t1 : evrCmp b c ≤ 0 → evrCmp a c ≤ 0 := fun k => evrCmp_trans_le a b c (by omega) k
  have t2 : evrCmp a c ≤ 0 → evrCmp b c ≤ 0 := fun k => evrCmp_trans_le b a c (by omega) k
  have t3 : evrCmp c a ≤ 0 → evrCmp c b ≤ 0 := fun k => evrCmp_trans_le c a b k (by omega)
  have t4 : evrCmp c b ≤ 0 → evrCmp c a ≤ 0 := fun k => evrCmp_trans_le c b a k (by omega)
  omega
example : evrCmp ⟨0, "1.05".toList, "1".toList⟩ ⟨0, "1.5".toList, "01".toList⟩ = 0 := by decide

/-- … and on the right -/
theorem evrCmp_congr_right (a b c : Evr) (h : evrCmp a b = 0) : evrCmp c a = evrCmp c b := by
  have := evrCmp_congr_left a b c h
  have := evrCmp_antisymm c a
  have := evrCmp_antisymm c b
  omega

/-- `==` on packages is symmetric (also in raising) -/
theorem pkgEq_symm (a b : Pkg) : pkgEq a b = pkgEq b a := by
  obtain ⟨an, ae⟩ := a
  obtain ⟨bn, be⟩ := b
  have anti := evrCmp_antisymm ae be
  by_cases hn : an = bn
  · subst hn
    simp only [pkgEq, ne_eq, not_true_eq_false, if_false, Option.some.injEq]
    rw [Bool.eq_iff_iff]
    simp only [beq_iff_eq]
    omega
  · have hn' : ¬ bn = an := fun h => hn h.symm
    simp [pkgEq, hn, hn']
example : pkgEq ⟨"a".toList, ⟨0, "1".toList, "1".toList⟩⟩ ⟨"a".toList, ⟨0, "01".toList, "1".toList⟩⟩ = some true := by decide

theorem pkgEq_some_true (a b : Pkg) : pkgEq a b = some true ↔ (a.name = b.name ∧ evrCmp a.evr b.evr = 0) := by
  by_cases hn : a.name = b.name <;> simp [pkgEq, hn]
example : pkgEq ⟨"a".toList, ⟨0, "1".toList, "1".toList⟩⟩ ⟨"b".toList, ⟨0, "1".toList, "1".toList⟩⟩ = none := by decide

/-- `==` is transitive: with reflexivity (`ops_agree`, `evrCmp_refl`) and symmetry an equivalence per name -/
theorem pkgEq_trans (a b c : Pkg) (h1 : pkgEq a b = some true) (h2 : pkgEq b c = some true) :
    pkgEq a c = some true := by
  rw [pkgEq_some_true] at *
  obtain ⟨n1, e1⟩ := h1
  obtain ⟨n2, e2⟩ := h2
  refine ⟨n1.trans n2, ?_⟩
  rw [evrCmp_congr_left _ _ _ e1]; exact e2
example : pkgEq ⟨"a".toList, ⟨0, "1.0".toList, "1".toList⟩⟩ ⟨"a".toList, ⟨0, "1_0".toList, "1".toList⟩⟩ = some true := by decide

/-- a package that is `==` to another one answers every operator against a third like the other one does:
the operators respect the equivalence, they cannot tell RPM-equal packages apart -/
theorem pkgEq_compat (a b c : Pkg) (h : pkgEq a b = some true) :
    pkgEq a c = pkgEq b c ∧ pkgLt a c = pkgLt b c ∧ pkgLt c a = pkgLt c b ∧
    pkgNe a c = pkgNe b c ∧ pkgLe a c = pkgLe b c ∧ pkgGt a c = pkgGt b c ∧ pkgGe a c = pkgGe b c := by
  rw [pkgEq_some_true] at h
  obtain ⟨hn, he⟩ := h
  have l := evrCmp_congr_left _ _ c.evr he
  have r := evrCmp_congr_right _ _ c.evr he
  have e1 : pkgEq a c = pkgEq b c := by simp only [pkgEq, hn, l]
  have e2 : pkgEq c a = pkgEq c b := by simp only [pkgEq, hn, r]
  have e3 : pkgLt a c = pkgLt b c := by simp only [pkgLt, e1, l]
  have e4 : pkgLt c a = pkgLt c b := by simp only [pkgLt, e2, r]
  simp only [pkgNe, pkgLe, pkgGt, pkgGe, e1, e3, e4, and_self]

/-- equal exactly when neither is older: `a == b ⇔ not a < b and not b < a` -/
theorem eq_iff_not_lt_not_gt (a b : Pkg) (hn : a.name = b.name) :
    pkgEq a b = some true ↔ (pkgLt a b = some false ∧ pkgLt b a = some false) := by
  rcases trichotomy a b hn with ⟨h1, h2, h3⟩ | ⟨h1, h2, h3⟩ | ⟨h1, h2, h3⟩
  · simp [h1, h2]
  · have : pkgLt b a = some false := h3
    simp [h1, h2, this]
  · have : pkgLt b a = some true := h3
    simp [h1, h2, this]
example : pkgLt ⟨"a".toList, ⟨0, "1".toList, "1".toList⟩⟩ ⟨"a".toList, ⟨0, "1".toList, "2".toList⟩⟩ = some true := by decide

/-! ### round 10: the `left is right` shortcut, operands that are not packages -/

/-- the identity shortcut of `rpm_version_compare` changes no result -/
theorem evrCmpId_eq (same : Bool) (l r : Evr) (h : same = true → l = r) : evrCmpId same l r = evrCmp l r := by
  cases same with
  | false => simp [evrCmpId]
  | true => have := h rfl; subst this; simp [evrCmpId, evrCmp_refl]
example : evrCmpId true ⟨3, "1".toList, []⟩ ⟨3, "1".toList, []⟩ = 0 := by decide

/-- an operand that is not a package is never ordered against one, and no operator raises -/
theorem ops_foreign (a : Pkg) :
    opEq a .other = some false ∧ opNe a .other = some true ∧ opLt a .other = some false ∧
    opLe a .other = some false ∧ opGt a .other = some false ∧ opGe a .other = some false := by
  simp [opEq, opNe, opLt, opLe, opGt, opGe]
example : opNe ⟨"a".toList, ⟨0, [], []⟩⟩ .other = some true := by decide

/-- with a package operand the operators are the `pkg*` functions of `ops_agree` / `trichotomy` -/
theorem ops_pkg (a b : Pkg) :
    opEq a (.pkg b) = pkgEq a b ∧ opNe a (.pkg b) = pkgNe a b ∧ opLt a (.pkg b) = pkgLt a b ∧
    opLe a (.pkg b) = pkgLe a b ∧ opGt a (.pkg b) = pkgGt a b ∧ opGe a (.pkg b) = pkgGe a b := by
  simp [opEq, opNe, opLt, opLe, opGt, opGe, pkgNe]
example : opLt ⟨"a".toList, ⟨0, "1".toList, []⟩⟩ (.pkg ⟨"a".toList, ⟨0, "2".toList, []⟩⟩) = some true := by decide

/-! ### round 10: the short package string -/

/-- `name-version-release.arch` parses back to its fields, whatever dashes, dots and digits the NAME has -/
theorem parsePackage_print (archs : List Str) (name version release arch : Str)
    (hv : '-' ∉ version) (hv0 : version ≠ []) (hvc : ':' ∉ version)
    (hr : '-' ∉ release) (hr0 : release ≠ [])
    (ha : arch ∈ archs) (ha1 : '.' ∉ arch) (ha2 : '-' ∉ arch) (ha0 : arch ≠ [])
    (ho : (startsWith "oracleasm".toList name && endsWith ".el5".toList name) = false) :
    parsePackage archs (printPackage name none version release arch)
      = some ⟨name, "0".toList, version, release, some arch⟩ := by
  have hs : printPackage name none version release arch
      = (name ++ '-' :: version ++ '-' :: release) ++ '.' :: arch := by simp [printPackage]
  have s1 := archSep_dot (name ++ '-' :: version ++ '-' :: release) arch ha1 ha2
  have s2 := rsplit_append '.' (name ++ '-' :: version ++ '-' :: release) arch ha1 ha0
  have s3 := rsplit_append '-' (name ++ '-' :: version) release hr hr0
  have s4 := rsplit_append '-' name version hv hv0
  have s5 := splitFirst_none ':' version hvc
  rw [hs]
  simp only [parsePackage, s1, s2, ha, if_true, s3, s4, s5, ho, Option.bind_eq_bind, Option.bind_some,
    Bool.false_eq_true, if_false, Option.pure_def]
example : parsePackage ["x".toList] "k-rt-3.1-7.el7.x".toList
    = some ⟨"k-rt".toList, "0".toList, "3.1".toList, "7.el7".toList, some "x".toList⟩ := by decide

/-- the same with an epoch in front of the version (`name-epoch:version-release.arch`) -/
theorem parsePackage_print_epoch (archs : List Str) (name epoch version release arch : Str)
    (hv : '-' ∉ version) (he : '-' ∉ epoch) (hec : ':' ∉ epoch)
    (hr : '-' ∉ release) (hr0 : release ≠ [])
    (ha : arch ∈ archs) (ha1 : '.' ∉ arch) (ha2 : '-' ∉ arch) (ha0 : arch ≠ [])
    (ho : (startsWith "oracleasm".toList name && endsWith ".el5".toList name) = false) :
    parsePackage archs (printPackage name (some epoch) version release arch)
      = some ⟨name, epoch, version, release, some arch⟩ := by
  have hs : printPackage name (some epoch) version release arch
      = (name ++ '-' :: (epoch ++ ':' :: version) ++ '-' :: release) ++ '.' :: arch := by simp [printPackage]
  have hev : '-' ∉ epoch ++ ':' :: version := by
    simp only [List.mem_append, List.mem_cons, not_or]
    exact ⟨he, by decide, hv⟩
  have hev0 : epoch ++ ':' :: version ≠ [] := by simp
  have s1 := archSep_dot (name ++ '-' :: (epoch ++ ':' :: version) ++ '-' :: release) arch ha1 ha2
  have s2 := rsplit_append '.' (name ++ '-' :: (epoch ++ ':' :: version) ++ '-' :: release) arch ha1 ha0
  have s3 := rsplit_append '-' (name ++ '-' :: (epoch ++ ':' :: version)) release hr hr0
  have s4 := rsplit_append '-' name (epoch ++ ':' :: version) hev hev0
  have s5 := splitFirst_append ':' epoch version hec
  rw [hs]
  simp only [parsePackage, s1, s2, ha, if_true, s3, s4, s5, ho, Option.bind_eq_bind, Option.bind_some,
    Bool.false_eq_true, if_false, Option.pure_def]
example : parsePackage ["x".toList] "b-32:9.1-2.P2.x".toList
    = some ⟨"b".toList, "32".toList, "9.1".toList, "2.P2".toList, some "x".toList⟩ := by decide

/-- a string without a recognised architecture at its end is `name-version-release` as a whole (the release keeps
its dots: `3.el7` stays `3.el7`) -/
theorem parsePackage_print_noarch (archs : List Str) (name version release p t : Str)
    (hsplit : rsplit (name ++ '-' :: version ++ '-' :: release) (archSep (name ++ '-' :: version ++ '-' :: release)) = some (p, t))
    (ht : t ∉ archs)
    (hv : '-' ∉ version) (hv0 : version ≠ []) (hvc : ':' ∉ version)
    (hr : '-' ∉ release) (hr0 : release ≠ [])
    (ho : (startsWith "oracleasm".toList name && endsWith ".el5".toList name) = false) :
    parsePackage archs (name ++ '-' :: version ++ '-' :: release)
      = some ⟨name, "0".toList, version, release, none⟩ := by
  have s3 := rsplit_append '-' (name ++ '-' :: version) release hr hr0
  have s4 := rsplit_append '-' name version hv hv0
  have s5 := splitFirst_none ':' version hvc
  simp only [parsePackage, hsplit, ht, if_false, s3, s4, s5, ho, Option.bind_eq_bind, Option.bind_some,
    Bool.false_eq_true, Option.pure_def]
example : rsplit "b-1-3.el7".toList (archSep "b-1-3.el7".toList) = some ("b-1-3".toList, "el7".toList) ∧
    parsePackage ["x".toList] "b-1-3.el7".toList = some ⟨"b".toList, "0".toList, "1".toList, "3.el7".toList, none⟩ := by decide

/-- `oracleasm-<kernel version>.el5-version-release.arch`: the package is what stands before the FIRST dash of the
name, the kernel version goes in front of the version -/
theorem parsePackage_print_oracleasm (archs : List Str) (h k version release arch : Str)
    (hh : '-' ∉ h)
    (ho : (startsWith "oracleasm".toList (h ++ '-' :: k) && endsWith ".el5".toList (h ++ '-' :: k)) = true)
    (hv : '-' ∉ version) (hv0 : version ≠ []) (hvc : ':' ∉ version)
    (hr : '-' ∉ release) (hr0 : release ≠ [])
    (ha : arch ∈ archs) (ha1 : '.' ∉ arch) (ha2 : '-' ∉ arch) (ha0 : arch ≠ []) :
    parsePackage archs (printPackage (h ++ '-' :: k) none version release arch)
      = some ⟨h, "0".toList, k ++ '-' :: version, release, some arch⟩ := by
  have hs : printPackage (h ++ '-' :: k) none version release arch
      = ((h ++ '-' :: k) ++ '-' :: version ++ '-' :: release) ++ '.' :: arch := by simp [printPackage]
  have s1 := archSep_dot ((h ++ '-' :: k) ++ '-' :: version ++ '-' :: release) arch ha1 ha2
  have s2 := rsplit_append '.' ((h ++ '-' :: k) ++ '-' :: version ++ '-' :: release) arch ha1 ha0
  have s3 := rsplit_append '-' ((h ++ '-' :: k) ++ '-' :: version) release hr hr0
  have s4 := rsplit_append '-' (h ++ '-' :: k) version hv hv0
  have s5 := splitFirst_none ':' version hvc
  have s6 := splitFirst_append '-' h k hh
  rw [hs]
  simp only [parsePackage, s1, s2, ha, if_true, s3, s4, s5, s6, ho, Option.bind_eq_bind, Option.bind_some,
    Option.pure_def]
example : parsePackage ["x".toList] "oracleasm-2.6-1.el5-2.0-1.x".toList
    = some ⟨"oracleasm".toList, "0".toList, "2.6-1.el5-2.0".toList, "1".toList, some "x".toList⟩ := by decide

/-- a string without '.' and '-' is no package string: the parse raises -/
theorem parsePackage_no_sep (archs : List Str) (s : Str) (h1 : '.' ∉ s) (h2 : '-' ∉ s) :
    parsePackage archs s = none := by
  have r1 : '.' ∉ s.reverse := by simpa using h1
  have r2 : '-' ∉ s.reverse := by simpa using h2
  have s1 : archSep s = '-' := by simp only [archSep, archSepRev_none s.reverse r1 r2]
  simp only [parsePackage, s1, rsplit_none '-' s h2, Option.bind_eq_bind, Option.bind_none]
example : parsePackage [] "bash".toList = none := by decide

/-- the epoch rule of `InstalledRpm.__init__`: `(none)` and a missing epoch are epoch 0 -/
theorem epoch_none_is_zero : epochOf none = "0".toList ∧ epochOf (some "(none)".toList) = "0".toList ∧
    pyIntDec (epochOf none) = some 0 ∧ pyIntDec (epochOf (some "(none)".toList)) = some 0 := by decide
example : pyIntDec (epochOf (some "32".toList)) = some 32 := by decide

/-! ### round 10: hashing -/

/-- the hash is a function of name, version, release and arch: packages that agree on them hash alike -/
theorem hashKey_congr (f g : Fields) (h1 : f.name = g.name) (h2 : f.version = g.version)
    (h3 : f.release = g.release) (h4 : f.arch = g.arch) : hashKey f = hashKey g := by
  simp [hashKey, h1, h2, h3, h4]
example : hashKey ⟨"a".toList, "0".toList, "1".toList, "2".toList, none⟩ = "a-1-2".toList := by decide

/-- Python's contract for `__hash__` (objects that are `==` hash alike), as a statement about the model.
It is NOT part of C13's statement (which speaks of the comparison, the rich operators and newest/oldest): what follows
records a documented behaviour of the code outside the property, not a finding -/
def HashAgreesWithEq : Prop :=
  ∀ (f g : Fields) (e1 e2 : Int), pkgEq (pkgOf f e1) (pkgOf g e2) = some true → hashKey f = hashKey g

/-- what does hold: packages with the same text (and epoch) are `==` and hash alike -/
theorem hash_agrees_partial (f g : Fields) (e : Int) (h1 : f.name = g.name) (h2 : f.version = g.version)
    (h3 : f.release = g.release) (h4 : f.arch = g.arch) :
    pkgEq (pkgOf f e) (pkgOf g e) = some true ∧ hashKey f = hashKey g := by
  refine ⟨?_, hashKey_congr f g h1 h2 h3 h4⟩
  rw [pkgEq_some_true]
  refine ⟨h1, ?_⟩
  simp only [pkgOf, h2, h3]
  exact evrCmp_refl _
example : pkgEq (pkgOf ⟨"a".toList, [], "1".toList, "2".toList, none⟩ 3) (pkgOf ⟨"a".toList, [], "1".toList, "2".toList, none⟩ 3) = some true := by decide

/-- documented behaviour outside the property's statement (not a finding): the full contract does not hold of the code
as it is — `a-1.05-1` == `a-1.5-1` (RPM-equal), different hashed strings -/
theorem hash_agrees_witness : ¬ HashAgreesWithEq := by
  intro h
  have := h ⟨"a".toList, "0".toList, "1.05".toList, "1".toList, none⟩ ⟨"a".toList, "0".toList, "1.5".toList, "1".toList, none⟩ 0 0 (by decide)
  revert this
  decide

/-! ### round 10: look-up by name in front of max / min -/

theorem getMax_absent (pkgs : List (Str × List Evr)) (name : Str) (h : lookup name pkgs = none) :
    getMax pkgs name = none ∧ getMin pkgs name = none := by
  simp [getMax, getMin, h]
example : getMax [("a".toList, [⟨0, [], []⟩])] "b".toList = none := by decide

/-- `get_max(name)` / `get_min(name)` return a build listed under that name that no listed build exceeds / is below -/
theorem getMax_is_max (pkgs : List (Str × List Evr)) (name : Str) (m : Evr) (h : getMax pkgs name = some m) :
    ∃ xs, lookup name pkgs = some xs ∧ m ∈ xs ∧ ∀ y ∈ xs, evrCmp y m ≤ 0 := by
  cases hl : lookup name pkgs with
  | none => simp [getMax, hl] at h
  | some xs =>
    simp only [getMax, hl, Option.bind_some] at h
    exact ⟨xs, rfl, newest_is_max xs m h⟩
example : getMax [("a".toList, [⟨0, "1".toList, []⟩, ⟨0, "2".toList, []⟩])] "a".toList = some ⟨0, "2".toList, []⟩ := by decide

theorem getMin_is_min (pkgs : List (Str × List Evr)) (name : Str) (m : Evr) (h : getMin pkgs name = some m) :
    ∃ xs, lookup name pkgs = some xs ∧ m ∈ xs ∧ ∀ y ∈ xs, evrCmp m y ≤ 0 := by
  cases hl : lookup name pkgs with
  | none => simp [getMin, hl] at h
  | some xs =>
    simp only [getMin, hl, Option.bind_some] at h
    exact ⟨xs, rfl, oldest_is_min xs m h⟩
example : getMin [("a".toList, [⟨0, "1".toList, []⟩, ⟨0, "2".toList, []⟩])] "a".toList = some ⟨0, "1".toList, []⟩ := by decide

end IV.Rpm
