import IV.Lemmas.Rpm
import IV.Lemmas.RpmRef
import IV.Lemmas.RpmLex
/-!
C13 — package version comparison is RPM's ordering: agreement with RPM's `rpmvercmp()`
(`vercmp_eq_reference`, against the transcription in Model/RpmRef.lean), the comparison as a
lexicographic order on tokens (`vercmp_eq_lex`) and the order laws.

Every theorem is about `IV.Rpm.vercmp` / `evrCmp` / the `pkg*` operators, the model of
`_rpm_vercmp`, `rpm_version_compare` and `InstalledRpm`'s rich comparisons, for ALL strings
(any length, any characters, ASCII or not) and all epochs.
-/
namespace IV.Rpm

/-- `vercmp` is the loop at any sufficient fuel (the `a == b` shortcut agrees with the loop) -/
theorem vercmp_eq_loop (a b : Str) (F : Nat) (hF : a.length + b.length < F) :
    vercmp a b = loop F (norm a) (norm b) := by
  unfold vercmp
  split
  · rename_i h; subst h; rw [loop_refl]
  · exact loop_fuel _ _ _ _ (by simp [norm_length]) (by simp [norm_length]; omega)

/-- reflexive -/
theorem vercmp_refl (a : Str) : vercmp a a = 0 := by simp [vercmp]

/-- the result is always -1, 0 or 1 -/
theorem vercmp_range (a b : Str) : vercmp a b = -1 ∨ vercmp a b = 0 ∨ vercmp a b = 1 := by
  rw [vercmp_eq_loop a b _ (Nat.lt_succ_self _)]; exact loop_range _ _ _

/-- antisymmetric: swapping the arguments negates the result -/
theorem vercmp_antisymm (a b : Str) : vercmp a b = - vercmp b a := by
  rw [vercmp_eq_loop a b (a.length + b.length + 1) (by omega),
      vercmp_eq_loop b a (a.length + b.length + 1) (by omega)]
  exact loop_antisymm _ _ _

/-- transitive, for all triples of strings (no bound on alphabet or length) -/
theorem vercmp_trans_le (a b c : Str) (h1 : vercmp a b ≤ 0) (h2 : vercmp b c ≤ 0) : vercmp a c ≤ 0 := by
  let F := a.length + b.length + c.length + 1
  rw [vercmp_eq_loop a b F (by omega)] at h1
  rw [vercmp_eq_loop b c F (by omega)] at h2
  rw [vercmp_eq_loop a c F (by omega)]
  exact loop_trans_le _ _ _ _ h1 h2

/-- total: any two strings are comparable -/
theorem vercmp_total (a b : Str) : vercmp a b ≤ 0 ∨ vercmp b a ≤ 0 := by
  have := vercmp_antisymm a b; omega

/-- equivalence is transitive too (0 is not an accident of one pair) -/
theorem vercmp_eq_trans (a b c : Str) (h1 : vercmp a b = 0) (h2 : vercmp b c = 0) : vercmp a c = 0 := by
  have t1 := vercmp_trans_le a b c (by omega) (by omega)
  have t2 := vercmp_trans_le c b a (by rw [vercmp_antisymm]; omega) (by rw [vercmp_antisymm]; omega)
  have := vercmp_antisymm a c; omega

/-! ### first clause: the same answer as RPM's own comparison -/

/-- what `vercmp_eq_reference` needs of an encoding of characters as code units: ASCII is kept,
every other character becomes a non-empty run of units ≥ 128 (UTF-8: `utf8_encOk`) -/
def EncOk (enc : Char → List Nat) : Prop :=
  (∀ c : Char, c.toNat < 128 → enc c = [c.toNat]) ∧
  (∀ c : Char, 128 ≤ c.toNat → enc c ≠ [] ∧ ∀ u ∈ enc c, 128 ≤ u)

/-- `_rpm_vercmp` on two strings = RPM's `rpmvercmp()` (transcribed in Model/RpmRef.lean) on
their code units, for every string (any length, any characters) and every such encoding -/
theorem vercmp_eq_reference (enc : Char → List Nat)
    (hlo : ∀ c : Char, c.toNat < 128 → enc c = [c.toNat])
    (hhi : ∀ c : Char, 128 ≤ c.toNat → enc c ≠ [] ∧ ∀ u ∈ enc c, 128 ≤ u) (a b : Str) :
    vercmp a b = Reference.rpmvercmp (a.flatMap enc) (b.flatMap enc) := by
  have ra := rel_norm enc hlo hhi a
  have rb := rel_norm enc hlo hhi b
  have la := rel_length ra
  have lb := rel_length rb
  rw [norm_length] at la lb
  unfold Reference.rpmvercmp
  rw [vercmp_eq_loop a b ((a.flatMap enc).length + (b.flatMap enc).length + 1) (by omega),
      loop_eq_cmpLoop _ _ _ _ _ ra rb]
  split
  · rename_i h; rw [h]; exact cmpLoop_refl _ _
  · rfl

/-- the reference's fuel is sufficient: RPM's answer is the loop's answer at ANY fuel above
|a| + |b| (the `fuel = 0` branch of the transcription is never what decides) -/
theorem reference_fuel (a b : Reference.Bytes) (F : Nat) (hF : a.length + b.length < F) :
    Reference.rpmvercmp a b = Reference.cmpLoop F a b := by
  unfold Reference.rpmvercmp
  split
  · rename_i h; rw [h, cmpLoop_refl]
  · exact cmpLoop_fuel _ _ _ _ (by omega) hF

example : Reference.rpmvercmp [49, 46, 48, 126, 114, 99] [49, 46, 48] =
    Reference.cmpLoop 1000 [49, 46, 48, 126, 114, 99] [49, 46, 48] := by decide
example : Reference.rpmvercmp [49, 46, 48, 126, 114, 99] [49, 46, 48] = -1 := by decide

/-- UTF-8, written out on code points -/
def utf8 (c : Char) : List Nat :=
  let n := c.toNat
  if n < 0x80 then [n]
  else if n < 0x800 then [0xC0 + n / 0x40, 0x80 + n % 0x40]
  else if n < 0x10000 then [0xE0 + n / 0x1000, 0x80 + (n / 0x40) % 0x40, 0x80 + n % 0x40]
  else [0xF0 + n / 0x40000, 0x80 + (n / 0x1000) % 0x40, 0x80 + (n / 0x40) % 0x40, 0x80 + n % 0x40]

/-- UTF-8 meets the hypotheses -/
theorem utf8_encOk : EncOk utf8 := by
  constructor
  · intro c h; simp [utf8, h]
  · intro c h
    have h' : ¬ c.toNat < 128 := by omega
    simp only [utf8, h', if_false]
    split
    · simp; omega
    · split
      · simp; omega
      · simp; omega

/-- `_rpm_vercmp` = RPM's comparison of the UTF-8 bytes -/
theorem vercmp_eq_reference_utf8 (a b : Str) :
    vercmp a b = Reference.rpmvercmp (a.flatMap utf8) (b.flatMap utf8) :=
  vercmp_eq_reference utf8 utf8_encOk.1 utf8_encOk.2 a b

example : "1é2".toList.flatMap utf8 = [49, 195, 169, 50] := by decide
example : Reference.rpmvercmp ("1é2".toList.flatMap utf8) ("1.2".toList.flatMap utf8) = 0 := by decide
example : Reference.rpmvercmp ("1.0~rc1".toList.flatMap utf8) ("1.0".toList.flatMap utf8) = -1 := by decide
example : Reference.rpmvercmp ("1.0^git1".toList.flatMap utf8) ("1.0".toList.flatMap utf8) = 1 := by decide
example : Reference.rpmvercmp ("1.010".toList.flatMap utf8) ("1.9".toList.flatMap utf8) = 1 := by decide
example : Reference.rpmvercmp ("€a".toList.flatMap utf8) ("é.b".toList.flatMap utf8) = -1 := by decide
/-- a different encoding (every non-ASCII character as the two units 255 255) is covered too -/
example : EncOk (fun c => if c.toNat < 128 then [c.toNat] else [255, 255]) := by
  constructor
  · intro c h; simp [h]
  · intro c h
    have h' : ¬ c.toNat < 128 := by omega
    simp [h']

/-! ### the comparison as a lexicographic order on tokens (DESIGN Appendix A.1) -/

/-- `_rpm_vercmp a b` is the lexicographic comparison of the token lists of the two normalised
strings (`tokens`, `tokCmp`, `lexCmpTok`: Lemmas/RpmLex.lean) under the order
`~ < end < ^ < alpha (string order) < num (length, then string order)` -/
theorem vercmp_eq_lex (a b : Str) : vercmp a b = lexCmpTok (tokens (norm a)) (tokens (norm b)) := by
  rw [vercmp_eq_loop a b (a.length + b.length + 1) (by omega), loop_eq_lex,
      ← tokens_eq (norm a) _ (by rw [norm_length]; omega),
      ← tokens_eq (norm b) _ (by rw [norm_length]; omega)]

/-- the token cutter's fuel is sufficient: any fuel above the length gives the same tokens -/
theorem tokens_fuel (s : Str) (F : Nat) (h : s.length < F) : tokens s = tokensF F s :=
  tokens_eq s F h

example : tokens "1.0~rc1".toList = tokensF 1000 "1.0~rc1".toList := by decide

/-- the order on tokens ∪ {end} that is extended is a total preorder -/
theorem tokCmp_total_preorder :
    (∀ x, tokCmp x x = 0) ∧ (∀ x y, tokCmp x y = - tokCmp y x) ∧
    (∀ x y z, tokCmp x y ≤ 0 → tokCmp y z ≤ 0 → tokCmp x z ≤ 0) :=
  ⟨tokCmp_refl, tokCmp_antisymm, tokCmp_trans_le⟩

example : tokens "1.0~rc1".toList =
    [.num "1".toList, .num [], .tilde, .alpha "rc".toList, .num "1".toList] := by decide
example : tokens (norm "1é007^b-".toList) = [.num "1".toList, .num "7".toList, .caret, .alpha "b".toList] := by decide
example : lexCmpTok (tokens "1.0~rc1".toList) (tokens "1.0".toList) = -1 := by decide
example : lexCmpTok (tokens "1.0^git1".toList) (tokens "1.0".toList) = 1 := by decide
example : tokCmp none (some .caret) = -1 ∧ tokCmp (some .tilde) none = -1 ∧
    tokCmp (some (.alpha "z".toList)) (some (.num [])) = -1 := by decide

/-! ### epoch / version / release -/

def intCmp (x y : Int) : Int := if x < y then -1 else if x > y then 1 else 0

/-- lexicographic combination of two comparisons -/
def lex2 {α : Type} (c1 c2 : α → α → Int) (x y : α) : Int := if c1 x y = 0 then c2 x y else c1 x y

theorem lex2_antisymm {α : Type} (c1 c2 : α → α → Int) (a1 : ∀ x y, c1 x y = - c1 y x)
    (a2 : ∀ x y, c2 x y = - c2 y x) (x y : α) : lex2 c1 c2 x y = - lex2 c1 c2 y x := by
  unfold lex2; exact ite_neg_helper _ _ _ _ (a1 x y) (a2 x y)

theorem lex2_trans_le {α : Type} (c1 c2 : α → α → Int) (a1 : ∀ x y, c1 x y = - c1 y x)
    (t1 : ∀ x y z, c1 x y ≤ 0 → c1 y z ≤ 0 → c1 x z ≤ 0)
    (t2 : ∀ x y z, c2 x y ≤ 0 → c2 y z ≤ 0 → c2 x z ≤ 0)
    (x y z : α) (h1 : lex2 c1 c2 x y ≤ 0) (h2 : lex2 c1 c2 y z ≤ 0) : lex2 c1 c2 x z ≤ 0 := by
  unfold lex2 at *
  exact ite_trans_helper _ _ _ _ _ _ (t1 x y z) (cmp_strict_of_trans c1 a1 t1 x y z) (t2 x y z) h1 h2

theorem evrCmp_eq_lex (l r : Evr) :
    evrCmp l r = lex2 (fun a b => intCmp a.epoch b.epoch)
      (lex2 (fun a b => vercmp a.version b.version) (fun a b => vercmp a.release b.release)) l r := by
  unfold evrCmp lex2 intCmp
  by_cases h1 : l.epoch < r.epoch
  · simp [h1]
  · by_cases h2 : l.epoch > r.epoch
    · simp [h1, h2]
    · simp [h1, h2]

theorem intCmp_antisymm (x y : Int) : intCmp x y = - intCmp y x := by
  unfold intCmp; split <;> split <;> first | omega | (split <;> omega)

theorem intCmp_trans_le (x y z : Int) (h1 : intCmp x y ≤ 0) (h2 : intCmp y z ≤ 0) : intCmp x z ≤ 0 := by
  unfold intCmp at *
  split at h1 <;> split at h2 <;> split <;> first | omega | (split <;> omega) | (split at h1 <;> omega) | (split at h2 <;> omega) | skip
  all_goals (split at h1 <;> split at h2 <;> first | omega | (split <;> omega))

theorem evrCmp_refl (x : Evr) : evrCmp x x = 0 := by
  simp [evrCmp, vercmp_refl]

theorem evrCmp_antisymm (x y : Evr) : evrCmp x y = - evrCmp y x := by
  rw [evrCmp_eq_lex, evrCmp_eq_lex]
  apply lex2_antisymm
  · intro a b; exact intCmp_antisymm _ _
  · intro a b; apply lex2_antisymm <;> (intro a b; exact vercmp_antisymm _ _)

theorem evrCmp_trans_le (x y z : Evr) (h1 : evrCmp x y ≤ 0) (h2 : evrCmp y z ≤ 0) : evrCmp x z ≤ 0 := by
  rw [evrCmp_eq_lex] at *
  refine lex2_trans_le _ _ ?_ ?_ ?_ x y z h1 h2
  · intro a b; exact intCmp_antisymm _ _
  · intro a b c; exact intCmp_trans_le _ _ _
  · intro a b c
    refine lex2_trans_le _ _ ?_ ?_ ?_ a b c
    · intro a b; exact vercmp_antisymm _ _
    · intro a b c; exact vercmp_trans_le _ _ _
    · intro a b c; exact vercmp_trans_le _ _ _

theorem evrCmp_total (x y : Evr) : evrCmp x y ≤ 0 ∨ evrCmp y x ≤ 0 := by
  have := evrCmp_antisymm x y; omega

/-! ### operators of `InstalledRpm` -/

/-- for equal names every operator is the corresponding predicate on `evrCmp` -/
theorem ops_agree (a b : Pkg) (hn : a.name = b.name) :
    pkgEq a b = some (evrCmp a.evr b.evr == 0) ∧
    pkgNe a b = some (evrCmp a.evr b.evr != 0) ∧
    pkgLt a b = some (decide (evrCmp a.evr b.evr < 0)) ∧
    pkgLe a b = some (decide (evrCmp a.evr b.evr ≤ 0)) ∧
    pkgGt a b = some (decide (evrCmp a.evr b.evr > 0)) ∧
    pkgGe a b = some (decide (evrCmp a.evr b.evr ≥ 0)) := by
  obtain ⟨an, ae⟩ := a
  obtain ⟨bn, be⟩ := b
  simp only at hn
  subst hn
  have anti := evrCmp_antisymm ae be
  simp only [pkgEq, pkgNe, pkgLt, pkgLe, pkgGt, pkgGe, ne_eq, not_true_eq_false, if_false]
  rcases Int.lt_trichotomy (evrCmp ae be) 0 with h | h | h
  · have h1 : ¬ evrCmp ae be = 0 := by omega
    have h2 : ¬ evrCmp be ae = 0 := by omega
    have h3 : ¬ evrCmp be ae < 0 := by omega
    have h4 : evrCmp ae be ≤ 0 := by omega
    have h5 : ¬ evrCmp ae be > 0 := by omega
    have h6 : ¬ evrCmp ae be ≥ 0 := by omega
    have b1 : (evrCmp ae be == 0) = false := by simp [h1]
    have b2 : (evrCmp be ae == 0) = false := by simp [h2]
    simp [h, b1, b2, h1, h3, h4, h5, h6]
  · have h2 : evrCmp be ae = 0 := by omega
    simp [h, h2]
  · have h1 : ¬ evrCmp ae be = 0 := by omega
    have h2 : ¬ evrCmp be ae = 0 := by omega
    have h3 : evrCmp be ae < 0 := by omega
    have h4 : ¬ evrCmp ae be ≤ 0 := by omega
    have h5 : ¬ evrCmp ae be < 0 := by omega
    have h6 : evrCmp ae be ≥ 0 := by omega
    have b1 : (evrCmp ae be == 0) = false := by simp [h1]
    have b2 : (evrCmp be ae == 0) = false := by simp [h2]
    simp [h, b1, b2, h1, h3, h4, h5, h6]

/-- packages of different names are never silently ordered -/
theorem differing_names_error (a b : Pkg) (hn : a.name ≠ b.name) :
    pkgEq a b = none ∧ pkgLt a b = none ∧ pkgNe a b = none ∧ pkgGe a b = none ∧
    pkgGt a b = none ∧ pkgLe a b = none := by
  have hn' : b.name ≠ a.name := fun h => hn h.symm
  simp [pkgEq, pkgLt, pkgNe, pkgGe, pkgGt, pkgLe, hn, hn']

/-- for the same name exactly one of older / equal / newer holds -/
theorem trichotomy (a b : Pkg) (hn : a.name = b.name) :
    (pkgLt a b = some true ∧ pkgEq a b = some false ∧ pkgGt a b = some false) ∨
    (pkgLt a b = some false ∧ pkgEq a b = some true ∧ pkgGt a b = some false) ∨
    (pkgLt a b = some false ∧ pkgEq a b = some false ∧ pkgGt a b = some true) := by
  obtain ⟨h1, _, h3, _, h5, _⟩ := ops_agree a b hn
  rw [h1, h3, h5]
  by_cases hlt : evrCmp a.evr b.evr < 0
  · left
    have : ¬ evrCmp a.evr b.evr = 0 := by omega
    have : ¬ evrCmp a.evr b.evr > 0 := by omega
    simp [*]
  · by_cases heq : evrCmp a.evr b.evr = 0
    · right; left; simp [heq]
    · right; right
      have : evrCmp a.evr b.evr > 0 := by omega
      simp [*]

/-! ### newest / oldest -/

theorem foldl_max_inv (xs : List Evr) (x : Evr) :
    let m := xs.foldl (fun best y => if evrCmp best y < 0 then y else best) x
    (m = x ∨ m ∈ xs) ∧ evrCmp x m ≤ 0 ∧ ∀ y ∈ xs, evrCmp y m ≤ 0 := by
  induction xs generalizing x with
  | nil => simp [evrCmp_refl]
  | cons z zs ih =>
    simp only [List.foldl_cons]
    by_cases h : evrCmp x z < 0
    · simp only [h, if_true]
      obtain ⟨i1, i2, i3⟩ := ih z
      refine ⟨?_, ?_, ?_⟩
      · rcases i1 with i1 | i1
        · right; simp [i1]
        · right; simp [i1]
      · exact evrCmp_trans_le _ _ _ (by omega) i2
      · intro y hy
        rcases List.mem_cons.mp hy with rfl | hy
        · exact i2
        · exact i3 y hy
    · simp only [h, if_false]
      obtain ⟨i1, i2, i3⟩ := ih x
      refine ⟨?_, i2, ?_⟩
      · rcases i1 with i1 | i1
        · left; exact i1
        · right; simp [i1]
      · intro y hy
        rcases List.mem_cons.mp hy with rfl | hy
        · have := evrCmp_antisymm y x
          exact evrCmp_trans_le _ _ _ (by omega) i2
        · exact i3 y hy

/-- `newest` returns an element of the list that no element exceeds -/
theorem newest_is_max (xs : List Evr) (m : Evr) (h : pyMax xs = some m) :
    m ∈ xs ∧ ∀ y ∈ xs, evrCmp y m ≤ 0 := by
  cases xs with
  | nil => simp [pyMax] at h
  | cons x xs =>
    simp only [pyMax, Option.some.injEq] at h
    obtain ⟨i1, i2, i3⟩ := foldl_max_inv xs x
    simp only [h] at i1 i2 i3
    refine ⟨?_, ?_⟩
    · rcases i1 with i1 | i1
      · simp [i1]
      · simp [i1]
    · intro y hy
      rcases List.mem_cons.mp hy with rfl | hy
      · exact i2
      · exact i3 y hy

theorem foldl_min_inv (xs : List Evr) (x : Evr) :
    let m := xs.foldl (fun best y => if evrCmp y best < 0 then y else best) x
    (m = x ∨ m ∈ xs) ∧ evrCmp m x ≤ 0 ∧ ∀ y ∈ xs, evrCmp m y ≤ 0 := by
  induction xs generalizing x with
  | nil => simp [evrCmp_refl]
  | cons z zs ih =>
    simp only [List.foldl_cons]
    by_cases h : evrCmp z x < 0
    · simp only [h, if_true]
      obtain ⟨i1, i2, i3⟩ := ih z
      refine ⟨?_, ?_, ?_⟩
      · rcases i1 with i1 | i1
        · right; simp [i1]
        · right; simp [i1]
      · exact evrCmp_trans_le _ _ _ i2 (by omega)
      · intro y hy
        rcases List.mem_cons.mp hy with rfl | hy
        · exact i2
        · exact i3 y hy
    · simp only [h, if_false]
      obtain ⟨i1, i2, i3⟩ := ih x
      refine ⟨?_, i2, ?_⟩
      · rcases i1 with i1 | i1
        · left; exact i1
        · right; simp [i1]
      · intro y hy
        rcases List.mem_cons.mp hy with rfl | hy
        · have := evrCmp_antisymm x y
          exact evrCmp_trans_le _ _ _ i2 (by omega)
        · exact i3 y hy

/-- `oldest` returns an element of the list that exceeds no element -/
theorem oldest_is_min (xs : List Evr) (m : Evr) (h : pyMin xs = some m) :
    m ∈ xs ∧ ∀ y ∈ xs, evrCmp m y ≤ 0 := by
  cases xs with
  | nil => simp [pyMin] at h
  | cons x xs =>
    simp only [pyMin, Option.some.injEq] at h
    obtain ⟨i1, i2, i3⟩ := foldl_min_inv xs x
    simp only [h] at i1 i2 i3
    refine ⟨?_, ?_⟩
    · rcases i1 with i1 | i1
      · simp [i1]
      · simp [i1]
    · intro y hy
      rcases List.mem_cons.mp hy with rfl | hy
      · exact i2
      · exact i3 y hy

/-! ### non-vacuity: the comparison is not constant, and the hypotheses above are met -/

example : vercmp "1.0~rc1".toList "1.0".toList = -1 := by decide
example : vercmp "1.0^git1".toList "1.0".toList = 1 := by decide
example : vercmp "1.010".toList "1.9".toList = 1 := by decide
example : vercmp "1.0a".toList "1.0.1".toList = -1 := by decide
example : vercmp "1é2".toList "1.2".toList = 0 := by decide
example : vercmp "1.0".toList "1.0~rc1".toList ≤ 0 → False := by decide
example : pyMax [⟨0, "1".toList, "1".toList⟩, ⟨1, "0".toList, "1".toList⟩] = some ⟨1, "0".toList, "1".toList⟩ := by decide

end IV.Rpm
