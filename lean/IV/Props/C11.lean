import IV.Lemmas.Serde
/-!
C11 — what collection persists is what analysis loads.

Every theorem is about the model `IV.Serde` (IV/Model/Serde.lean) of ContentProvider.write /
TextFileProvider.load, the serialize_* / deserialize_* pairs, marshal / unmarshal and
Hydration.dehydrate / hydrate, for ALL line lists, providers, save_as strings, element lists and
entry lists (no bound on sizes).
-/
namespace IV.Serde

/-! ### 1. lines -/

/-- What is read back is what was written, up to ONE trailing empty line — for every list of lines
    none of which contains a character that universal-newline text mode treats as a line break when
    reading ('\n', '\r'; "\r\n" is that pair).  Covers `[]`, `[""]`, `["a", ""]`, empty lines in the
    middle, lines of any length and every other Unicode scalar value (including U+000B, U+000C,
    U+001C–U+001E, U+0085, U+2028, U+2029, which `str.splitlines` splits on but file iteration does not). -/
theorem roundtrip_lines (ls : List Str) (h : ∀ l ∈ ls, NoBreak l) :
    read (joinLines ls) = dropOneTrailingEmpty ls := by
  unfold read
  rw [translate_of_no_cr _ (cr_not_mem_joinLines ls h)]
  exact map_rstrip_iterLines_joinLines ls (fun l hl => (h l hl).1)

example : read (joinLines [['a'], [], [' ', 'é', '\x0b'], []]) = [['a'], [], [' ', 'é', '\x0b']] := by decide
example : (∀ l ∈ [['a'], [], [' ', 'é', '\x0b'], ([] : Str)], NoBreak l) := by decide

/-- `dropOneTrailingEmpty` is "remove the last line if it is empty" and nothing else -/
theorem dropOneTrailingEmpty_spec (ls : List Str) :
    dropOneTrailingEmpty ls = if ls.getLast? = some [] then ls.dropLast else ls := by
  induction ls with
  | nil => rfl
  | cons l rest ih =>
    cases rest with
    | nil =>
      by_cases e : l = []
      · simp [dropOneTrailingEmpty, e]
      · simp [dropOneTrailingEmpty, e]
    | cons l' rest =>
      simp only [dropOneTrailingEmpty] at ih ⊢
      rw [ih]
      simp only [List.getLast?_cons_cons, List.dropLast_cons_cons]
      split <;> rfl

example : dropOneTrailingEmpty [['a'], [], []] = [['a'], []] := by decide

/-- a line that comes out of `read` never contains a line-break character -/
theorem read_no_breaks (t : Str) : ∀ l ∈ read t, NoBreak l := by
  intro l hl
  unfold read at hl
  obtain ⟨p, hp, rfl⟩ := List.mem_map.mp hl
  constructor
  · obtain ⟨body, hb, hs⟩ := iterLines_shape _ p hp
    rcases hs with hs | hs
    · rw [hs, rstripC_append_one NL body hb]; exact hb
    · rw [hs, rstripC_of_not_mem NL body hb]; exact hb
  · intro hc
    exact cr_not_mem_translate false t (iterLines_subset _ p hp _ (rstripC_subset NL p _ hc))

example : read ['a', '\r', '\n', 'b', '\r', 'c', '\n', '\n'] = [['a'], ['b'], ['c'], []] := by decide

/-- the hypothesis of `roundtrip_lines` is exact: the round trip holds IF AND ONLY IF no line contains
    '\n' or '\r' -/
theorem roundtrip_lines_iff (ls : List Str) :
    read (joinLines ls) = dropOneTrailingEmpty ls ↔ ∀ l ∈ ls, NoBreak l := by
  constructor
  · intro h l hl
    rcases mem_dropOneTrailingEmpty_or_nil ls l hl with e | m
    · subst e; exact ⟨by simp, by simp⟩
    · rw [← h] at m; exact read_no_breaks _ l m
  · exact roundtrip_lines ls

example : read (joinLines [['a', '\r', 'b']]) = [['a'], ['b']] := by decide

/-! ### 2. location, command, arguments -/

/-- `save_as` has no leading '/' when it is set -/
def NormalSaveAs (sa : Option Str) : Prop := ∀ s, truthy sa = some s → startsWithC sep s = false

/-- whatever string the user passes, simple_file / first_file leave a normal save_as … -/
theorem saveAsFile_normal (s : Option Str) : NormalSaveAs (saveAsFile s) := by
  intro x hx
  unfold saveAsFile at hx
  cases h : truthy s with
  | none => rw [h] at hx; simp [truthy] at hx
  | some y =>
    simp only [h, Option.map_some] at hx
    cases h2 : lstripC sep y with
    | nil => simp [h2, truthy] at hx
    | cons c t =>
      simp only [h2, truthy, Option.some.injEq] at hx
      rw [← hx, ← h2]; exact startsWithC_lstripC sep y

/-- … so do glob_file / foreach_collect (directory form: a '/' is appended) … -/
theorem saveAsDir_normal (s : Option Str) : NormalSaveAs (saveAsDir s) := by
  intro x hx
  unfold saveAsDir at hx
  cases h : truthy s with
  | none => rw [h] at hx; simp [truthy] at hx
  | some y =>
    simp only [h, Option.map_some] at hx
    have h0 := startsWithC_lstripC sep y
    have h1 : startsWithC sep (pjoin (lstripC sep y) []) = false :=
      startsWithC_pjoin _ _ h0 rfl
    cases h2 : pjoin (lstripC sep y) [] with
    | nil => simp [h2, truthy] at hx
    | cons c t =>
      simp only [h2, truthy, Option.some.injEq] at hx
      rw [← hx, ← h2]; exact h1

/-- … and simple_command / command_with_args -/
theorem saveAsCmd_normal (s : Option Str) : NormalSaveAs (saveAsCmd s) := by
  intro x hx
  unfold saveAsCmd at hx
  cases h : truthy s with
  | none => rw [h] at hx; simp [truthy] at hx
  | some y =>
    simp only [h, Option.map_some] at hx
    cases h2 : stripC sep y with
    | nil => simp [h2, truthy] at hx
    | cons c t =>
      simp only [h2, truthy, Option.some.injEq] at hx
      rw [← hx, ← h2]
      -- rstrip of a string that does not start with '/' does not start with '/'
      unfold stripC
      have h0 := startsWithC_lstripC sep y
      generalize lstripC sep y = z at h0 h2 ⊢
      cases z with
      | nil => rfl
      | cons d u =>
        have hd : (d == sep) = false := by simpa [startsWithC] using h0
        -- the first character survives rstrip (it is not '/'), so it is still the first character
        have : ∃ v, rstripC sep (d :: u) = d :: v := by
          unfold rstripC
          have hmem : d ∈ ((d :: u).reverse.dropWhile (· == sep)) := by
            have : (d :: u).reverse = u.reverse ++ [d] := by simp
            rw [this]
            induction u.reverse with
            | nil => simp [hd]
            | cons a r ih =>
              rw [List.cons_append, List.dropWhile_cons]
              split
              · exact ih
              · simp
          have hsuf : ((d :: u).reverse.dropWhile (· == sep)) <:+ (d :: u).reverse := List.dropWhile_suffix _
          obtain ⟨pre, hpre⟩ := hsuf
          have hrev : (d :: u) = ((d :: u).reverse.dropWhile (· == sep)).reverse ++ pre.reverse := by
            have := congrArg List.reverse hpre
            simpa using this.symm
          cases hq : ((d :: u).reverse.dropWhile (· == sep)).reverse with
          | nil =>
            have : ((d :: u).reverse.dropWhile (· == sep)) = [] := by simpa using hq
            rw [this] at hmem; simp at hmem
          | cons a v =>
            rw [hq] at hrev
            simp only [List.cons_append, List.cons.injEq] at hrev
            exact ⟨v, by rw [← hrev.1]⟩
        obtain ⟨v, hv⟩ := this
        rw [hv]; simp [startsWithC, hd]

example : saveAsFile (some ['/', '/', 'x', '/', 'y']) = some ['x', '/', 'y'] := by decide
example : saveAsDir (some ['/', 'd', 'i', 'r']) = some ['d', 'i', 'r', '/'] := by decide
example : saveAsCmd (some ['/', 'a', '/', 'b', '/']) = some ['a', '/', 'b'] := by decide
example : saveAsFile (some ['/']) = some [] ∧ truthy (saveAsFile (some ['/'])) = none := by decide

/-- the location written into the document never starts with '/' (so `os.path.join(root, rel)` stays
    under the data directory's name and the deserializer's `lstrip("/")` changes nothing) -/
theorem relOf_relative (p : Provider) (hrp : startsWithC sep p.relativePath = false)
    (hsa : NormalSaveAs p.saveAs) : startsWithC sep (relOf p) = false := by
  unfold relOf
  cases h : truthy p.saveAs with
  | none => simpa using underPrefix_relative p.kind _ hrp
  | some sa =>
    have h1 := underPrefix_relative p.kind sa (hsa sa h)
    simp only
    split
    · exact startsWithC_pjoin _ _ h1 (startsWithC_of_not_mem sep _ (basename_no_sep _))
    · exact h1

/-- the save_as rules, for every kind: (none) the provider's own relative path; (file form) the
    save_as path itself; (directory form, ending in '/') save_as followed by the base name — each
    under the kind's directory (insights_commands/, insights_containers/ or none) -/
theorem saveas_rules (p : Provider) (hrp : startsWithC sep p.relativePath = false)
    (hsa : NormalSaveAs p.saveAs) :
    relOf p =
      match truthy p.saveAs with
      | none => withPrefix p.kind p.relativePath
      | some sa => if endsWithC sep sa then withPrefix p.kind (sa ++ basename p.relativePath)
                   else withPrefix p.kind sa := by
  unfold relOf
  cases h : truthy p.saveAs with
  | none => simpa using underPrefix_eq p.kind _ hrp
  | some sa =>
    have hs := hsa sa h
    simp only
    split
    · rename_i he
      rw [underPrefix_eq p.kind sa hs]
      have hb := startsWithC_of_not_mem sep _ (basename_no_sep p.relativePath)
      unfold withPrefix
      cases hk : kindPrefix p.kind with
      | none => simp [pjoin, hb, he]
      | some pre =>
        have : endsWithC sep (pre ++ sep :: sa) = true := by
          cases sa with
          | nil => simp [endsWithC, startsWithC] at he
          | cons c t =>
            unfold endsWithC at he ⊢
            have : (pre ++ sep :: c :: t).reverse = (c :: t).reverse ++ (sep :: pre.reverse) := by simp
            rw [this, startsWithC_append _ _ _ (by simp)]; exact he
        simp [pjoin, hb, this]
    · exact underPrefix_eq p.kind sa hs

example : relOf { kind := .text, relativePath := ['e', 't', 'c', '/', 'h'], saveAs := some ['d', '/'], load := .ok [] }
    = ['d', '/', 'h'] := by decide
example : relOf { kind := .command, relativePath := ['l', 's'], saveAs := some ['x'], load := .ok [] }
    = insightsCommands ++ ['/', 'x'] := by decide

/-- what the constructors guarantee: kinds without a command have neither cmd nor args; a container
    file has a cmd (`<engine> exec <id> cat <path>`) and no args -/
def WellFormed (p : Provider) : Prop :=
  ((p.kind = .text ∨ p.kind = .raw ∨ p.kind = .datasource) → p.cmd = none ∧ p.args = .none) ∧
  (p.kind = .containerFile → p.cmd.isSome ∧ p.args = .none)

/-- the property's clause, as one statement: whatever is persisted loads with the same relative
    location, command and arguments — for EVERY kind (proved below: `roundtrip_meta_full`) -/
def RoundtripMetaFull : Prop :=
  ∀ (host : Bool) (root : Str) (fs fs' : FS) (p : Provider) (d : ResDoc),
    WellFormed p → startsWithC sep p.relativePath = false → NormalSaveAs p.saveAs →
    serializeOne host root fs p = .ok (d, fs') →
    ∃ l, deserialize root fs' d = some l ∧ l.relativePath = relOf p ∧ l.cmd = p.cmd ∧ l.args = p.args

/-- For every kind (text, raw, datasource, command, container file, container command), every
    save_as form and every root: the document names `relOf p`, the loaded provider has exactly that
    relative location, its path is the file the serializer wrote (which holds the text just
    written), command and arguments are the persisted ones, and the container identity (image,
    engine, container id) survives for both container kinds. -/
theorem roundtrip_meta (host : Bool) (root : Str) (fs fs' : FS) (p : Provider) (d : ResDoc)
    (hw : WellFormed p) (hrp : startsWithC sep p.relativePath = false) (hsa : NormalSaveAs p.saveAs)
    (hs : serializeOne host root fs p = .ok (d, fs')) :
    ∃ l, deserialize root fs' d = some l ∧ d.obj.relativePath = relOf p ∧ l.relativePath = relOf p ∧
      l.path = pjoin root (relOf p) ∧ (writeText host p = .ok t → fs'.read l.path = some t) ∧
      l.cmd = p.cmd ∧ l.args = p.args ∧
      (p.kind = .containerCommand ∨ p.kind = .containerFile →
        l.image = p.image ∧ l.engine = p.engine ∧ l.containerId = p.containerId) := by
  unfold serializeOne at hs
  cases hwt : writeText host p with
  | error f => simp [hwt] at hs
  | ok tx =>
    simp only [hwt, Except.ok.injEq, Prod.mk.injEq] at hs
    obtain ⟨hd, hfs⟩ := hs
    subst hd hfs
    have hrel := lstripC_of_not_start sep _ (relOf_relative p hrp hsa)
    have hdes : ∃ l, deserialize root (fs.write (pjoin root (relOf p)) tx) ⟨p.kind, docOf p (relOf p)⟩ = some l ∧
        l.relativePath = relOf p ∧ l.path = pjoin root (relOf p) ∧
        l.cmd = (docOf p (relOf p)).cmd ∧ l.args = (docOf p (relOf p)).args ∧
        (p.kind = .containerCommand ∨ p.kind = .containerFile →
          l.image = p.image ∧ l.engine = p.engine ∧ l.containerId = p.containerId) := by
      unfold deserialize
      simp only [docOf, hrel, FS.read_write_same, Option.isSome_some, if_true]
      refine ⟨_, rfl, rfl, rfl, ?_, ?_, ?_⟩
      · cases hkind : p.kind <;> simp_all
      · cases hkind : p.kind <;> simp_all
      · intro hc; rcases hc with hc | hc <;> simp [hc]
    obtain ⟨l, h1, h2, h3, h4, h5, h6⟩ := hdes
    refine ⟨l, h1, rfl, h2, h3, ?_, ?_, ?_, h6⟩
    · intro ht
      simp only [Except.ok.injEq] at ht
      rw [h3, ← ht]; exact FS.read_write_same _ _ _
    · rw [h4]; cases hkind : p.kind <;> simp_all [WellFormed, docOf]
    · rw [h5]; cases hkind : p.kind <;> simp_all [WellFormed, docOf]

/-- the clause at full strength -/
theorem roundtrip_meta_full : RoundtripMetaFull := by
  intro host root fs fs' p d hw hrp hsa hs
  obtain ⟨l, h1, _, h2, _, _, h3, h4, _⟩ := roundtrip_meta (t := []) host root fs fs' p d hw hrp hsa hs
  exact ⟨l, h1, h2, h3, h4⟩

/-- the provider `container_collect` builds for `("img", "podman", "c1", "/etc/x")` (regression case
    of the repaired defect a8098eb: its cmd used to load as None) -/
def containerFileWitness : Provider :=
  { kind := .containerFile, relativePath := ['c', '1', '/', 'e', 't', 'c', '/', 'x'],
    cmd := some ['/', 'u', 's', 'r', '/', 'b', 'i', 'n', '/', 'p', 'o', 'd', 'm', 'a', 'n', ' ', 'e', 'x', 'e', 'c', ' ',
                 'c', '1', ' ', 'c', 'a', 't', ' ', '/', 'e', 't', 'c', '/', 'x'],
    image := some ['i', 'm', 'g'], engine := some ['p', 'o', 'd', 'm', 'a', 'n'], containerId := some ['c', '1'],
    load := .ok [['x']] }

example : (deserialize [] (FS.write [] (pjoin [] (relOf containerFileWitness)) ['x'])
      ⟨.containerFile, docOf containerFileWitness (relOf containerFileWitness)⟩).map (·.cmd)
    = some containerFileWitness.cmd := by decide

/-- `rc` is never persisted: every document carries null, whatever the provider's rc was
    (`rc = obj.write(dst)` and `write` returns None) -/
theorem rc_not_persisted (host : Bool) (root : Str) (fs fs' : FS) (p : Provider) (d : ResDoc)
    (hs : serializeOne host root fs p = .ok (d, fs')) : d.obj.rc = none := by
  unfold serializeOne at hs
  cases hwt : writeText host p with
  | error f => simp [hwt] at hs
  | ok tx =>
    simp only [hwt, Except.ok.injEq, Prod.mk.injEq] at hs
    rw [← hs.1]; rfl

/-! ### 2b. every location the writer produces passes the reader's validation -/

/-- a location without a parent reference resolves below the root, whatever else its components look
    like: ".hidden", "a.", "...", "renamed..out", "..data", spaces, '%', any Unicode, any length -/
theorem contained_of_noParentRef (s : Str) (h : NoParentRef s) : containedLoc s = true :=
  resolveBelow_isSome [] (splitPath s) h

example : containedLoc ['e', 'c', 'h', 'o', '_', '.', 'e', 't', 'c', '.', '.', 'h', 'i', 'd', 'd', 'e', 'n'] = true := by decide
example : containedLoc ['.', '.', '.', '/', 'a', '.', '.', '/', '.', '.', 'b'] = true := by decide
example : containedLoc ['a', '/', '.', '.', '/', '.', '.', '/', 'b'] = false := by decide

/-- the mangled command line is ONE component (no '/' is left) … -/
theorem mangle_no_sep (isWord : Char → Bool) (cmd : Str) : sep ∉ mangle isWord cmd := by
  intro h
  unfold mangle stripP at h
  have h1 := List.mem_of_mem_take h
  have h2 := rstripP_subset _ _ _ h1
  have h3 : sep ∈ (collapseOther isWord false (stripBinDir cmd)).map (fun c => if c = '/' then '.' else c) :=
    (List.dropWhile_sublist _).subset h2
  obtain ⟨c, _, hc⟩ := List.mem_map.mp h3
  by_cases e : c = '/'
  · simp [e, sep] at hc
  · simp only [e, if_false] at hc; exact e hc

/-- … and it is never "..": after `.strip(" ._-")` a non-empty name does not start with '.' (the
    truncation to 255 characters keeps the first one) -/
theorem mangle_ne_dotdot (isWord : Char → Bool) (cmd : Str) : mangle isWord cmd ≠ dotdot := by
  intro h
  unfold mangle stripP at h
  cases hd : List.dropWhile mangleStrip
      ((collapseOther isWord false (stripBinDir cmd)).map (fun c => if c = '/' then '.' else c)) with
  | nil => simp [hd, rstripP, dotdot] at h
  | cons d t =>
    have hp : mangleStrip d = false := by
      have := List.head_dropWhile_not mangleStrip
        (l := (collapseOther isWord false (stripBinDir cmd)).map (fun c => if c = '/' then '.' else c)) (by simp [hd])
      simpa [hd] using this
    obtain ⟨r, hr⟩ := rstripP_head mangleStrip d t hp
    rw [hd, hr] at h
    simp only [dotdot, List.take_succ_cons, List.cons.injEq] at h
    rw [h.1] at hp
    simp [mangleStrip] at hp

/-- so a command's location never contains a parent reference, whatever the command line is -/
theorem mangle_noParentRef (isWord : Char → Bool) (cmd : Str) : NoParentRef (mangle isWord cmd) := by
  unfold NoParentRef
  rw [splitPath_no_sep _ (mangle_no_sep isWord cmd)]
  simpa using (mangle_ne_dotdot isWord cmd).symm

example : mangle (fun c => c.isAlphanum || c = '_') ['/', 'b', 'i', 'n', '/', 'e', 'c', 'h', 'o', ' ', '/', 'e', 't', 'c', '/', '.', 'h', 'i', 'd', 'd', 'e', 'n']
    = ['e', 'c', 'h', 'o', '_', '.', 'e', 't', 'c', '.', '.', 'h', 'i', 'd', 'd', 'e', 'n'] := by decide

theorem noParentRef_withPrefix (k : Kind) (x : Str) (h : NoParentRef x) : NoParentRef (withPrefix k x) := by
  unfold withPrefix
  cases hk : kindPrefix k with
  | none => exact h
  | some pre =>
    unfold NoParentRef
    rw [splitPath_append_sep]
    have hpre : splitPath pre = [pre] ∧ pre ≠ dotdot := by
      cases k <;> simp [kindPrefix] at hk <;> subst hk <;> decide
    rw [hpre.1]
    simp only [List.cons_append, List.nil_append, List.mem_cons, not_or]
    exact ⟨fun e => hpre.2 e.symm, h⟩

/-- the location written into the document has no parent reference when neither the provider's
    relative path nor its save_as has one (dots inside or around names do not matter) -/
theorem relOf_noParentRef (p : Provider) (hrp : startsWithC sep p.relativePath = false)
    (hsa : NormalSaveAs p.saveAs) (h1 : NoParentRef p.relativePath)
    (h2 : ∀ s, truthy p.saveAs = some s → NoParentRef s) : NoParentRef (relOf p) := by
  rw [saveas_rules p hrp hsa]
  cases h : truthy p.saveAs with
  | none => exact noParentRef_withPrefix _ _ h1
  | some sa =>
    simp only
    split
    · rename_i he
      apply noParentRef_withPrefix
      obtain ⟨sa0, hsa0⟩ := exists_of_endsWithC sep sa he
      have hsplit : splitPath sa = splitPath sa0 ++ [[]] := by
        conv => lhs; rw [hsa0]
        rw [show sa0 ++ [sep] = sa0 ++ sep :: [] from rfl, splitPath_append_sep]; rfl
      have hno := h2 sa h
      unfold NoParentRef at hno ⊢
      rw [hsa0, show sa0 ++ [sep] ++ basename p.relativePath = sa0 ++ sep :: basename p.relativePath by simp,
        splitPath_append_sep, splitPath_no_sep _ (basename_no_sep _)]
      rw [hsplit] at hno
      simp only [List.mem_append, List.mem_cons, List.not_mem_nil, or_false, not_or] at hno ⊢
      refine ⟨hno.1, ?_⟩
      intro e
      exact h1 (e ▸ basename_mem_splitPath p.relativePath)
    · exact noParentRef_withPrefix _ _ (h2 sa h)

/-- `written_location_loads`: EVERY location the writer produces passes the reader's validation — for
    every kind, every save_as form, every root: the document's location (after the reader's
    `lstrip("/")`) resolves below the data directory, and the provider is constructed (the file it
    names is the one just written).  Dot patterns that are not parent references — the mangled
    `echo_.etc..hidden`, `renamed..out`, `report..v2`, `.hidden`, `a.`, `...` — are covered by the
    single hypothesis "no component is exactly `..`". -/
theorem written_location_loads (host : Bool) (root : Str) (fs fs' : FS) (p : Provider) (d : ResDoc)
    (hw : WellFormed p) (hrp : startsWithC sep p.relativePath = false) (hsa : NormalSaveAs p.saveAs)
    (h1 : NoParentRef p.relativePath) (h2 : ∀ s, truthy p.saveAs = some s → NoParentRef s)
    (hs : serializeOne host root fs p = .ok (d, fs')) :
    containedLoc (lstripC sep d.obj.relativePath) = true ∧
    ∃ l, deserialize root fs' d = some l ∧ l.relativePath = relOf p := by
  obtain ⟨l, hl, hd, hrel, _⟩ := roundtrip_meta (t := []) host root fs fs' p d hw hrp hsa hs
  refine ⟨?_, l, hl, hrel⟩
  rw [hd, lstripC_of_not_start sep _ (relOf_relative p hrp hsa)]
  exact contained_of_noParentRef _ (relOf_noParentRef p hrp hsa h1 h2)

/-- for a command spec without save_as nothing has to be assumed about the command line -/
theorem command_location_loads (isWord : Char → Bool) (host : Bool) (root : Str) (fs fs' : FS) (p : Provider)
    (d : ResDoc) (cmd : Str) (hk : p.kind = .command) (hrel : p.relativePath = mangle isWord cmd)
    (hsa : truthy p.saveAs = none) (hs : serializeOne host root fs p = .ok (d, fs')) :
    containedLoc (lstripC sep d.obj.relativePath) = true ∧ ∃ l, deserialize root fs' d = some l :=
  have hrp : startsWithC sep p.relativePath = false := by
    rw [hrel]; exact startsWithC_of_not_mem sep _ (mangle_no_sep isWord cmd)
  have hns : NormalSaveAs p.saveAs := by intro s hs'; rw [hsa] at hs'; simp at hs'
  have ⟨hc, l, hl, _⟩ := written_location_loads host root fs fs' p d
    (by simp [WellFormed, hk]) hrp hns (by rw [hrel]; exact mangle_noParentRef isWord cmd)
    (by intro s hs'; rw [hsa] at hs'; simp at hs') hs
  ⟨hc, l, hl⟩

/-! ### 2c. writer and reader agree on every value type -/

/-- every name the writer's table knows, the reader's table knows too, with the same behaviour -/
def Paired (r : Registry) : Prop := ∀ t k, serializerFor r t = some k → deserializerFor r t = some k

theorem stock_paired : Paired stockRegistry := by
  intro t k h
  cases t <;> simp_all [serializerFor, deserializerFor, stockRegistry]

theorem addPair_paired (r : Registry) (n : Nat) (k : Kind) (h : Paired r) : Paired (r.addPair n k) := by
  intro t k' ht
  simp only [serializerFor, deserializerFor, Registry.addPair] at ht ⊢
  split
  · rename_i e; simpa [e] using ht
  · rename_i e; simp only [e, if_false] at ht; exact h t k' ht

/-- `persisted_with_results_loads`: whatever value type is persisted WITH a result document loads — the
    writer looks its serializer up by the exact type name and records that very name, and every name
    in the writer's table is in the reader's (the stock tables; any number of user classes registered
    as pairs).  So "Unrecognized type" cannot happen to a document collection wrote. -/
theorem persisted_with_results_loads (r : Registry) (hp : Paired r) (host : Bool) (root : Str) (fs fs' : FS)
    (t t' : TName) (p : Provider) (d : ResDoc)
    (hrp : startsWithC sep p.relativePath = false) (hsa : NormalSaveAs p.saveAs)
    (hs : serializeTyped r host root fs t p = .ok (t', d, fs')) :
    t' = t ∧ ∃ l, deserializeTyped r root fs' t' d = some l ∧
      l.relativePath = relOf { p with kind := d.type, serializable := true } ∧
      (∀ tx, writeText host { p with kind := d.type, serializable := true } = .ok tx → fs'.read l.path = some tx) := by
  unfold serializeTyped at hs
  cases hk : serializerFor r t with
  | none => simp [hk] at hs
  | some k =>
    simp only [hk] at hs
    cases hso : serializeOne host root fs { p with kind := k, serializable := true } with
    | error f => simp [hso] at hs
    | ok v =>
      obtain ⟨d0, fs0⟩ := v
      simp only [hso, Except.ok.injEq, Prod.mk.injEq] at hs
      obtain ⟨rfl, rfl, rfl⟩ := hs
      refine ⟨rfl, ?_⟩
      have hde := hp t k hk
      -- the document and the file are those of `serializeOne` on the provider seen as kind k
      unfold serializeOne at hso
      cases hwt : writeText host { p with kind := k, serializable := true } with
      | error f => simp [hwt] at hso
      | ok tx =>
        simp only [hwt, Except.ok.injEq, Prod.mk.injEq] at hso
        obtain ⟨rfl, rfl⟩ := hso
        have hrel0 := lstripC_of_not_start sep _ (relOf_relative { p with kind := k, serializable := true } hrp hsa)
        unfold deserializeTyped
        simp only [hde]
        unfold deserialize
        simp only [docOf, hrel0, FS.read_write_same, Option.isSome_some, if_true]
        refine ⟨_, rfl, rfl, ?_⟩
        intro ty hty
        rw [hwt] at hty
        simp only [Except.ok.injEq] at hty
        rw [← hty]; exact FS.read_write_same _ _ _

/-- a value whose exact type has no serializer is persisted with its error only: no document result,
    nothing written under data/ (a subclass of a stock provider without its own registration; the
    SerializedOutputProvider values of a loaded archive that is persisted again) -/
theorem unregistered_errors_only (r : Registry) (host : Bool) (root : Str) (fs : FS) (t : TName) (p : Provider)
    (h : serializerFor r t = none) : serializeTyped r host root fs t p = .error 9 := by
  simp [serializeTyped, h]

example : serializerFor stockRegistry .serializedText = none ∧ serializerFor stockRegistry (.user 3) = none ∧
    serializerFor (stockRegistry.addPair 3 .text) (.user 3) = some .text := by decide

theorem unserializable_writes_nothing (host : Bool) (root : Str) (fs : FS) (p : Provider)
    (h : p.serializable = false) : serializeOne host root fs p = .error 9 := by
  simp [serializeOne, writeText, h]

/-! ### 2d. raw files behind symbolic links -/

/-- What `cp` writes for a raw spec whose path is a symbolic link (relative, absolute, a chain, into
    another directory of the root): a REGULAR file at the destination whose bytes are the bytes the
    path resolves to — never the link. -/
theorem persistRaw_regular (src : NFS) (fuel : Nat) (arch arch' : NFS) (path dst : Str)
    (h : persistRaw src fuel arch path dst = some arch') :
    ∃ b, resolveBytes src fuel path = some b ∧ arch'.get dst = some (.file b) ∧
      resolveBytes arch' 1 dst = some b := by
  unfold persistRaw at h
  cases hb : resolveBytes src fuel path with
  | none => simp [hb] at h
  | some b =>
    simp only [hb, Option.map_some, Option.some.injEq] at h
    subst h
    exact ⟨b, rfl, by simp [NFS.get], by simp [resolveBytes, NFS.get]⟩

/-- following a link one step does not change the bytes: a chain of any length persists like its end -/
theorem resolveBytes_link (src : NFS) (fuel : Nat) (p t : Str) (h : src.get p = some (.link t)) :
    resolveBytes src (fuel + 1) p = resolveBytes src fuel t := by
  simp [resolveBytes, h]

example : persistRaw [(['l'], .link ['m']), (['m'], .link ['f']), (['f'], .file ['x', 'y'])] 40 [] ['l'] ['d']
    = some [(['d'], .file ['x', 'y'])] := by decide

/-! ### 2e. the document codec -/

/-- what `os.fsdecode` / surrogateescape put into a `str`: valid code points, no HIGH surrogate (an
    undecodable byte b becomes the LOW surrogate 0xDC00 + b) -/
def FsText (s : CodePoints) : Prop := ∀ c ∈ s, c < 0x110000 ∧ isHigh c = false

/-- `json_roundtrip`: text written into a metadata document with ASCII escapes and read back is the
    SAME list of code points — for every text without a high surrogate: ASCII, any Unicode up to
    0x10FFFF (astral characters travel as a pair and are re-joined), and the lone low surrogates of
    non-UTF-8 file names, command lines, arguments, save_as names and error texts. -/
theorem json_roundtrip (s : CodePoints) (h : FsText s) : jsonUnescape (jsonEscape s) = s := by
  induction s with
  | nil => rfl
  | cons c t ih =>
    have hc := h c (by simp)
    have ht : FsText t := fun x hx => h x (List.mem_cons_of_mem _ hx)
    have iht := ih ht
    by_cases hlt : c < 65536
    · have he : jsonEscape (c :: t) = c :: jsonEscape t := by simp [jsonEscape, hlt]
      rw [he]
      cases hj : jsonEscape t with
      | nil =>
        rw [hj] at iht
        simp only [jsonUnescape] at iht ⊢
        rw [← iht]
      | cons v r =>
        have hu : jsonUnescape (c :: v :: r) = c :: jsonUnescape (v :: r) := by simp [jsonUnescape, hc.2]
        rw [hu, ← hj, iht]
    · have he : jsonEscape (c :: t) =
          (55296 + (c - 65536) / 1024) :: (56320 + (c - 65536) % 1024) :: jsonEscape t := by simp [jsonEscape, hlt]
      have a1 : 55296 ≤ 55296 + (c - 65536) / 1024 := by omega
      have b1 : 55296 + (c - 65536) / 1024 < 56320 := by omega
      have a2 : 56320 ≤ 56320 + (c - 65536) % 1024 := by omega
      have b2 : 56320 + (c - 65536) % 1024 < 57344 := by omega
      have h1 : isHigh (55296 + (c - 65536) / 1024) = true := by simp [isHigh, a1, b1]
      have h2 : isLow (56320 + (c - 65536) % 1024) = true := by simp [isLow, a2, b2]
      have hv : 65536 + (55296 + (c - 65536) / 1024 - 55296) * 1024 + (56320 + (c - 65536) % 1024 - 56320) = c := by omega
      rw [he]
      simp only [jsonUnescape, h1, h2, Bool.and_self, if_true, iht, hv]

example : jsonEscape [0x63, 0xDCE9, 0x1F600] = [0x63, 0xDCE9, 0xD83D, 0xDE00] ∧
    jsonUnescape [0x63, 0xDCE9, 0xD83D, 0xDE00] = [0x63, 0xDCE9, 0x1F600] := by decide

/-- the hypothesis is needed: a lone HIGH surrogate followed by a lone low one comes back as one astral
    code point (json.loads(json.dumps('\ud83d\ude00')) has length 1) -/
theorem json_roundtrip_needs_no_high : jsonUnescape (jsonEscape [0xD83D, 0xDE00]) ≠ [0xD83D, 0xDE00] := by decide

/-! ### 3. one provider end to end -/

/-- Text kinds (text file, command, datasource, both container kinds): a provider whose content is
    `ls` (no line-break character inside a line; not empty when collecting under a HostContext, which
    refuses empty content) is serialized, and the provider deserialized from the document reads
    `ls` up to one trailing empty line. -/
theorem roundtrip_provider (host : Bool) (root : Str) (fs : FS) (p : Provider) (ls : List Str)
    (hkind : p.kind ≠ .raw) (hser0 : p.serializable = true) (hsplit : p.unsplit = false) (hload : p.load = .ok ls) (hb : ∀ l ∈ ls, NoBreak l)
    (hne : host = true → ls ≠ [])
    (hrp : startsWithC sep p.relativePath = false) (hsa : NormalSaveAs p.saveAs) :
    ∃ d fs' l, serializeOne host root fs p = .ok (d, fs') ∧ deserialize root fs' d = some l ∧
      loadedContent fs' l = some (dropOneTrailingEmpty ls) := by
  have hwt : writeText host p = .ok (joinLines ls) := by
    unfold writeText
    cases hk : p.kind <;> simp_all
    all_goals (intro hh he; exact hne hh he)
  have hrel := lstripC_of_not_start sep _ (relOf_relative p hrp hsa)
  refine ⟨⟨p.kind, docOf p (relOf p)⟩, fs.write (pjoin root (relOf p)) (joinLines ls), ?_⟩
  have hser : serializeOne host root fs p =
      .ok (⟨p.kind, docOf p (relOf p)⟩, fs.write (pjoin root (relOf p)) (joinLines ls)) := by
    simp [serializeOne, hwt]
  have hraw : (p.kind == Kind.raw) = false := by simpa using hkind
  unfold deserialize
  simp only [docOf, hrel, FS.read_write_same, Option.isSome_some, if_true]
  refine ⟨_, hser, rfl, ?_⟩
  simp [loadedContent, FS.read_write_same, hraw, roundtrip_lines ls hb]

example : ∃ d fs' l, serializeOne true ['r'] [] { kind := .command, relativePath := ['l', 's'], load := .ok [['a'], []] } = .ok (d, fs')
    ∧ deserialize ['r'] fs' d = some l ∧ loadedContent fs' l = some [['a']] :=
  roundtrip_provider true ['r'] [] _ [['a'], []] (by decide) rfl rfl rfl (by decide) (by decide) (by decide)
    (by intro s hs; simp [truthy] at hs)

/-- A command created with split=False has ONE string `s` as content.  It is written as it is, and
    what loads (a text provider) is exactly the text-mode lines of that string: `read s` — its pieces
    between line breaks ("\n", "\r\n", "\r"), without the break, a final piece only if non-empty.
    (Regression of the repaired defect fd0f959: the characters used to be joined one per line.) -/
theorem unsplit_roundtrip (host : Bool) (root : Str) (fs : FS) (p : Provider) (s : Str)
    (hkind : p.kind ≠ .raw) (hser0 : p.serializable = true) (hsplit : p.unsplit = true) (hload : p.load = .ok [s])
    (hne : host = true → s ≠ [])
    (hrp : startsWithC sep p.relativePath = false) (hsa : NormalSaveAs p.saveAs) :
    ∃ d fs' l, serializeOne host root fs p = .ok (d, fs') ∧ deserialize root fs' d = some l ∧
      fs'.read l.path = some s ∧ loadedContent fs' l = some (read s) := by
  have hwt : writeText host p = .ok s := by
    unfold writeText
    cases hk : p.kind <;> simp_all
    all_goals (intro hh he; exact hne hh he)
  have hrel := lstripC_of_not_start sep _ (relOf_relative p hrp hsa)
  refine ⟨⟨p.kind, docOf p (relOf p)⟩, fs.write (pjoin root (relOf p)) s, ?_⟩
  have hser : serializeOne host root fs p =
      .ok (⟨p.kind, docOf p (relOf p)⟩, fs.write (pjoin root (relOf p)) s) := by
    simp [serializeOne, hwt]
  have hraw : (p.kind == Kind.raw) = false := by simpa using hkind
  unfold deserialize
  simp only [docOf, hrel, FS.read_write_same, Option.isSome_some, if_true]
  refine ⟨_, hser, rfl, FS.read_write_same _ _ _, ?_⟩
  simp [loadedContent, FS.read_write_same, hraw]

/-- … so when the string is lines (without line-break characters inside) joined by "\n", with or
    without a final "\n", those lines load — up to one trailing empty line, as for a split command -/
theorem unsplit_lines (ls : List Str) (h : ∀ l ∈ ls, NoBreak l) :
    read (joinLines ls) = dropOneTrailingEmpty ls ∧
    read (joinLines (ls ++ [[]])) = dropOneTrailingEmpty (ls ++ [[]]) :=
  ⟨roundtrip_lines ls h, roundtrip_lines _ (by
    intro l hl
    rcases List.mem_append.mp hl with m | m
    · exact h l m
    · simp only [List.mem_cons, List.not_mem_nil, or_false] at m; subst m; exact ⟨by simp, by simp⟩)⟩

example : read ['a', 'b', '\n', 'c', 'd', '\n'] = [['a', 'b'], ['c', 'd']] := by decide

/-- Raw files: the bytes come back unchanged, whatever they are (no line handling at all; an empty
    file is collected too — RawFileProvider.write never looks at `content`). -/
theorem roundtrip_raw (host : Bool) (root : Str) (fs : FS) (p : Provider) (bytes : Str)
    (hkind : p.kind = .raw) (hser0 : p.serializable = true) (hload : p.load = .ok [bytes])
    (hrp : startsWithC sep p.relativePath = false) (hsa : NormalSaveAs p.saveAs) :
    ∃ d fs' l, serializeOne host root fs p = .ok (d, fs') ∧ deserialize root fs' d = some l ∧
      loadedContent fs' l = some [bytes] := by
  have hwt : writeText host p = .ok bytes := by simp [writeText, hkind, hload, hser0]
  have hrel := lstripC_of_not_start sep _ (relOf_relative p hrp hsa)
  have hser : serializeOne host root fs p =
      .ok (⟨p.kind, docOf p (relOf p)⟩, fs.write (pjoin root (relOf p)) bytes) := by
    simp [serializeOne, hwt]
  refine ⟨⟨p.kind, docOf p (relOf p)⟩, fs.write (pjoin root (relOf p)) bytes, ?_⟩
  unfold deserialize
  simp only [docOf, hrel, FS.read_write_same, Option.isSome_some, if_true]
  refine ⟨_, hser, rfl, ?_⟩
  simp [loadedContent, FS.read_write_same, hkind]

/-! ### 4. multi-output specs -/

/-- The documents of a multi-output spec are those of the elements whose serializer succeeded, IN
    THE ORDER OF THE ELEMENTS; the errors are those of the failed elements, in order; nothing else is
    dropped or added. -/
theorem multi_order (host : Bool) (root : Str) (fs : FS) (ps : List Provider) :
    (marshalList host root fs ps).1 = (ps.filter (okP host)).map (fun p => ⟨p.kind, docOf p (relOf p)⟩) ∧
    (marshalList host root fs ps).2.1 = ps.filterMap (faultOf host) := by
  induction ps generalizing fs with
  | nil => simp [marshalList]
  | cons p ps ih =>
    unfold marshalList serializeOne
    cases hwt : writeText host p with
    | error f =>
      have h1 : okP host p = false := by simp [okP, hwt]
      have h2 : faultOf host p = some f := by simp [faultOf, hwt]
      simp [h1, h2, ih fs]
    | ok t =>
      have h1 : okP host p = true := by simp [okP, hwt]
      have h2 : faultOf host p = none := by simp [faultOf, hwt]
      simp [h1, h2, ih (fs.write (pjoin root (relOf p)) t)]

/-- … and so are the loaded elements: deserializing keeps the order (`unmarshal` is a map) -/
theorem unmarshal_order (root : Str) (fs : FS) (ds : List ResDoc) (ls : List Loaded)
    (h : unmarshal root fs (.many ds) = some (.multi ls)) :
    ls.map (·.relativePath) = ds.map (fun d => lstripC sep d.obj.relativePath) ∧
    ls.map (·.cmd) = ds.map (fun d => if d.type == .command || d.type == .containerCommand || d.type == .containerFile then d.obj.cmd else none) := by
  simp only [unmarshal, Option.map_eq_some_iff, LoadedValue.multi.injEq] at h
  obtain ⟨ls', h, rfl⟩ := h
  induction ds generalizing ls' with
  | nil => simp [allSome] at h; subst h; simp
  | cons d ds ih =>
    simp only [List.map_cons] at h
    cases hd : deserialize root fs d with
    | none => simp [hd, allSome] at h
    | some l =>
      simp only [hd, allSome, Option.map_eq_some_iff] at h
      obtain ⟨tl, htl, rfl⟩ := h
      have := ih tl htl
      unfold deserialize at hd
      by_cases hex : (fs.read (pjoin root (lstripC sep d.obj.relativePath))).isSome = true
      · simp only [hex, if_true, Option.some.injEq] at hd
        subst hd
        simp [this.1, this.2]
      · simp [hex] at hd

/-- FULL STATEMENT (false of the current code, see `multi_roundtrip_witness`): after a multi-output
    spec is marshalled, every successfully serialized element's destination holds that element's text -/
def MultiRoundtripFull : Prop :=
  ∀ (host : Bool) (root : Str) (fs : FS) (ps : List Provider) (p : Provider) (t : Str),
    (∀ q ∈ ps, startsWithC sep q.relativePath = false ∧ NormalSaveAs q.saveAs) →
    p ∈ ps → writeText host p = .ok t →
    (marshalList host root fs ps).2.2.read (pjoin root (relOf p)) = some t

/-- Proved under the hypothesis the proof forces: the successful elements' destinations are pairwise
    different.  Then every element's file holds its own text after the whole list was written (later
    elements do not disturb earlier ones), so with `roundtrip_meta_partial` / `roundtrip_lines` each
    loaded element has its own lines. -/
theorem multi_roundtrip_partial (host : Bool) (root : Str) (fs : FS) (ps : List Provider) (p : Provider) (t : Str)
    (hnd : (okDsts host root ps).Nodup) (hp : p ∈ ps) (hwt : writeText host p = .ok t) :
    (marshalList host root fs ps).2.2.read (pjoin root (relOf p)) = some t := by
  induction ps generalizing fs with
  | nil => simp at hp
  | cons p0 ps ih =>
    unfold marshalList serializeOne
    cases hwt0 : writeText host p0 with
    | error f =>
      have h1 : okP host p0 = false := by simp [okP, hwt0]
      simp only
      rcases List.mem_cons.mp hp with e | m
      · subst e; rw [hwt0] at hwt; simp at hwt
      · exact ih fs (by simpa [okDsts, h1] using hnd) m
    | ok t0 =>
      have h1 : okP host p0 = true := by simp [okP, hwt0]
      simp only [okDsts, List.filter_cons, h1, if_true, List.map_cons, List.nodup_cons] at hnd
      simp only
      rcases List.mem_cons.mp hp with e | m
      · subst e
        rw [hwt0] at hwt
        simp only [Except.ok.injEq] at hwt
        subst hwt
        rw [marshalList_frame host root _ ps _ (by simpa [okDsts] using hnd.1)]
        exact FS.read_write_same _ _ _
      · exact ih _ (by simpa [okDsts] using hnd.2) m

example : (okDsts true ['r'] [{ kind := .text, relativePath := ['a'], load := .ok [['x']] },
                              { kind := .text, relativePath := ['b'], load := .ok [['y']] }]).Nodup := by decide

/-- two files matched by `glob_file("/etc/*/conf", save_as="confs")`: etc/a/conf and etc/b/conf -/
def collisionWitness : List Provider :=
  [{ kind := .text, relativePath := ['e', 't', 'c', '/', 'a', '/', 'c', 'o', 'n', 'f'], saveAs := some ['c', 'o', 'n', 'f', 's', '/'], load := .ok [['A']] },
   { kind := .text, relativePath := ['e', 't', 'c', '/', 'b', '/', 'c', 'o', 'n', 'f'], saveAs := some ['c', 'o', 'n', 'f', 's', '/'], load := .ok [['B']] }]

/-- negation witness (known finding destination-collision): with a directory-form save_as two
    elements with the same base name are written to the same file; the first element then loads the
    second one's content -/
theorem multi_roundtrip_witness : ¬ MultiRoundtripFull := by
  intro h
  have := h false [] [] collisionWitness
    { kind := .text, relativePath := ['e', 't', 'c', '/', 'a', '/', 'c', 'o', 'n', 'f'], saveAs := some ['c', 'o', 'n', 'f', 's', '/'], load := .ok [['A']] }
    ['A']
    (by
      intro q hq
      simp only [collisionWitness, List.mem_cons, List.not_mem_nil, or_false] at hq
      rcases hq with e | e <;> subst e <;> exact ⟨by decide, by intro s hs; simp [truthy] at hs; subst hs; decide⟩)
    (by simp [collisionWitness]) (by rfl)
  have h2 : (marshalList false [] [] collisionWitness).2.2.read
      (pjoin [] (relOf { kind := .text, relativePath := ['e', 't', 'c', '/', 'a', '/', 'c', 'o', 'n', 'f'], saveAs := some ['c', 'o', 'n', 'f', 's', '/'], load := .ok [['A']] }))
      = some ['B'] := by decide
  rw [h2] at this
  simp at this

/-! ### 5. failed components are persisted with their errors -/

/-- The document of a component is written IF AND ONLY IF it has results or errors, it is the
    document `docFor` describes, and no other component's entry is touched. -/
theorem dehydrate_written_iff (host : Bool) (root : Str) (st : Store) (name : Str) (recorded : List Fault)
    (v : Option Value) :
    let doc := docFor host root st.fs name recorded v
    let st' := dehydrate host root st name recorded v
    (doc.results.isSome ∨ doc.errors ≠ [] → metaGet st'.entries name = some (.json doc)) ∧
    (¬ (doc.results.isSome ∨ doc.errors ≠ []) → st'.entries = st.entries) ∧
    (∀ k, k ≠ name → metaGet st'.entries k = metaGet st.entries k) := by
  simp only [dehydrate]
  by_cases h : (docFor host root st.fs name recorded v).results.isSome = true ∨ (docFor host root st.fs name recorded v).errors ≠ []
  · have hc : ((docFor host root st.fs name recorded v).results.isSome || !(docFor host root st.fs name recorded v).errors.isEmpty) = true := by
      rcases h with h | h
      · simp [h]
      · simp [h]
    simp only [hc, if_true]
    exact ⟨fun _ => metaGet_metaPut_same _ _ _, fun hn => absurd h hn, fun k hk => metaGet_metaPut_other _ _ _ _ hk⟩
  · have hc : ((docFor host root st.fs name recorded v).results.isSome || !(docFor host root st.fs name recorded v).errors.isEmpty) = false := by
      simp only [not_or, Bool.not_eq_true, ne_eq, Decidable.not_not] at h
      simp [h.1, h.2]
    simp only [hc]
    exact ⟨fun hh => absurd hh h, fun _ => rfl, fun _ _ => rfl⟩

/-- A component that produced NO value and has exceptions recorded against it (the datasource raised;
    the engine recorded the tracebacks against the spec) gets a document carrying exactly those errors. -/
theorem errors_persisted (host : Bool) (root : Str) (st : Store) (name : Str) (recorded : List Fault)
    (hr : recorded ≠ []) :
    metaGet (dehydrate host root st name recorded none).entries name
      = some (.json { name := name, errors := recorded, results := none }) := by
  have h := (dehydrate_written_iff host root st name recorded none).1
  have hd : docFor host root st.fs name recorded none = { name := name, errors := recorded, results := none } := by
    simp [docFor, marshal]
  simp only [hd] at h
  exact h (Or.inr hr)

example : metaGet (dehydrate true [] {} ['s'] [7] none).entries ['s'] = some (.json { name := ['s'], errors := [7], results := none }) :=
  errors_persisted true [] {} ['s'] [7] (by decide)

/-- A component whose value could not be serialized (the command failed when its output was needed,
    the content was empty under a HostContext, …) gets a document with the errors recorded before
    followed by the serializer's error, and no results. -/
theorem serializer_failure_persisted (host : Bool) (root : Str) (st : Store) (name : Str) (recorded : List Fault)
    (p : Provider) (f : Fault) (hf : writeText host p = .error f) :
    metaGet (dehydrate host root st name recorded (some (.single p))).entries name
      = some (.json { name := name, errors := recorded ++ [f], results := none }) := by
  have h := (dehydrate_written_iff host root st name recorded (some (.single p))).1
  have hd : docFor host root st.fs name recorded (some (.single p)) = { name := name, errors := recorded ++ [f], results := none } := by
    simp [docFor, marshal, serializeOne, hf]
  simp only [hd] at h
  exact h (Or.inr (by simp))

/-- A multi-output spec some of whose elements failed: the document lists the surviving elements in
    order and, after the recorded errors, one error per failed element in order. -/
theorem multi_errors_persisted (host : Bool) (root : Str) (st : Store) (name : Str) (recorded : List Fault)
    (ps : List Provider) (hne : recorded ++ ps.filterMap (faultOf host) ≠ [] ∨ ps.filter (okP host) ≠ []) :
    metaGet (dehydrate host root st name recorded (some (.multi ps))).entries name
      = some (.json { name := name, errors := recorded ++ ps.filterMap (faultOf host),
                      results := if (ps.filter (okP host)).isEmpty then none
                                 else some (.many ((ps.filter (okP host)).map (fun p => ⟨p.kind, docOf p (relOf p)⟩))) }) := by
  have h := (dehydrate_written_iff host root st name recorded (some (.multi ps))).1
  have hm := multi_order host root st.fs ps
  have hd : docFor host root st.fs name recorded (some (.multi ps)) =
      { name := name, errors := recorded ++ ps.filterMap (faultOf host),
        results := if (ps.filter (okP host)).isEmpty then none
                   else some (.many ((ps.filter (okP host)).map (fun p => ⟨p.kind, docOf p (relOf p)⟩))) } := by
    simp only [docFor, marshal, hm.1, hm.2, List.isEmpty_map]
  simp only [hd] at h
  apply h
  rcases hne with h1 | h1
  · exact Or.inr h1
  · left
    have : (ps.filter (okP host)).isEmpty = false := by simpa [List.isEmpty_iff] using h1
    simp [this]

/-- the errors that arise while the value is serialized: none without a value; for a single-output
    component the one traceback `marshal` returns (a string), for a multi-output component the list
    of the failing elements' tracebacks, in element order -/
def serErrors (host : Bool) : Option Value → List Fault
  | none => []
  | some (.single p) => (faultOf host p).toList
  | some (.multi ps) => ps.filterMap (faultOf host)

theorem marshal_errors (host : Bool) (root : Str) (fs : FS) (v : Option Value) :
    (marshal host root fs v).2.1 = serErrors host v := by
  match v with
  | none => rfl
  | some (.single p) =>
    simp only [marshal, serErrors, faultOf, serializeOne]
    cases writeText host p <;> rfl
  | some (.multi ps) =>
    simp only [marshal, serErrors]
    exact (multi_order host root fs ps).2

/-- `errors_complete`: the document's `errors` are EXACTLY the tracebacks the broker recorded against
    the component during evaluation followed by the errors of serializing its value — every one of
    them, each once, none invented — for a component without a value, a single-output and a
    multi-output one, whatever the numbers on either side (0, 1, 2, … evaluation errors; 0/1 resp.
    0..k serialization errors). -/
theorem errors_complete (host : Bool) (root : Str) (fs : FS) (name : Str) (recorded : List Fault) (v : Option Value) :
    (docFor host root fs name recorded v).errors = recorded ++ serErrors host v ∧
    (∀ e ∈ recorded, e ∈ (docFor host root fs name recorded v).errors) ∧
    (∀ e ∈ serErrors host v, e ∈ (docFor host root fs name recorded v).errors) ∧
    (docFor host root fs name recorded v).errors.length = recorded.length + (serErrors host v).length := by
  have h : (docFor host root fs name recorded v).errors = recorded ++ serErrors host v := by
    simp only [docFor, marshal_errors]
  refine ⟨h, ?_, ?_, ?_⟩
  · intro e he; rw [h]; exact List.mem_append_left _ he
  · intro e he; rw [h]; exact List.mem_append_right _ he
  · rw [h, List.length_append]

/-- … and whenever there is any error at all, that document is the one in the archive -/
theorem errors_complete_written (host : Bool) (root : Str) (st : Store) (name : Str) (recorded : List Fault)
    (v : Option Value) (h : recorded ++ serErrors host v ≠ []) :
    ∃ d, metaGet (dehydrate host root st name recorded v).entries name = some (.json d) ∧
      d.errors = recorded ++ serErrors host v := by
  have hw := (dehydrate_written_iff host root st name recorded v).1
  have he := (errors_complete host root st.fs name recorded v).1
  exact ⟨_, hw (Or.inr (by rw [he]; exact h)), he⟩

/-- single-output: two evaluation errors and a command that fails only when it is written -/
example : (docFor true [] [] ['s'] [1000, 1001] (some (.single { kind := .command, relativePath := ['x'], load := .error 7 }))).errors
    = [1000, 1001, 7] := by decide
/-- multi-output: one evaluation error, elements 1 and 3 of three fail -/
example : (docFor true [] [] ['s'] [1000] (some (.multi
      [{ kind := .command, relativePath := ['a'], load := .error 7 }, { kind := .command, relativePath := ['b'], load := .ok [['o']] },
       { kind := .command, relativePath := ['c'], load := .error 8 }]))).errors = [1000, 7, 8] := by decide

/-! ### 5b. a component whose serialization fails has no effect on the others -/

/-- every element's serializer fails (content empty after filtering / cleaning under a HostContext, an
    exception from load, a write error before the destination is opened) — or there is no value -/
def AllFail (host : Bool) : Option Value → Prop
  | none => True
  | some (.single p) => okP host p = false
  | some (.multi ps) => ∀ p ∈ ps, okP host p = false

theorem marshalList_allFail_fs (host : Bool) (root : Str) (fs : FS) (ps : List Provider)
    (h : ∀ p ∈ ps, okP host p = false) : (marshalList host root fs ps).2.2 = fs := by
  induction ps with
  | nil => rfl
  | cons p ps ih =>
    have hp := h p (by simp)
    unfold marshalList serializeOne
    cases hwt : writeText host p with
    | ok t => simp [okP, hwt] at hp
    | error f => simpa using ih (fun q hq => h q (List.mem_cons_of_mem _ hq))

/-- the data directory after `dehydrate` depends on the data directory before and on the value only -/
theorem dehydrate_fs (host : Bool) (root : Str) (st : Store) (name : Str) (recorded : List Fault) (v : Option Value) :
    (dehydrate host root st name recorded v).fs = (marshal host root st.fs v).2.2 := by
  unfold dehydrate; simp only; split <;> rfl

/-- A FAILING WRITE LEAVES THE FILE-SYSTEM MAP UNCHANGED: persisting a component all of whose
    serializers fail does not touch data/ — whatever is there (in particular a file an earlier,
    successful component wrote to the very destination the failing one would have used) stays as it is. -/
theorem dehydrate_fail_frame (host : Bool) (root : Str) (st : Store) (name : Str) (recorded : List Fault)
    (v : Option Value) (h : AllFail host v) : (dehydrate host root st name recorded v).fs = st.fs := by
  rw [dehydrate_fs]
  match v, h with
  | none, _ => rfl
  | some (.single p), h =>
    simp only [AllFail, okP] at h
    cases hwt : writeText host p with
    | ok t => simp [hwt] at h
    | error f => simp [marshal, serializeOne, hwt]
  | some (.multi ps), h =>
    simp only [marshal]
    exact marshalList_allFail_fs host root st.fs ps h

/-- two archives that agree on data/ and on every entry except possibly `n`'s -/
def AgreeExcept (n : Str) (a b : Store) : Prop :=
  a.fs = b.fs ∧ ∀ k, k ≠ n → metaGet a.entries k = metaGet b.entries k

theorem dehydrate_agree (host : Bool) (root : Str) (n : Str) (a b : Store) (h : AgreeExcept n a b)
    (name : Str) (recorded : List Fault) (v : Option Value) :
    AgreeExcept n (dehydrate host root a name recorded v) (dehydrate host root b name recorded v) := by
  obtain ⟨hfs, hent⟩ := h
  refine ⟨by rw [dehydrate_fs, dehydrate_fs, hfs], ?_⟩
  intro k hk
  have ha := dehydrate_written_iff host root a name recorded v
  have hb := dehydrate_written_iff host root b name recorded v
  simp only at ha hb
  by_cases e : k = name
  · subst e
    have hdoc : docFor host root a.fs k recorded v = docFor host root b.fs k recorded v := by rw [hfs]
    by_cases c : (docFor host root a.fs k recorded v).results.isSome = true ∨ (docFor host root a.fs k recorded v).errors ≠ []
    · rw [ha.1 c, hb.1 (hdoc ▸ c), hdoc]
    · rw [ha.2.1 c, hb.2.1 (hdoc ▸ c)]; exact hent k hk
  · rw [ha.2.2 k e, hb.2.2 k e]; exact hent k hk

theorem persist_agree (host : Bool) (root : Str) (n : Str) (items : List Item) (a b : Store)
    (h : AgreeExcept n a b) : AgreeExcept n (persist host root a items) (persist host root b items) := by
  induction items generalizing a b with
  | nil => exact h
  | cons it rest ih =>
    simp only [persist, List.foldl_cons] at ih ⊢
    exact ih _ _ (dehydrate_agree host root n a b h it.name it.recorded it.value)

/-- `persist_fail_frame`: over a whole collection run, in ANY position (failing one first, last, in the
    middle), a component whose serialization fails has NO EFFECT on the archive except its own
    meta_data entry: data/ is exactly what it is without that component, and so is every other
    component's document.  With `hydrate_tolerant` (the failing component's document has no results,
    `persist_fail_doc`) everything else loads as if the failing component had not been there. -/
theorem persist_fail_frame (host : Bool) (root : Str) (st : Store) (pre post : List Item) (it : Item)
    (h : AllFail host it.value) :
    (persist host root st (pre ++ it :: post)).fs = (persist host root st (pre ++ post)).fs ∧
    ∀ k, k ≠ it.name →
      metaGet (persist host root st (pre ++ it :: post)).entries k = metaGet (persist host root st (pre ++ post)).entries k := by
  have hstep : AgreeExcept it.name
      (dehydrate host root (persist host root st pre) it.name it.recorded it.value) (persist host root st pre) := by
    refine ⟨dehydrate_fail_frame host root _ it.name it.recorded it.value h, ?_⟩
    intro k hk
    exact (dehydrate_written_iff host root (persist host root st pre) it.name it.recorded it.value).2.2 k hk
  have := persist_agree host root it.name post _ _ hstep
  simpa only [AgreeExcept, persist, List.foldl_append, List.foldl_cons] using this

/-- in particular the file of an EARLIER successful component on the same destination is still there,
    with its text, right after the failing one was persisted -/
theorem persist_fail_keeps_earlier (host : Bool) (root : Str) (st : Store) (pre : List Item) (it : Item)
    (h : AllFail host it.value) (q : Str) :
    (persist host root st (pre ++ [it])).fs.read q = (persist host root st pre).fs.read q := by
  have := (persist_fail_frame host root st pre [] it h).1
  simp only [List.append_nil] at this
  rw [this]

/-- … and the failing component itself is persisted with its errors only (no results) -/
theorem persist_fail_doc (host : Bool) (root : Str) (st : Store) (pre : List Item) (name : Str)
    (recorded : List Fault) (p : Provider) (f : Fault) (hf : writeText host p = .error f) :
    metaGet (persist host root st (pre ++ [⟨name, recorded, some (.single p)⟩])).entries name
      = some (.json { name := name, errors := recorded ++ [f], results := none }) := by
  simp only [persist, List.foldl_append, List.foldl_cons, List.foldl_nil]
  exact serializer_failure_persisted host root _ name recorded p f hf

/-- non-vacuity: a successful command on `insights_commands/x`, then a failing one on the same
    destination — the first one's text is still what the destination holds -/
example :
    (persist true ['D'] {}
      [⟨['a'], [], some (.single { kind := .command, relativePath := ['x'], load := .ok [['o', 'k']] })⟩,
       ⟨['b'], [], some (.single { kind := .command, relativePath := ['x'], load := .error 3 })⟩]).fs.read
        (pjoin ['D'] (insightsCommands ++ ['/', 'x'])) = some ['o', 'k'] := by decide

/-- loading filters a filtered spec's lines again with the spec's filters; on lines that were
    filtered when collected (each contains one of the patterns) that changes nothing -/
theorem postFilter_of_filtered (pats : List Str) (ls : List Str)
    (h : ∀ l ∈ ls, pats.any (fun p => containsStr p l) = true) : postFilter pats ls = ls := by
  unfold postFilter
  split
  · rfl
  · exact List.filter_eq_self.mpr h

example : postFilter [['K']] [['a', 'K'], ['b']] = [['a', 'K']] := by decide

/-! ### 6. hydrate tolerates bad entries -/

/-- every kind of bad entry contributes nothing: unreadable, not JSON (garbage, truncated, empty),
    JSON of the wrong shape, a name that is not a loaded component, a document without results, a
    document whose data file is gone -/
theorem loadOne_bad (known : Str → Option Comp) (root : Str) (fs : FS) :
    loadOne known root fs .unreadable = none ∧ loadOne known root fs .notJson = none ∧
    loadOne known root fs .badShape = none ∧
    (∀ d, known d.name = none → loadOne known root fs (.json d) = none) ∧
    (∀ d, d.results = none → loadOne known root fs (.json d) = none) ∧
    (∀ d r, d.results = some (.one r) → fs.read (pjoin root (lstripC sep r.obj.relativePath)) = none →
        loadOne known root fs (.json d) = none) := by
  refine ⟨rfl, rfl, rfl, ?_, ?_, ?_⟩
  · intro d h; simp [loadOne, h]
  · intro d h; simp only [loadOne, h]; split <;> simp_all
  · intro d r h hf
    simp only [loadOne, h]
    cases known d.name with
    | none => rfl
    | some key => simp [unmarshal, deserialize, hf]

/-- `hydrate es = es.filterMap loadOne` AS A MAP: looking a component up in the hydrated broker is
    looking it up in the seed broker followed by the entries that load, bad entries left out — for
    every entry list, every position and number of bad entries, and every order `glob` returns. -/
theorem hydrate_tolerant (known : Str → Option Comp) (root : Str) (fs : FS) (es : List RawEntry) (b : Broker) (k : Comp) :
    (hydrate known root fs es b).get k = Broker.get (b ++ es.filterMap (loadOne known root fs)) k := by
  induction es generalizing b with
  | nil => simp [hydrate]
  | cons e es ih =>
    simp only [hydrate, List.foldl_cons] at ih ⊢
    rw [ih]
    unfold hydrateStep
    cases hl : loadOne known root fs e with
    | none => simp [hl]
    | some kv =>
      obtain ⟨k', v⟩ := kv
      simp only [List.filterMap_cons, hl, Broker.set]
      cases hg : Broker.get b k' with
      | some v0 =>
        simp only
        rw [Broker.get_append, Broker.get_append]
        by_cases hk : k' = k
        · subst hk; simp [hg]
        · simp [Broker.get, hk]
      | none =>
        simp only [List.append_assoc, List.cons_append, List.nil_append]

/-- a bad entry, wherever it sits, changes NOTHING: the hydrated broker is the one obtained without it -/
theorem hydrate_skip_bad (known : Str → Option Comp) (root : Str) (fs : FS) (es₁ es₂ : List RawEntry)
    (e : RawEntry) (b : Broker) (he : loadOne known root fs e = none) :
    hydrate known root fs (es₁ ++ e :: es₂) b = hydrate known root fs (es₁ ++ es₂) b := by
  simp only [hydrate, List.foldl_append, List.foldl_cons]
  congr 1
  simp [hydrateStep, he]

/-- An intact entry is present after hydrating, with its own value, NEXT TO ANY OTHER ENTRIES —
    corrupted in any way, in any number, before or after it — as long as no other entry loads under
    the same component and the seed broker does not hold it already. -/
theorem hydrate_intact (known : Str → Option Comp) (root : Str) (fs : FS) (es : List RawEntry) (b : Broker)
    (e : RawEntry) (k : Comp) (v : LoadedValue) (hmem : e ∈ es) (hl : loadOne known root fs e = some (k, v))
    (hb : b.get k = none)
    (huniq : ∀ e' ∈ es, ∀ v', loadOne known root fs e' = some (k, v') → v' = v) :
    (hydrate known root fs es b).get k = some v := by
  rw [hydrate_tolerant, Broker.get_append, hb]
  exact get_filterMap_unique known root fs es e k v hmem hl huniq

/-- nothing appears from nowhere: a component absent from the seed broker is present after hydrating
    only if some entry loads under it -/
theorem hydrate_only_loaded (known : Str → Option Comp) (root : Str) (fs : FS) (es : List RawEntry) (b : Broker)
    (k : Comp) (hb : b.get k = none) (hnone : ∀ e ∈ es, ∀ v, loadOne known root fs e ≠ some (k, v)) :
    (hydrate known root fs es b).get k = none := by
  rw [hydrate_tolerant, Broker.get_append, hb]
  simp only
  induction es with
  | nil => rfl
  | cons a rest ih =>
    cases ha : loadOne known root fs a with
    | none => simpa [List.filterMap_cons, ha] using ih (fun e he => hnone e (List.mem_cons_of_mem _ he))
    | some kv =>
      obtain ⟨k', v'⟩ := kv
      have hk : k' ≠ k := fun e => hnone a (by simp) v' (by rw [ha, e])
      simpa [List.filterMap_cons, ha, Broker.get, hk] using ih (fun e he => hnone e (List.mem_cons_of_mem _ he))

example : (hydrate (fun n => if n = ['s'] then some 1 else none) [] [([ 'f' ], ['x'])]
      [.notJson, .json { name := ['s'], errors := [], results := some (.one ⟨.text, ⟨['f'], false, none, none, .none, none, none, none⟩⟩) },
       .unreadable, .json { name := ['u'], errors := [], results := none }] []).get 1
    = some (.single { raw := false, relativePath := ['f'], path := ['f'], rc := none, cmd := none, args := .none,
                      image := none, engine := none, containerId := none }) := by decide

/-! ### 7. dr.run under a SerializedArchiveContext: loaded specs are not collected again -/

/-- with one loaded component in the graph, all of its direct dependencies leave the graph (they are
    not run again), and the loaded component itself stays -/
theorem prune_single (loaded : Comp → Bool) (g : Graph) (c : Comp) (ds : List Comp) (hl : loaded c = true)
    (hd : g.deps c = some ds) : prune loaded [c] g = some (ds.foldl Graph.pop g) := by
  simp [prune, hl, hd]

/-- when nothing in the graph is loaded the graph is unchanged -/
theorem prune_none_loaded (loaded : Comp → Bool) (keys : List Comp) (g : Graph)
    (h : ∀ c ∈ keys, loaded c = false) : prune loaded keys g = some g := by
  induction keys with
  | nil => rfl
  | cons c rest ih =>
    simp [prune, h c (by simp), ih (fun x hx => h x (List.mem_cons_of_mem _ hx))]

/-- observation outside the property's statement (reported, not a C11 finding): when a loaded
    component's dependency is itself loaded and comes later in the snapshot, `components[comp]`
    raises KeyError — reproduced on the real `dr.run` -/
theorem prune_keyerror_witness :
    prune (fun _ => true) [1, 2] [(1, [2]), (2, [])] = none := by decide

/-! ### 10. archive detection: which context a directory written by collection is taken for (round 10)

`initialize_broker` loads meta_data only under a SerializedArchiveContext rooted at the archive's top; the decision
is made from the paths of ALL files of the archive, hence from every persisted location. -/

/-- a context none of whose marker occurrences is voted by any file does not answer -/
theorem handles_none_of_no_vote (mk : Str) (files : List Str) (h : ∀ f ∈ files, markerRoot mk f = none) :
    handles (some mk) files = none := by
  have : markerRoots mk files = [] := by
    unfold markerRoots
    exact List.filterMap_eq_nil_iff.2 h
  simp [handles, this]

example : handles (some mkSos) [['/', 'a', '/', 's', 'o', 's', '_', 'c', 'o', 'm', 'm', 'a', 'n', 'd', 's', 'X', '/', 'f']] = none := by decide
example : handles (some mkSos) [['/', 'a', '/', 's', 'o', 's', '_', 'c', 'o', 'm', 'm', 'a', 'n', 'd', 's', '/', 'f']] = some ['/', 'a'] := by decide

/-- when some file votes `root` and every other vote is `root` or strictly longer, the context answers `root`
    — in whatever order the files (the code's set of roots) are visited -/
theorem handles_closest (mk : Str) (files : List Str) (root : Str)
    (hv : ∃ f ∈ files, markerRoot mk f = some root)
    (hall : ∀ f ∈ files, ∀ r, markerRoot mk f = some r → r = root ∨ root.length < r.length) :
    handles (some mk) files = some root := by
  have hmem : root ∈ markerRoots mk files := by
    obtain ⟨f, hf, hr⟩ := hv
    exact List.mem_filterMap.2 ⟨f, hf, hr⟩
  have hall' : ∀ x ∈ markerRoots mk files, x = root ∨ root.length < x.length := by
    intro x hx
    obtain ⟨f, hf, hr⟩ := List.mem_filterMap.1 hx
    exact hall f hf x hr
  unfold handles
  simp only
  cases hm : markerRoots mk files with
  | nil => rw [hm] at hmem; cases hmem
  | cons r rest =>
    rw [hm] at hmem hall'
    simp only [closest_unique_min root rest r hmem hall']

/-- a file NAMED insights_archive.txt collected somewhere below data/ does not move the root -/
example : handles (some mkArchiveTxt)
    [['/', 'a', '/', 'd', 'a', 't', 'a', '/', 'x', '/'] ++ mkArchiveTxt, ['/', 'a', '/'] ++ mkArchiveTxt] = some ['/', 'a'] := by decide

/-- later registrations win: the context registered last that answers is the one identified -/
theorem identify_last_wins (reg : List CtxDecl) (e : CtxDecl) (files : List Str) :
    identifyReg (reg ++ [e]) files =
      match handles e.marker files with
      | some r => some (r, e.name)
      | none => identifyReg reg files := by
  unfold identifyReg
  rw [List.reverse_append]
  simp only [List.reverse_cons, List.reverse_nil, List.nil_append, List.cons_append, List.findSome?_cons]
  cases handles e.marker files <;> simp

example : identifyReg (stockReg ++ [⟨['m', 'i', 'n', 'e'], some ['d', 'a', 't', 'a']⟩]) [['/', 'a', '/', 'd', 'a', 't', 'a', '/', 'f']]
    = some (['/', 'a'], ['m', 'i', 'n', 'e']) := by decide

/-- a directory without files is no archive -/
theorem detect_empty_invalid (reg : List CtxDecl) : createContext reg [] = .invalid := by
  simp [createContext]

example : createContext stockReg [] = .invalid := by decide

/-- The full statement "every archive written by collection is recognised, whatever was persisted where" -/
def DetectFull : Prop :=
  ∀ (root : Str) (locs metas : List Str), archiveLoads stockReg root locs metas = true

/-- what holds: the archive is taken for a SerializedArchiveContext rooted at its top if no path of it carries
    the marker of a context registered LATER (sos_commands, JBOSS_HOME) as a path component at its first
    occurrence, the touched marker file votes for the top, and every other file named like the marker lies deeper -/
theorem detect_partial (root : Str) (locs metas : List Str)
    (hlater : ∀ f ∈ archiveFiles root locs metas, markerRoot mkSos f = none ∧ markerRoot mkJdr f = none)
    (htop : markerRoot mkArchiveTxt (root ++ sep :: mkArchiveTxt) = some root)
    (hdeeper : ∀ f ∈ archiveFiles root locs metas, ∀ r, markerRoot mkArchiveTxt f = some r → r = root ∨ root.length < r.length) :
    archiveLoads stockReg root locs metas = true := by
  have hj := handles_none_of_no_vote mkJdr _ (fun f hf => (hlater f hf).2)
  have hs := handles_none_of_no_vote mkSos _ (fun f hf => (hlater f hf).1)
  have ha := handles_closest mkArchiveTxt (archiveFiles root locs metas) root
    ⟨_, by simp [archiveFiles], htop⟩ hdeeper
  have hne : archiveFiles root locs metas ≠ [] := by simp [archiveFiles]
  have hn : handles none (archiveFiles root locs metas) = none := rfl
  simp [archiveLoads, createContext, hne, identifyReg, stockReg, hj, hs, ha, hn]

example : archiveLoads stockReg ['/', 'a'] [['v', '/', 's', 'o', 's', '_', 'c', 'o', 'm', 'm', 'a', 'n', 'd', 's', '.', 'd', '/', 'x'],
    mkInsightsCommands ++ ['/', 'l', 's']] [['s', '.', 'j', 's', 'o', 'n']] = true := by decide

/-- known finding marker-shadowing: a persisted location with a path component `sos_commands` (or `JBOSS_HOME`)
    makes the whole archive a SosArchiveContext (JDRContext) rooted below data/, and nothing is loaded -/
theorem detect_shadow_witness : ¬ DetectFull := by
  intro h
  have := h ['/', 'a'] [['v', 'a', 'r', '/', 's', 'o', 's', '_', 'c', 'o', 'm', 'm', 'a', 'n', 'd', 's', '/', 'x']] []
  revert this
  decide

example : createContext stockReg (archiveFiles ['/', 'a'] [['v', 'a', 'r', '/', 's', 'o', 's', '_', 'c', 'o', 'm', 'm', 'a', 'n', 'd', 's', '/', 'x']] [])
    = .ctx ['/', 'a', '/', 'd', 'a', 't', 'a', '/', 'v', 'a', 'r'] nmSos := by decide

/-- a path that does not contain "/" ++ marker as a substring never votes for that marker's context -/
theorem markerRoot_none_of_not_infix (mk f : Str) (h : ¬ markerOf mk <:+: f) : markerRoot mk f = none := by
  unfold markerRoot
  simp only
  rw [(findSub_none_iff (markerOf mk) f 0).2 h]

example : ¬ markerOf mkSos <:+: ['/', 'a', '/', 's', 'o', 's', '_', 'c', 'o', 'm', 'm', 'a', 'n', 'd', '/', 'x'] :=
  (findSub_none_iff _ _ 0).1 (by decide)

/-- the sufficient condition in plain terms: no path of the archive contains "/sos_commands" or "/JBOSS_HOME" as a substring -/
theorem detect_no_later_substring (root : Str) (locs metas : List Str)
    (hsub : ∀ f ∈ archiveFiles root locs metas, ¬ markerOf mkSos <:+: f ∧ ¬ markerOf mkJdr <:+: f)
    (htop : markerRoot mkArchiveTxt (root ++ sep :: mkArchiveTxt) = some root)
    (hdeeper : ∀ f ∈ archiveFiles root locs metas, ∀ r, markerRoot mkArchiveTxt f = some r → r = root ∨ root.length < r.length) :
    archiveLoads stockReg root locs metas = true :=
  detect_partial root locs metas
    (fun f hf => ⟨markerRoot_none_of_not_infix _ _ (hsub f hf).1, markerRoot_none_of_not_infix _ _ (hsub f hf).2⟩) htop hdeeper

example : markerRoot mkArchiveTxt (['/', 't', '/', 'a'] ++ sep :: mkArchiveTxt) = some ['/', 't', '/', 'a'] := by decide

end IV.Serde
