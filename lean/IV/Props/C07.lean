import IV.Lemmas.Filters
/-!
C07 — filtered specs keep exactly the lines that match a registered filter.

(a) registry: theorems about `run w ops` = the state of `FILTERS` / `_CACHE` after ANY history of
    `add_filter` / `get_filters` calls (any interleaving, any arguments, failed calls included) over
    any acyclic component graph `w` (`rankedBy w rank = true` is a decidable certificate the harness
    checks for every generated graph), for every iteration order of the dependency sets.
(b) content: theorems about `filterContent` (= `AllowFilter.filter_content`), `cleanAllow`
    (= `Cleaner.clean_content(allowlist=…)`), `grepF` (the ASSUMED behaviour of `grep -F -e`),
    `applyFilters` and the provider pipelines, for every content, every allow-list in any key order and
    every integer budget (a budget ≤ 0 never reaches zero by decrementing, i.e. is unlimited —
    `add_filter` only ever stores budgets > 0, theorem `registry_allow_wellformed`).
-/
namespace IV.Filters

/-! ## (a) the filter set in force -/

/-- the invariant behind everything below: after any history every cache entry equals the value a
fresh walk would compute (this is what fix 336d828 established) -/
theorem cache_coherent (w : World) (ops : List Op) : CacheOk w (run w ops) :=
  cacheOk_foldl w ops State.init (cacheOk_init w)

/-- so a look-up after any history returns the freshly computed value, cached or not -/
theorem get_is_recomputed (w : World) (ops : List Op) (c : Comp) :
    (getFilters w (run w ops) c).2.1 = compute w (run w ops).reg c :=
  get_fresh w (run w ops) c (cache_coherent w ops)

/-- FILTERS after any history is exactly the registration log -/
theorem filters_is_log (w : World) (ops : List Op) (d : Comp) (k : Str) :
    k ∈ keys (regOf (run w ops).reg d) ↔ Registered w ops d k := by
  have := foldl_reg_keys w ops State.init d k
  simpa [run, State.init, regOf, keys] using this

/-- **get_is_union** (full strength): after ANY interleaving of registrations and look-ups,
`get_filters(c)` holds exactly the filter strings of every successful registration that wrote to `c`
or to a component reachable from `c` through dependents that pass the gate — for every order in
which the dependency sets iterate. -/
theorem get_is_union (w : World) (rank : Comp → Nat) (hr : rankedBy w rank = true)
    (ops : List Op) (c : Comp) (k : Str) :
    k ∈ keys (getFilters w (run w ops) c).2.1 ↔ ∃ d, Reach w c d ∧ Registered w ops d k := by
  rw [get_is_recomputed]
  unfold compute
  have hf : c < w.nodes.length → rank c < w.fuel := by
    intro hc
    have := (ranked_spec w rank hr c hc).1
    unfold World.fuel; omega
  rw [inner_keys w _ rank hr k w.fuel c [] hf]
  constructor
  · rintro (h | ⟨d, hd, hk⟩)
    · simp [keys] at h
    · exact ⟨d, hd, (filters_is_log w ops d k).mp hk⟩
  · rintro ⟨d, hd, hk⟩
    exact Or.inr ⟨d, hd, (filters_is_log w ops d k).mpr hk⟩

/-- the budget returned with a filter is one that is registered (after max-merging) on a reachable
component, and it is positive; the filter string is not empty -/
theorem get_budget_registered (w : World) (ops : List Op) (c : Comp) (k : Str) (b : Int)
    (h : (k, b) ∈ (getFilters w (run w ops) c).2.1) :
    (∃ d, Reach w c d ∧ (k, b) ∈ regOf (run w ops).reg d) ∧ 0 < b ∧ k ≠ [] := by
  rw [get_is_recomputed] at h
  rcases inner_mem w _ (k, b) _ c [] h with h | ⟨d, hd, hm⟩
  · simp at h
  · have good : RegGood (run w ops).reg :=
      regGood_foldl w ops State.init (by intro d e he; simp [State.init, regOf] at he)
    exact ⟨⟨d, hd, hm⟩, good d (k, b) hm⟩

/-- every allow-list the registry hands to the content filters is well formed -/
theorem registry_allow_wellformed (w : World) (ops : List Op) (c : Comp) :
    ∀ e ∈ (getFilters w (run w ops) c).2.1, 0 < e.2 ∧ e.1 ≠ [] := by
  intro e he
  exact (get_budget_registered w ops c e.1 e.2 he).2

/-- look-ups never change what later look-ups return: dropping every `get` from a history leaves
the answer unchanged (order of registrations and look-ups is irrelevant to the filter set) -/
theorem lookups_are_invisible (w : World) (rank : Comp → Nat) (hr : rankedBy w rank = true)
    (ops : List Op) (c : Comp) (k : Str) :
    k ∈ keys (getFilters w (run w ops) c).2.1 ↔
    k ∈ keys (getFilters w (run w (ops.filter fun o => match o with | .add .. => true | .get _ => false)) c).2.1 := by
  rw [get_is_union w rank hr, get_is_union w rank hr]
  have : ∀ d, Registered w ops d k ↔
      Registered w (ops.filter fun o => match o with | .add .. => true | .get _ => false) d k := by
    intro d
    unfold Registered
    constructor
    · rintro ⟨comp, ps, mx, ts, hm, h⟩
      exact ⟨comp, ps, mx, ts, List.mem_filter.mpr ⟨hm, rfl⟩, h⟩
    · rintro ⟨comp, ps, mx, ts, hm, h⟩
      exact ⟨comp, ps, mx, ts, (List.mem_filter.mp hm).1, h⟩
  constructor
  · rintro ⟨d, hd, h⟩; exact ⟨d, hd, (this d).mp h⟩
  · rintro ⟨d, hd, h⟩; exact ⟨d, hd, (this d).mpr h⟩

/-- where a registration lands: on a filterable, non-raw datasource itself … -/
theorem add_on_datasource (w : World) (c : Comp) (ps : List Str) (m : Int)
    (hds : (w.node c).isDs = true) (hraw : (w.node c).delegRaw = false)
    (hf : (w.node c).delegFilterable = true) (hm : 0 < m) (hps : ∀ p ∈ ps, p ≠ []) :
    addTargets w c (some ps) (some m) = .ok [c] := by
  have hm' : ¬ m ≤ 0 := by omega
  have hany : ps.any (·.isEmpty) = false := by
    rw [List.any_eq_false]
    intro p hp
    have := hps p hp
    cases p with
    | nil => exact absurd rfl this
    | cons _ _ => simp
  simp [addTargets, addPre, checkPats, hds, hraw, hf, hm', hany]

/-- … and what it refuses: raw and non-filterable datasources, invalid budgets -/
theorem add_refusals (w : World) (c : Comp) (pats : Option (List Str)) (mx : Option Int) :
    (mx = none ∨ (∃ m, mx = some m ∧ m ≤ 0) → addTargets w c pats mx = .error .badMax) ∧
    (∀ m, mx = some m → 0 < m → (w.node c).isDs = true → (w.node c).delegRaw = true →
      addTargets w c pats mx = .error .raw) ∧
    (∀ m, mx = some m → 0 < m → (w.node c).isDs = true → (w.node c).delegRaw = false →
      (w.node c).delegFilterable = false → addTargets w c pats mx = .error .notApplicable) := by
  refine ⟨?_, ?_, ?_⟩
  · rintro (rfl | ⟨m, rfl, hm⟩)
    · simp [addTargets, addPre]
    · simp [addTargets, addPre, hm]
  · intro m hmx hm hds hraw
    subst hmx
    have hm' : ¬ m ≤ 0 := by omega
    simp [addTargets, addPre, hm', hds, hraw]
  · intro m hmx hm hds hraw hf
    subst hmx
    have hm' : ¬ m ≤ 0 := by omega
    simp [addTargets, addPre, hm', hds, hraw, hf]

/-- … or, for a parser / combiner (anything that is not a datasource), on exactly the FILTERABLE
ones among the first datasources below it -/
theorem add_through_parser (w : World) (rank : Comp → Nat) (hr : rankedBy w rank = true)
    (q : Comp) (pats : Option (List Str)) (mx : Option Int) (ts : List Comp)
    (hq : (w.node q).isDs = false) (h : addTargets w q pats mx = .ok ts) :
    ∀ d, d ∈ ts ↔ FirstDs w q d ∧ (w.node d).delegFilterable = true := by
  have hspec : ∀ d, d ∈ (depDs w w.fuel q).eraseDups ↔ FirstDs w q d := by
    intro d
    rw [List.mem_eraseDups]
    apply depDs_spec w rank hr d
    intro hc; unfold World.fuel; omega
  cases hp : addPre w q mx with
  | error e => unfold addTargets at h; simp [hp] at h
  | ok l =>
    obtain ⟨m, rfl, hm⟩ := addPre_max w q _ l hp
    have hm' : ¬ m ≤ 0 := by omega
    have hts : ts = l := by
      unfold addTargets at h
      rw [hp] at h
      cases l with
      | nil => simp only [Except.ok.injEq] at h; exact h.symm
      | cons t r =>
        simp only [] at h
        cases hcp : checkPats pats with
        | error e => simp [hcp] at h
        | ok u => simp only [hcp, Except.ok.injEq] at h; exact h.symm
    subst hts
    simp only [addPre, hm', if_false, hq, Bool.not_false, if_true] at hp
    by_cases he : (depDs w w.fuel q).eraseDups.isEmpty = true
    · simp only [he, if_true, Except.ok.injEq] at hp
      subst hp
      intro d
      simp only [List.not_mem_nil, false_iff]
      rintro ⟨hfd, _⟩
      have := (hspec d).mpr hfd
      rw [List.isEmpty_iff] at he
      rw [he] at this; cases this
    · simp only [he, Bool.false_eq_true, if_false] at hp
      split at hp
      · cases hp
      · simp only [Except.ok.injEq] at hp
        subst hp
        intro d
        rw [List.mem_filter, hspec]

/-- a filter registered through a parser or combiner reaches every implementation of the specs
below it: with `add_filter(q, ps, m)` somewhere in the history, `d` one of the filterable first
datasources below `q`, and `d` reachable from `c`, every later or earlier look-up order gives `k ∈ get c` -/
theorem parser_filter_reaches (w : World) (rank : Comp → Nat) (hr : rankedBy w rank = true)
    (ops : List Op) (q c d : Comp) (ps : List Str) (m : Int) (k : Str)
    (hq : (w.node q).isDs = false) (hm : 0 < m) (hps : ∀ p ∈ ps, p ≠ [])
    (hop : Op.add q (some ps) (some m) ∈ ops) (hk : k ∈ ps)
    (hfd : FirstDs w q d) (hfl : (w.node d).delegFilterable = true) (hreach : Reach w c d) :
    k ∈ keys (getFilters w (run w ops) c).2.1 := by
  rw [get_is_union w rank hr]
  refine ⟨d, hreach, q, ps, some m, ?_⟩
  -- the call succeeds and writes to d
  have hin : d ∈ (depDs w w.fuel q).eraseDups := by
    rw [List.mem_eraseDups]
    exact (depDs_spec w rank hr d w.fuel q (by intro hc; unfold World.fuel; omega)).mpr hfd
  have hm' : ¬ m ≤ 0 := by omega
  have hany : ps.any (·.isEmpty) = false := by
    rw [List.any_eq_false]
    intro p hp
    have := hps p hp
    cases p with
    | nil => exact absurd rfl this
    | cons _ _ => simp
  have hne : (depDs w w.fuel q).eraseDups.isEmpty = false := by
    cases hl : (depDs w w.fuel q).eraseDups with
    | nil => rw [hl] at hin; cases hin
    | cons _ _ => rfl
  have hfin : d ∈ List.filter (fun d => (w.node d).delegFilterable) (depDs w w.fuel q).eraseDups :=
    List.mem_filter.mpr ⟨hin, hfl⟩
  cases hl : List.filter (fun d => (w.node d).delegFilterable) (depDs w w.fuel q).eraseDups with
  | nil => rw [hl] at hfin; cases hfin
  | cons t r =>
    refine ⟨t :: r, hop, ?_, by rw [← hl]; exact hfin, hk⟩
    simp [addTargets, addPre, checkPats, hm', hq, hne, hl, hany]

/-- a failed registration changes no filter set -/
theorem failed_add_changes_nothing (w : World) (st : State) (c : Comp) (pats : Option (List Str))
    (mx : Option Int) (e : AddErr) (h : (addFilter w st c pats mx).2 = .error e) :
    (addFilter w st c pats mx).1.reg = st.reg := by
  unfold addFilter at h ⊢
  cases ht : addTargets w c pats mx with
  | error e' => rfl
  | ok ts => simp [ht] at h

/-! ### the stale cache of the old invalidation (fixed by 336d828) -/

/-- the full-strength statement for the OLD code, which dropped only the written component's entry -/
def GetIsUnionOld : Prop :=
  ∀ (w : World) (rank : Comp → Nat), rankedBy w rank = true → ∀ (ops : List Op) (c : Comp) (k : Str),
    k ∈ keys (getFilters w (runOld w ops) c).2.1 ↔ ∃ d, Reach w c d ∧ Registered w ops d k

/-- component 0 = a filterable registry point, component 1 = its implementation -/
def staleWorld : World :=
  ⟨[⟨true, true, false, false, true, true, [1], []⟩, ⟨true, true, false, false, false, true, [], [0]⟩], true⟩

def staleOps : List Op := [.get 1, .add 0 (some ["foo".toList]) (some 10000), .get 1]

/-- [get impl, add point "foo", get impl]: the old invalidation answers from the stale entry … -/
theorem stale_old_witness : ¬ GetIsUnionOld := by
  intro h
  have h1 := (h staleWorld (fun c => if c = 0 then 0 else 1) (by decide) staleOps 1 "foo".toList).mpr
    ⟨0, Reach.step (by decide) (by decide) (Reach.here (by decide)),
      0, ["foo".toList], some 10000, [0], by decide, rfl, by decide, by decide⟩
  revert h1
  decide

/-- … and the current code returns the new filter on the same history -/
example : (getFilters staleWorld (run staleWorld staleOps) 1).2.1 = [("foo".toList, 10000)] := by decide

example : rankedBy staleWorld (fun c => if c = 0 then 0 else 1) = true := by decide

/-! ## (b) content -/

/-- the decomposition every positional statement below rests on: the lines below a position are
filtered on their own, the line itself is kept iff some key is still in the allow-list left by the
lines below, the lines above are a sub-sequence -/
def keptAt (a : Allow) (post : List Str) (l : Str) : Bool := (charge (after a post.reverse) l).isSome

theorem filter_split (a : Allow) (pre post : List Str) (l : Str) :
    ∃ kp, kp.Sublist pre ∧
      filterContent (pre ++ l :: post) a = kp ++ (if keptAt a post l then [l] else []) ++ filterContent post a := by
  unfold filterContent keptAt
  simp only [List.reverse_append, List.reverse_cons, List.append_assoc, List.singleton_append]
  rw [scan_append]
  simp only [scan]
  cases hc : charge (after a post.reverse) l with
  | some a' =>
    refine ⟨(scan a' pre.reverse).reverse, ?_, by simp⟩
    have := (scan_sublist a' pre.reverse).reverse
    simpa using this
  | none =>
    refine ⟨(scan (after a post.reverse) pre.reverse).reverse, ?_, by simp⟩
    have := (scan_sublist (after a post.reverse) pre.reverse).reverse
    simpa using this

/-- **filter_sublist**: the filtered content is an order-preserving sub-sequence of the lines -/
theorem filter_sublist (ls : List Str) (a : Allow) : (filterContent ls a).Sublist ls := by
  unfold filterContent
  have := (scan_sublist a ls.reverse).reverse
  simpa using this

/-- **kept_matches**: every kept line contains a filter string of the allow-list -/
theorem kept_matches (ls : List Str) (a : Allow) (l : Str) (h : l ∈ filterContent ls a) :
    ∃ k ∈ keys a, isInfix k l = true := by
  unfold filterContent at h
  exact scan_mem_matches a ls.reverse l (by simpa using h)

/-- **last_match_kept**: for every filter, the LAST line containing it is kept, at its position -/
theorem last_match_kept (a : Allow) (pre post : List Str) (l : Str) (k : Str)
    (hk : k ∈ keys a) (hl : isInfix k l = true) (hlast : ∀ x ∈ post, isInfix k x = false) :
    keptAt a post l = true ∧
    ∃ kp, kp.Sublist pre ∧ filterContent (pre ++ l :: post) a = kp ++ l :: filterContent post a := by
  have hkept : keptAt a post l = true := by
    unfold keptAt
    simp only [keys, List.mem_map] at hk
    obtain ⟨⟨k', b⟩, he, rfl⟩ := hk
    have := after_keeps a post.reverse k' b he (fun x hx => hlast x (by simpa using hx))
    exact charge_isSome_of_key _ l k' (by simp only [keys, List.mem_map]; exact ⟨(k', b), this, rfl⟩) hl
  refine ⟨hkept, ?_⟩
  obtain ⟨kp, h1, h2⟩ := filter_split a pre post l
  exact ⟨kp, h1, by simpa [hkept] using h2⟩

/-- **dropped_only_when_exhausted**: a line containing filter `k` is dropped only when `k`'s budget
`b` is positive and at least `b` kept lines BELOW it contain `k` -/
theorem dropped_only_when_exhausted (a : Allow) (post : List Str) (l : Str) (k : Str) (b : Int)
    (hk : (k, b) ∈ a) (hl : isInfix k l = true) (hdrop : keptAt a post l = false) :
    0 < b ∧ b ≤ ((filterContent post a).countP (fun x => isInfix k x) : Nat) := by
  have hgone : k ∉ keys (after a post.reverse) := by
    intro hin
    have := charge_isSome_of_key _ l k hin hl
    unfold keptAt at hdrop
    rw [this] at hdrop; cases hdrop
  have := budget_used a post.reverse k b hk hgone
  unfold filterContent
  simpa [List.countP_reverse] using this

/-- a budget that is not positive is never used up: every line containing that filter is kept -/
theorem unlimited_budget_keeps_all (a : Allow) (post : List Str) (l : Str) (k : Str) (b : Int)
    (hk : (k, b) ∈ a) (hb : b ≤ 0) (hl : isInfix k l = true) : keptAt a post l = true := by
  cases h : keptAt a post l with
  | true => rfl
  | false => have := (dropped_only_when_exhausted a post l k b hk hl h).1; omega

/-- **prefilter_transparent** (general form): ANY pre-filter that keeps at least the lines
containing some filter string is invisible after the allow-list filter -/
theorem prefilter_transparent_gen (p : Str → Bool) (ls : List Str) (a : Allow)
    (hp : ∀ l, (∃ k ∈ keys a, isInfix k l = true) → p l = true) :
    filterContent (ls.filter p) a = filterContent ls a := by
  unfold filterContent
  rw [← List.filter_reverse, scan_filter p a ls.reverse hp]

/-- **prefilter_transparent**: `grep -F` with the allow-list's keys, then the allow-list filter, is
the allow-list filter -/
theorem prefilter_transparent (ls : List Str) (a : Allow) :
    filterContent (grepF (keys a) ls) a = filterContent ls a := by
  unfold grepF
  apply prefilter_transparent_gen
  rintro l ⟨k, hk, hi⟩
  rw [List.any_eq_true]
  exact ⟨k, hk, hi⟩

/-- budgets that exceed the number of lines are never used up: the budgeted filter then keeps
EXACTLY the lines containing a filter string (the default budget is 10000) -/
theorem large_budgets_keep_every_match (ls : List Str) (a : Allow)
    (hb : ∀ e ∈ a, (ls.length : Int) < e.2) : filterContent ls a = grepF (keys a) ls := by
  unfold filterContent grepF
  rw [scan_large a ls.reverse (by simpa using hb), List.filter_reverse, List.reverse_reverse]

/-- what grep is assumed to return really is "the lines containing some pattern", in order -/
theorem grepF_spec (pats : List Str) (ls : List Str) :
    (grepF pats ls).Sublist ls ∧ ∀ l, l ∈ grepF pats ls ↔ l ∈ ls ∧ ∃ k ∈ pats, isInfix k l = true := by
  unfold grepF
  refine ⟨List.filter_sublist, fun l => ?_⟩
  simp [List.mem_filter, List.any_eq_true]

/-- the test helper keeps a super-sequence of what the budgeted filter keeps -/
theorem applyFilters_covers (ls : List Str) (a : Allow) :
    (filterContent ls a).Sublist (applyFilters (keys a) ls) := by
  unfold applyFilters
  split
  · exact filter_sublist ls a
  · rw [← prefilter_transparent]
    exact filter_sublist _ a

/-! ### the cleaner's allow-list pass (host side) -/

/-- sub-sequence, and every kept NON-EMPTY line contains a filter string (empty lines pass) -/
theorem clean_sublist_and_matches (ls : List Str) (a : Allow) :
    (cleanAllow ls a).Sublist ls ∧
    ∀ l ∈ cleanAllow ls a, l ≠ [] → ∃ k ∈ keys a, isInfix k l = true := by
  unfold cleanAllow
  simp only []
  split
  · refine ⟨by simpa using (scanC_sublist a ls.reverse).reverse, ?_⟩
    intro l hl hne
    exact scanC_mem_matches a ls.reverse l (by simpa using hl) hne
  · exact ⟨List.nil_sublist _, by simp⟩

/-- on a file without empty lines the cleaner's pass and `filter_content` agree -/
theorem clean_eq_filter (ls : List Str) (a : Allow) (hne : ∀ l ∈ ls, l ≠ []) :
    cleanAllow ls a = filterContent ls a := by
  unfold cleanAllow filterContent
  rw [scanC_eq_scan a ls.reverse (fun x hx => hne x (by simpa using hx))]
  simp only []
  split
  · rfl
  · rename_i h
    cases hs : (scan a ls.reverse).reverse with
    | nil => rfl
    | cons x xs =>
      exfalso; apply h
      rw [hs, List.any_eq_true]
      refine ⟨x, List.mem_cons_self .., ?_⟩
      have hx : x ∈ ls := by
        have : x ∈ (scan a ls.reverse).reverse := by rw [hs]; exact List.mem_cons_self ..
        have := (scan_sublist a ls.reverse).subset (by simpa using this)
        simpa using this
      have := hne x hx
      cases x with
      | nil => exact absurd rfl this
      | cons _ _ => rfl

/-- **host = archive**: grep pre-filter followed by the cleaner's allow-list pass (what `write()`
stores on a host) equals the post-filter applied on load under an archive context, for every file
and every allow-list without an empty key (which `add_filter` guarantees) -/
theorem host_equals_archive (file : List Str) (fs : Allow) (hfs : fs ≠ []) (hk : ∀ k ∈ keys fs, k ≠ []) :
    providerContent grepF true true fs file = providerContent grepF false true fs file := by
  unfold providerContent
  have he : fs.isEmpty = false := by cases fs with | nil => exact absurd rfl hfs | cons _ _ => rfl
  simp only [he, Bool.false_eq_true, if_false, if_true]
  rw [clean_eq_filter, prefilter_transparent]
  intro l hl
  obtain ⟨_, k, hk', hi⟩ := ((grepF_spec (keys fs) file).2 l).mp hl
  intro hnil
  subst hnil
  exact hk k hk' (isInfix_nil_right k hi)

/-! ### no filters, no collection -/

/-- **no_filters_no_collection**: on a host a filterable spec whose filter set is empty after the
history is refused (NoFilterException) … -/
theorem no_filters_no_collection (w : World) (rank : Comp → Nat) (hr : rankedBy w rank = true)
    (ops : List Op) (ds : Comp) (hf : specFilterable w ds = true)
    (hnone : ∀ d k, Reach w ds d → ¬ Registered w ops d k) :
    (construct w (run w ops) true ds).2 = Built.noFilter := by
  have hempty : (getFilters w (run w ops) ds).2.1 = [] := by
    cases hv : (getFilters w (run w ops) ds).2.1 with
    | nil => rfl
    | cons e rest =>
      exfalso
      have : e.1 ∈ keys (getFilters w (run w ops) ds).2.1 := by rw [hv]; simp [keys]
      obtain ⟨d, hd, hreg⟩ := (get_is_union w rank hr ops ds e.1).mp this
      exact hnone d e.1 hd hreg
  unfold construct
  simp [hf, hempty]

/-- … it is refused ONLY then, and never under an archive context -/
theorem refused_only_without_filters (w : World) (st : State) (host : Bool) (ds : Comp)
    (h : (construct w st host ds).2 = Built.noFilter) :
    host = true ∧ specFilterable w ds = true ∧ (getFilters w st ds).2.1 = [] := by
  unfold construct at h
  simp only [] at h
  split at h
  · rename_i hc
    simp only [Bool.and_eq_true, List.isEmpty_iff] at hc
    exact ⟨hc.1.1, hc.1.2, hc.2⟩
  · cases h

/-! ### loads do not wear the registry out -/

/-- a load is a look-up as far as the registry state goes, and its content is the post-filter with
the allow-list that look-up returned (the whole file when that is empty) -/
theorem loads_are_lookups (w : World) (st : State) (ds : Comp) (file : List Str) :
    (loadArchive w st ds file).1 = stepOp w st (.get ds) ∧
    (loadArchive w st ds file).2 =
      (if (getFilters w st ds).2.1.isEmpty then file else filterContent file (getFilters w st ds).2.1) := by
  constructor
  · rfl
  · simp [loadArchive, providerContent]

/-- **loads are invisible**: after any history, loading any file of any datasource leaves every
later look-up (of any component) exactly as it was — budgets are per load, never cumulated across
loads, and no filter string disappears from the set in force -/
theorem load_leaves_filters_in_force (w : World) (ops : List Op) (ds c : Comp) (file : List Str) :
    (getFilters w (loadArchive w (run w ops) ds file).1 c).2.1 = (getFilters w (run w ops) c).2.1 := by
  have h1 : (loadArchive w (run w ops) ds file).1 = run w (ops ++ [.get ds]) := by
    simp [loadArchive, run, List.foldl_append, stepOp]
  rw [h1, get_is_recomputed, get_is_recomputed]
  have : (run w (ops ++ [.get ds])).reg = (run w ops).reg := by
    simp [run, List.foldl_append, stepOp, getFilters_reg]
  rw [this]

/-- so the n-th load of a datasource returns what the first would: the content depends on the file
and on the registrations only -/
theorem repeated_loads_agree (w : World) (ops : List Op) (ds : Comp) (file1 file2 : List Str) :
    (loadArchive w (loadArchive w (run w ops) ds file1).1 ds file2).2 = (loadArchive w (run w ops) ds file2).2 := by
  have := load_leaves_filters_in_force w ops ds ds file1
  simp only [loadArchive] at this ⊢
  rw [this]

/-! ### every branch of content loading ends in the same post-filter -/

/-- the truncated read returns a suffix of the file's lines (so everything proved for "all
contents" applies to what was read), the whole file when it is not above the limit, and strictly
less when it is -/
theorem read_is_suffix (m : Nat) (ls : List Str) :
    (∃ j, readLines m ls = ls.drop j) ∧ (isHuge m ls = false → readLines m ls = ls) ∧
    (isHuge m ls = true → (readLines m ls).length < ls.length) := by
  unfold readLines
  refine ⟨?_, ?_, ?_⟩
  · split
    · exact ⟨_, rfl⟩
    · exact ⟨0, rfl⟩
  · intro h; simp [h]
  · intro h
    simp only [h, if_true, List.length_drop]
    cases ls with
    | nil => simp [isHuge] at h
    | cons x xs =>
      have : 0 < dropCount (List.map lineBytes (x :: xs)) ((List.map lineBytes (x :: xs)).sum - m) := by
        simp only [List.map_cons, dropCount]; split <;> omega
      simp only [List.length_cons]; omega

/-- **off-host, with filters, EVERY branch of load() is post-filtered**: whether the file is read
whole or only its tail, the content is `filter_content` of what was read — a sub-sequence of the
file in which every line contains a registered filter string -/
theorem load_offhost_filtered (grep : List Str → List Str → List Str) (m : Nat) (fs : Allow)
    (file : List Str) (hfs : fs ≠ []) :
    loadFile grep m false fs file = filterContent (readLines m file) fs ∧
    (loadFile grep m false fs file).Sublist file ∧
    ∀ l ∈ loadFile grep m false fs file, ∃ k ∈ keys fs, isInfix k l = true := by
  have he : fs.isEmpty = false := by cases fs with | nil => exact absurd rfl hfs | cons _ _ => rfl
  have h1 : loadFile grep m false fs file = filterContent (readLines m file) fs := by
    simp [loadFile, he]
  refine ⟨h1, ?_, ?_⟩
  · rw [h1]
    obtain ⟨j, hj⟩ := (read_is_suffix m file).1
    rw [hj]
    exact (filter_sublist _ fs).trans (List.drop_sublist j file)
  · intro l hl
    rw [h1] at hl
    exact kept_matches _ fs l hl

/-- … and nothing of what was read is lost except to an exhausted budget: with budgets above the
number of lines read, EVERY line of the part read that contains a filter string is kept (in both
branches); for small budgets `last_match_kept` / `dropped_only_when_exhausted` apply to `readLines m file` -/
theorem load_offhost_keeps_matches_of_read (grep : List Str → List Str → List Str) (m : Nat) (fs : Allow)
    (file : List Str) (hfs : fs ≠ []) (hb : ∀ e ∈ fs, ((readLines m file).length : Int) < e.2) :
    loadFile grep m false fs file = grepF (keys fs) (readLines m file) := by
  rw [(load_offhost_filtered grep m fs file hfs).1]
  exact large_budgets_keep_every_match _ fs hb

/-- below the limit `load()` is the pipeline the earlier theorems speak about -/
theorem load_small_is_providerContent (m : Nat) (host : Bool) (fs : Allow) (file : List Str)
    (hs : isHuge m file = false) (hfs : fs ≠ []) :
    loadFile grepF m host fs file = (if host then grepF (keys fs) file else filterContent file fs) := by
  have he : fs.isEmpty = false := by cases fs with | nil => exact absurd rfl hfs | cons _ _ => rfl
  cases host <;> simp [loadFile, he, (read_is_suffix m file).2.1 hs]

/-- the full statement for `stream()`: with filters in force every non-empty streamed line contains one -/
def StreamFiltered : Prop :=
  ∀ (m : Nat) (host loaded : Bool) (fs : Allow) (file : List Str), fs ≠ [] →
    ∀ l ∈ streamFile grepF m host loaded fs file, l ≠ [] → ∃ k ∈ keys fs, isInfix k l = true

/-- it holds on a host (grep) and off-host once a non-empty content has been loaded … -/
theorem stream_filtered_partial (m : Nat) (host loaded : Bool) (fs : Allow) (file : List Str) (hfs : fs ≠ [])
    (h : host = true ∨ (loaded = true ∧ loadFile grepF m host fs file ≠ [])) :
    ∀ l ∈ streamFile grepF m host loaded fs file, ∃ k ∈ keys fs, isInfix k l = true := by
  have he : fs.isEmpty = false := by cases fs with | nil => exact absurd rfl hfs | cons _ _ => rfl
  have hgrep : ∀ l ∈ grepF (keys fs) file, ∃ k ∈ keys fs, isInfix k l = true :=
    fun l hl => (((grepF_spec (keys fs) file).2 l).mp hl).2
  have hload : ∀ l ∈ loadFile grepF m host fs file, ∃ k ∈ keys fs, isInfix k l = true := by
    cases host with
    | true => simpa [loadFile, he] using hgrep
    | false => exact (load_offhost_filtered grepF m fs file hfs).2.2
  intro l hl
  unfold streamFile at hl
  split at hl
  · exact hload l hl
  · rename_i hn
    rcases h with rfl | ⟨rfl, hne⟩
    · simp only [he, Bool.not_false, Bool.and_self, if_true] at hl
      exact hgrep l hl
    · exfalso; apply hn
      cases hc : loadFile grepF m host fs file with
      | nil => exact absurd hc hne
      | cons _ _ => simp

/-- … and is FALSE off-host before the content is loaded: `_stream()` re-opens the file and yields it
unfiltered (known finding archive-stream-unfiltered; StreamParser consumes `stream()`) -/
theorem stream_unfiltered_witness : ¬ StreamFiltered := by
  intro h
  have := h 1000 false false [("x".toList, 1)] ["a x".toList, "b".toList] (by decide) "b".toList (by decide) (by decide)
  revert this
  decide

/-! ### hydration: every rebuilt provider is filtered with the filters in force now -/

/-- the list branch and the single branch give each element the same treatment -/
theorem hydrate_branches_agree (m : Nat) (fs : Allow) (files : List (List Str)) :
    hydrateResults m fs (.multi files) = files.flatMap (fun f => hydrateResults m fs (.single f)) := by
  induction files with
  | nil => rfl
  | cons f rest ih =>
    simp only [hydrateResults, List.map_cons, List.flatMap_cons, List.singleton_append] at ih ⊢
    rw [ih]

/-- **hydrate_element_filtered**: whatever the shape of the spec, the i-th rebuilt provider's content
is the post-filter of the i-th stored file with the filters in force for the spec NOW: one content per
stored element, each a sub-sequence of its file in which every line contains a current filter string
(lines the archive kept under an older filter set are dropped), and with budgets above the file's
length exactly the lines containing a current filter string -/
theorem hydrate_element_filtered (m : Nat) (fs : Allow) (r : Results) (hfs : fs ≠ []) :
    hydrateResults m fs r = r.elements.map (fun file => filterContent (readLines m file) fs) ∧
    ∀ file ∈ r.elements,
      (filterContent (readLines m file) fs).Sublist file ∧
      (∀ l ∈ filterContent (readLines m file) fs, ∃ k ∈ keys fs, isInfix k l = true) ∧
      ((∀ e ∈ fs, ((readLines m file).length : Int) < e.2) →
        filterContent (readLines m file) fs = grepF (keys fs) (readLines m file)) := by
  have hr : ∀ file, rebuild m fs file = filterContent (readLines m file) fs :=
    fun file => (load_offhost_filtered grepF m fs file hfs).1
  refine ⟨?_, ?_⟩
  · cases r with
    | none => rfl
    | single file => simp [hydrateResults, Results.elements, hr]
    | multi files => simp [hydrateResults, Results.elements, hr]
  · intro file _
    have h := load_offhost_filtered grepF m fs file hfs
    refine ⟨?_, ?_, ?_⟩
    · rw [← h.1]; exact h.2.1
    · rw [← h.1]; exact h.2.2
    · intro hb; exact large_budgets_keep_every_match _ fs hb

/-- tied to the registry: the filters used are those of a look-up of the spec after the whole history
(registrations made AFTER the archive was written included), so every kept line contains a string
some successful registration put in force for the spec -/
theorem hydrate_uses_filters_in_force (w : World) (rank : Comp → Nat) (hr : rankedBy w rank = true)
    (ops : List Op) (spec : Comp) (m : Nat) (r : Results) (out : List Str) (l : Str)
    (hne : (getFilters w (run w ops) spec).2.1 ≠ [])
    (hout : out ∈ hydrateResults m (getFilters w (run w ops) spec).2.1 r) (hl : l ∈ out) :
    ∃ k, isInfix k l = true ∧ ∃ d, Reach w spec d ∧ Registered w ops d k := by
  obtain ⟨h1, _⟩ := hydrate_element_filtered m _ r hne
  rw [h1, List.mem_map] at hout
  obtain ⟨file, _, rfl⟩ := hout
  obtain ⟨k, hk, hi⟩ := kept_matches _ _ l hl
  exact ⟨k, hi, (get_is_union w rank hr ops spec k).mp hk⟩

/-! ### filterable is decided by the registry points above the datasource, for every provider kind -/

/-- **one rule for all provider kinds** (`construct` models FileProvider and CommandOutputProvider
construction alike): a provider counts as filterable iff filtering is enabled and SOME registry point
found by walking up from its datasource — directly bound, an alternative inside first_of([...]),
below head() / foreach_execute, any number of levels — is filterable.  No attribute of the datasource
object itself takes part. -/
theorem filterable_by_registry_points (w : World) (rank : Comp → Nat) (hr : rankedBy w rank = true)
    (ds : Comp) :
    specFilterable w ds = true ↔
      w.enabled = true ∧ ∃ p, PointAbove w ds p ∧ (w.node p).pointFilterable = true := by
  have hf : ds < w.nodes.length → rank ds < w.fuel := by
    intro hc
    have := (ranked_spec w rank hr ds hc).1
    unfold World.fuel; omega
  unfold specFilterable
  simp only [Bool.and_eq_true, List.any_eq_true]
  constructor
  · rintro ⟨he, p, hp, hpf⟩
    exact ⟨he, p, (regPoints_spec w rank hr p w.fuel ds hf).mp hp, hpf⟩
  · rintro ⟨he, p, hp, hpf⟩
    exact ⟨he, p, (regPoints_spec w rank hr p w.fuel ds hf).mpr hp, hpf⟩

/-- so a NESTED datasource of a filterable spec with no filter registered anywhere it can see is
refused on a host exactly like a directly bound one (NoFilterException at construction: the command
is never run, the file never read) -/
theorem nested_not_collected_without_filters (w : World) (rank : Comp → Nat) (hr : rankedBy w rank = true)
    (ops : List Op) (ds p : Comp) (he : w.enabled = true) (hp : PointAbove w ds p)
    (hpf : (w.node p).pointFilterable = true) (hnone : ∀ d k, Reach w ds d → ¬ Registered w ops d k) :
    (construct w (run w ops) true ds).2 = Built.noFilter :=
  no_filters_no_collection w rank hr ops ds
    ((filterable_by_registry_points w rank hr ds).mpr ⟨he, p, hp, hpf⟩) hnone

/-- and with filters its command output is grep-filtered: every line contains a filter string in
force for the datasource and every line of the output containing one is kept -/
theorem command_output_filtered (fs : Allow) (output : List Str) (hfs : fs ≠ []) :
    (commandContent grepF fs output).Sublist output ∧
    ∀ l, l ∈ commandContent grepF fs output ↔ l ∈ output ∧ ∃ k ∈ keys fs, isInfix k l = true := by
  have he : fs.isEmpty = false := by cases fs with | nil => exact absurd rfl hfs | cons _ _ => rfl
  simp only [commandContent, he, Bool.false_eq_true, if_false]
  exact grepF_spec (keys fs) output

/-! ## non-vacuity -/

def exAllow : Allow := [("a".toList, 1), ("b".toList, 2)]
def exLines : List Str := ["a".toList, "b".toList, [], "ab".toList, "c".toList]

example : filterContent exLines exAllow = ["b".toList, "ab".toList] := by decide
example : cleanAllow exLines exAllow = ["b".toList, [], "ab".toList] := by decide
example : grepF (keys exAllow) exLines = ["a".toList, "b".toList, "ab".toList] := by decide
-- last_match_kept: the last line containing "b" is "ab"; it is kept although "a" is charged for it
example : keptAt exAllow ["c".toList] "ab".toList = true := by decide
-- dropped_only_when_exhausted: line "a" (position 0) is dropped, budget 1 of "a" used by "ab" below
example : keptAt exAllow ["b".toList, [], "ab".toList, "c".toList] "a".toList = false := by decide
example : (filterContent ["b".toList, [], "ab".toList, "c".toList] exAllow).countP (fun x => isInfix "a".toList x) = 1 := by decide
-- a leading dash and regex metacharacters are plain characters
example : filterContent ["a-x".toList, "b".toList, "-x 1".toList] [("-x".toList, 10000)] = ["a-x".toList, "-x 1".toList] := by decide
example : filterContent ["a.b".toList, "axb".toList] [(".".toList, 5)] = ["a.b".toList] := by decide
-- budget ≤ 0 is never used up
example : filterContent ["x".toList, "x".toList, "x".toList] [("x".toList, 0)] = ["x".toList, "x".toList, "x".toList] := by decide
-- registry: a parser (2) on the point (0) writes to the point; the implementation (1) sees it
def exWorld : World :=
  ⟨[⟨true, true, false, false, true, true, [1], [2]⟩, ⟨true, true, false, false, false, true, [], [0]⟩,
    ⟨false, false, false, false, false, false, [0], []⟩], true⟩
example : rankedBy exWorld (fun c => if c = 1 then 2 else if c = 0 then 1 else 0) = true := by decide
example : addTargets exWorld 2 (some ["bar".toList]) (some 3) = .ok [0] := rfl
example : (getFilters exWorld (run exWorld [.get 1, .add 2 (some ["bar".toList]) (some 3), .get 0]) 1).2.1
    = [("bar".toList, 3)] := by decide
example : (construct exWorld (run exWorld [.get 1]) true 1).2 = Built.noFilter := by decide
example : FirstDs exWorld 2 0 := FirstDs.step (by decide) (by decide) (FirstDs.here (by decide))
example : Reach exWorld 1 0 := Reach.step (by decide) (by decide) (Reach.here (by decide))
example : filterContent exLines [("a".toList, 6), ("b".toList, 7)] = grepF ["a".toList, "b".toList] exLines := by decide
example : specFilterable exWorld 1 = true := by decide
-- a command alternative (3) inside first_of (2) bound to the filterable point (0): two levels below, still filterable
def nestedWorld : World :=
  ⟨[⟨true, true, false, false, true, true, [2], []⟩, ⟨false, false, false, false, false, false, [], []⟩,
    ⟨true, true, false, false, false, true, [3], [0]⟩, ⟨true, false, false, false, false, false, [], [2]⟩], true⟩
example : rankedBy nestedWorld (fun c => if c = 3 then 2 else if c = 2 then 1 else 0) = true := by decide
example : PointAbove nestedWorld 3 0 :=
  PointAbove.step (d := 2) (by decide) (by decide) (PointAbove.step (d := 0) (by decide) (by decide) (PointAbove.here (by decide)))
example : specFilterable nestedWorld 3 = true := by decide
example : (construct nestedWorld (run nestedWorld []) true 3).2 = Built.noFilter := by decide
example : (construct nestedWorld (run nestedWorld [.add 0 (some ["x".toList]) (some 5)]) true 3).2 = Built.ok true [("x".toList, 5)] := by decide
-- an archive written under the old filter "a", hydrated when only "b" is in force: list and single branch alike
example : hydrateResults 1000 [("b".toList, 5)] (.multi [["a".toList, "ab".toList], ["a".toList]]) = [["ab".toList], []] := by decide
example : hydrateResults 1000 [("b".toList, 5)] (.single ["a".toList, "ab".toList]) = [["ab".toList]] := by decide
-- the truncated-read branch: 3 lines of 4 bytes, limit 6 -> offset 6 falls into line 2, only line 3 is read
example : isHuge 6 ["a x".toList, "b x".toList, "c x".toList] = true := by decide
example : readLines 6 ["a x".toList, "b x".toList, "c x".toList] = ["c x".toList] := by decide
example : loadFile grepF 6 false [("x".toList, 5)] ["a x".toList, "b x".toList, "c x".toList] = ["c x".toList] := by decide
example : loadFile grepF 9 false [("x".toList, 5)] ["a x".toList, "b x".toList, "c x".toList] = ["b x".toList, "c x".toList] := by decide
-- offset exactly at the first byte of line 2: that complete line is discarded as "broken" all the same
example : loadFile grepF 8 false [("x".toList, 5)] ["a x".toList, "b x".toList, "c x".toList] = ["c x".toList] := by decide
example : loadFile grepF 6 true [("x".toList, 5)] ["a x".toList, "b".toList, "c x".toList] = ["a x".toList, "c x".toList] := by decide
example : (loadArchive exWorld (run exWorld [.add 0 (some ["b".toList]) (some 1)]) 1 exLines).2 = ["ab".toList] := by decide


/-! ## (d) `spec_factory.find` and `filters.loads` as registration entry points -/

theorem stepX_foldl (w : World) (xs : List XOp) (st : State) :
    xs.foldl (stepX w) st = (xs.flatMap (desugar w)).foldl (stepOp w) st := by
  induction xs generalizing st with
  | nil => rfl
  | cons x r ih =>
    rw [List.foldl_cons, List.flatMap_cons, List.foldl_append, ih]
    congr 1
    cases x with
    | base o => rfl
    | find c p =>
      simp only [stepX, desugar, findSpec]
      cases hr : (w.node c).delegRaw <;> cases hf : (w.node c).pointFilterable <;> simp [stepOp]
      cases (addFilter w st c p (some 10000)) with
      | mk st' r => cases r <;> rfl

example : [XOp.find 0 (some ["bar".toList]), .base (.get 1)].flatMap (desugar exWorld) =
    [.add 0 (some ["bar".toList]) (some 10000), .get 1] := by decide

/-- **find_is_registration**: a history that also registers through `find(spec, pattern)` leaves FILTERS and
_CACHE exactly as the history in which every `find` on a non-raw spec carrying `filterable` is replaced by
`add_filter(spec, pattern)` and every other `find` is dropped -/
theorem find_is_registration (w : World) (xs : List XOp) :
    runX w xs = run w (xs.flatMap (desugar w)) := stepX_foldl w xs State.init

example : (runX exWorld [.find 0 (some ["bar".toList]), .base (.get 1)]).reg = [(0, [("bar".toList, 10000)])] := by decide

/-- so the union statement holds for histories with `find` too, for every interleaving -/
theorem find_history_union (w : World) (rank : Comp → Nat) (hr : rankedBy w rank = true)
    (xs : List XOp) (c : Comp) (k : Str) :
    k ∈ keys (getFilters w (runX w xs) c).2.1 ↔
      ∃ d, Reach w c d ∧ Registered w (xs.flatMap (desugar w)) d k := by
  rw [find_is_registration]
  exact get_is_union w rank hr _ c k

example : (getFilters exWorld (runX exWorld [.base (.get 1), .find 0 (some ["bar".toList])]) 1).2.1
    = [("bar".toList, 10000)] := by decide

/-- a raw spec is refused by `find` before anything is registered or invalidated; a spec without a true
`filterable` attribute registers nothing -/
theorem find_refusals (w : World) (st : State) (c : Comp) (pats : Option (List Str)) :
    ((w.node c).delegRaw = true → findSpec w st c pats = (st, .error .raw)) ∧
    ((w.node c).delegRaw = false → (w.node c).pointFilterable = false → findSpec w st c pats = (st, .ok ())) := by
  constructor
  · intro h; simp [findSpec, h]
  · intro h1 h2; simp [findSpec, h1, h2]

example : (exWorld.node 2).delegRaw = false ∧ (exWorld.node 2).pointFilterable = false := by decide

/-- the full statement for `filters.loads`: filters loaded from a filters file count like registrations -/
def LoadsIsRegistration : Prop :=
  ∀ (w : World) (rank : Comp → Nat), rankedBy w rank = true →
    ∀ (ops : List Op) (entries : List (Comp × Allow)) (c : Comp) (k : Str),
      k ∈ keys (getFilters w (loadsReg (run w ops) entries) c).2.1 ↔
        ∃ d, Reach w c d ∧ (Registered w ops d k ∨ ∃ a, (d, a) ∈ entries ∧ k ∈ keys a)

/-- [get impl, loads {point: {"b": 3}}, get impl]: `loads` does not invalidate `_CACHE`, the look-up is
answered from the entry made before the file was loaded (known finding loads-overwrites-stale-cache) -/
theorem loads_stale_witness : ¬ LoadsIsRegistration := by
  intro h
  have h1 := (h staleWorld (fun c => if c = 0 then 0 else 1) (by decide) [.get 1] [(0, [("b".toList, 3)])] 1
    "b".toList).mpr
    ⟨0, Reach.step (by decide) (by decide) (Reach.here (by decide)), Or.inr ⟨[("b".toList, 3)], by decide, by decide⟩⟩
  revert h1
  decide

/-- … and it REPLACES what was registered before: [add point "a", loads {point: {"b": 3}}] loses "a" -/
example : (getFilters staleWorld (loadsReg (run staleWorld [.add 0 (some ["a".toList]) (some 10000)])
    [(0, [("b".toList, 3)])]) 1).2.1 = [("b".toList, 3)] := by decide

/-- what does hold: when nothing was looked up before (empty `_CACHE`, the situation of `collect.py`, which
loads the filters file once at start), a look-up after `loads` is the fresh walk over the loaded registry -/
theorem loads_fresh_partial (w : World) (st : State) (entries : List (Comp × Allow)) (c : Comp)
    (h : st.cache = []) :
    (getFilters w (loadsReg st entries) c).2.1 = compute w (loadsReg st entries).reg c := by
  simp [getFilters, loadsReg, h, cacheGet]

example : (getFilters staleWorld (loadsReg State.init [(0, [("b".toList, 3)])]) 1).2.1 = [("b".toList, 3)] := by decide


/-! ## (e) derived component types -/

/-- `plugins.is_type(c, base)` answers exactly "the declared type derives from `base`" (reflexive-transitive closure of the base-class relation), whatever the depth -/
theorem typeIs_iff_derives (tt : TypeTable) (h : declaredInOrder tt = true) (t base : Nat) (ht : t < tt.length) :
    typeIs tt t base = true ↔ Derives tt t base :=
  isSub_iff tt h base (tt.length + 1) t (by omega) ht


/-- 0 = ComponentType-level root `datasource`, 1 = `parser`, 2 = a type derived from datasource, 3 = derived from 2 -/
def exTypes : TypeTable := [none, none, some 0, some 2]
example : declaredInOrder exTypes = true := by decide
example : typeIs exTypes 3 0 = true ∧ typeIs exTypes 3 1 = false ∧ typeIs exTypes 0 2 = false := by decide
example : Derives exTypes 3 0 := Derives.step (p := 2) (by decide) (Derives.step (p := 0) (by decide) (Derives.refl 0))

/-- a component declared with a type DERIVED from `datasource`, at any depth, is a datasource -/
theorem derived_type_is_datasource (tt : TypeTable) (h : declaredInOrder tt = true) (t dsT : Nat)
    (ht : t < tt.length) (hder : Derives tt t dsT) : typeIs tt t dsT = true :=
  (typeIs_iff_derives tt h t dsT ht).mpr hder

example : typeIs exTypes 3 0 = true := by decide

/-- … so in a world whose `isDs` flags are `is_type(c, datasource)`, a registration on such a component lands
on the component itself and the component passes the gate of the look-up, exactly like a plain datasource -/
theorem derived_datasource_registers (tt : TypeTable) (h : declaredInOrder tt = true) (t dsT : Nat)
    (ht : t < tt.length) (hder : Derives tt t dsT) (w : World) (c : Comp)
    (htype : (w.node c).isDs = typeIs tt t dsT) (hraw : (w.node c).delegRaw = false)
    (hf : (w.node c).delegFilterable = true) (ps : List Str) (m : Int) (hm : 0 < m) (hps : ∀ p ∈ ps, p ≠ []) :
    addTargets w c (some ps) (some m) = .ok [c] ∧
      (w.enabled = true → (w.node c).attrFalse = false → gate w c = true) := by
  have hds : (w.node c).isDs = true := by rw [htype]; exact derived_type_is_datasource tt h t dsT ht hder
  refine ⟨add_on_datasource w c ps m hds hraw hf hm hps, ?_⟩
  intro he ha
  simp [gate, he, ha, hds]

example : (exWorld.node 1).isDs = typeIs exTypes 3 0 := by decide
end IV.Filters
