import IV.Model.Playbook
namespace IV.Playbook

theorem stub_exclude_missing (p : Play) (h : lookupStr sVars p = none) : exclude p = .error .verr := by
  simp [exclude, exclList, h]

end IV.Playbook
