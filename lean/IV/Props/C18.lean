import IV.Lemmas.Playbook
import IV.Lemmas.PlaybookVerify
/-!
C18 — a playbook's signed digest covers everything but the declared dynamic parts.

Every theorem is about `IV.Playbook` (Model/Playbook.lean): `ser` = PlaybookSerializer, `exclude` =
exclude_dynamic_elements, `verifyPlay` / `verifyPlayFull` = verify_play (+ execute_verification),
`verify` = verify.  All values: strings over every character, unbounded integers, booleans, null,
sequences and mappings with scalar keys, nested to any depth.  SHA-256 is the parameter `H`
(assumed injective where a theorem speaks of digests), GPG the parameter `sigValid`.
-/
namespace IV.Playbook.C18
open IV.Playbook

/-! ### 1. the signed text determines the play: values, keys, order, nesting, types -/

/-- the decoder reads back exactly the value that was serialised, whatever follows it
(`Safe rest`: the rest does not continue a number) -/
theorem decode_ser (v : PVal) (rest : Str) (hs : Safe rest) : decode (ser v ++ rest) = some (v, rest) :=
  Playbook.decode_ser v rest hs

example : Safe [',', ' ', 'x'] := safe_comma _

/-- the serializer is injective on all values -/
theorem ser_injective (p q : PVal) (h : ser p = ser q) : p = q := Playbook.ser_injective p q h

/-- stronger: a serialisation is never a prefix of another one -/
theorem ser_prefix_free (p q : PVal) (r1 r2 : Str) (h1 : Safe r1) (h2 : Safe r2)
    (h : ser p ++ r1 = ser q ++ r2) : p = q ∧ r1 = r2 := Playbook.ser_prefix_free p q r1 r2 h1 h2 h

/-- two plays with the same signed text are the same play -/
theorem serializePlay_injective (p q : Play) (h : serializePlay p = serializePlay q) : p = q := by
  have := Playbook.ser_injective _ _ h
  injection this

/-- regression of the repaired defect (fix 4738ca0): a key that spells an entry boundary, and an
integer / boolean / null key against the string of the same spelling, no longer collide -/
theorem rawkey_witnesses_distinct (x y : PVal) :
    ser (.map [(.str "a', 'x'), ('b".toList, y)]) ≠ ser (.map [(.str ['a'], .sc (.str ['x'])), (.str ['b'], y)]) ∧
    ser (.map [(.int 1, x)]) ≠ ser (.map [(.str ['1'], x)]) ∧
    ser (.map [(.bool true, x)]) ≠ ser (.map [(.str ['T', 'r', 'u', 'e'], x)]) ∧
    ser (.map [(.none, x)]) ≠ ser (.map [(.str ['N', 'o', 'n', 'e'], x)]) := by
  refine ⟨?_, ?_, ?_, ?_⟩ <;> intro h <;> have h := Playbook.ser_injective _ _ h <;> simp at h

example : ser (.map [(.int 1, .sc (.str ['x']))]) = "ordereddict([(1, 'x')])".toList := by decide
example : ser (.map [(.str ['1'], .sc (.str ['x']))]) = "ordereddict([('1', 'x')])".toList := by decide

/-- the digest that GPG is shown differs whenever the plays differ outside the excluded elements
(`H` = SHA-256 ∘ UTF-8, assumed collision free) -/
theorem digest_changes {D : Type} (H : Str → D) (hH : ∀ a b, H a = H b → a = b)
    (p q p' q' : Play) (_hp : exclude p = .ok p') (_hq : exclude q = .ok q') (hne : p' ≠ q') :
    H (serializePlay p') ≠ H (serializePlay q') := by
  intro h; exact hne (serializePlay_injective _ _ (hH _ _ h))

/-- what a successful `verify_play` hands to GPG is the serialisation of the cleaned play -/
theorem verifyPlay_ok (p : Play) (t : Str) (s : PVal) (h : verifyPlay p = .ok (t, s)) :
    ∃ c, exclude p = .ok c ∧ t = serializePlay c := by
  unfold verifyPlay at h
  split at h
  · split at h
    · cases h
    · cases h
    · split at h
      · rename_i c hc; injection h with h; injection h with h1 _; exact ⟨c, hc, h1.symm⟩
      · cases h
  · cases h

/-- … and through `verify_play`: equal digests shown to GPG ⇒ equal plays after exclusion -/
theorem verifyPlay_digest_binds {D : Type} (H : Str → D) (hH : ∀ a b, H a = H b → a = b)
    (p q : Play) (tp tq : Str) (sp sq : PVal) (hp : verifyPlay p = .ok (tp, sp)) (hq : verifyPlay q = .ok (tq, sq))
    (h : H tp = H tq) : exclude p = exclude q := by
  have ht := hH _ _ h
  obtain ⟨cp, hcp, e1⟩ := verifyPlay_ok p tp sp hp
  obtain ⟨cq, hcq, e2⟩ := verifyPlay_ok q tq sq hq
  rw [hcp, hcq, serializePlay_injective cp cq (by rw [← e1, ← e2, ht])]

/-! ### 2. what exclusion may remove -/

/-- a successful exclusion changed the play only by deleting `hosts` / `vars` entries or direct
children of a `hosts` / `vars` mapping; every other entry is identical and in the same place -/
theorem exclude_only_dynamic (p p' : Play) (h : exclude p = .ok p') : Shrunk p p' := by
  unfold exclude at h
  split at h
  · cases h
  · cases h
  · exact exclLoop_shrunk _ p p p' (Shrunk.refl p) h

/-- every request of a successful exclusion is `hosts`, `vars` or `hosts/x`, `vars/x` -/
theorem exclude_requests_valid (p p' : Play) (e : Str) (hl : exclList p = .text e) (h : exclude p = .ok p') :
    ∀ el ∈ splitOn ',' e, ValidPath (pathOf el) := by
  unfold exclude at h
  rw [hl] at h
  exact exclLoop_ok_valid _ p p' h

/-- only excluded elements changed ⇒ same result, same digest: replacing the value of a top-level
element that the (unchanged) exclusion list removes as a whole -/
theorem digest_ignores_excluded (p : Play) (a : Str) (w : PVal) (e : Str) (r r' : Play)
    (hl : exclList p = .text e) (hl' : exclList (setStr a w p) = .text e)
    (hreq : ∃ el ∈ splitOn ',' e, pathOf el = [a])
    (hp : exclude p = .ok r) (hq : exclude (setStr a w p) = .ok r') :
    r' = r ∧ serializePlay r' = serializePlay r := by
  unfold exclude at hp hq
  rw [hl] at hp; rw [hl'] at hq
  have := exclLoop_sameBut a _ p (setStr a w p) r r' (Or.inr ⟨w, rfl⟩) hp hq hreq
  exact ⟨this, by rw [this]⟩

/-- the same for a direct child `a/b` of `hosts` / `vars` that the (unchanged) list excludes -/
theorem digest_ignores_excluded_child (p : Play) (a b : Str) (vs : List (Scalar × PVal)) (w : PVal) (e : Str)
    (r r' : Play) (hlk : lookupStr a p = some (.map vs))
    (hl : exclList p = .text e) (hl' : exclList (setStr a (.map (setStr b w vs)) p) = .text e)
    (hreq : ∃ el ∈ splitOn ',' e, pathOf el = [a, b])
    (hp : exclude p = .ok r) (hq : exclude (setStr a (.map (setStr b w vs)) p) = .ok r') :
    r' = r ∧ serializePlay r' = serializePlay r := by
  unfold exclude at hp hq
  rw [hl] at hp; rw [hl'] at hq
  have := exclLoop_sameButChild a b _ p _ r r' (Or.inr ⟨vs, w, hlk, rfl⟩) hp hq hreq
  exact ⟨this, by rw [this]⟩

/-! ### 3. error clauses -/

/-- no `vars`, or a `vars` mapping without the exclusion list: verification error -/
theorem exclude_missing_list_error (p : Play) (h : exclList p = .missing) : exclude p = .error .verr := by
  simp [exclude, h]

theorem exclList_missing_of_no_vars (p : Play) (h : lookupStr sVars p = none) : exclList p = .missing := by
  simp [exclList, h]

/-- a `vars` that is not a mapping (null, string, sequence, …) counts as a missing list (fix 5a7421c) -/
theorem exclList_missing_of_vars_not_map (p : Play) (h : ∀ vs, lookupStr sVars p ≠ some (.map vs)) :
    exclList p = .missing := by
  unfold exclList
  split
  · rename_i vs hv; exact absurd hv (h vs)
  · rfl

theorem exclList_missing_of_no_key (p : Play) (vs : List (Scalar × PVal)) (h : lookupStr sVars p = some (.map vs))
    (h2 : lookupStr sExclude vs = none) : exclList p = .missing := by
  simp [exclList, h, h2]

/-- any request other than `hosts` / `vars` / a direct child of them: verification error -/
theorem exclude_invalid_request_error (p : Play) (e : Str) (hl : exclList p = .text e)
    (hbad : ∃ el ∈ splitOn ',' e, ¬ ValidPath (pathOf el)) : exclude p = .error .verr := by
  cases h : exclude p with
  | ok p' =>
    obtain ⟨el, hel, hb⟩ := hbad
    exact absurd (exclude_requests_valid p p' e hl h el hel) hb
  | error x =>
    unfold exclude at h
    rw [hl] at h
    rw [exclLoop_error _ p x h]

/-- an exclusion list that is present but not a string (null, integer, boolean, sequence, mapping):
verification error (fix 5a7421c) -/
theorem exclude_nonstring_list_error (p : Play) (h : exclList p = .nonstring) : exclude p = .error .verr := by
  simp [exclude, h]

/-- FULL STRENGTH: for every play, exclusion fails with nothing but a verification error -/
theorem exclude_fails_only_with_verr (p : Play) (x : Err) (h : exclude p = .error x) : x = .verr := by
  unfold exclude at h
  split at h
  · injection h with h; exact h.symm
  · injection h with h; exact h.symm
  · exact exclLoop_error _ p x h

/-- missing signature (no `vars` mapping, no `insights_signature`, or a null one): verification error -/
theorem missing_signature_error (p : Play)
    (h : (∀ vs, lookupStr sVars p ≠ some (.map vs)) ∨
         (∃ vs, lookupStr sVars p = some (.map vs) ∧
            (lookupStr sSignature vs = none ∨ lookupStr sSignature vs = some (.sc .none)))) :
    verifyPlay p = .error .verr := by
  unfold verifyPlay
  rcases h with h | ⟨vs, hv, hs⟩
  · split
    · rename_i vs' hv; exact absurd hv (h vs')
    · rfl
  · rw [hv]
    rcases hs with hs | hs <;> simp [hs]

/-- the statement that was false before fix 5a7421c -/
def VerifyPlayFailsOnlyWithVerificationError : Prop :=
  ∀ p : Play, ∀ x, verifyPlay p = .error x → x = .verr

/-- FULL STRENGTH: every failure of `verify_play`'s presence checks and exclusion is a verification
error, for all plays -/
theorem verifyPlay_fails_only_with_verr : VerifyPlayFailsOnlyWithVerificationError := by
  intro p x h
  unfold verifyPlay at h
  split at h
  · split at h
    · injection h with h; exact h.symm
    · injection h with h; exact h.symm
    · split at h
      · cases h
      · rename_i y hy
        injection h with h; subst h
        exact exclude_fails_only_with_verr p y hy
  · injection h with h; exact h.symm

def isCrash {α : Type} : Except Err α → Bool
  | .error .crash => true
  | _ => false

def isVerr {α : Type} : Except Err α → Bool
  | .error .verr => true
  | _ => false

/-- the regression witness of the repaired defect (corpus/C18/nonstring_exclusion_list.json) -/
def nonstringWitness : Play :=
  [(.str ['n', 'a', 'm', 'e'], .sc (.str ['w'])), (.str sHosts, .sc (.str ['a', 'l', 'l'])),
   (.str sVars, .map [(.str sExclude, .sc .none), (.str sSignature, .sc (.str ['U', 'E', 'x', 'B']))])]

example : isVerr (exclude nonstringWitness) = true := by decide
example : isVerr (verifyPlay nonstringWitness) = true := by decide

/-- the same statement over the model of the code BEFORE the fix (`excludeOld`) … -/
def OldExcludeFailsOnlyWithVerificationError : Prop :=
  ∀ p : Play, ∀ x, excludeOld p = .error x → x = .verr

/-- … was false: the witness let a non-verification exception escape -/
theorem excludeOld_witness : ¬ OldExcludeFailsOnlyWithVerificationError := by
  intro h
  have hc : isCrash (excludeOld nonstringWitness) = true := by decide
  cases hv : excludeOld nonstringWitness with
  | ok r => rw [hv] at hc; cases hc
  | error x =>
    have := h nonstringWitness x hv
    subst this
    rw [hv] at hc; cases hc

/-! ### 4. verify(): acceptance, signature binding, revocation -/

section
variable {D : Type} [DecidableEq D]
variable (H : Str → D) (sigDecodes : PVal → Bool) (sigValid : D → PVal → Bool) (hashOf : PVal → Option D)

theorem revokedLoop_ok (d : D) : ∀ items : List PVal, revokedLoop hashOf d items = .ok () →
    ∀ it ∈ items, ∃ h, hashOf it = some h ∧ h ≠ d
  | [], _, it, hit => by simp at hit
  | i0 :: r, hl, it, hit => by
    simp only [revokedLoop] at hl
    cases hh : hashOf i0 with
    | none => rw [hh] at hl; cases hl
    | some h0 =>
      rw [hh] at hl
      simp only at hl
      split at hl
      · cases hl
      · rename_i hne
        rcases List.mem_cons.mp hit with rfl | hit
        · exact ⟨h0, hh, fun e => hne e.symm⟩
        · exact revokedLoop_ok d r hl it hit

/-- what an accepted play satisfies: it is not empty, the revocation list verified, the play has a
signature, its exclusion succeeded, GPG accepted the signature for the digest of the cleaned play,
and no revocation entry carries that digest -/
theorem verify_accepts (rplay p : Play) (h : verify H sigDecodes sigValid hashOf rplay p = .ok ()) :
    p ≠ [] ∧ ∃ items text sig cleaned,
      revocationList H sigDecodes sigValid rplay = .ok (some items) ∧
      verifyPlay p = .ok (text, sig) ∧ exclude p = .ok cleaned ∧ text = serializePlay cleaned ∧
      sigValid (H text) sig = true ∧
      ∀ it ∈ items, ∃ d, hashOf it = some d ∧ d ≠ H text := by
  unfold verify at h
  split at h
  · cases h
  · rename_i hne
    refine ⟨fun e => hne (by rw [e]; rfl), ?_⟩
    split at h
    · cases h
    · rename_i revoked hrev
      split at h
      · cases h
      · rename_i valid d hvp
        split at h
        · rename_i hvalid
          split at h
          · rename_i items
            unfold verifyPlayFull at hvp
            split at hvp
            · cases hvp
            · rename_i text sig hv
              split at hvp
              · injection hvp with hvp; injection hvp with h1 h2
                subst h1; subst h2
                obtain ⟨cleaned, hcl, ht⟩ := verifyPlay_ok p text sig hv
                exact ⟨items, text, sig, cleaned, hrev, hv, hcl, ht, hvalid,
                  revokedLoop_ok hashOf _ items h⟩
              · cases hvp
          · cases h
        · cases h

/-- a play whose digest is on the revocation list is never accepted -/
theorem revoked_rejected (rplay p : Play) (items : List PVal) (text : Str) (sig : PVal)
    (hrev : revocationList H sigDecodes sigValid rplay = .ok (some items))
    (hv : verifyPlay p = .ok (text, sig)) (hon : ∃ it ∈ items, hashOf it = some (H text)) :
    verify H sigDecodes sigValid hashOf rplay p ≠ .ok () := by
  intro h
  obtain ⟨_, items', text', sig', cleaned, hrev', hv', _, _, _, hall⟩ := verify_accepts H sigDecodes sigValid hashOf rplay p h
  rw [hrev] at hrev'; injection hrev' with e; injection e with e; subst e
  rw [hv] at hv'; injection hv' with e; injection e with e1 e2; subst e1
  obtain ⟨it, hit, hh⟩ := hon
  obtain ⟨d, hd, hne⟩ := hall it hit
  rw [hh] at hd; injection hd with hd; exact hne hd.symm

/-- a play without a signature is never accepted -/
theorem unsigned_rejected (rplay p : Play)
    (hs : (∀ vs, lookupStr sVars p ≠ some (.map vs)) ∨
          (∃ vs, lookupStr sVars p = some (.map vs) ∧
             (lookupStr sSignature vs = none ∨ lookupStr sSignature vs = some (.sc .none)))) :
    verify H sigDecodes sigValid hashOf rplay p ≠ .ok () := by
  intro h
  obtain ⟨_, _, text, sig, _, _, hv, _⟩ := verify_accepts H sigDecodes sigValid hashOf rplay p h
  rw [missing_signature_error p hs] at hv; cases hv

/-- a play with a missing or non-string exclusion list, or an invalid request, is never accepted -/
theorem bad_exclusion_rejected (rplay p : Play)
    (hb : exclList p = .missing ∨ exclList p = .nonstring ∨
      ∃ e, exclList p = .text e ∧ ∃ el ∈ splitOn ',' e, ¬ ValidPath (pathOf el)) :
    verify H sigDecodes sigValid hashOf rplay p ≠ .ok () := by
  intro h
  obtain ⟨_, _, _, _, cleaned, _, _, hcl, _⟩ := verify_accepts H sigDecodes sigValid hashOf rplay p h
  rcases hb with hm | hn | ⟨e, hl, hbad⟩
  · rw [exclude_missing_list_error p hm] at hcl; cases hcl
  · rw [exclude_nonstring_list_error p hn] at hcl; cases hcl
  · rw [exclude_invalid_request_error p e hl hbad] at hcl; cases hcl

/-- THE PROPERTY, end to end: if two plays are both accepted with signatures that GPG ties to one
digest each (`sigValid` functional in the digest, SHA-256 collision free) and they carry the same
signature value, they are the same play outside the excluded elements -/
theorem signature_binds_core (hH : ∀ a b, H a = H b → a = b)
    (hsig : ∀ d d' s, sigValid d s = true → sigValid d' s = true → d = d')
    (rplay p q : Play) (sig : PVal) (tp tq : Str)
    (hp : verify H sigDecodes sigValid hashOf rplay p = .ok ())
    (hq : verify H sigDecodes sigValid hashOf rplay q = .ok ())
    (hsp : verifyPlay p = .ok (tp, sig)) (hsq : verifyPlay q = .ok (tq, sig)) :
    exclude p = exclude q := by
  obtain ⟨_, _, t1, s1, _, _, hv1, _, _, hval1, _⟩ := verify_accepts H sigDecodes sigValid hashOf rplay p hp
  obtain ⟨_, _, t2, s2, _, _, hv2, _, _, hval2, _⟩ := verify_accepts H sigDecodes sigValid hashOf rplay q hq
  rw [hsp] at hv1; injection hv1 with e; injection e with e1 e2; subst e1; subst e2
  rw [hsq] at hv2; injection hv2 with e; injection e with e1 e2; subst e1; subst e2
  exact verifyPlay_digest_binds H hH p q tp tq sig sig hsp hsq (hsig _ _ _ hval1 hval2)

/-- verdicts do not depend on what was verified before or after in the same process: the answer to a call
anywhere in a history is the answer the same call gets on its own (the model is a pure function of play,
signature, revocation document and key; the weight of this clause is on the correspondence, which runs
histories in one process against a fresh process per call) -/
theorem verify_history_independent (pre post : List Call) (c : Call) :
    (runHistory H sigDecodes sigValid hashOf (pre ++ c :: post))[pre.length]? =
      some (verify H sigDecodes sigValid hashOf c.rplay c.play) ∧
    runHistory H sigDecodes sigValid hashOf [c] = [verify H sigDecodes sigValid hashOf c.rplay c.play] := by
  constructor
  · simp [runHistory]
  · rfl

end

/-! ### 5. the glue: key import (get_public_key) and the command-line entry point (__main__) -/

section
variable {D : Type} [DecidableEq D]
variable (H : Str → D) (sigDecodes : PVal → Bool) (sigValid : D → PVal → Bool) (hashOf : PVal → Option D)

/-- with a key that is present and imported, the code with the key import answers like the code without it:
every theorem of section 4 is a theorem about `verifyK` -/
theorem verifyK_key_ok (k : Key) (hk : keyOk k = true) (rplay p : Play) :
    verifyK H sigDecodes sigValid hashOf k rplay p = verify H sigDecodes sigValid hashOf rplay p := by
  have e : ∀ q, verifyPlayFullK H sigDecodes sigValid k q = verifyPlayFull H sigDecodes sigValid q := by
    intro q; simp [verifyPlayFullK, verifyPlayFull, hk]
  simp [verifyK, verify, revocationListK, revocationList, e]

example : keyOk ⟨true, 1⟩ = true := by decide

omit [DecidableEq D] in
/-- without the public key (file missing / empty, or GPG imported nothing) `verify_play` never reports a
verdict: it fails, whatever GPG would say about the signature -/
theorem verifyPlayFullK_no_key (k : Key) (hk : keyOk k = false) (p : Play) :
    ∃ e, verifyPlayFullK H sigDecodes sigValid k p = .error e := by
  unfold verifyPlayFullK
  split
  · exact ⟨_, rfl⟩
  · split
    · simp [hk]
    · exact ⟨_, rfl⟩

example : keyOk ⟨true, 0⟩ = false ∧ keyOk ⟨false, 1⟩ = false ∧ keyOk ⟨true, -1⟩ = false := by decide

/-- ... and nothing is accepted -/
theorem verifyK_no_key_rejects (k : Key) (hk : keyOk k = false) (rplay p : Play) :
    verifyK H sigDecodes sigValid hashOf k rplay p ≠ .ok () := by
  obtain ⟨e, he⟩ := verifyPlayFullK_no_key H sigDecodes sigValid k hk rplay
  unfold verifyK
  split
  · intro h; cases h
  · simp only [revocationListK, he]
    intro h; cases h

/-- exact characterisation: `verify` with the key import accepts iff the key was imported and `verify`
of section 4 accepts (so `verify_accepts`, `revoked_rejected`, `unsigned_rejected`, `bad_exclusion_rejected`
and `signature_binds_core` hold of it) -/
theorem verifyK_ok_iff (k : Key) (rplay p : Play) :
    verifyK H sigDecodes sigValid hashOf k rplay p = .ok () ↔
      keyOk k = true ∧ verify H sigDecodes sigValid hashOf rplay p = .ok () := by
  cases hk : keyOk k with
  | true => simp [verifyK_key_ok H sigDecodes sigValid hashOf k hk]
  | false =>
    simp only [Bool.false_eq_true, false_and, iff_false]
    exact verifyK_no_key_rejects H sigDecodes sigValid hashOf k hk rplay p

/-- nothing is accepted without a revocation list that loads as a play (and then `verifyK` decides) -/
theorem verifyDoc_ok_iff (k : Key) (rdoc : RDoc) (p : Play) :
    verifyDoc H sigDecodes sigValid hashOf k rdoc p = .ok () ↔
      ∃ r, rdoc = .play r ∧ verifyK H sigDecodes sigValid hashOf k r p = .ok () := by
  unfold verifyDoc
  by_cases he : p.isEmpty = true
  · have hp : p = [] := by cases p <;> simp_all
    subst hp
    simp [verifyK]
  · cases rdoc <;> simp [he]

example : verifyDoc (D := Str) id (fun _ => true) (fun _ _ => true) (fun _ => none) ⟨true, 1⟩ .unloadable
    [(.str sHosts, .sc .none)] = .error .verr := by simp [verifyDoc]

omit [DecidableEq D] in
/-- a missing key is a verification error, not a traceback, for every play that got as far as GPG -/
theorem verifyPlayFullK_no_key_verr (k : Key) (hk : keyOk k = false) (p : Play) (text : Str) (sig : PVal)
    (hv : verifyPlay p = .ok (text, sig)) (hd : sigDecodes sig = true) :
    verifyPlayFullK H sigDecodes sigValid k p = .error .verr := by
  simp [verifyPlayFullK, hv, hd, hk]

end

/-- the loop of `__main__` ends with exit 0 exactly when every top-level entry is a mapping that `verify` accepts -/
theorem mainLoop_ok_iff : ∀ es : List (Option (Except Err Unit)),
    mainLoop es = .ok ↔ ∀ e ∈ es, e = some (.ok ())
  | [] => by simp [mainLoop]
  | none :: r => by simp [mainLoop]
  | some (.ok ()) :: r => by simp [mainLoop, mainLoop_ok_iff r]
  | some (.error .verr) :: r => by simp [mainLoop]
  | some (.error .crash) :: r => by simp [mainLoop]

example : mainLoop [some (.ok ()), some (.ok ())] = .ok := by decide
example : mainLoop [some (.ok ()), some (.error .verr), none] = .bad := by decide

/-- without SKIP_VERIFY the playbook is printed (handed to Ansible) iff the text loaded and every top-level
entry verified; then, and only then, the exit status is 0 -/
theorem main_prints_iff (doc : Option (List (Option (Except Err Unit)))) :
    ((mainRun false doc).2 = true ↔ ∃ es, doc = some es ∧ ∀ e ∈ es, e = some (.ok ())) ∧
    ((mainRun false doc).2 = true ↔ (mainRun false doc).1 = .ok) := by
  cases doc with
  | none => simp [mainRun]
  | some es => simp [mainRun, mainLoop_ok_iff]

example : mainRun false (some [some (.ok ())]) = (.ok, true) := by decide
example : mainRun false (some [some (.ok ()), some (.error .verr)]) = (.bad, false) := by decide

/-- one entry that does not verify is enough, wherever it stands, and nothing after it matters -/
theorem main_one_bad_entry (pre post : List (Option (Except Err Unit))) (e : Option (Except Err Unit))
    (he : e ≠ some (.ok ())) : (mainRun false (some (pre ++ e :: post))).2 = false := by
  have h := (main_prints_iff (some (pre ++ e :: post))).1
  cases hb : (mainRun false (some (pre ++ e :: post))).2 with
  | false => rfl
  | true =>
    obtain ⟨es, h1, h2⟩ := h.mp hb
    injection h1 with h1; subst h1
    exact absurd (h2 e (by simp)) he

example : (mainRun false (some ([some (.ok ())] ++ none :: [some (.ok ())]))).2 = false := by decide

/-- SKIP_VERIFY prints whatever was read, verified or not (stated so that the option is visible in the model) -/
theorem main_skip (doc : Option (List (Option (Except Err Unit)))) : mainRun true doc = (.ok, true) := by
  simp [mainRun]

example : mainRun true none = (.ok, true) := by decide

/-! ### 6. integers at and beyond Python's int -> str digit limit -/

/-- below the limit nothing changes: the guarded serializer is `ser` -/
theorem serG_below_limit (v : PVal) (h : refused v = false) : serG v = some (ser v) := by
  simp [serG, h]

example : refused (.seq [.sc (.int 5), .map [(.int (-7), .sc (.str ['a']))]]) = false := by
  have := intLimit_gt
  simp [refused, refusedL, refusedP, scalarRefused]; omega

/-- a refusal yields no text, hence no digest -/
theorem serG_refusal_no_text (v : PVal) (h : refused v = true) : serG v = none := by
  simp [serG, h]

example : refused (.map [(.str ['x'], .seq [.sc (.int (-(intLimit : Int)))])]) = true := by
  simp [refused, refusedL, refusedP, scalarRefused]

/-- whatever gets a text gets its own: the guarded serializer is injective (a refused integer never shares the text of a smaller one) -/
theorem serG_injective (p q : PVal) (t : Str) (hp : serG p = some t) (hq : serG q = some t) : p = q := by
  unfold serG at hp hq
  split at hp
  · cases hp
  · split at hq
    · cases hq
    · injection hp with hp; injection hq with hq
      exact ser_injective p q (hp.trans hq.symm)

example : serG (.sc (.int 12)) = some ['1', '2'] := by
  rw [serG_below_limit _ (by have := intLimit_gt; simp [refused, scalarRefused]; omega)]; decide

/-- a play whose cleaned part holds a refused integer has no digest: `verify_play` never gets to GPG -/
theorem verifyPlayG_refusal_no_digest (p cleaned : Play) (hc : exclude p = .ok cleaned)
    (hr : refused (.map cleaned) = true) : ∀ r, verifyPlayG p ≠ .ok r := by
  intro r h
  unfold verifyPlayG at h
  split at h
  · cases h
  · simp only [hc, hr, if_true] at h
    cases h

/-- ... and with every integer of the cleaned play below the limit (integers inside excluded elements do not count)
the guarded `verify_play` is `verifyPlay` -/
theorem verifyPlayG_below_limit (p cleaned : Play) (hc : exclude p = .ok cleaned)
    (hr : refused (.map cleaned) = false) : verifyPlayG p = verifyPlay p := by
  unfold verifyPlayG
  split
  · rename_i e he; rw [he]
  · rename_i text sig hv
    simp [hc, hr, hv]

/-- the same for exclusion + serialisation: a text is the model's text of the cleaned play, or there is none -/
theorem excludeSerG_ok (p : Play) (t : Str) (h : excludeSerG p = .ok t) :
    ∃ cleaned, exclude p = .ok cleaned ∧ refused (.map cleaned) = false ∧ t = serializePlay cleaned := by
  unfold excludeSerG at h
  cases hc : exclude p with
  | error e => rw [hc] at h; cases h
  | ok cleaned =>
    rw [hc] at h
    simp only at h
    by_cases hr : refused (.map cleaned) = true
    · simp [hr] at h
    · simp [hr] at h
      exact ⟨cleaned, rfl, by simpa using hr, h.symm⟩

/-! ### non-vacuity: concrete plays go through exclusion and the presence checks -/

def isOk {α : Type} : Except Err α → Bool
  | .ok _ => true
  | _ => false

def okText {α : Type} (f : α → Str) : Except Err α → Str
  | .ok a => f a
  | .error _ => []

def demoPlay : Play :=
  [(.str ['n', 'a', 'm', 'e'], .sc (.str ['d'])), (.str sHosts, .sc (.str ['a', 'l', 'l'])),
   (.str sVars, .map [(.str sExclude, .sc (.str "/hosts,/vars/insights_signature".toList)),
                      (.str sSignature, .sc (.str ['U', 'E', 'x', 'B']))]),
   (.int 1, .seq [.sc (.bool true), .sc .none, .sc (.int (-5))])]

def tiny : Play :=
  [(.str sHosts, .sc (.str ['a'])),
   (.str sVars, .map [(.str sExclude, .sc (.str ['/', 'h', 'o', 's', 't', 's'])), (.str sSignature, .sc (.str ['U']))]),
   (.int 1, .seq [.sc .none])]

example : isOk (exclude demoPlay) = true := by decide
example : isOk (verifyPlay demoPlay) = true := by decide
example : okText serializePlay (exclude tiny) =
    serializePlay [(.str sVars, .map [(.str sExclude, .sc (.str ['/', 'h', 'o', 's', 't', 's'])), (.str sSignature, .sc (.str ['U']))]),
                   (.int 1, .seq [.sc .none])] := by decide
example : (okText serializePlay (exclude tiny)).take 22 = "ordereddict([('vars', ".toList := by decide
example : okText (·.1) (verifyPlay tiny) = okText serializePlay (exclude tiny) := by decide
/- hypotheses of `digest_ignores_excluded` are met by `tiny` with a = "hosts" -/
example : ∃ el ∈ splitOn ',' ['/', 'h', 'o', 's', 't', 's'], pathOf el = [sHosts] := ⟨_, List.mem_singleton.mpr rfl, by decide⟩
example : isOk (exclude (setStr sHosts (.seq [.sc (.int 7)]) tiny)) = true := by decide
/- hypotheses of `digest_ignores_excluded_child` are met by `demoPlay` with a/b = vars/insights_signature -/
example : isOk (exclude (setStr sVars (.map (setStr sSignature (.sc (.int 0))
    [(.str sExclude, .sc (.str "/hosts,/vars/insights_signature".toList)), (.str sSignature, .sc (.str ['U', 'E', 'x', 'B']))])) demoPlay)) = true := by
  decide
/- hypotheses of `exclude_invalid_request_error`: "/name" is not a valid request -/
example : ¬ ValidPath (pathOf ['/', 'n', 'a', 'm', 'e']) := by
  intro h
  rcases h with ⟨a, h1, h2⟩ | ⟨a, b, h1, _⟩
  · have e : pathOf ['/', 'n', 'a', 'm', 'e'] = [['n', 'a', 'm', 'e']] := by decide
    rw [e] at h1; injection h1 with h1; subst h1; revert h2; decide
  · have e : pathOf ['/', 'n', 'a', 'm', 'e'] = [['n', 'a', 'm', 'e']] := by decide
    rw [e] at h1; simp at h1

/- `excludeSerG_ok` / `verifyPlayG_below_limit`: `tiny` has a text under the guard -/
example : isOk (excludeSerG tiny) = true := by
  have := intLimit_gt
  have hc : exclude tiny = .ok [(.str sVars, .map [(.str sExclude, .sc (.str ['/', 'h', 'o', 's', 't', 's'])), (.str sSignature, .sc (.str ['U']))]),
                   (.int 1, .seq [.sc .none])] := by rfl
  have hr : refused (.map [(.str sVars, .map [(.str sExclude, .sc (.str ['/', 'h', 'o', 's', 't', 's'])), (.str sSignature, .sc (.str ['U']))]),
                   (.int 1, .seq [.sc .none])]) = false := by
    simp [refused, refusedL, refusedP, scalarRefused]; omega
  unfold excludeSerG
  rw [hc]
  simp [hr, isOk]

end IV.Playbook.C18
