import IV.Lemmas.Rules
import IV.Lemmas.RulesText
import IV.Gen.Responses
/-!
C12 — every evaluated rule yields exactly one well-formed, accounted outcome.

Theorems over `IV.Rules` (model of Response construction, rule.process, the evaluator's observer,
get_response and get_response_of_types).  They hold for EVERY table of response classes (`RClass`, `Cfg`);
the `table_*` theorems tie the table regenerated from the live classes (IV.Gen.Responses) to the
assumptions made about it.  Rule sets are arbitrary lists of rules in the order the engine runs them,
with arbitrary dependencies on seeded components and on each other.
-/
namespace IV.Rules
open IV.Gen.Responses

/-! ### the regenerated table -/

/-- the live `_make_skip` / `make_none` classes are as assumed -/
theorem table_cfg : WFCfg cfg := by
  refine ⟨by decide, by decide, by decide, ⟨"none_key".toList, by decide, by decide⟩, by decide⟩

/-- for every live class, the keyword names its constructor was OBSERVED to reject are exactly the model's
reserved names ("type" and the class's own key name) among the candidates tried -/
theorem table_reserved :
    probedReserved.map (·.1) = classes ∧
    ∀ p ∈ probedReserved, p.2 = candidates.filter (fun n => (reservedNames p.1).contains n) := by
  decide

/-- the types that can be selected with `-S` (with `fail` spelt `rule`) are exactly the response types of the
live classes other than the two that are never listed under a heading of their own (skip, metadata_key);
only make_metadata_key is exempt from the size limit; the default limit is positive -/
theorem table_types :
    (∀ c ∈ classes, ∀ t, c.rtype = some t →
      t = sSkip ∨ t = sMetadataKey ∨ (adapterShow false false selectable).contains t = true) ∧
    (∀ t ∈ adapterShow false false selectable, ∃ c ∈ classes, c.rtype = some t) ∧
    (∀ c ∈ classes, c.exempt = true ↔ c.rtype = some sMetadataKey) ∧
    0 < maxDetailDefault := by
  decide

/-! ### validation -/

/-- `validation`: the constructor fails exactly when the class has no response type, a reserved name ("type" or
the class's key name) is among the keyword arguments, or the class has a key name and the key is missing,
falsy or not a string — for every class, key value, keyword list and limit -/
theorem validation (limit : Nat) (c : RClass) (key : PyVal) (kwargs : Dict) :
    (∃ e, mkResp limit c key kwargs = .error e) ↔
      c.rtype = none ∨ hasKey sType kwargs = true ∨
        ∃ kn, c.keyName = some kn ∧ (hasKey kn kwargs = true ∨ ¬ ∃ s, key = .str s ∧ s ≠ []) := by
  constructor
  · rintro ⟨e, he⟩
    by_cases hv : Valid c key kwargs
    · cases ht : c.rtype with
      | none => exact Or.inl rfl
      | some t => rw [mkResp_of_valid limit c t key kwargs ht hv] at he; cases he
    · exact Classical.not_not.mp ((not_congr (valid_iff c key kwargs)).mp hv)
  · intro h
    exact mkResp_error_of_invalid limit c key kwargs (fun hv => (valid_iff c key kwargs).mp hv h)

/-- the checks are made in the order of the code: response type, reserved names, key presence, key type -/
theorem validation_order (limit : Nat) (c : RClass) (key : PyVal) (kwargs : Dict) :
    (c.rtype = none → mkResp limit c key kwargs = .error .typeUnset) ∧
    (c.rtype ≠ none → (reservedNames c).any (fun n => hasKey n kwargs) = true →
        mkResp limit c key kwargs = .error .reserved) ∧
    (c.rtype ≠ none → (reservedNames c).any (fun n => hasKey n kwargs) = false → c.keyName ≠ none →
        key.truthy = false → mkResp limit c key kwargs = .error .keyMissing) ∧
    (c.rtype ≠ none → (reservedNames c).any (fun n => hasKey n kwargs) = false → c.keyName ≠ none →
        key.truthy = true → key.isStr = false → mkResp limit c key kwargs = .error .keyType) := by
  refine ⟨?_, ?_, ?_, ?_⟩
  · intro h; simp [mkResp, h]
  · intro h1 h2
    cases ht : c.rtype with
    | none => exact absurd ht h1
    | some t => simp [mkResp, ht, h2]
  · intro h1 h2 h3 h4
    cases ht : c.rtype with
    | none => exact absurd ht h1
    | some t =>
      cases hk : c.keyName with
      | none => exact absurd hk h3
      | some kn => simp [mkResp, ht, h2, hk, h4]
  · intro h1 h2 h3 h4 h5
    cases ht : c.rtype with
    | none => exact absurd ht h1
    | some t =>
      cases hk : c.keyName with
      | none => exact absurd hk h3
      | some kn => simp [mkResp, ht, h2, hk, h4, h5]

example : mkResp 100 c_make_fail (.int 5) [] = .error .keyType := by decide
example : mkResp 100 c_make_fail (.str []) [] = .error .keyMissing := by decide
example : mkResp 100 c_make_pass (.str "K".toList) [("pass_key".toList, .int 1)] = .error .reserved := by decide
example : mkResp 100 c_make_metadata .none [(sType, .int 1)] = .error .reserved := by decide
example : (mkResp 100 c_make_fail (.str "K".toList) [("pass_key".toList, .int 1)]).toBool = true := by decide

/-! ### the size limit -/

/-- `stub`: a valid response of a class that is not exempt, whose rendering is longer than the limit, is
EXACTLY type, key (when the class has one) and the offending length — whatever was passed -/
theorem stub (limit : Nat) (c : RClass) (t : Str) (key : PyVal) (kwargs : Dict)
    (ht : c.rtype = some t) (hv : Valid c key kwargs) (hex : c.exempt = false)
    (hlen : limit < (reprDict (kwargs ++ baseFields t c key)).length) :
    mkResp limit c key kwargs =
      .ok ⟨c, (sType, .str t) :: (keyField c key ++
              [(sMaxErr, .int (reprDict (kwargs ++ baseFields t c key)).length)])⟩ := by
  rw [mkResp_of_valid limit c t key kwargs ht hv]
  have hc : (!c.exempt && decide ((reprDict (kwargs ++ baseFields t c key)).length > limit)) = true := by
    simp [hex, hlen]
  simp only [built, hc, if_true]
  simp [baseFields]

/-- within the limit (or for an exempt class) the response is what was passed plus type and key -/
theorem within_limit (limit : Nat) (c : RClass) (t : Str) (key : PyVal) (kwargs : Dict)
    (ht : c.rtype = some t) (hv : Valid c key kwargs)
    (h : c.exempt = true ∨ (reprDict (kwargs ++ baseFields t c key)).length ≤ limit) :
    mkResp limit c key kwargs = .ok ⟨c, kwargs ++ baseFields t c key⟩ := by
  rw [mkResp_of_valid limit c t key kwargs ht hv]
  rcases h with h | h
  · simp [built, h]
  · have : ¬ limit < (reprDict (kwargs ++ baseFields t c key)).length := by omega
    simp [built, this]

example : mkResp 40 c_make_fail (.str "K".toList) [("a".toList, .str "xxxxxxxxxx".toList)] =
    .ok ⟨c_make_fail, [(sType, .str sRule), ("error_key".toList, .str "K".toList), (sMaxErr, .int 53)]⟩ := by decide
example : mkResp 0 c_make_metadata_key (.str "k".toList) [(sValue, .int 1)] =
    .ok ⟨c_make_metadata_key, [(sValue, .int 1), (sType, .str sMetadataKey), ("key".toList, .str "k".toList)]⟩ := by decide

/-! ### the outcome of one rule -/

/-- `outcome_exclusive`, the "nothing" half: a rule leaves no trace exactly when it is disabled, or when it is
deliberately skipped (an IGNORE entry fired, or its body raised SkipComponent) and skips are not recorded -/
theorem nothing_iff (env : Env) (present : List Comp) (r : Rule) :
    classify env present r = .nothing ↔
      r.enabled = false ∨
        (env.storeSkips = false ∧
          (ignored present r = true ∨ (missingDeps present r = none ∧ r.act = .raise .skip))) := by
  cases hen : r.enabled with
  | false => simp [classify, hen]
  | true =>
    rw [classify_enabled env present r hen, ← process_skipped_nil_iff env present r]
    cases hp : process env present r with
    | stored resp => simp [finalOfProc, observeKind_ne_nothing]
    | raised e => simp [finalOfProc]
    | skipped pre =>
      cases hs : env.storeSkips <;> cases pre <;> simp [finalOfProc, skipExcs, hs]

/-- a recorded exception is never an empty record -/
theorem exception_nonempty (env : Env) (present : List Comp) (r : Rule) (es : List Exc)
    (h : classify env present r = .exception es) : es ≠ [] := by
  cases hen : r.enabled with
  | false => simp [classify, hen] at h
  | true =>
    rw [classify_enabled env present r hen] at h
    cases hp : process env present r with
    | stored resp => rw [hp] at h; exact absurd h (observeKind_ne_exception _ _)
    | raised e => rw [hp] at h; simp [finalOfProc] at h; rw [← h]; simp
    | skipped pre =>
      rw [hp] at h
      simp only [finalOfProc] at h
      split at h
      · cases h
      · rename_i hne
        cases h
        simpa using hne

/-- `validation`, second half: a return value that is not a response is an exception recorded against the rule -/
theorem bad_return_rejected (env : Env) (present : List Comp) (r : Rule) (h : Invoked present r)
    (truthy : Bool) (ha : r.act = .retOther truthy) : classify env present r = .exception [.badReturn] := by
  rw [classify_invoked env present r h]
  simp [invoke, ha, finalOfProc]

/-- a response that fails validation is an exception recorded against the rule (and, by `outcome_exclusive`,
listed nowhere else) -/
theorem invalid_response_rejected (env : Env) (present : List Comp) (r : Rule) (h : Invoked present r)
    (c : RClass) (key : PyVal) (kwargs : Dict) (ha : r.act = .ret c key kwargs) (hv : ¬ Valid c key kwargs) :
    ∃ e, classify env present r = .exception [.validation e] := by
  obtain ⟨e, he⟩ := mkResp_error_of_invalid env.limit c key kwargs hv
  refine ⟨e, ?_⟩
  rw [classify_invoked env present r h]
  simp [invoke, ha, he, ofMk, finalOfProc]

/-- a valid response of an ordinary type `t` (anything but skip / metadata / metadata_key — the built-in fail,
pass, info, fingerprint, none and every custom type) is listed under `t`, as built (full or stub) -/
theorem typed_response_listed (env : Env) (present : List Comp) (r : Rule) (h : Invoked present r)
    (c : RClass) (t : Str) (key : PyVal) (kwargs : Dict) (ha : r.act = .ret c key kwargs)
    (ht : c.rtype = some t) (hv : Valid c key kwargs)
    (h1 : t ≠ sSkip) (h2 : t ≠ sMetadata) (h3 : t ≠ sMetadataKey) :
    classify env present r = .entry t (built env.limit c t key kwargs) := by
  rw [classify_invoked env present r h]
  simp only [invoke, ha, mkResp_of_valid env.limit c t key kwargs ht hv, ofMk, finalOfProc]
  exact observeKind_built_typed env.limit c t key kwargs hv.2.1 h1 h2 h3

/-- a rule that returns None is listed once under "none" with the key of the live `make_none` -/
theorem none_listed (env : Env) (present : List Comp) (r : Rule) (h : Invoked present r) (hc : WFCfg env.cfg)
    (ha : r.act = .retNone) :
    classify env present r = .entry sNoneT (built env.limit env.cfg.noneCls sNoneT (.str env.cfg.noneKey) []) := by
  rw [classify_invoked env present r h]
  simp only [invoke, ha, mkResp_of_valid env.limit env.cfg.noneCls sNoneT _ [] hc.none_type (none_valid env.cfg hc), ofMk, finalOfProc]
  exact observeKind_built_typed _ _ _ _ _ (by simp [hasKey]) (by decide) (by decide) (by decide)

/-- `counted_once`, skips: a rule gets a skip entry exactly when it is enabled, not ignored and has missing
dependencies (rules that themselves return a skip-typed response excluded) -/
theorem skipEntry_iff (env : Env) (present : List Comp) (r : Rule) (hc : WFCfg env.cfg)
    (hact : ∀ c key kwargs, r.act = .ret c key kwargs → c.rtype ≠ some sSkip) :
    (∃ resp, classify env present r = .skipEntry resp) ↔
      (r.enabled = true ∧ ignored present r = false ∧ (missingDeps present r).isSome = true) := by
  cases hen : r.enabled with
  | false => simp [classify, hen]
  | true =>
    rw [classify_enabled env present r hen]
    cases hi : ignored present r with
    | true =>
      rw [process_ignored env present r hi]
      simp only [Bool.true_eq_false, false_and, and_false, iff_false, not_exists, finalOfProc]
      intro resp
      split <;> simp
    | false =>
      cases hm : missingDeps present r with
      | some m =>
        rw [process_missing env present r m hi hm,
          mkResp_of_valid env.limit env.cfg.skipCls sSkip _ _ hc.skip_type (skip_valid env r m hc)]
        simp only [ofMk, finalOfProc, Option.isSome_some, and_self, iff_true]
        exact ⟨_, observeKind_built_skip _ _ _ _ (skipKwargs_no_type env r m)⟩
      | none =>
        rw [process_invoked' env present r hi hm]
        simp only [Option.isSome_none, Bool.false_eq_true, and_false, iff_false, not_exists]
        exact invoke_not_skipEntry env r hc hact

/-- the full statement of "each skip entry names the rule and its missing dependencies" -/
def SkipsNameMissing : Prop :=
  ∀ (env : Env) (present : List Comp) (r : Rule) (m : Missing), WFCfg env.cfg →
    r.enabled = true → ignored present r = false → missingDeps present r = some m →
    ∃ resp, classify env present r = .skipEntry resp ∧
      lookup sRuleFqdn resp.fields = some (.str r.name) ∧
      lookup sDetails resp.fields = some (.str (stringifyReq env.nameOf m))

/-- … holds when the skip response's own rendering fits the limit (with the default limit: unless the names
of the missing dependencies add up to about 64 KiB) -/
theorem skips_name_missing_partial (env : Env) (present : List Comp) (r : Rule) (m : Missing) (hc : WFCfg env.cfg)
    (hen : r.enabled = true) (hi : ignored present r = false) (hm : missingDeps present r = some m)
    (hfit : (reprDict (skipKwargs env r m ++ [(sType, .str sSkip)])).length ≤ env.limit) :
    ∃ resp, classify env present r = .skipEntry resp ∧
      resp.fields = skipKwargs env r m ++ [(sType, .str sSkip)] ∧
      lookup sRuleFqdn resp.fields = some (.str r.name) ∧
      lookup sDetails resp.fields = some (.str (stringifyReq env.nameOf m)) := by
  have hb : baseFields sSkip env.cfg.skipCls .none = [(sType, .str sSkip)] := by
    simp [baseFields, keyField, hc.skip_nokey]
  have hbuilt : built env.limit env.cfg.skipCls sSkip .none (skipKwargs env r m) =
      ⟨env.cfg.skipCls, skipKwargs env r m ++ [(sType, .str sSkip)]⟩ := by
    have : ¬ env.limit < (reprDict (skipKwargs env r m ++ [(sType, .str sSkip)])).length := by omega
    simp [built, hb, this]
  refine ⟨⟨env.cfg.skipCls, skipKwargs env r m ++ [(sType, .str sSkip)]⟩, ?_, rfl, ?_, ?_⟩
  · rw [classify_enabled env present r hen, process_missing env present r m hi hm,
      mkResp_of_valid env.limit env.cfg.skipCls sSkip _ _ hc.skip_type (skip_valid env r m hc)]
    simp only [ofMk, finalOfProc]
    rw [observeKind_built_skip _ _ _ _ (skipKwargs_no_type env r m), hbuilt]
  · simp only [skipKwargs, List.cons_append, lookup, if_true]
  · have d1 : sRuleFqdn ≠ sDetails := by decide
    have d2 : sReason ≠ sDetails := by decide
    simp only [skipKwargs, List.cons_append, lookup, d1, d2, if_false, if_true]

def witnessEnv : Env := ⟨cfg, 60, false, fun _ => "pkg.mod.dependency".toList⟩
def witnessRule : Rule := ⟨1, "pkg.mod.report".toList, some "mod".toList, [], none, [0], [], [], true, .retNone⟩

set_option maxRecDepth 100000 in
/-- … and is false of the current code: with limit 60 the skip entry of a rule that misses one dependency
is `{type: skip, max_detail_length_error: 129}` (known finding skip-stub-anonymous, replayed by the harness) -/
theorem skips_name_missing_witness : ¬ SkipsNameMissing := by
  intro h
  obtain ⟨resp, h1, h2, _⟩ := h witnessEnv [] witnessRule ⟨[0], []⟩ table_cfg rfl (by decide) (by decide)
  have hcl : classify witnessEnv [] witnessRule =
      .skipEntry ⟨c__make_skip, [(sType, .str sSkip), (sMaxErr, .int 129)]⟩ := by decide
  rw [hcl] at h1
  cases h1
  revert h2
  decide

/-- the live make_metadata_key(key, value) with a non-empty string key is stored as a metadata key, whatever its size -/
theorem metadata_key_listed (env : Env) (present : List Comp) (r : Rule) (h : Invoked present r)
    (k : Str) (v : PyVal) (hk : k ≠ []) (ha : r.act = .ret c_make_metadata_key (.str k) [(sValue, v)]) :
    ∃ resp, classify env present r = .metadataKey resp k v := by
  have e1 : sValue ≠ sType := by decide
  have e2 : sValue ≠ ['k', 'e', 'y'] := by decide
  have hkn : c_make_metadata_key.keyName = some ['k', 'e', 'y'] := by decide
  have hv : Valid c_make_metadata_key (.str k) [(sValue, v)] := by
    refine ⟨by decide, by simp [hasKey, e1], ?_⟩
    intro kn hkn'
    rw [hkn] at hkn'
    cases hkn'
    refine ⟨by simp [hasKey, e2], ?_, rfl⟩
    cases k with
    | nil => exact absurd rfl hk
    | cons a b => simp [PyVal.truthy]
  refine ⟨built env.limit c_make_metadata_key sMetadataKey (.str k) [(sValue, v)], ?_⟩
  rw [classify_invoked env present r h]
  simp only [invoke, ha, mkResp_of_valid env.limit c_make_metadata_key sMetadataKey _ _ (by decide) hv, ofMk, finalOfProc]
  exact observeKind_built_mdk env.limit c_make_metadata_key ['k', 'e', 'y'] k v (by decide) (by decide) hkn
    (by decide) (by decide)

/-! ### whole rule sets -/

/-- every participating rule has exactly one outcome -/
theorem every_rule_has_outcome (env : Env) (seed : List Comp) (rules : List Rule) :
    (finals env seed rules).map (·.1) = rules := finals_map_fst env seed rules

/-- `outcome_exclusive`: for every rule set (identities distinct and not seeded), in every state the evaluator
can reach, what is listed for a rule — entries under all headings together, skip entries, metadata merges,
metadata keys, recorded exceptions — is exactly what its ONE outcome lists: one entry, or one skip entry, or
one merge, or one key, or its exceptions, or nothing -/
theorem outcome_exclusive (env : Env) (seed : List Comp) (rules : List Rule) (h : Fresh seed rules)
    (r : Rule) (f : Final) (hmem : (r, f) ∈ finals env seed rules) :
    tally (run env seed rules) r.id = f.tally := by
  rw [run_eq env seed rules h, tally_applyAll _ _ r f (finals_nodup env seed rules h) hmem, tally_init, Tally.zero_add]

/-- … hence no rule is ever counted twice: listings of every kind add up to at most one, and to zero exactly
for the outcomes `nothing` (characterised by `nothing_iff`) and `unlisted` (malformed custom metadata_key) -/
theorem at_most_once (env : Env) (seed : List Comp) (rules : List Rule) (h : Fresh seed rules)
    (r : Rule) (f : Final) (hmem : (r, f) ∈ finals env seed rules) :
    let t := tally (run env seed rules) r.id
    let total := t.results + t.skips + t.metadata + t.mdKeys + (if t.excs = [] then 0 else 1)
    total ≤ 1 ∧ (total = 0 ↔ (f = .nothing ∨ ∃ resp, f = .unlisted resp)) := by
  simp only
  rw [outcome_exclusive env seed rules h r f hmem]
  obtain ⟨p, hp⟩ := finals_mem_classify env seed rules r f hmem
  cases f with
  | exception es =>
    have := exception_nonempty env p r es hp.symm
    simp [Final.tally, this]
  | _ => simp [Final.tally, Tally.zero]

/-- `counted_once`: for every rule set and every type `t`, `results[t]` is exactly — in run order — the entries
of the rules whose outcome is a response of type `t` … -/
theorem counted_once (env : Env) (seed : List Comp) (rules : List Rule) (h : Fresh seed rules) (t : Str) :
    getList t (run env seed rules).results = (finals env seed rules).filterMap (entryOf t) := by
  rw [run_eq env seed rules h, applyAll_results]
  simp [St.init, getList, lookup]

/-- … each carrying the rule's name, module|key identifier, key, tags, links and the response itself -/
theorem entry_carries (r : Rule) (t : Str) (resp : Resp) :
    let e := mkEntry r t resp
    e.src = r.id ∧ e.component = r.name ∧ e.type = t ∧ e.key = resp.getKey ∧ e.details = resp ∧
    e.tags = r.tags ∧ e.links = r.links.getD [] ∧
    e.idVal = fmtOpt r.modName ++ ['|'] ++ fmtKey resp.getKey ∧
    e.idName = resp.cls.rtype.getD sNone ++ "_id".toList := by
  simp [mkEntry]

/-- `skips` is exactly, in run order, the skip responses of the rules whose outcome is a skip entry -/
theorem skips_exact (env : Env) (seed : List Comp) (rules : List Rule) (h : Fresh seed rules) :
    (run env seed rules).skips = (finals env seed rules).filterMap skipOf := by
  rw [run_eq env seed rules h, applyAll_skips]
  simp [St.init]

/-- `broker.exceptions` holds exactly the exceptions of the rules whose outcome is an exception, against them -/
theorem exceptions_exact (env : Env) (seed : List Comp) (rules : List Rule) (h : Fresh seed rules) :
    (run env seed rules).excs = (finals env seed rules).flatMap excsOf := by
  rw [run_eq env seed rules h, applyAll_excs]
  simp [St.init]

/-- the system metadata / the metadata keys are the metadata responses merged in run order (later wins) -/
theorem metadata_merged (env : Env) (seed : List Comp) (rules : List Rule) (h : Fresh seed rules) :
    (run env seed rules).metadata = (finals env seed rules).foldl mdStep [] ∧
    (run env seed rules).mdKeys = (finals env seed rules).foldl mdkStep [] := by
  rw [run_eq env seed rules h, applyAll_metadata, applyAll_mdKeys]
  simp [St.init]

/-! ### one evaluator object over a history of uses (entered again, preprocess() before process(), the same
bound method registered several times, several evaluations in a row) -/

/-- registration is idempotent: the observers of a broker are a set, so registering a callable that is already
registered changes neither the set nor what is dispatched, and a registered callable fires exactly once per component -/
theorem registration_idempotent (o : ObsId) (l : List ObsId) (hnd : l.Nodup) :
    addObserver o (addObserver o l) = addObserver o l ∧ (addObserver o l).Nodup ∧ (addObserver o l).count o = 1 ∧
    ∀ st r, dispatch (addObserver evalObs (addObserver evalObs l)) st r = dispatch (addObserver evalObs l) st r ∧
            dispatch (addObserver evalObs l) st r = observe st r := by
  refine ⟨addObserver_idem o l, addObserver_nodup o l hnd, addObserver_count o l hnd, ?_⟩
  intro st r
  rw [addObserver_idem]
  exact ⟨rfl, dispatch_once _ _ _ (addObserver_nodup _ _ hnd) (addObserver_mem _ _)⟩

/-- every history of register / run operations on one evaluator that starts by registering (`with e:`,
`e.process(...)`, `e.preprocess()`) leaves the evaluator in the state of ONE pass over the concatenated run orders
— however often it is registered again in between -/
theorem history_is_one_run (env : Env) (seed : List Comp) (ops : List Op) :
    (runHistory env seed (.register evalObs :: ops)).st = (allFired ops).foldl (stepG env) (St.init seed) := by
  unfold runHistory
  simp only [List.foldl_cons, applyOp]
  exact foldl_applyOp env ops ⟨St.init seed, addObserver evalObs []⟩ (addObserver_nodup evalObs [] List.nodup_nil)
    (addObserver_mem evalObs [])

/-- `HistoryReportedOnce`, the full statement: over EVERY history of register / run operations on one evaluator —
any run orders, rules met again by later runs, rules fired only as dependencies, any number of registrations, even
several identities for one rule — no component is listed more than once (entries under all headings, skip entries,
metadata merges and metadata keys together) -/
def HistoryReportedOnce : Prop :=
  ∀ (env : Env) (seed : List Comp) (ops : List Op) (id : Comp), listed (runHistory env seed ops).st id ≤ 1

theorem history_reported_once : HistoryReportedOnce :=
  fun env seed ops id => (listInv_runHistory env seed ops id).1

/-- … and nothing is listed for a component the observer has not dealt with -/
theorem history_listed_only_if_handled (env : Env) (seed : List Comp) (ops : List Op) (id : Comp)
    (h : id ∉ (runHistory env seed ops).st.handled) : listed (runHistory env seed ops).st id = 0 :=
  (listInv_runHistory env seed ops id).2 h

/-- a history is ONE pass over its effective run order (`effective`: each rule the first time it is fired as a key
of a graph; later firings and dependency-only firings are dropped): everything but the exception log — broker
values, results, skips, metadata, metadata keys — is what a single evaluation of that de-duplicated order leaves.
(The exception log is excluded because a rule that raises is run, and raises, again on every evaluation.) -/
theorem history_is_single_pass (env : Env) (hcfg : WFCfg env.cfg) (seed : List Comp) (ops : List Op)
    (hcons : Consistent ((allFired ops).map (·.1))) (hseed : ∀ f ∈ allFired ops, f.1.id ∉ seed) :
    forget (runHistory env seed (.register evalObs :: ops)).st = forget (run env seed (effective [] (allFired ops))) ∧
    Fresh seed (effective [] (allFired ops)) := by
  constructor
  · rw [history_is_one_run]
    exact sim_fold env hcfg seed (allFired ops) [] _ _ (sim_init env seed) (by simpa using hcons) hseed
  · obtain ⟨a, _, c⟩ := effective_fresh seed (allFired ops) [] hseed
    exact ⟨a, c⟩

/-- hence every rule of a history is listed exactly as its ONE outcome in that single pass says
(`outcome_exclusive` carried over to histories) -/
theorem history_outcomes (env : Env) (hcfg : WFCfg env.cfg) (seed : List Comp) (ops : List Op)
    (hcons : Consistent ((allFired ops).map (·.1))) (hseed : ∀ f ∈ allFired ops, f.1.id ∉ seed)
    (r : Rule) (f : Final) (hmem : (r, f) ∈ finals env seed (effective [] (allFired ops))) :
    (tally (runHistory env seed (.register evalObs :: ops)).st r.id).results = f.tally.results ∧
    (tally (runHistory env seed (.register evalObs :: ops)).st r.id).skips = f.tally.skips ∧
    (tally (runHistory env seed (.register evalObs :: ops)).st r.id).metadata = f.tally.metadata ∧
    (tally (runHistory env seed (.register evalObs :: ops)).st r.id).mdKeys = f.tally.mdKeys := by
  obtain ⟨hf, hfresh⟩ := history_is_single_pass env hcfg seed ops hcons hseed
  have ht := outcome_exclusive env seed _ hfresh r f hmem
  have e : ∀ st : St, (tally st r.id).results = (tally (forget st) r.id).results ∧
      (tally st r.id).skips = (tally (forget st) r.id).skips ∧
      (tally st r.id).metadata = (tally (forget st) r.id).metadata ∧
      (tally st r.id).mdKeys = (tally (forget st) r.id).mdKeys := fun _ => ⟨rfl, rfl, rfl, rfl⟩
  obtain ⟨e1, e2, e3, e4⟩ := e (runHistory env seed (.register evalObs :: ops)).st
  obtain ⟨g1, g2, g3, g4⟩ := e (run env seed (effective [] (allFired ops)))
  rw [e1, e2, e3, e4, hf, ← g1, ← g2, ← g3, ← g4, ht]
  exact ⟨rfl, rfl, rfl, rfl⟩

def rerunRule : Rule :=
  ⟨1, "pkg.mod.report".toList, some "mod".toList, [], none, [], [], [], true, .ret c_make_fail (.str "K".toList) []⟩

/-- non-vacuity: a history that evaluates the same graph twice meets the hypotheses; its effective order is the rule
once, and the rule is listed once (before the repair 35ad880 it was listed twice) -/
example : Consistent ((allFired [.run [(rerunRule, true)], .run [(rerunRule, true)]]).map (·.1)) := by
  intro a ha b hb _
  simp only [allFired, List.cons_append, List.nil_append, List.map_cons, List.map_nil, List.mem_cons,
    List.not_mem_nil, or_false, or_self] at ha hb
  rw [ha, hb]
example : (effective [] (allFired [.run [(rerunRule, true)], .run [(rerunRule, true)]])).map (·.id) = [1] := by decide
set_option maxRecDepth 100000 in
example : listed (runHistory ⟨cfg, 65535, false, fun _ => []⟩ []
    [.register evalObs, .run [(rerunRule, true)], .register evalObs, .run [(rerunRule, true)]]).st 1 = 1 := by decide

/-! ### InsightsEvaluator: handle the outcome, then decorate (which may fail) -/

/-- whatever the decoration providers are — absent, fine, empty, or raising on every read — and however the
decoration statements end, one call of `InsightsEvaluator.observer` does to the accounting exactly what
`SingleEvaluator.observer` does: the outcome is handled before anything can raise -/
theorem decoration_after_outcome (d : Deco) (r : Rule) (s : ISt) : (observerI d r s).st = observe s.st r :=
  observerI_st d r s

/-- hence over every run order (and history) the reported outcomes do not depend on the decoration step's success:
InsightsEvaluator's results / skips / metadata / metadata keys / broker values are SingleEvaluator's, for every
decoration environment; in particular two environments give the same accounting -/
theorem decoration_independent (env : Env) (d d' : Deco) (fired : List Fired) (s : ISt) :
    (fired.foldl (stepI env d) s).st = fired.foldl (stepG env) s.st ∧
    (fired.foldl (stepI env d) s).st = (fired.foldl (stepI env d') s).st := by
  rw [foldl_stepI_st, foldl_stepI_st]
  exact ⟨rfl, rfl⟩

/-- `InsightsEvaluator(broker).process(graph)` accounts like `SingleEvaluator(broker).process(graph)`: every theorem
above about `run` holds for it -/
theorem insights_accounts_like_single (env : Env) (d : Deco) (seed : List Comp) (rules : List Rule) :
    (runI env d seed rules).st = run env seed rules := by
  unfold runI
  rw [foldl_stepI_st, foldl_stepG_all_in_graph]
  rfl

/-- the decoration statement itself: a provider with content sets the system id to its first line, stripped; an
absent or empty one changes nothing; a raising one raises (and the rest of the observer is skipped) -/
theorem decoration_result (d : Deco) (s : ISt) (hs : s.systemId = none) :
    (∀ l ls, d.machineId = .content (l :: ls) → machineIdStmt d s = .ok { s with systemId := some (pyStrip l) }) ∧
    (d.machineId = .raises → machineIdStmt d s = .error ()) ∧
    (d.machineId = .absent ∨ d.machineId = .content [] → machineIdStmt d s = .ok s) := by
  refine ⟨?_, ?_, ?_⟩
  · intro l ls hm; simp [machineIdStmt, hs, hm, readFirst]
  · intro hm; simp [machineIdStmt, hs, hm, readFirst]
  · intro hm; rcases hm with hm | hm <;> simp [machineIdStmt, hs, hm, readFirst]

/-- non-vacuity of the abort semantics: were the decoration to come FIRST, a raising provider would lose the outcome -/
example : (seqStmts [machineIdStmt ⟨.raises, .absent, .absent⟩, handleStmt rerunRule]
    ⟨(engineStep ⟨cfg, 65535, false, fun _ => []⟩ true (St.init []) rerunRule), none, none, false⟩).st.results = [] := by
  decide
set_option maxRecDepth 100000 in
example : ((observerI ⟨.raises, .raises, .raises⟩ rerunRule
    ⟨(engineStep ⟨cfg, 65535, false, fun _ => []⟩ true (St.init []) rerunRule), none, none, false⟩).st.results.map
      (fun kv => kv.2.length)) = [1] := by
  decide

/-! ### "for a disabled rule: nothing" through the configuration glue -/

/-- after any history of `dr.set_enabled` and configurations, the LATEST configuration alone decides whether a
loaded rule is enabled: its last entry that matches the rule's name (exact name, or prefix when no loaded component
carries exactly that name), and its default when no entry matches — earlier configurations do not matter -/
theorem config_latest_decides (cs : List Config) (c : Config) (r : Rule) :
    (configure (cs ++ [c]) r).enabled = lastEnabled c.defaultEnabled r.name c.defaultEnabled c.entries := by
  have h1 : configure (cs ++ [c]) r = applyConfig c (configure cs r) := by simp [configure, List.foldl_append]
  have h2 : ∀ q : Rule, (applyConfig c q).enabled = lastEnabled c.defaultEnabled q.name c.defaultEnabled c.entries := by
    intro q; unfold applyConfig; rw [foldl_applyEntry_enabled]
  rw [h1, h2, configure_name]

/-- a rule whose last matching entry in the latest configuration says `enabled: false` leaves no trace in any
evaluation, whatever was configured or set before and whatever the later entries (not matching it) say -/
theorem disabled_by_config_nothing (env : Env) (present : List Comp) (cs : List Config) (dflt : Bool)
    (es es' : List ConfEntry) (e : ConfEntry) (r : Rule)
    (hm : entryMatches e r.name = true) (he : e.enabled = some false)
    (hrest : ∀ x ∈ es', entryMatches x r.name = false) :
    classify env present (configure (cs ++ [⟨dflt, es ++ [e] ++ es'⟩]) r) = .nothing := by
  apply (nothing_iff env present _).mpr
  left
  rw [config_latest_decides]
  simp only
  rw [lastEnabled_append_list, lastEnabled_no_match _ _ _ _ hrest, lastEnabled_append]
  simp [hm, he]

/-- a rule that the latest configuration does not name has that configuration's default -/
theorem unnamed_keeps_default (cs : List Config) (c : Config) (r : Rule)
    (h : ∀ e ∈ c.entries, entryMatches e r.name = false) : (configure (cs ++ [c]) r).enabled = c.defaultEnabled := by
  rw [config_latest_decides, lastEnabled_no_match _ _ _ _ h]

example : (configure [⟨true, [⟨"pkg.mod.".toList, false, some false, none, none⟩]⟩,
                       ⟨true, [⟨"pkg.mod.report".toList, true, some false, some ["t".toList], none⟩,
                               ⟨"pkg.other".toList, false, some true, none, none⟩]⟩] rerunRule).enabled = false := by decide
example : entryMatches ⟨"pkg.mod.rep".toList, true, some false, none, none⟩ rerunRule.name = false ∧
    entryMatches ⟨"pkg.mod.rep".toList, false, some false, none, none⟩ rerunRule.name = true := by decide

/-! ### run modes: incremental evaluation, sub-graph after sub-graph -/

/-- for ANY partition of the rules into sub-graphs (and any order inside each), incremental evaluation leaves
exactly the evaluator state of ONE serial run whose order is the concatenation of the sub-graph orders — nothing is
evaluated twice, nothing is left out -/
theorem incremental_is_a_serial_run (env : Env) (seed : List Comp) (subgraphs : List (List Rule)) :
    processIncremental env seed subgraphs = run env seed subgraphs.flatten := by
  unfold processIncremental
  rw [history_is_one_run, allFired_runs, foldl_stepG_all_in_graph]
  rfl

/-- hence the partition itself does not matter, only the order it induces … -/
theorem incremental_partition_irrelevant (env : Env) (seed : List Comp) (p q : List (List Rule))
    (h : p.flatten = q.flatten) : processIncremental env seed p = processIncremental env seed q := by
  rw [incremental_is_a_serial_run, incremental_is_a_serial_run, h]

/-- … and every rule of every sub-graph has its one outcome, accounted exactly once (`outcome_exclusive` for
incremental evaluation; the rules of a partition are distinct and not seeded) -/
theorem incremental_outcomes (env : Env) (seed : List Comp) (subgraphs : List (List Rule))
    (h : Fresh seed subgraphs.flatten) (r : Rule) (f : Final) (hmem : (r, f) ∈ finals env seed subgraphs.flatten) :
    tally (processIncremental env seed subgraphs) r.id = f.tally := by
  rw [incremental_is_a_serial_run]
  exact outcome_exclusive env seed _ h r f hmem

/-- a sub-graph that is evaluated again (by mistake, or because two graphs overlap) changes nothing but the
exception log: listings are those of the de-duplicated order (`history_is_single_pass`) -/
theorem incremental_repeat_harmless (env : Env) (hcfg : WFCfg env.cfg) (seed : List Comp) (subgraphs : List (List Rule))
    (hcons : Consistent subgraphs.flatten) (hseed : ∀ r ∈ subgraphs.flatten, r.id ∉ seed) :
    forget (processIncremental env seed subgraphs) =
      forget (run env seed (effective [] (subgraphs.flatten.map (·, true)))) := by
  unfold processIncremental
  have h := history_is_single_pass env hcfg seed (subgraphs.map (fun g => Op.run (g.map (·, true))))
    (by
      have e : (subgraphs.flatten.map (·, true)).map (·.1) = subgraphs.flatten := by
        generalize subgraphs.flatten = l
        induction l with
        | nil => rfl
        | cons a rest ih => simp only [List.map_cons, ih]
      rw [allFired_runs, e]; exact hcons)
    (by rw [allFired_runs]; intro f hf; obtain ⟨r, hr, rfl⟩ := List.mem_map.mp hf; exact hseed r hr)
  rw [h.1, allFired_runs]

/-- non-vacuity: two disjoint sub-graphs; evaluating only the first one (a drained generator) loses the second rule -/
def islandRule : Rule :=
  ⟨2, "pkg.other.check".toList, some "other".toList, [], none, [], [], [], true, .ret c_make_pass (.str "P".toList) []⟩
set_option maxRecDepth 100000 in
example : ((processIncremental ⟨cfg, 65535, false, fun _ => []⟩ [] [[rerunRule], [islandRule]]).results.map
    (fun kv => kv.2.map (·.src))) = [[1], [2]] ∧
    ((processIncremental ⟨cfg, 65535, false, fun _ => []⟩ [] [[rerunRule]]).results.map
    (fun kv => kv.2.map (·.src))) = [[1]] := by decide

/-! ### rules are identities; names are a labelling -/

/-- `accounting_name_independent`: give the rules of a rule set any other names — injectively or not, so that several
distinct rules share one fully qualified name (a factory's closures, a redefinition, a reloaded module) — and every
identity is accounted exactly as before: the same number of entries, skip entries, metadata merges and metadata keys,
the same recorded exceptions.  Nothing in the accounting goes by name. -/
theorem accounting_name_independent (env : Env) (hc : WFCfg env.cfg) (seed : List Comp) (rules : List Rule)
    (h : Fresh seed rules) (f : Rule → Str) (id : Comp) :
    tally (run env seed (rules.map (relabel f))) id = tally (run env seed rules) id := by
  have h' := fresh_relabel seed f rules h
  by_cases hin : id ∈ rules.map (·.id)
  · obtain ⟨r, hr, rfl⟩ := List.mem_map.mp hin
    have hmem : ∃ fr, (r, fr) ∈ finals env seed rules := by
      have hm : r ∈ (finals env seed rules).map (·.1) := by rw [finals_map_fst]; exact hr
      obtain ⟨x, hx, hxr⟩ := List.mem_map.mp hm
      exact ⟨x.2, by rw [← hxr]; exact hx⟩
    obtain ⟨fr, hfr⟩ := hmem
    obtain ⟨f', h1, h2⟩ := finals_relabel env hc f rules seed r fr hfr
    have e1 := outcome_exclusive env seed rules h r fr hfr
    have e2 := outcome_exclusive env seed _ h' (relabel f r) f' h1
    have hid : (relabel f r).id = r.id := rfl
    rw [hid] at e2
    rw [e1, e2, h2]
  · rw [tally_run_absent env seed rules h id (by rw [finals_ids]; exact hin),
      tally_run_absent env seed _ h' id (by rw [finals_ids, relabel_ids]; exact hin)]

/-- in particular with ONE name for every rule, each rule still has its one outcome -/
theorem shared_name_outcomes (env : Env) (hc : WFCfg env.cfg) (seed : List Comp) (rules : List Rule) (h : Fresh seed rules)
    (name : Str) (r : Rule) (f : Final) (hmem : (r, f) ∈ finals env seed rules) :
    tally (run env seed (rules.map (relabel (fun _ => name)))) r.id = f.tally := by
  rw [accounting_name_independent env hc seed rules h]
  exact outcome_exclusive env seed rules h r f hmem

set_option maxRecDepth 100000 in
/-- non-vacuity: two distinct rules under one name, a fail and a pass: both are listed, each once -/
example : ((run ⟨cfg, 65535, false, fun _ => []⟩ [] ([rerunRule, islandRule].map (relabel (fun _ => "m.f.<locals>.report".toList)))).results.map
    (fun kv => kv.2.map (fun e => (e.src, String.ofList e.component)))) =
    [[(1, "m.f.<locals>.report")], [(2, "m.f.<locals>.report")]] := by decide

/-! ### get_response -/

/-- what `get_response()` puts under every heading, for every reachable evaluator state: the analysis block; the
entries of each listed type other than rule / fingerprint under the type's own name; "skips", "fingerprints",
"reports", "system" (in this order of precedence when a custom type is named like one of them); otherwise the
metadata key of that name, if any -/
theorem response_headings (env : Env) (seed : List Comp) (rules : List Rule) (h : Fresh seed rules) (hd : Str) :
    lookup hd (getResponse (run env seed rules)) =
      if hd = sAnalysis then some .analysis
      else if hd ∈ keysOf (run env seed rules).results ∧ ¬ (hd = sRule ∨ hd = sFingerprint) then
        some (.entries (getList hd (run env seed rules).results))
      else if hd = sSkips then some (.skips ((run env seed rules).skips.map (·.2)))
      else if hd = sFingerprints then some (.entries (getList sFingerprint (run env seed rules).results))
      else if hd = sReports then some (.entries (getList sRule (run env seed rules).results))
      else if hd = sSystem then some (.system (some (run env seed rules).metadata))
      else lookup hd ((run env seed rules).mdKeys.map (fun kv => (kv.1, Top.val kv.2))) := by
  apply lookup_getResponse
  rw [run_eq env seed rules h]
  exact applyAll_results_nodup _ _ (by simp [St.init])

/-- a listed type other than rule / fingerprint is reported under its own name, with exactly its entries
(`counted_once` says which) -/
theorem typed_heading (env : Env) (seed : List Comp) (rules : List Rule) (h : Fresh seed rules) (t : Str)
    (hl : t ∈ keysOf (run env seed rules).results) (h1 : t ≠ sRule) (h2 : t ≠ sFingerprint) (h3 : t ≠ sAnalysis) :
    lookup t (getResponse (run env seed rules)) = some (.entries (getList t (run env seed rules).results)) := by
  rw [response_headings env seed rules h]
  simp [h1, h2, h3, hl]

/-- fail responses are reported under "reports", fingerprints under "fingerprints" (when no custom response type
carries one of these names) -/
theorem reports_heading (env : Env) (seed : List Comp) (rules : List Rule) (h : Fresh seed rules)
    (h1 : sReports ∉ keysOf (run env seed rules).results) (h2 : sFingerprints ∉ keysOf (run env seed rules).results) :
    lookup sReports (getResponse (run env seed rules)) = some (.entries (getList sRule (run env seed rules).results)) ∧
    lookup sFingerprints (getResponse (run env seed rules)) =
      some (.entries (getList sFingerprint (run env seed rules).results)) := by
  have a1 : sReports ≠ sAnalysis := by decide
  have a2 : sReports ≠ sSkips := by decide
  have a3 : sReports ≠ sFingerprints := by decide
  have b1 : sFingerprints ≠ sAnalysis := by decide
  have b2 : sFingerprints ≠ sSkips := by decide
  rw [response_headings env seed rules h, response_headings env seed rules h]
  constructor
  · simp only [a1, a2, a3, h1, false_and, if_false, if_true]
  · simp only [b1, b2, h2, false_and, if_false, if_true]

/-! ### formatters -/

/-- `formatter_filter`, without `-S`: exactly "skips" (unless `-m`) and "none" go; every other heading keeps its value -/
theorem formatter_filter_default (resp : Report) (missing : Bool) (h : Str) :
    lookup h (ofTypes resp missing []) =
      if (h = sSkips ∧ missing = false) ∨ h = sNoneT then none else lookup h resp := by
  unfold ofTypes
  simp only [List.isEmpty_nil, if_true, lookup_erase, lookup_condErase]
  by_cases h1 : h = sNoneT
  · simp [h1]
  · cases missing <;> simp [h1]

/-- `formatter_filter`, with `-S`: "skips" goes unless `-m`; each list-valued type's heading goes exactly when the type
was not asked for; `system` loses its metadata exactly when "metadata" was not asked for; every other heading, and
the value of every heading that stays, is untouched -/
theorem formatter_filter_select (resp : Report) (missing : Bool) (showRules : List Str) (hne : showRules ≠ []) (h : Str) :
    lookup h (ofTypes resp missing showRules) =
      if (h = sSkips ∧ missing = false) ∨ (h = sReports ∧ showRules.contains sRule = false) ∨
         (h = sInfo ∧ showRules.contains sInfo = false) ∨ (h = sPass ∧ showRules.contains sPass = false) ∨
         (h = sNoneT ∧ showRules.contains sNoneT = false) ∨
         (h = sFingerprints ∧ showRules.contains sFingerprint = false) then none
      else if h = sSystem ∧ showRules.contains sMetadata = false then (lookup h resp).map dropMd
      else lookup h resp := by
  have he : showRules.isEmpty = false := by cases showRules <;> simp_all
  unfold ofTypes
  simp only [he, Bool.false_eq_true, if_false, lookup_condErase, lookup_condPop]
  have n1 : sSkips ≠ sReports := by decide
  have n2 : sSkips ≠ sInfo := by decide
  have n3 : sSkips ≠ sPass := by decide
  have n4 : sSkips ≠ sNoneT := by decide
  have n5 : sSkips ≠ sFingerprints := by decide
  have n6 : sSkips ≠ sSystem := by decide
  have m1 : sReports ≠ sInfo := by decide
  have m2 : sReports ≠ sPass := by decide
  have m3 : sReports ≠ sNoneT := by decide
  have m4 : sReports ≠ sFingerprints := by decide
  have m5 : sReports ≠ sSystem := by decide
  have p1 : sInfo ≠ sPass := by decide
  have p2 : sInfo ≠ sNoneT := by decide
  have p3 : sInfo ≠ sFingerprints := by decide
  have p4 : sInfo ≠ sSystem := by decide
  have q1 : sPass ≠ sNoneT := by decide
  have q2 : sPass ≠ sFingerprints := by decide
  have q3 : sPass ≠ sSystem := by decide
  have r1 : sNoneT ≠ sFingerprints := by decide
  have r2 : sNoneT ≠ sSystem := by decide
  have s1 : sFingerprints ≠ sSystem := by decide
  by_cases h0 : h = sSkips
  · subst h0; cases missing <;> simp [n1, n2, n3, n4, n5, n6]
  by_cases h1 : h = sReports
  · subst h1; cases showRules.contains sRule <;> simp [Ne.symm n1, m1, m2, m3, m4, m5]
  by_cases h2 : h = sInfo
  · subst h2; cases showRules.contains sInfo <;> simp [Ne.symm n2, Ne.symm m1, p1, p2, p3, p4]
  by_cases h3 : h = sPass
  · subst h3; cases showRules.contains sPass <;> simp [Ne.symm n3, Ne.symm m2, Ne.symm p1, q1, q2, q3]
  by_cases h4 : h = sNoneT
  · subst h4; cases showRules.contains sNoneT <;> simp [Ne.symm n4, Ne.symm m3, Ne.symm p2, Ne.symm q1, r1, r2]
  by_cases h5 : h = sFingerprints
  · subst h5; cases showRules.contains sFingerprint <;> simp [Ne.symm n5, Ne.symm m4, Ne.symm p3, Ne.symm q2, Ne.symm r1, s1]
  simp [h0, h1, h2, h3, h4, h5, and_comm]

/-- the heading a response type is printed under -/
def headingOf (t : Str) : Str := if t = sRule then sReports else if t = sFingerprint then sFingerprints else t

/-- the five list-valued selectable types -/
def listTypes : List Str := [sRule, sInfo, sPass, sNoneT, sFingerprint]

/-- a type is shown: no `-S` shows everything but "none", otherwise what was asked for -/
def asked (showRules : List Str) (t : Str) : Bool :=
  if showRules.isEmpty then t != sNoneT else showRules.contains t

/-- `formatter_filter`: for each of the selectable list-valued types, the formatter shows the type's heading (with
the unfiltered value) if the type was asked for and removes it otherwise — "none" is not asked for by default -/
theorem formatter_filter (resp : Report) (missing : Bool) (showRules : List Str) (t : Str) (ht : t ∈ listTypes) :
    lookup (headingOf t) (ofTypes resp missing showRules) =
      if asked showRules t = true then lookup (headingOf t) resp else none := by
  have e1 : headingOf sRule = sReports := by decide
  have e2 : headingOf sInfo = sInfo := by decide
  have e3 : headingOf sPass = sPass := by decide
  have e4 : headingOf sNoneT = sNoneT := by decide
  have e5 : headingOf sFingerprint = sFingerprints := by decide
  have n1 : sReports ≠ sSkips := by decide
  have n2 : sInfo ≠ sSkips := by decide
  have n3 : sPass ≠ sSkips := by decide
  have n4 : sNoneT ≠ sSkips := by decide
  have n5 : sFingerprints ≠ sSkips := by decide
  have m1 : sReports ≠ sInfo := by decide
  have m2 : sReports ≠ sPass := by decide
  have m3 : sReports ≠ sNoneT := by decide
  have m4 : sReports ≠ sFingerprints := by decide
  have m5 : sReports ≠ sSystem := by decide
  have p1 : sInfo ≠ sPass := by decide
  have p2 : sInfo ≠ sNoneT := by decide
  have p3 : sInfo ≠ sFingerprints := by decide
  have p4 : sInfo ≠ sSystem := by decide
  have q1 : sPass ≠ sNoneT := by decide
  have q2 : sPass ≠ sFingerprints := by decide
  have q3 : sPass ≠ sSystem := by decide
  have r1 : sNoneT ≠ sFingerprints := by decide
  have r2 : sNoneT ≠ sSystem := by decide
  have s1 : sFingerprints ≠ sSystem := by decide
  have k1 : (sRule != sNoneT) = true := by decide
  have k2 : (sInfo != sNoneT) = true := by decide
  have k3 : (sPass != sNoneT) = true := by decide
  have k5 : (sFingerprint != sNoneT) = true := by decide
  by_cases hnil : showRules = []
  · subst hnil
    simp only [listTypes, List.mem_cons, List.not_mem_nil, or_false] at ht
    rcases ht with rfl | rfl | rfl | rfl | rfl
    · simp [formatter_filter_default, asked, e1, n1, m3, k1]
    · simp [formatter_filter_default, asked, e2, n2, p2, k2]
    · simp [formatter_filter_default, asked, e3, n3, q1, k3]
    · simp [formatter_filter_default, asked, e4]
    · simp [formatter_filter_default, asked, e5, n5, Ne.symm r1, k5]
  · have he : showRules.isEmpty = false := by cases showRules <;> simp_all
    simp only [listTypes, List.mem_cons, List.not_mem_nil, or_false] at ht
    rw [formatter_filter_select _ _ _ hnil]
    rcases ht with rfl | rfl | rfl | rfl | rfl
    · by_cases hm : sRule ∈ showRules <;> simp [asked, he, hm, e1, n1, m1, m2, m3, m4, m5]
    · by_cases hm : sInfo ∈ showRules <;> simp [asked, he, hm, e2, n2, Ne.symm m1, p1, p2, p3, p4]
    · by_cases hm : sPass ∈ showRules <;> simp [asked, he, hm, e3, n3, Ne.symm m2, Ne.symm p1, q1, q2, q3]
    · by_cases hm : sNoneT ∈ showRules <;> simp [asked, he, hm, e4, n4, Ne.symm m3, Ne.symm p2, Ne.symm q1, r1, r2]
    · by_cases hm : sFingerprint ∈ showRules <;>
        simp [asked, he, hm, e5, n5, Ne.symm m4, Ne.symm p3, Ne.symm q2, Ne.symm r1, s1]

/-- a heading the filter does not know (custom response types, metadata keys, analysis_metadata) is never touched -/
theorem formatter_filter_other (resp : Report) (missing : Bool) (showRules : List Str) (h : Str)
    (hh : h ∉ [sSkips, sReports, sInfo, sPass, sNoneT, sFingerprints, sSystem]) :
    lookup h (ofTypes resp missing showRules) = lookup h resp := by
  simp only [List.mem_cons, List.not_mem_nil, or_false, not_or] at hh
  obtain ⟨a1, a2, a3, a4, a5, a6, a7⟩ := hh
  cases hs : showRules with
  | nil => rw [formatter_filter_default]; simp [a1, a5]
  | cons a b => rw [formatter_filter_select _ _ _ (by simp)]; simp [a1, a2, a3, a4, a5, a6, a7]

/-- the option glue: `-m` drops `-F`; `-F` alone selects fail; `fail` is spelt `rule`; nothing selects nothing -/
theorem adapter_options (missing failOnly : Bool) (showArg : List Str) :
    adapterShow missing failOnly showArg =
      if showArg ≠ [] then showArg.map (fun o => if o = sFail then sRule else o)
      else if failOnly = true ∧ missing = false then [sRule] else [] := by
  unfold adapterShow
  cases showArg with
  | nil => cases missing <;> cases failOnly <;> simp
  | cons a b => cases missing <;> cases failOnly <;> simp

/-! ### non-vacuity: a concrete rule set meets the hypotheses and exercises every outcome -/

def exEnv : Env := ⟨cfg, 80, false, fun c => if c = 0 then "m.base".toList else "m.absent".toList⟩
def exRule (id : Nat) (req : List Comp) (en : Bool) (a : Action) : Rule :=
  ⟨id, "m.r".toList ++ (toString id).toList, some "m".toList, ["t".toList], none, req, [], [], en, a⟩
def exRules : List Rule :=
  [exRule 2 [0] true (.ret c_make_fail (.str "K".toList) [("a".toList, .int 1)]),
   exRule 3 [0] true (.ret c_make_pass (.str "K".toList) []),
   exRule 4 [1] true (.ret c_make_pass (.str "K".toList) []),
   exRule 5 [0] true (.retOther false),
   exRule 6 [0] true (.ret c_make_info .none []),
   exRule 7 [0] true (.raise .skip),
   exRule 8 [0] false (.ret c_make_info (.str "I".toList) []),
   exRule 9 [2] true .retNone,
   exRule 10 [5] true (.ret c_make_metadata .none [("x".toList, .int 1)])]

example : Fresh [0] exRules := ⟨by decide, by decide⟩
set_option maxRecDepth 100000 in
example : (finals exEnv [0] exRules).map (fun rf => rf.2.tally) =
    [⟨1, 0, 0, 0, []⟩, ⟨1, 0, 0, 0, []⟩, ⟨0, 1, 0, 0, []⟩, ⟨0, 0, 0, 0, [.badReturn]⟩,
     ⟨0, 0, 0, 0, [.validation .keyMissing]⟩, Tally.zero, Tally.zero, ⟨1, 0, 0, 0, []⟩, ⟨0, 1, 0, 0, []⟩] := by decide
set_option maxRecDepth 100000 in
example : ((run exEnv [0] exRules).results.map (fun kv => (String.ofList kv.1, kv.2.map (·.src)))) =
    [("rule", [2]), ("pass", [3]), ("none", [9])] := by decide
example : lookup sNoneT (ofTypes (getResponse (run exEnv [0] exRules)) false []) = none := by
  rw [formatter_filter_default]; simp
example : Invoked [0] (exRule 5 [0] true (.retOther false)) := ⟨by decide, by decide, by decide⟩
example : ignored [0] (exRule 4 [1] true .retNone) = false ∧
    missingDeps [0] (exRule 4 [1] true .retNone) = some ⟨[1], []⟩ := by decide

/-! ### the text formatter (HumanReadableFormat.show_description) accounts like the evaluator

Its walk over the rules in the broker after the run (`textRows`, `IV/Model/RulesText.lean`) is tied to the
per-rule outcomes, so that its "Rule Execution Summary" and the evaluator's lists cannot disagree. -/

/-- the rows the text formatter walks are exactly — in run order — the rules whose outcome stored a typed value,
each under the type of its one outcome; rules with an exception or no trace have no row -/
theorem text_rows_exact (env : Env) (seed : List Comp) (rules : List Rule) (h : Fresh seed rules) :
    textRows (run env seed rules).inst = (finals env seed rules).filterMap rowOf := by
  rw [run_eq env seed rules h, applyAll_rows _ _ (finals_wf env seed rules)]
  simp [St.init, textRows_seed]

set_option maxRecDepth 100000 in
example : (textRows (run exEnv [0] exRules).inst).map (fun p => (p.1, String.ofList p.2)) =
    [(2, "rule"), (3, "pass"), (4, "skip"), (9, "none"), (10, "skip")] := by decide

/-- the summary count of a type listed under a heading equals the number of entries the evaluator lists there -/
theorem text_count_entries (env : Env) (seed : List Comp) (rules : List Rule) (h : Fresh seed rules) (t : Str)
    (h1 : t ≠ sSkip) (h2 : t ≠ sMetadata) (h3 : t ≠ sMetadataKey) :
    textCount t (run env seed rules).inst = (getList t (run env seed rules).results).length := by
  unfold textCount
  rw [text_rows_exact env seed rules h, counted_once env seed rules h t]
  exact rows_count_entries t h1 h2 h3 _ (finals_wf env seed rules)

set_option maxRecDepth 100000 in
example : textCount sRule (run exEnv [0] exRules).inst = 1 ∧ sRule ≠ sSkip ∧ sRule ≠ sMetadata ∧ sRule ≠ sMetadataKey := by
  decide

/-- "Missing Deps" of the summary equals the number of skip entries of the evaluator -/
theorem text_count_skips (env : Env) (seed : List Comp) (rules : List Rule) (h : Fresh seed rules) :
    textCount sSkip (run env seed rules).inst = (run env seed rules).skips.length := by
  unfold textCount
  rw [text_rows_exact env seed rules h, skips_exact env seed rules h]
  exact rows_count_skips _ (finals_wf env seed rules)

set_option maxRecDepth 100000 in
example : textCount sSkip (run exEnv [0] exRules).inst = 2 := by decide

/-- no rule is walked (hence counted or printed) twice by the text formatter -/
theorem text_each_rule_once (env : Env) (seed : List Comp) (rules : List Rule) (h : Fresh seed rules) :
    ((textRows (run env seed rules).inst).map (·.1)).Nodup := by
  rw [text_rows_exact env seed rules h]
  exact (rows_ids_sublist _).nodup (finals_nodup env seed rules h)

example : Fresh [0] exRules := ⟨by decide, by decide⟩

/-- what is printed under a label is exactly the walked rules the options select, and printing succeeds only if
every selected rule has a labelled type -/
theorem text_printed_selected (missing : Bool) (showRules : List Str) (inst : List (Comp × Option Resp))
    (rows : List (Comp × Str)) (h : textPrinted missing showRules inst = some rows) (p : Comp × Str) :
    p ∈ rows ↔ (p ∈ textRows inst ∧ textSelected missing showRules p.2 = true ∧ p.2 ∈ textLabels) := by
  unfold textPrinted at h
  simp only at h
  split at h
  · rename_i hall
    cases h
    simp only [List.mem_filter]
    constructor
    · intro hp
      refine ⟨hp.1, hp.2, ?_⟩
      have := List.all_eq_true.mp hall p (List.mem_filter.mpr hp)
      simpa using this
    · intro hp; exact ⟨hp.1, hp.2.1⟩
  · cases h

set_option maxRecDepth 100000 in
example : (textPrinted true [] (run exEnv [0] exRules).inst).map (·.map (·.1)) = some [2, 3, 4, 10] := by decide

/-! ### evaluation on a thread pool (regression lemmas for the fix c9df167, formerly finding parallel-observer-race)

the pre-fix behaviour: a failing observer call loses the outcome; the code now cannot fail there (the observer walks a
snapshot of the broker), so the hypothesis of `pooled_observer_accounts_partial` holds of every pooled run -/

/-- the statement that was false of the code BEFORE c9df167: whatever observer calls fail on the pool, every rule's
outcome is accounted -/
def PooledObserverAccounts : Prop :=
  ∀ (env : Env) (seed : List Comp) (xs : List (Rule × Bool)), Fresh seed (xs.map (·.1)) →
    ∀ r f, (r, f) ∈ finals env seed (xs.map (·.1)) → tally (runPooled env seed xs) r.id = f.tally

/-- … it holds when no observer call fails: the pooled run then is the serial run over the same order -/
theorem pooled_observer_accounts_partial (env : Env) (seed : List Comp) (xs : List (Rule × Bool))
    (hok : ∀ x ∈ xs, x.2 = true) (h : Fresh seed (xs.map (·.1)))
    (r : Rule) (f : Final) (hmem : (r, f) ∈ finals env seed (xs.map (·.1))) :
    tally (runPooled env seed xs) r.id = f.tally := by
  have : runPooled env seed xs = run env seed (xs.map (·.1)) := foldl_stepPooled_ok env xs _ hok
  rw [this]
  exact outcome_exclusive env seed (xs.map (·.1)) h r f hmem

example : ∀ x ∈ exRules.map (fun r => (r, true)), x.2 = true := by decide

def pooledWitnessRule : Rule := exRule 2 [0] true (.ret c_make_fail (.str "K".toList) [("a".toList, .int 1)])

set_option maxRecDepth 100000 in
/-- the pre-fix witness (reverting c9df167 makes it real again): one rule returning a fail response whose observer
call fails on the pool; the response is in the
broker and nowhere in the evaluator's accounting, while its one outcome is an entry under "rule" -/
theorem pooled_observer_accounts_witness : ¬ PooledObserverAccounts := by
  intro h
  have h2 := h exEnv [0] [(pooledWitnessRule, false)] ⟨by decide, by decide⟩ pooledWitnessRule
    (classify exEnv [0] pooledWitnessRule) (by simp [finals])
  revert h2
  decide

set_option maxRecDepth 100000 in
example : (tally (runPooled exEnv [0] [(pooledWitnessRule, false)]) 2).results = 0 ∧
    (classify exEnv [0] pooledWitnessRule).tally.results = 1 := by decide

end IV.Rules
