import IV.Lemmas.Dr
import IV.Lemmas.Toposort
import IV.Lemmas.DrArchive
/-!
C01 — components run at most once, and only after their dependencies were attempted.

All theorems hold for every `World` (every graph shape, any mix of required / at-least-one /
optional edges, every component body), every seed broker and every tie-break order `pick`
of the topological sort.
-/
namespace IV.Dr

/-- the order produced by the topological sort, for ANY iteration order of the emitted sets:
no item twice; every key and every dependency is in it; every dependency other than the item
itself comes strictly earlier. -/
theorem toposort_sound (pick : List Comp → List Comp) (hp : ∀ l, (pick l).Perm l)
    (g : Graph) (hk : g.keys.Nodup) (o : List Comp) (h : toposort pick g = some o) :
    o.Nodup ∧ ∀ c ds, (c, ds) ∈ g → c ∈ o ∧ ∀ d ∈ ds, d ≠ c → d ∈ o ∧ Before d c o := by
  unfold toposort at h
  simp only [Option.map_eq_some_iff] at h
  obtain ⟨ls, hl, rfl⟩ := h
  obtain ⟨h1, h2, h3⟩ := levels_sound pick hp _ _ ls (prepare_keys_nodup g hk) hl
  refine ⟨h3, ?_⟩
  intro c ds hm
  obtain ⟨hc, hb⟩ := h1 c _ (prepare_mem g c ds hm)
  refine ⟨hc, ?_⟩
  intro d hd hne
  have hbd := hb d (by simp [hd, hne])
  refine ⟨?_, hbd⟩
  obtain ⟨pre, post, ho, hpre⟩ := hbd
  rw [ho]; simp [hpre]

/-- a failure of the sort is a cyclic remainder, never fuel exhaustion -/
theorem toposort_fuel_irrelevant (pick : List Comp → List Comp) (g : Graph) (f : Nat)
    (hf : (prepare g).length ≤ f) :
    toposort pick g = (levels pick f (prepare g)).map List.flatten := by
  simp only [toposort]
  rw [levels_fuel pick _ f _ (Nat.le_refl _) hf]

/-- completeness: every acyclic graph (self-dependencies do not count, as in the code) IS sorted —
so the theorems below are not vacuous for any graph in the property's quantifier -/
theorem toposort_complete (pick : List Comp → List Comp) (g : Graph) (rank : Comp → Nat)
    (hr : ∀ c ds, (c, ds) ∈ g → ∀ d ∈ ds, d ≠ c → rank d < rank c) :
    ∃ o, toposort pick g = some o := by
  have := levels_complete pick rank (prepare g).length (prepare g) (Nat.le_refl _)
    (prepare_depsAreKeys g) (prepare_ranked rank g hr)
  simp only [toposort]
  cases hl : levels pick (prepare g).length (prepare g) with
  | none => simp [hl] at this
  | some ls => exact ⟨ls.flatten, rfl⟩

/-- at most once: the attempts of a run over a duplicate-free order are duplicate-free, and a
component is attempted only if it was not in the broker, is in the graph, is registered and enabled -/
theorem attempt_once (w : World) (inG : Comp → Bool) (ss : Bool) (o : List Comp) (seed : Inst)
    (hn : o.Nodup) :
    let b := runComponents w inG ss o (Broker.seeded seed)
    b.attempts.Nodup ∧ b.attempts.Sublist o ∧
    ∀ c ∈ b.attempts, seed c = none ∧ inG c = true ∧ (w.decl c).isSome = true ∧ w.enabled c = true := by
  obtain ⟨l, hl, ha, hg⟩ := run_attempts w inG ss o (Broker.seeded seed)
  simp only [Broker.seeded, List.nil_append] at ha
  simp only [Broker.seeded] at hg
  intro b
  have hb : b.attempts = l := ha
  rw [hb]
  refine ⟨hl.nodup hn, hl, ?_⟩
  intro c hc
  obtain ⟨h1, h2⟩ := hg c hc
  refine ⟨?_, h2⟩
  simpa [present] using h1

/-- observers fire exactly once per item of the order, in order (run, skipped, failed or not attempted) -/
theorem fired_is_order (w : World) (inG : Comp → Bool) (ss : Bool) (o : List Comp) (seed : Inst) :
    (runComponents w inG ss o (Broker.seeded seed)).fired = o := by
  rw [run_fired]; simp [Broker.seeded]

theorem split_unique (c : Comp) : ∀ (p q r s : List Comp), c ∉ p → c ∉ q → p ++ c :: r = q ++ c :: s → p = q := by
  intro p
  induction p with
  | nil =>
    intro q r s _ hq e
    cases q with
    | nil => rfl
    | cons y ys => simp at e; exact absurd (by simp [e.1]) hq
  | cons x xs ih =>
    intro q r s hp hq e
    cases q with
    | nil => simp at e; exact absurd (by simp [e.1]) hp
    | cons y ys =>
      simp at e
      rw [e.1, ih ys r s (fun m => hp (by simp [m])) (fun m => hq (by simp [m])) e.2]

/-- never before its dependencies: when `c` is reached (order = pre ++ c :: post), every declared
dependency of `c` that takes part in the evaluation has already been fired (attempted: run,
skipped or failed) — for the order of `toposort`, whatever the tie-break. -/
theorem deps_attempted_first (w : World) (inG : Comp → Bool) (ss : Bool) (pick : List Comp → List Comp)
    (hp : ∀ l, (pick l).Perm l) (g : Graph) (hk : g.keys.Nodup) (o : List Comp)
    (h : toposort pick g = some o) (seed : Inst)
    (pre post : List Comp) (c : Comp) (ho : o = pre ++ c :: post)
    (ds : List Comp) (hc : (c, ds) ∈ g) (d : Comp) (hd : d ∈ ds) (hne : d ≠ c) :
    d ∈ (runComponents w inG ss pre (Broker.seeded seed)).fired := by
  obtain ⟨hnd, hs⟩ := toposort_sound pick hp g hk o h
  obtain ⟨_, hb⟩ := hs c ds hc
  obtain ⟨_, pre', post', ho', hpre'⟩ := hb d hd hne
  rw [run_fired]; simp only [Broker.seeded, List.nil_append]
  -- the split of a duplicate-free list at `c` is unique
  have : pre' = pre := by
    have hcn : c ∉ pre := by
      intro hm; rw [ho] at hnd
      exact (List.nodup_append.mp hnd).2.2 c hm c (by simp) rfl
    have hcn' : c ∉ pre' := by
      intro hm; rw [ho'] at hnd
      exact (List.nodup_append.mp hnd).2.2 c hm c (by simp) rfl
    have e : pre' ++ c :: post' = pre ++ c :: post := by rw [← ho', ← ho]
    exact split_unique c pre' pre post' post hcn' hcn e
  rw [← this]; exact hpre'

/-- a value supplied before the evaluation starts is never recomputed or overwritten -/
theorem seed_preserved (w : World) (inG : Comp → Bool) (ss : Bool) (o : List Comp) (seed : Inst)
    (c : Comp) (v : Val) (h : seed c = some v) :
    let b := runComponents w inG ss o (Broker.seeded seed)
    b.inst c = some v ∧ c ∉ b.attempts := by
  intro b
  constructor
  · have := run_inst_present w inG ss o (Broker.seeded seed) c (by simp [present, Broker.seeded, h])
    show (runComponents w inG ss o (Broker.seeded seed)).inst c = some v
    rw [this]; simpa [Broker.seeded] using h
  · obtain ⟨l, _, ha, hg⟩ := run_attempts w inG ss o (Broker.seeded seed)
    simp only [Broker.seeded, List.nil_append] at ha hg
    intro hm
    have hb : b.attempts = l := ha
    rw [hb] at hm
    have := (hg c hm).1
    simp [present, h] at this

/-- end to end: `dr.run` on a dict graph -/
theorem run_once_after_deps (w : World) (pick : List Comp → List Comp) (hp : ∀ l, (pick l).Perm l)
    (ss : Bool) (g : Graph) (hk : g.keys.Nodup) (seed : Inst) (b : Broker)
    (h : run w pick ss g seed = some b) :
    b.attempts.Nodup ∧ b.fired.Nodup ∧ (∀ c ∈ b.attempts, seed c = none ∧ c ∈ g.keys) ∧
    (∀ c v, seed c = some v → b.inst c = some v) := by
  unfold run at h
  simp only [Option.map_eq_some_iff] at h
  obtain ⟨o, ho, rfl⟩ := h
  obtain ⟨hnd, _⟩ := toposort_sound pick hp g hk o ho
  obtain ⟨a1, _, a3⟩ := attempt_once w (fun c => g.keys.contains c) ss o seed hnd
  refine ⟨a1, ?_, ?_, ?_⟩
  · rw [fired_is_order]; exact hnd
  · intro c hc
    obtain ⟨s1, s2, _⟩ := a3 c hc
    exact ⟨s1, by simpa using s2⟩
  · intro c v hv
    exact (seed_preserved w _ ss o seed c v hv).1

/-! ### the evaluation of a loaded archive (`SerializedArchiveContext` in the broker) -/

/-- what the loop does for a key that has a value: its dependencies are no keys afterwards -/
theorem archive_dep_pruned (seed : Inst) (g g' : Graph) (hk : g.keys.Nodup)
    (h : archivePrune seed g = some g') (c : Comp) (ds : List Comp) (hc : (c, ds) ∈ g)
    (hp : present seed c = true) (d : Comp) (hd : d ∈ ds) : d ∉ g'.keys := by
  have hck : c ∈ g.keys := by unfold Graph.keys; exact List.mem_map.mpr ⟨(c, ds), hc, rfl⟩
  obtain ⟨pre, post, hsplit⟩ := List.append_of_mem hck
  unfold archivePrune at h
  rw [hsplit, List.foldl_append, List.foldl_cons] at h
  -- the state before the step for `c`
  cases h1 : pre.foldl (archivePruneStep seed) (some g) with
  | none => rw [h1] at h; simp only [archivePruneStep, Option.bind_none] at h; rw [foldl_prune_none] at h; cases h
  | some g1 =>
    rw [h1] at h
    have hs1 : g1.Sublist g := foldl_prune_sublist seed g pre (some g) g1 (fun g2 h2 => by cases h2; exact List.Sublist.refl _) h1
    cases h2 : archivePruneStep seed (some g1) c with
    | none => rw [h2, foldl_prune_none] at h; cases h
    | some g2 =>
      rw [h2] at h
      have hs' : g'.Sublist g2 := foldl_prune_sublist seed g2 post (some g2) g' (fun g3 h3 => by cases h3; exact List.Sublist.refl _) h
      -- the step itself
      have hg2 : ∀ e ∈ g2, ds.contains e.1 = false := by
        unfold archivePruneStep at h2
        simp only [Option.bind_some, hp, if_true] at h2
        split at h2
        · rename_i kv hf
          simp only [Option.some.injEq] at h2
          have hkv : kv ∈ g1 := List.mem_of_find?_eq_some hf
          have hkc : kv.1 = c := by have := List.find?_some hf; simpa using this
          have hkv' : (c, kv.2) ∈ g := by rw [← hkc]; exact hs1.subset hkv
          have : kv.2 = ds := key_unique g hk c kv.2 ds hkv' hc
          intro e he
          rw [← h2, List.mem_filter] at he
          rw [← this]; simpa using he.2
        · cases h2
      intro hm
      unfold Graph.keys at hm
      obtain ⟨e, he, hed⟩ := List.mem_map.mp hm
      have := hg2 e (hs'.subset he)
      rw [hed] at this
      simp [hd] at this

/-- end to end for a loaded archive: what holds of `run` holds of `runArchive`, on the graph it was given -/
theorem runArchive_once_after_deps (w : World) (pick : List Comp → List Comp) (hp : ∀ l, (pick l).Perm l)
    (ss : Bool) (g : Graph) (hk : g.keys.Nodup) (seed : Inst) (b : Broker)
    (h : runArchive w pick ss g seed = some b) :
    b.attempts.Nodup ∧ b.fired.Nodup ∧ (∀ c ∈ b.attempts, seed c = none ∧ c ∈ g.keys) ∧
    (∀ c v, seed c = some v → b.inst c = some v) ∧
    (∀ c ds d, (c, ds) ∈ g → present seed c = true → d ∈ ds → d ∉ b.attempts) := by
  unfold runArchive at h
  cases hg : archivePrune seed g with
  | none => rw [hg] at h; cases h
  | some g' =>
    rw [hg] at h; simp only [Option.bind_some] at h
    have hs := archivePrune_sublist seed g g' hg
    have hk' := sublist_keys_nodup hs hk
    obtain ⟨a1, a2, a3, a4⟩ := run_once_after_deps w pick hp ss g' hk' seed b h
    refine ⟨a1, a2, ?_, a4, ?_⟩
    · intro c hc
      obtain ⟨s1, s2⟩ := a3 c hc
      refine ⟨s1, ?_⟩
      unfold Graph.keys at *
      exact ((hs.map _).subset) s2
    · intro c ds d hc hpc hd hm
      exact archive_dep_pruned seed g g' hk hg c ds hc hpc d hd (a3 d hm).2

/-! ### non-vacuity -/

private def exW : World where
  decl c := if c = 0 then some ⟨.datasource, [], []⟩ else if c = 1 then some ⟨.plugin, [.one 0], []⟩
            else if c = 2 then some ⟨.rule, [.one 1, .group [0, 3]], [3]⟩ else none
  enabled _ := true
  ignore _ := []
  regPoints _ := []
  body c args := if c = 1 then .fault .content else .value (.atom (c + args.length))
  elemBody _ _ := .noResult

private def exG : Graph := [(2, [1, 0, 3]), (1, [0]), (0, [])]

example : toposort id exG = some [0, 3, 1, 2] := by decide
example : ((run exW id true exG (fun c => if c = 3 then some (.atom 9) else none)).map (·.attempts)) = some [0, 1, 2] := by decide
example : ((run exW id true exG (fun c => if c = 3 then some (.atom 9) else none)).map (fun b => b.inst 2))
    = some (some (.skipResp [1] [])) := by decide
example : toposort id [(0, [1]), (1, [0])] = none := by decide
-- loaded archive: 1 has a value, its dependency 0 is pruned and not attempted; 2 is evaluated against it
example : archivePrune (fun c => if c = 1 then some (.atom 5) else none) exG = some [(2, [1, 0, 3]), (1, [0])] := by decide
example : ((runArchive exW id true exG (fun c => if c = 1 then some (.atom 5) else none)).map (·.attempts)) = some [2] := by decide
-- a loaded component whose loaded dependency was visited first: the dict look-up fails (KeyError)
example : archivePrune (fun c => if c = 1 ∨ c = 2 then some (.atom 5) else none) exG = none := by decide

end IV.Dr
