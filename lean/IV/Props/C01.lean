import IV.Lemmas.Dr
import IV.Lemmas.Toposort
import IV.Lemmas.DrArchive
import IV.Lemmas.DrWalk
/-!
C01 — components run at most once, and only after their dependencies were attempted.

All theorems hold for every `World` (every graph shape, any mix of required / at-least-one /
optional edges, every component body), every seed broker and every tie-break order `pick`
of the topological sort.
-/
namespace IV.Dr

/-- the order produced by the topological sort, for ANY iteration order of the emitted sets:
no item twice; every key and every dependency is in it; every dependency other than the item
itself comes strictly earlier. -/
theorem toposort_sound (pick : List Comp → List Comp) (hp : ∀ l, (pick l).Perm l)
    (g : Graph) (hk : g.keys.Nodup) (o : List Comp) (h : toposort pick g = some o) :
    o.Nodup ∧ ∀ c ds, (c, ds) ∈ g → c ∈ o ∧ ∀ d ∈ ds, d ≠ c → d ∈ o ∧ Before d c o := by
  unfold toposort at h
  simp only [Option.map_eq_some_iff] at h
  obtain ⟨ls, hl, rfl⟩ := h
  obtain ⟨h1, h2, h3⟩ := levels_sound pick hp _ _ ls (prepare_keys_nodup g hk) hl
  refine ⟨h3, ?_⟩
  intro c ds hm
  obtain ⟨hc, hb⟩ := h1 c _ (prepare_mem g c ds hm)
  refine ⟨hc, ?_⟩
  intro d hd hne
  have hbd := hb d (by simp [hd, hne])
  refine ⟨?_, hbd⟩
  obtain ⟨pre, post, ho, hpre⟩ := hbd
  rw [ho]; simp [hpre]

/-- a failure of the sort is a cyclic remainder, never fuel exhaustion -/
theorem toposort_fuel_irrelevant (pick : List Comp → List Comp) (g : Graph) (f : Nat)
    (hf : (prepare g).length ≤ f) :
    toposort pick g = (levels pick f (prepare g)).map List.flatten := by
  simp only [toposort]
  rw [levels_fuel pick _ f _ (Nat.le_refl _) hf]

/-- completeness: every acyclic graph (self-dependencies do not count, as in the code) IS sorted —
so the theorems below are not vacuous for any graph in the property's quantifier -/
theorem toposort_complete (pick : List Comp → List Comp) (g : Graph) (rank : Comp → Nat)
    (hr : ∀ c ds, (c, ds) ∈ g → ∀ d ∈ ds, d ≠ c → rank d < rank c) :
    ∃ o, toposort pick g = some o := by
  have := levels_complete pick rank (prepare g).length (prepare g) (Nat.le_refl _)
    (prepare_depsAreKeys g) (prepare_ranked rank g hr)
  simp only [toposort]
  cases hl : levels pick (prepare g).length (prepare g) with
  | none => simp [hl] at this
  | some ls => exact ⟨ls.flatten, rfl⟩

/-- at most once: the attempts of a run over a duplicate-free order are duplicate-free, and a
component is attempted only if it was not in the broker, is in the graph, is registered and enabled -/
theorem attempt_once (w : World) (inG : Comp → Bool) (ss : Bool) (o : List Comp) (seed : Inst)
    (hn : o.Nodup) :
    let b := runComponents w inG ss o (Broker.seeded seed)
    b.attempts.Nodup ∧ b.attempts.Sublist o ∧
    ∀ c ∈ b.attempts, seed c = none ∧ inG c = true ∧ (w.decl c).isSome = true ∧ w.enabled c = true := by
  obtain ⟨l, hl, ha, hg⟩ := run_attempts w inG ss o (Broker.seeded seed)
  simp only [Broker.seeded, List.nil_append] at ha
  simp only [Broker.seeded] at hg
  intro b
  have hb : b.attempts = l := ha
  rw [hb]
  refine ⟨hl.nodup hn, hl, ?_⟩
  intro c hc
  obtain ⟨h1, h2⟩ := hg c hc
  refine ⟨?_, h2⟩
  simpa [present] using h1

/-- observers fire exactly once per item of the order, in order (run, skipped, failed or not attempted) -/
theorem fired_is_order (w : World) (inG : Comp → Bool) (ss : Bool) (o : List Comp) (seed : Inst) :
    (runComponents w inG ss o (Broker.seeded seed)).fired = o := by
  rw [run_fired]; simp [Broker.seeded]

theorem split_unique (c : Comp) : ∀ (p q r s : List Comp), c ∉ p → c ∉ q → p ++ c :: r = q ++ c :: s → p = q := by
  intro p
  induction p with
  | nil =>
    intro q r s _ hq e
    cases q with
    | nil => rfl
    | cons y ys => simp at e; exact absurd (by simp [e.1]) hq
  | cons x xs ih =>
    intro q r s hp hq e
    cases q with
    | nil => simp at e; exact absurd (by simp [e.1]) hp
    | cons y ys =>
      simp at e
      rw [e.1, ih ys r s (fun m => hp (by simp [m])) (fun m => hq (by simp [m])) e.2]

/-- never before its dependencies: when `c` is reached (order = pre ++ c :: post), every declared
dependency of `c` that takes part in the evaluation has already been fired (attempted: run,
skipped or failed) — for the order of `toposort`, whatever the tie-break. -/
theorem deps_attempted_first (w : World) (inG : Comp → Bool) (ss : Bool) (pick : List Comp → List Comp)
    (hp : ∀ l, (pick l).Perm l) (g : Graph) (hk : g.keys.Nodup) (o : List Comp)
    (h : toposort pick g = some o) (seed : Inst)
    (pre post : List Comp) (c : Comp) (ho : o = pre ++ c :: post)
    (ds : List Comp) (hc : (c, ds) ∈ g) (d : Comp) (hd : d ∈ ds) (hne : d ≠ c) :
    d ∈ (runComponents w inG ss pre (Broker.seeded seed)).fired := by
  obtain ⟨hnd, hs⟩ := toposort_sound pick hp g hk o h
  obtain ⟨_, hb⟩ := hs c ds hc
  obtain ⟨_, pre', post', ho', hpre'⟩ := hb d hd hne
  rw [run_fired]; simp only [Broker.seeded, List.nil_append]
  -- the split of a duplicate-free list at `c` is unique
  have : pre' = pre := by
    have hcn : c ∉ pre := by
      intro hm; rw [ho] at hnd
      exact (List.nodup_append.mp hnd).2.2 c hm c (by simp) rfl
    have hcn' : c ∉ pre' := by
      intro hm; rw [ho'] at hnd
      exact (List.nodup_append.mp hnd).2.2 c hm c (by simp) rfl
    have e : pre' ++ c :: post' = pre ++ c :: post := by rw [← ho', ← ho]
    exact split_unique c pre' pre post' post hcn' hcn e
  rw [← this]; exact hpre'

/-- a value supplied before the evaluation starts is never recomputed or overwritten -/
theorem seed_preserved (w : World) (inG : Comp → Bool) (ss : Bool) (o : List Comp) (seed : Inst)
    (c : Comp) (v : Val) (h : seed c = some v) :
    let b := runComponents w inG ss o (Broker.seeded seed)
    b.inst c = some v ∧ c ∉ b.attempts := by
  intro b
  constructor
  · have := run_inst_present w inG ss o (Broker.seeded seed) c (by simp [present, Broker.seeded, h])
    show (runComponents w inG ss o (Broker.seeded seed)).inst c = some v
    rw [this]; simpa [Broker.seeded] using h
  · obtain ⟨l, _, ha, hg⟩ := run_attempts w inG ss o (Broker.seeded seed)
    simp only [Broker.seeded, List.nil_append] at ha hg
    intro hm
    have hb : b.attempts = l := ha
    rw [hb] at hm
    have := (hg c hm).1
    simp [present, h] at this

/-- end to end: `dr.run` on a dict graph -/
theorem run_once_after_deps (w : World) (pick : List Comp → List Comp) (hp : ∀ l, (pick l).Perm l)
    (ss : Bool) (g : Graph) (hk : g.keys.Nodup) (seed : Inst) (b : Broker)
    (h : run w pick ss g seed = some b) :
    b.attempts.Nodup ∧ b.fired.Nodup ∧ (∀ c ∈ b.attempts, seed c = none ∧ c ∈ g.keys) ∧
    (∀ c v, seed c = some v → b.inst c = some v) := by
  unfold run at h
  simp only [Option.map_eq_some_iff] at h
  obtain ⟨o, ho, rfl⟩ := h
  obtain ⟨hnd, _⟩ := toposort_sound pick hp g hk o ho
  obtain ⟨a1, _, a3⟩ := attempt_once w (fun c => g.keys.contains c) ss o seed hnd
  refine ⟨a1, ?_, ?_, ?_⟩
  · rw [fired_is_order]; exact hnd
  · intro c hc
    obtain ⟨s1, s2, _⟩ := a3 c hc
    exact ⟨s1, by simpa using s2⟩
  · intro c v hv
    exact (seed_preserved w _ ss o seed c v hv).1

/-! ### the evaluation of a loaded archive (`SerializedArchiveContext` in the broker) -/

/-- what the loop does for a key that has a value: its dependencies are no keys afterwards -/
theorem archive_dep_pruned (seed : Inst) (g g' : Graph) (hk : g.keys.Nodup)
    (h : archivePrune seed g = some g') (c : Comp) (ds : List Comp) (hc : (c, ds) ∈ g)
    (hp : present seed c = true) (d : Comp) (hd : d ∈ ds) : d ∉ g'.keys := by
  have hck : c ∈ g.keys := by unfold Graph.keys; exact List.mem_map.mpr ⟨(c, ds), hc, rfl⟩
  obtain ⟨pre, post, hsplit⟩ := List.append_of_mem hck
  unfold archivePrune at h
  rw [hsplit, List.foldl_append, List.foldl_cons] at h
  -- the state before the step for `c`
  cases h1 : pre.foldl (archivePruneStep seed) (some g) with
  | none => rw [h1] at h; simp only [archivePruneStep, Option.bind_none] at h; rw [foldl_prune_none] at h; cases h
  | some g1 =>
    rw [h1] at h
    have hs1 : g1.Sublist g := foldl_prune_sublist seed g pre (some g) g1 (fun g2 h2 => by cases h2; exact List.Sublist.refl _) h1
    cases h2 : archivePruneStep seed (some g1) c with
    | none => rw [h2, foldl_prune_none] at h; cases h
    | some g2 =>
      rw [h2] at h
      have hs' : g'.Sublist g2 := foldl_prune_sublist seed g2 post (some g2) g' (fun g3 h3 => by cases h3; exact List.Sublist.refl _) h
      -- the step itself
      have hg2 : ∀ e ∈ g2, ds.contains e.1 = false := by
        unfold archivePruneStep at h2
        simp only [Option.bind_some, hp, if_true] at h2
        split at h2
        · rename_i kv hf
          simp only [Option.some.injEq] at h2
          have hkv : kv ∈ g1 := List.mem_of_find?_eq_some hf
          have hkc : kv.1 = c := by have := List.find?_some hf; simpa using this
          have hkv' : (c, kv.2) ∈ g := by rw [← hkc]; exact hs1.subset hkv
          have : kv.2 = ds := key_unique g hk c kv.2 ds hkv' hc
          intro e he
          rw [← h2, List.mem_filter] at he
          rw [← this]; simpa using he.2
        · cases h2
      intro hm
      unfold Graph.keys at hm
      obtain ⟨e, he, hed⟩ := List.mem_map.mp hm
      have := hg2 e (hs'.subset he)
      rw [hed] at this
      simp [hd] at this

/-- end to end for a loaded archive: what holds of `run` holds of `runArchive`, on the graph it was given -/
theorem runArchive_once_after_deps (w : World) (pick : List Comp → List Comp) (hp : ∀ l, (pick l).Perm l)
    (ss : Bool) (g : Graph) (hk : g.keys.Nodup) (seed : Inst) (b : Broker)
    (h : runArchive w pick ss g seed = some b) :
    b.attempts.Nodup ∧ b.fired.Nodup ∧ (∀ c ∈ b.attempts, seed c = none ∧ c ∈ g.keys) ∧
    (∀ c v, seed c = some v → b.inst c = some v) ∧
    (∀ c ds d, (c, ds) ∈ g → present seed c = true → d ∈ ds → d ∉ b.attempts) := by
  unfold runArchive at h
  cases hg : archivePrune seed g with
  | none => rw [hg] at h; cases h
  | some g' =>
    rw [hg] at h; simp only [Option.bind_some] at h
    have hs := archivePrune_sublist seed g g' hg
    have hk' := sublist_keys_nodup hs hk
    obtain ⟨a1, a2, a3, a4⟩ := run_once_after_deps w pick hp ss g' hk' seed b h
    refine ⟨a1, a2, ?_, a4, ?_⟩
    · intro c hc
      obtain ⟨s1, s2⟩ := a3 c hc
      refine ⟨s1, ?_⟩
      unfold Graph.keys at *
      exact ((hs.map _).subset) s2
    · intro c ds d hc hpc hd hm
      exact archive_dep_pruned seed g g' hk hg c ds hc hpc d hd (a3 d hm).2

/-! ### graph construction from a component (`walk_dependencies`, `get_dependency_graph`) -/

/-- `get_dependency_graph` raises for a component that is not registered, and only then -/
theorem depgraph_unregistered (reg : Reg) (registered : Comp → Bool) (fuel : Nat) (root : Comp) :
    getDependencyGraph reg registered fuel root = none ↔ registered root = false := by
  unfold getDependencyGraph
  cases registered root <;> simp
  split <;> simp

/-- the graph of a component: distinct keys; EVERY component reachable from the root is a key and its
entry holds EVERY declared dependency of it and nothing else; there are no other keys.  (`rank` says
the registry is acyclic; any fuel above the rank of the root will do.) -/
theorem depgraph_edges (reg : Reg) (registered : Comp → Bool) (rank : Comp → Nat)
    (hr : ∀ p d, d ∈ reg p → rank d < rank p) (fuel : Nat) (root : Comp) (hf : rank root < fuel)
    (g : Graph) (h : getDependencyGraph reg registered fuel root = some g) :
    g.keys.Nodup ∧
    (∀ c, Reach reg root c → ∃ ds, (c, ds) ∈ g ∧ ∀ d, d ∈ ds ↔ d ∈ reg c) ∧
    (∀ c ds, (c, ds) ∈ g → Reach reg root c ∧ ∀ d ∈ ds, d ∈ reg c) := by
  unfold getDependencyGraph at h
  split at h
  · cases h
  · split at h
    · rename_i he
      have he' : reg root = [] := List.isEmpty_iff.mp he
      simp only [Option.some.injEq] at h; subst h
      refine ⟨by simp [Graph.keys], ?_, ?_⟩
      · intro c hc
        cases hc with
        | refl _ => exact ⟨[], by simp, by simp [he']⟩
        | head hd _ => rw [he'] at hd; simp at hd
      · intro c ds hm
        simp only [List.mem_singleton] at hm
        obtain ⟨rfl, rfl⟩ := Prod.mk.inj hm
        exact ⟨Reach.refl _, by simp⟩
    · rename_i hne
      simp only [Option.some.injEq] at h; subst h
      have hne' : reg root ≠ [] := fun e => hne (by simp [e])
      have hcomp := fun c hc d hd => visit_complete reg rank hr root c hc fuel d hf hd
      have hsound := visit_sound reg fuel root
      refine ⟨closeGraph_keys_nodup _ (by rw [graphOfEdges_keys]; exact dedup_nodup _), ?_, ?_⟩
      · intro c hc
        cases hrc : reg c with
        | nil =>
          rcases reach_parent hc with rfl | ⟨p, hp, hcp⟩
          · exact absurd hrc hne'
          · obtain ⟨dsp, hdsp⟩ := graphOfEdges_key _ p c (hcomp p hp c hcp)
            have hcd : c ∈ dsp := ((graphOfEdges_mem _ p dsp hdsp).2 c).mpr (hcomp p hp c hcp)
            have hnk : c ∉ (graphOfEdges (visit reg fuel root)).keys := by
              rw [graphOfEdges_keys, dedup_mem, List.mem_map]
              rintro ⟨⟨a, b⟩, hab, rfl⟩
              have := (hsound a b hab).2
              rw [hrc] at this; simp at this
            exact ⟨[], closeGraph_extra _ c hnk (p, dsp) hdsp hcd, by simp⟩
        | cons d0 rest =>
          have hd0 : d0 ∈ reg c := by rw [hrc]; simp
          obtain ⟨ds, hds⟩ := graphOfEdges_key _ c d0 (hcomp c hc d0 hd0)
          refine ⟨ds, closeGraph_mem_left _ _ hds, ?_⟩
          intro d
          rw [(graphOfEdges_mem _ c ds hds).2 d, ← hrc]
          exact ⟨fun hm => (hsound c d hm).2, fun hm => hcomp c hc d hm⟩
      · intro c ds hm
        rcases closeGraph_mem _ c ds hm with hm | ⟨rfl, _, kv, hkv, hckv⟩
        · obtain ⟨⟨d, hd⟩, hiff⟩ := graphOfEdges_mem _ c ds hm
          exact ⟨(hsound c d hd).1, fun d' hd' => (hsound c d' ((hiff d').mp hd')).2⟩
        · have he := ((graphOfEdges_mem _ kv.1 kv.2 hkv).2 c).mp hckv
          obtain ⟨h1, h2⟩ := hsound kv.1 c he
          exact ⟨reach_step h1 h2, by simp⟩

/-- the graph of a component IS sorted (the registry being acyclic), for every tie-break -/
theorem walk_sort_exists (reg : Reg) (registered : Comp → Bool) (rank : Comp → Nat)
    (hr : ∀ p d, d ∈ reg p → rank d < rank p) (fuel : Nat) (root : Comp) (hf : rank root < fuel)
    (g : Graph) (h : getDependencyGraph reg registered fuel root = some g) (pick : List Comp → List Comp) :
    ∃ o, toposort pick g = some o := by
  obtain ⟨_, _, h3⟩ := depgraph_edges reg registered rank hr fuel root hf g h
  exact toposort_complete pick g rank (fun c ds hm d hd _ => hr c d ((h3 c ds hm).2 d hd))

/-- walk + extra items + sort: in the run order of the graph of a component every reachable component
appears once, after every one of its declared dependencies — for every tie-break order -/
theorem walk_sort_after_deps (reg : Reg) (registered : Comp → Bool) (rank : Comp → Nat)
    (hr : ∀ p d, d ∈ reg p → rank d < rank p) (fuel : Nat) (root : Comp) (hf : rank root < fuel)
    (g : Graph) (h : getDependencyGraph reg registered fuel root = some g)
    (pick : List Comp → List Comp) (hp : ∀ l, (pick l).Perm l) (o : List Comp) (ho : toposort pick g = some o) :
    o.Nodup ∧ ∀ c, Reach reg root c → c ∈ o ∧ ∀ d ∈ reg c, Before d c o := by
  obtain ⟨h1, h2, _⟩ := depgraph_edges reg registered rank hr fuel root hf g h
  obtain ⟨hnd, hs⟩ := toposort_sound pick hp g h1 o ho
  refine ⟨hnd, ?_⟩
  intro c hc
  obtain ⟨ds, hds, hiff⟩ := h2 c hc
  obtain ⟨hco, hb⟩ := hs c ds hds
  refine ⟨hco, ?_⟩
  intro d hd
  have hne : d ≠ c := by intro e; have := hr c d hd; rw [e] at this; omega
  exact (hb d ((hiff d).mpr hd) hne).2

/-- the LEVELS of the sort (what `toposort` yields, one set per pass): every key is on some level and each
of its dependencies (other than itself) on a strictly earlier one -/
theorem toposort_levels_strict (pick : List Comp → List Comp) (hp : ∀ l, (pick l).Perm l)
    (g : Graph) (hk : g.keys.Nodup) (ls : List (List Comp))
    (h : levels pick (prepare g).length (prepare g) = some ls) (c : Comp) (ds : List Comp) (hc : (c, ds) ∈ g) :
    ∃ i, levelOf c ls = some i ∧ ∀ d ∈ ds, d ≠ c → ∃ j, levelOf d ls = some j ∧ j < i := by
  obtain ⟨i, hi, hd⟩ := levels_strict pick hp _ _ ls (prepare_keys_nodup g hk) h c _ (prepare_mem g c ds hc)
  exact ⟨i, hi, fun d hdd hne => hd d (by simp [hdd, hne])⟩

/-- … and so for the graph of a component: a component is on a later level than each of its dependencies -/
theorem walk_levels_strict (reg : Reg) (registered : Comp → Bool) (rank : Comp → Nat)
    (hr : ∀ p d, d ∈ reg p → rank d < rank p) (fuel : Nat) (root : Comp) (hf : rank root < fuel)
    (g : Graph) (h : getDependencyGraph reg registered fuel root = some g)
    (pick : List Comp → List Comp) (hp : ∀ l, (pick l).Perm l) (ls : List (List Comp))
    (hl : levels pick (prepare g).length (prepare g) = some ls) (c : Comp) (hc : Reach reg root c) :
    ∃ i, levelOf c ls = some i ∧ ∀ d ∈ reg c, ∃ j, levelOf d ls = some j ∧ j < i := by
  obtain ⟨h1, h2, _⟩ := depgraph_edges reg registered rank hr fuel root hf g h
  obtain ⟨ds, hds, hiff⟩ := h2 c hc
  obtain ⟨i, hi, hd⟩ := toposort_levels_strict pick hp g h1 ls hl c ds hds
  refine ⟨i, hi, fun d hdd => hd d ((hiff d).mpr hdd) ?_⟩
  intro e; have := hr c d hdd; rw [e] at this; omega

/-- `determine_components` on a list: one unregistered member makes the whole call raise -/
theorem determine_unregistered (reg : Reg) (registered : Comp → Bool) (fuel : Nat) (cs : List Comp)
    (c : Comp) (hc : c ∈ cs) (hu : registered c = false) : determineList reg registered fuel cs = none := by
  unfold determineList
  have hnone : ∀ (l : List Comp), l.foldl (fun acc c => acc.bind fun g =>
      (getDependencyGraph reg registered fuel c).map (dictUpdate g)) none = none := by
    intro l; induction l with
    | nil => rfl
    | cons a as ih => simpa using ih
  obtain ⟨pre, post, rfl⟩ := List.append_of_mem hc
  rw [List.foldl_append, List.foldl_cons]
  have : (getDependencyGraph reg registered fuel c) = none := (depgraph_unregistered reg registered fuel c).mpr hu
  rw [this]
  cases (pre.foldl (fun acc c => acc.bind fun g =>
      (getDependencyGraph reg registered fuel c).map (dictUpdate g)) (some [])) <;> simpa using hnone post

/-- `determine_components` on a list / set of components: distinct keys; every entry belongs to a component
reachable from one of them and holds exactly its declared dependencies; every reachable component is a key —
whatever the order of the list, whatever the components share -/
theorem determine_edges (reg : Reg) (registered : Comp → Bool) (rank : Comp → Nat)
    (hr : ∀ p d, d ∈ reg p → rank d < rank p) (fuel : Nat) (cs : List Comp) (hf : ∀ c ∈ cs, rank c < fuel)
    (g : Graph) (h : determineList reg registered fuel cs = some g) : GoodFor reg cs g := by
  have gen : ∀ (cs seen : List Comp) (g0 g' : Graph), GoodFor reg seen g0 → (∀ c ∈ cs, rank c < fuel) →
      cs.foldl (fun acc c => acc.bind fun g => (getDependencyGraph reg registered fuel c).map (dictUpdate g)) (some g0) = some g' →
      GoodFor reg (seen ++ cs) g' := by
    intro cs
    induction cs with
    | nil => intro seen g0 g' h0 _ he; simp only [List.foldl_nil, Option.some.injEq] at he; subst he; simpa using h0
    | cons r t ih =>
      intro seen g0 g' h0 hfu he
      rw [List.foldl_cons] at he
      cases hgr : getDependencyGraph reg registered fuel r with
      | none =>
        simp only [Option.bind_some, hgr, Option.map_none] at he
        rw [determine_foldl_none] at he; cases he
      | some gr =>
        simp only [Option.bind_some, hgr, Option.map_some] at he
        obtain ⟨e1, e2, e3⟩ := depgraph_edges reg registered rank hr fuel r (hfu r (by simp)) gr hgr
        have hstep := goodFor_step reg seen g0 gr r h0 e1 e2 (fun c ds hm => (e3 c ds hm).1)
        have := ih (seen ++ [r]) _ g' hstep (fun c hc => hfu c (by simp [hc])) he
        simpa [List.append_assoc] using this
  have h0 : GoodFor reg [] [] := ⟨by simp [Graph.keys], by simp, by simp⟩
  have := gen cs [] [] g h0 hf h
  simpa using this

/-- … so the run order of that graph has every reachable component once, after its declared dependencies -/
theorem determine_sort_after_deps (reg : Reg) (registered : Comp → Bool) (rank : Comp → Nat)
    (hr : ∀ p d, d ∈ reg p → rank d < rank p) (fuel : Nat) (cs : List Comp) (hf : ∀ c ∈ cs, rank c < fuel)
    (g : Graph) (h : determineList reg registered fuel cs = some g)
    (pick : List Comp → List Comp) (hp : ∀ l, (pick l).Perm l) (o : List Comp) (ho : toposort pick g = some o) :
    o.Nodup ∧ ∀ r ∈ cs, ∀ c, Reach reg r c → c ∈ o ∧ ∀ d ∈ reg c, Before d c o := by
  obtain ⟨h1, h2, h3⟩ := determine_edges reg registered rank hr fuel cs hf g h
  obtain ⟨hnd, hs⟩ := toposort_sound pick hp g h1 o ho
  refine ⟨hnd, ?_⟩
  intro r hrc c hc
  obtain ⟨ds, hds⟩ := (mem_keys_iff g c).mp (h3 r hrc c hc)
  obtain ⟨hco, hb⟩ := hs c ds hds
  refine ⟨hco, ?_⟩
  intro d hd
  have hne : d ≠ c := by intro e; have := hr c d hd; rw [e] at this; omega
  exact (hb d (((h2 c ds hds).2 d).mpr hd) hne).2

/-- a dependency added LATE (`dr.add_dependency(c, d)` between two registered components): every graph built afterwards
from a root that reaches `c` has `d` as a key, has it in the entry of `c`, and sorts it before `c` — nothing computed
before the call may stand in for the walk -/
theorem late_dependency_in_graph (reg : Reg) (registered : Comp → Bool) (rank : Comp → Nat) (c d : Comp)
    (hr : ∀ p x, x ∈ addDep reg c d p → rank x < rank p) (fuel : Nat) (root : Comp) (hf : rank root < fuel)
    (g : Graph) (h : getDependencyGraph (addDep reg c d) registered fuel root = some g)
    (hc : Reach (addDep reg c d) root c)
    (pick : List Comp → List Comp) (hp : ∀ l, (pick l).Perm l) (o : List Comp) (ho : toposort pick g = some o) :
    d ∈ g.keys ∧ (∃ ds, (c, ds) ∈ g ∧ d ∈ ds) ∧ Before d c o := by
  have hd : d ∈ addDep reg c d c := by simp [addDep]
  obtain ⟨_, h2, _⟩ := depgraph_edges (addDep reg c d) registered rank hr fuel root hf g h
  obtain ⟨ds, hds, hiff⟩ := h2 c hc
  obtain ⟨ds', hds', _⟩ := h2 d (reach_step hc hd)
  refine ⟨(mem_keys_iff g d).mpr ⟨ds', hds'⟩, ⟨ds, hds, (hiff d).mpr hd⟩, ?_⟩
  exact ((walk_sort_after_deps (addDep reg c d) registered rank hr fuel root hf g h pick hp o ho).2 c hc).2 d hd

/-! non-vacuity: a diamond with a shared leaf (0), a component without dependencies, an unregistered one -/
private def exReg : Reg := fun c => if c = 3 then [2, 1, 0] else if c = 2 then [0, 1] else if c = 1 then [0] else []
private def exRegd : Comp → Bool := fun c => c < 5

example : getDependencyGraph exReg exRegd 4 3 = some [(2, [0, 1]), (1, [0]), (3, [2, 1, 0]), (0, [])] := by decide
example : getDependencyGraph exReg exRegd 4 0 = some [(0, [])] := by decide
example : getDependencyGraph exReg exRegd 4 7 = none := by decide
example : ∀ p, p < 5 → ∀ d ∈ exReg p, d < p := by decide
example : Reach exReg 3 0 := Reach.head (d := 2) (by decide) (Reach.head (d := 1) (by decide) (Reach.head (d := 0) (by decide) (Reach.refl 0)))
example : (getDependencyGraph exReg exRegd 4 3).bind (toposort id) = some [0, 1, 2, 3] := by decide
example : levels id 4 (prepare [(3, [2, 1, 0]), (2, [0, 1]), (1, [0]), (0, [])]) = some [[0], [1], [2], [3]] := by decide
example : levelOf 2 [[0], [1], [2], [3]] = some 2 ∧ levelOf 0 [[0], [1], [2], [3]] = some 0 := by decide
example : determineList exReg exRegd 4 [1, 2] = some [(1, [0]), (0, []), (2, [0, 1])] := by decide
example : determineList exReg exRegd 4 [1, 7] = none := by decide
-- late dependency 4 of component 2 (4 was registered, with no dependencies): the graph of 3 now has it
example : (getDependencyGraph (addDep exReg 2 4) exRegd 6 3).map (fun g => (g.keys.contains 4, g.contains (2, [0, 1, 4]))) = some (true, true) := by decide
example : ((getDependencyGraph (addDep exReg 2 4) exRegd 6 3).bind (toposort id)).map (fun o => decide (o.idxOf 4 < o.idxOf 2)) = some true := by decide

/-! ### non-vacuity -/

private def exW : World where
  decl c := if c = 0 then some ⟨.datasource, [], []⟩ else if c = 1 then some ⟨.plugin, [.one 0], []⟩
            else if c = 2 then some ⟨.rule, [.one 1, .group [0, 3]], [3]⟩ else none
  enabled _ := true
  ignore _ := []
  regPoints _ := []
  body c args := if c = 1 then .fault .content else .value (.atom (c + args.length))
  elemBody _ _ := .noResult

private def exG : Graph := [(2, [1, 0, 3]), (1, [0]), (0, [])]

example : toposort id exG = some [0, 3, 1, 2] := by decide
example : ((run exW id true exG (fun c => if c = 3 then some (.atom 9) else none)).map (·.attempts)) = some [0, 1, 2] := by decide
example : ((run exW id true exG (fun c => if c = 3 then some (.atom 9) else none)).map (fun b => b.inst 2))
    = some (some (.skipResp [1] [])) := by decide
example : toposort id [(0, [1]), (1, [0])] = none := by decide
-- loaded archive: 1 has a value, its dependency 0 is pruned and not attempted; 2 is evaluated against it
example : archivePrune (fun c => if c = 1 then some (.atom 5) else none) exG = some [(2, [1, 0, 3]), (1, [0])] := by decide
example : ((runArchive exW id true exG (fun c => if c = 1 then some (.atom 5) else none)).map (·.attempts)) = some [2] := by decide
-- a loaded component whose loaded dependency was visited first: the dict look-up fails (KeyError)
example : archivePrune (fun c => if c = 1 ∨ c = 2 then some (.atom 5) else none) exG = none := by decide

end IV.Dr
