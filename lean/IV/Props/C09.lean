import IV.Lemmas.CleanReport
/-!
C09 — obfuscation is a consistent mapping, injective for IPs and hosts, and reported.

Every theorem is about `IV.CleanState.runHistory`, the model of an arbitrary sequence of
`clean_content` calls (any lines, any `no_obfuscate` / `no_redact` / allow list per call) on ONE `Cleaner`
with an arbitrary configuration, for EVERY recogniser (`Env`: what `re` finds is a parameter) and every
hash function whose digests are hexadecimal (`HexDigest`).
-/
namespace IV.CleanState

/-- recognisers for the examples: every line "contains" the given addresses / host names -/
def witnessEnv0 (found : List Str) : Env :=
  ⟨fun _ => found, fun _ => [], fun _ => [], fun _ => false, fun _ => [], fun _ => false, fun _ => [], id, {}⟩
def hostEnv0 : Env :=
  ⟨fun _ => [], fun _ => ["a.d".toList, "b.d".toList], fun _ => [], fun _ => false, fun _ => [], fun _ => false,
   fun _ => "0123456789abcdef".toList, id, {}⟩

/-- state reached from a fresh `Cleaner` by a history of calls -/
def after (E : Env) (cfg : Cfg) (h : List Call) : St := (runHistory E cfg (initSt E cfg) h).1

/-- the database invariant holds after every history -/
theorem history_invariant (E : Env) (cfg : Cfg) (hE : HexDigest E) (h : List Call) : Inv E cfg (after E cfg h) :=
  (runHistory_pres E cfg hE h _ (initSt_inv E cfg)).1

/-- a longer history only EXTENDS every database (and every `mapping()` list): nothing is changed or dropped -/
theorem db_grows (E : Env) (cfg : Cfg) (hE : HexDigest E) (h1 h2 : List Call) :
    Ext (after E cfg h1) (after E cfg (h1 ++ h2)) := by
  unfold after
  rw [runHistory_append]
  exact (runHistory_pres E cfg hE h2 _ (history_invariant E cfg hE h1)).2

/-- **db_functional** — an original once mapped keeps its substitute forever: after any continuation of the
history the entry is still there AND the look-up the code performs (`_ip2db` / `_hn2db` scan the values,
`_mac2db` / IPv6 `_ip2db` index the keys) returns the same substitute. -/
theorem db_functional (E : Env) (cfg : Cfg) (hE : HexDigest E) (h1 h2 : List Call) :
    (∀ k v, (k, v) ∈ (after E cfg h1).ipDb →
        (k, v) ∈ (after E cfg (h1 ++ h2)).ipDb ∧ lastKeyOf (after E cfg (h1 ++ h2)).ipDb v = some k) ∧
    (∀ k v, (k, v) ∈ (after E cfg h1).hnDb →
        (k, v) ∈ (after E cfg (h1 ++ h2)).hnDb ∧ lastKeyOf (after E cfg (h1 ++ h2)).hnDb v = some k) ∧
    (∀ o s, (o, s) ∈ (after E cfg h1).macDb → dictGet (after E cfg (h1 ++ h2)).macDb o = some s) ∧
    (∀ o s, (o, s) ∈ (after E cfg h1).ip6Db → dictGet (after E cfg (h1 ++ h2)).ip6Db o = some s) := by
  have ext := db_grows E cfg hE h1 h2
  have inv := history_invariant E cfg hE (h1 ++ h2)
  refine ⟨?_, ?_, ?_, ?_⟩
  · intro k v hm
    have := ext.ip.subset hm
    exact ⟨this, lastKeyOf_of_mem _ _ _ inv.ipVals this⟩
  · intro k v hm
    have := ext.hn.subset hm
    exact ⟨this, lastKeyOf_of_mem _ _ _ inv.hnVals this⟩
  · intro o s hm
    exact dictGet_of_mem _ _ _ inv.macKeys (ext.mac.subset hm)
  · intro o s hm
    exact dictGet_of_mem _ _ _ inv.ip6Keys (ext.ip6.subset hm)

example : (after ⟨fun _ => ["1.2.3.4".toList], fun _ => [], fun _ => [], fun _ => false, fun _ => [],
    fun _ => false, fun _ => [], id, {}⟩ ⟨"h.d".toList, true, false, false, false, [], []⟩
    [⟨[], false, none, ["x".toList]⟩]).ipDb = [(startIp, 16909060)] := by decide

/-- the issued IPv4 substitutes are EXACTLY `start, start+1, …` in order of issue (`max + 1` is the next
unused address), so they stay inside the address space as long as fewer than `2^32 - start`
(= 4 112 325 119) distinct originals were met — beyond that `_int2ip` raises in the real code -/
theorem ip_keys_range (E : Env) (cfg : Cfg) (hE : HexDigest E) (h : List Call) :
    (after E cfg h).ipDb.map Prod.fst = List.range' startIp (after E cfg h).ipDb.length ∧
    ((after E cfg h).ipDb.length ≤ 2 ^ 32 - startIp → ∀ p ∈ (after E cfg h).ipDb, startIp ≤ p.1 ∧ p.1 < 2 ^ 32) := by
  have inv := history_invariant E cfg hE h
  refine ⟨inv.ipKeys, ?_⟩
  intro hb p hp
  have : p.1 ∈ (after E cfg h).ipDb.map Prod.fst := List.mem_map.mpr ⟨_, hp, rfl⟩
  rw [inv.ipKeys, mem_range'_1] at this
  have : startIp < 2 ^ 32 := by decide
  omega

/-- **db_injective_ip** — after every history: two entries with different originals have different
substitutes, and two entries with different substitutes have different originals (a bijection between the
originals met and the addresses issued) -/
theorem db_injective_ip (E : Env) (cfg : Cfg) (hE : HexDigest E) (h : List Call) (p q : Nat × Nat)
    (hp : p ∈ (after E cfg h).ipDb) (hq : q ∈ (after E cfg h).ipDb) :
    (p.2 ≠ q.2 → p.1 ≠ q.1) ∧ (p.1 ≠ q.1 → p.2 ≠ q.2) := by
  have inv := history_invariant E cfg hE h
  have hk : ((after E cfg h).ipDb.map Prod.fst).Nodup := by rw [inv.ipKeys]; exact List.nodup_range'
  constructor
  · intro hne e; exact hne (by rw [nodup_pair _ hk p q hp hq e])
  · intro hne e; exact hne (by rw [nodup_pair_snd _ inv.ipVals p q hp hq e])

/-- **db_injective_host** — after every history: different original host names have different substitutes
and vice versa.  Counter names `host<N>.example.com` are fresh because `N` only grows and decimal rendering
is injective; none can equal the system's hashed name because that starts with a hexadecimal digit. -/
theorem db_injective_host (E : Env) (cfg : Cfg) (hE : HexDigest E) (h : List Call) (p q : Str × Str)
    (hp : p ∈ (after E cfg h).hnDb) (hq : q ∈ (after E cfg h).hnDb) :
    (p.2 ≠ q.2 → p.1 ≠ q.1) ∧ (p.1 ≠ q.1 → p.2 ≠ q.2) := by
  have inv := history_invariant E cfg hE h
  have hk : ((after E cfg h).hnDb.map Prod.fst).Nodup := by rw [inv.hnKeys]; exact hostKeys_nodup E cfg hE _
  constructor
  · intro hne e; exact hne (by rw [nodup_pair _ hk p q hp hq e])
  · intro hne e; exact hne (by rw [nodup_pair_snd _ inv.hnVals p q hp hq e])

/-- two originals on one line, met again in a second call: two entries, consecutive substitutes, no third entry -/
example : (after (witnessEnv0 ["1.2.3.4".toList, "9.9.9.9".toList]) ⟨"h.d".toList, true, false, false, false, [], []⟩
    [⟨[], false, none, ["x".toList]⟩, ⟨[], false, none, ["y".toList]⟩]).ipDb =
    [(startIp, 16909060), (startIp + 1, 151587081)] := by decide

/-- the hypothesis on the hash is satisfiable, and host names get `host2`, `host3` after the system's entry -/
example : HexDigest hostEnv0 ∧
    (after hostEnv0 ⟨"h.d".toList, true, false, true, false, [], []⟩ [⟨[], false, none, ["x".toList, "y".toList]⟩]).hnDb =
    [("0123456789ab.example.com".toList, "h.d".toList), ("host2.example.com".toList, "a.d".toList),
     ("host3.example.com".toList, "b.d".toList)] := by
  refine ⟨?_, by decide⟩
  intro s c hc
  simp only [hostEnv0] at hc
  revert c
  decide

/-- the same for the TEXT that appears in outputs and reports: as long as the address space is not exhausted
(fewer than `2^32 - start` originals), different originals are shown as different dotted quads
(`inet_ntoa` is injective on 32-bit values: `ip2int_int2ip`) -/
theorem db_injective_ip_text (E : Env) (cfg : Cfg) (hE : HexDigest E) (h : List Call)
    (hb : (after E cfg h).ipDb.length ≤ 2 ^ 32 - startIp) (p q : Nat × Nat)
    (hp : p ∈ (after E cfg h).ipDb) (hq : q ∈ (after E cfg h).ipDb) (hne : p.2 ≠ q.2) :
    int2ip p.1 ≠ int2ip q.1 := by
  have hr := (ip_keys_range E cfg hE h).2 hb
  intro e
  exact (db_injective_ip E cfg hE h p q hp hq).1 hne (int2ip_inj _ _ (hr p hp).2 (hr q hq).2 e)

/-- the shape of the host substitutes: the system's hashed entry (when the obfuscator exists) followed by
`host<c0+1>`, `host<c0+2>`, … `.example.com` without gaps -/
theorem host_keys_shape (E : Env) (cfg : Cfg) (hE : HexDigest E) (h : List Call) :
    (after E cfg h).hnDb.map Prod.fst = hostKeys E cfg (after E cfg h).hnCount :=
  (history_invariant E cfg hE h).hnKeys

/-- MAC and IPv6: one substitute per original (the property claims no injectivity for them) -/
theorem db_single_valued_mac (E : Env) (cfg : Cfg) (hE : HexDigest E) (h : List Call) (p q : Str × Str)
    (hp : p ∈ (after E cfg h).macDb) (hq : q ∈ (after E cfg h).macDb) (e : p.1 = q.1) : p.2 = q.2 := by
  rw [nodup_pair _ (history_invariant E cfg hE h).macKeys p q hp hq e]

/-- **mapping_exact** — `mapping()` is the database, entry for entry; every listed original was handed to
the database routine by a recogniser on some processed line (ghost log `found*`) or is the system's own
name; and every original so handed over is listed. -/
theorem mapping_exact (E : Env) (cfg : Cfg) (hE : HexDigest E) (h : List Call) :
    let st := after E cfg h
    (ipMapping st = st.ipDb.map (fun kv => (int2ip kv.2, int2ip kv.1)) ∧
     hostMapping st = st.hnDb.map (fun kv => (kv.2, kv.1)) ∧ macMapping st = st.macDb) ∧
    (∀ p ∈ st.ipDb, p.2 ∈ st.foundIp) ∧ (∀ o ∈ st.foundIp, ∃ k, (k, o) ∈ st.ipDb) ∧
    (∀ p ∈ st.hnDb, p.2 = cfg.fqdn ∨ p.2 ∈ st.foundHost) ∧ (∀ o ∈ st.foundHost, ∃ k, (k, o) ∈ st.hnDb) ∧
    (∀ p ∈ st.macDb, p.1 ∈ st.foundMac) ∧ (∀ o ∈ st.foundMac, ∃ s, (o, s) ∈ st.macDb) := by
  intro st
  have inv := history_invariant E cfg hE h
  refine ⟨⟨rfl, rfl, rfl⟩, ?_, ?_, ?_, ?_, ?_, ?_⟩
  · intro p hp; exact inv.ipFoundSub _ (List.mem_map.mpr ⟨_, hp, rfl⟩)
  · intro o ho
    obtain ⟨p, hp, e⟩ := List.mem_map.mp (inv.ipFoundSup o ho)
    exact ⟨p.1, by rw [← e]; exact hp⟩
  · intro p hp; exact inv.hnFoundSub _ (List.mem_map.mpr ⟨_, hp, rfl⟩)
  · intro o ho
    obtain ⟨p, hp, e⟩ := List.mem_map.mp (inv.hnFoundSup o ho)
    exact ⟨p.1, by rw [← e]; exact hp⟩
  · intro p hp; exact inv.macFoundSub _ (List.mem_map.mpr ⟨_, hp, rfl⟩)
  · intro o ho
    obtain ⟨p, hp, e⟩ := List.mem_map.mp (inv.macFoundSup o ho)
    exact ⟨p.2, by rw [← e]; exact hp⟩

/-- where the ghost log comes from: one IPv4 stage logs exactly the addresses the recogniser returned on
THAT line (longest first, `127.0.0.1` skipped) -/
theorem ipStage_found (E : Env) (st : St) (line : Str) :
    (ipStage E st line).1.foundIp =
      st.foundIp ++ ((sortByLenDesc (E.findIp line)).filter (fun ip => !ipIgnore.contains ip)).map ip2int := by
  unfold ipStage
  generalize sortByLenDesc (E.findIp line) = ips
  have key : ∀ (ips : List Str) (sl : St × Str), (ips.foldl ipStep sl).1.foundIp =
      sl.1.foundIp ++ (ips.filter (fun ip => !ipIgnore.contains ip)).map ip2int := by
    intro ips
    induction ips with
    | nil => intro sl; simp
    | cons ip rest ih =>
      intro sl
      simp only [List.foldl_cons]
      rw [ih]
      by_cases hi : ipIgnore.contains ip = true
      · rw [ipStep_ignored _ _ hi, List.filter_cons, if_neg (by rw [hi]; simp)]
      · rw [ipStep_eq _ _ hi, List.filter_cons, if_pos (by simpa using hi)]
        simp
  exact key ips (st, line)

/-- the host stage logs exactly what the host-name recogniser returned on that line -/
theorem hostStage_found (E : Env) (cfg : Cfg) (st : St) (line : Str) :
    (hostStage E cfg st line).1.foundHost =
      st.foundHost ++ (if (domainOf cfg).isSome then E.findHost line else []) := by
  have hstep : ∀ (hs : List Str) (sl : St × Str),
      (hs.foldl (hostStep cfg) sl).1.foundHost = sl.1.foundHost ++ hs := by
    intro hs
    induction hs with
    | nil => intro sl; simp
    | cons x xs ih =>
      intro sl
      simp only [List.foldl_cons]
      rw [ih]
      have : (hostStep cfg sl x).1.foundHost = sl.1.foundHost ++ [x] := by
        simp only [hostStep, hn2db]
        split <;> rfl
      rw [this]; simp
  have hfin : ∀ s : St, (hn2db cfg s cfg.fqdn).1.foundHost = s.foundHost := by
    intro s; simp only [hn2db]; split <;> rfl
  unfold hostStage
  simp only [hfin]
  unfold dnDb
  cases domainOf cfg with
  | none => simp
  | some d => simp [hstep]

/-! ### what the output text shows

The full statement — every found original is shown as its database substitute — is FALSE of the current
code: a replacement can hit text that an earlier replacement of the same line inserted.  The model of the
real stage is compared with a provenance-respecting stage `ipStageT` in which substituted text is opaque. -/

/-- the provenance-respecting stage never loses or alters original text: erasing the substitutions gives
back the line that entered the stage -/
theorem ipStageT_source (ips : List Str) (sl : St × List Seg) :
    source (ips.foldl ipStepT sl).2 = source sl.2 := by
  induction ips generalizing sl with
  | nil => rfl
  | cons ip rest ih =>
    simp only [List.foldl_cons]
    rw [ih]
    by_cases h : ipIgnore.contains ip = true
    · rw [ipStepT_ignored _ _ h]
    · rw [ipStepT_eq _ _ h]; exact (source_replT _ _ _ 0).1 rfl

/-- **text_consistent_partial** (IPv4 stage, any line, any state reachable in a history).  If no replacement
of the line touches text that an earlier replacement of the same line inserted (`noCollision`), then the
real output is the rendering of a segmentation of the INPUT line in which every replaced piece is an
original handed to the database and is shown as exactly the substitute the database holds for it (and, by
`db_functional`, will hold forever). -/
theorem text_consistent_partial (E : Env) (cfg : Cfg) (st : St) (line : Str) (hi : Inv E cfg st)
    (hc : noCollision (st, line.map Seg.ch) (sortByLenDesc (E.findIp line)) = true) :
    ∃ segs : List Seg, source segs = line ∧ render segs = (ipStage E st line).2 ∧
      SubsOk (ipStage E st line).1.ipDb segs := by
  have hsrc : ∀ l : Str, source (l.map Seg.ch) = l := by
    intro l; induction l with
    | nil => rfl
    | cons c cs ih => simp [source, ih]
  have hren : ∀ l : Str, render (l.map Seg.ch) = l := by
    intro l; induction l with
    | nil => rfl
    | cons c cs ih => simp [render, ih]
  have key : ∀ (ips : List Str) (sl : St × List Seg), Inv E cfg sl.1 → SubsOk sl.1.ipDb sl.2 →
      noCollision sl ips = true →
      (ips.foldl ipStep (sl.1, render sl.2)).1 = (ips.foldl ipStepT sl).1 ∧
      (ips.foldl ipStep (sl.1, render sl.2)).2 = render (ips.foldl ipStepT sl).2 ∧
      SubsOk (ips.foldl ipStepT sl).1.ipDb (ips.foldl ipStepT sl).2 := by
    intro ips
    induction ips with
    | nil => intro sl _ hs _; exact ⟨rfl, rfl, hs⟩
    | cons ip rest ih =>
      intro sl hinv hs hnc
      simp only [List.foldl_cons]
      simp only [noCollision, Bool.and_eq_true, beq_iff_eq] at hnc
      obtain ⟨h1, h2⟩ := hnc
      have hst := ipStepT_fst sl ip
      have e : ipStep (sl.1, render sl.2) ip = ((ipStepT sl ip).1, render (ipStepT sl ip).2) := by
        rw [hst, ← h1]
      rw [e]
      refine ih (ipStepT sl ip) ?_ (ipStepT_subsOk E cfg sl ip hinv hs) h2
      rw [hst]; exact (ipStep_pres E cfg (sl.1, render sl.2) ip hinv).1
  have := key (sortByLenDesc (E.findIp line)) (st, line.map Seg.ch) hi (by intro o s hm; simp at hm) hc
  simp only [hren] at this
  refine ⟨((sortByLenDesc (E.findIp line)).foldl ipStepT (st, line.map Seg.ch)).2, ?_, ?_, ?_⟩
  · rw [ipStageT_source]; exact hsrc line
  · unfold ipStage; exact this.2.1.symm
  · unfold ipStage; rw [this.1]; exact this.2.2

/-- a recogniser that returns the two addresses of the witness line -/
def witnessEnv (found : List Str) : Env :=
  ⟨fun _ => found, fun _ => [], fun _ => [], fun _ => false, fun _ => [], fun _ => false, fun _ => [], id, {}⟩

example : noCollision (({} : St), "1.1.1.1 2.2.2.2".toList.map Seg.ch)
    (sortByLenDesc ((witnessEnv ["1.1.1.1".toList, "2.2.2.2".toList]).findIp "1.1.1.1 2.2.2.2".toList)) = true := by
  decide

/-- the full statement: the real stage ALWAYS agrees with the provenance-respecting one, i.e. every found
original is shown as its own database substitute whatever else is on the line -/
def TextConsistentFull : Prop :=
  ∀ (E : Env) (st : St) (line : Str),
    (ipStage E st line).2 = render ((sortByLenDesc (E.findIp line)).foldl ipStepT (st, line.map Seg.ch)).2

/-- known finding `ip-substitute-collision`: on a fresh cleaner the line `10.230.230.2 10.230.230.1` comes out
as `10.230.230.2 10.230.230.2` although the database maps `10.230.230.2 ↦ 10.230.230.1` and
`10.230.230.1 ↦ 10.230.230.2` (the consistent output is `10.230.230.1 10.230.230.2`) -/
theorem ip_collision_witness :
    let E := witnessEnv ["10.230.230.2".toList, "10.230.230.1".toList]
    let r := ipStage E {} "10.230.230.2 10.230.230.1".toList
    r.2 = "10.230.230.2 10.230.230.2".toList ∧
    ipMapping r.1 = [("10.230.230.2".toList, "10.230.230.1".toList), ("10.230.230.1".toList, "10.230.230.2".toList)] ∧
    render ((sortByLenDesc (E.findIp "10.230.230.2 10.230.230.1".toList)).foldl ipStepT
      ({}, "10.230.230.2 10.230.230.1".toList.map Seg.ch)).2 = "10.230.230.1 10.230.230.2".toList := by
  decide

theorem text_consistent_witness : ¬ TextConsistentFull := by
  intro h
  have := h (witnessEnv ["10.230.230.2".toList, "10.230.230.1".toList]) {} "10.230.230.2 10.230.230.1".toList
  revert this
  decide

/-- known finding `short-hostname-substring`: system `e.corp.net` (hash name written `H.example.com`); the closing
`line.replace(short_name, substitute)` of the host stage rewrites the `e`s of the substitute it has just
inserted, so the output does not show the mapped substitute -/
theorem short_host_witness :
    let E : Env := ⟨fun _ => [], fun _ => ["e.corp.net".toList], fun _ => [], fun _ => false, fun _ => [],
      fun _ => false, fun _ => "0123456789ab".toList, id, {}⟩
    let cfg : Cfg := ⟨"e.corp.net".toList, true, false, true, false, [], []⟩
    let r := hostStage E cfg (initSt E cfg) "at e.corp.net".toList
    hostMapping r.1 = [("e.corp.net".toList, "0123456789ab.example.com".toList)] ∧
    r.2 ≠ "at 0123456789ab.example.com".toList ∧
    r.2 = "at 0123456789ab.0123456789ab.example.comxampl0123456789ab.example.com.com".toList := by
  decide

/-- known finding `ipv6-substitute-collision` (round 10): the IPv6 guard "this text is an issued substitute" is consulted
only for addresses that are NOT yet originals.  Whole history on a fresh Cleaner (hash: digit `1 ↦ 2`, `2 ↦ 3`): call 1
cleans `["a a::1", "b a::2"]` bottom-up, so `a::2` becomes an original (`↦ a::3`) BEFORE it is issued as the substitute
of `a::1`; call 2 cleans `"c a::1 a::2"`: `a::1` is replaced by `a::2`, then every `a::2` by `a::3` — the output shows
`a::1` as `a::3` while `mapping()` pairs it with `a::2` -/
theorem ip6_collision_witness :
    let bump : Char → Char := fun c => if c = '1' then '2' else if c = '2' then '3' else c
    let E : Env := ⟨fun _ => [], fun _ => [], fun _ => [], fun _ => false,
      fun line => (splitOn ' ' line).filter (fun w => w.contains ':'), fun _ => false, fun s => s.map bump, id, {}⟩
    let cfg : Cfg := ⟨"h.d".toList, true, true, false, false, [], []⟩
    let h : List Call := [⟨[], false, none, ["a a::1".toList, "b a::2".toList]⟩, ⟨[], false, none, ["c a::1 a::2".toList]⟩]
    (runHistory E cfg (initSt E cfg) h).2 = [["a a::2".toList, "b a::3".toList], ["c a::3 a::3".toList]] ∧
    ip6Mapping (after E cfg h) = [("a::2".toList, "a::3".toList), ("a::1".toList, "a::2".toList)] := by
  decide

/-- known finding `ip-substitute-glued-digit` (round 10, thorough tier): the IPv4 pattern has no right boundary, so on the
token `1.2.3.45` it may hand over `1.2.3.4`; `line.replace` writes the substitute `10.230.230.1` in front of the left-over
digit and the text that comes out, `10.230.230.15`, is the substitute `start + 14` that another original gets -/
theorem ip_glued_digit_witness :
    let E := witnessEnv0 ["1.2.3.4".toList]
    let r := ipStage E {} "1.2.3.45".toList
    r.2 = int2ip (startIp + 14) ∧ ipMapping r.1 = [("1.2.3.4".toList, "10.230.230.1".toList)] := by
  decide

/-! ### width-preserving mode and calls that raise

`runHistoryW` mixes ordinary calls with `width=True` calls; a width call may RAISE (`none`: the spec is not emitted)
after the database entry has been made. -/

/-- state reached by a history that mixes both modes (`(call, width)`) -/
def afterW (E : Env) (cfg : Cfg) (h : List (Call × Bool)) : St := (runHistoryW E cfg (initSt E cfg) h).1

/-- the database invariant — hence `db_functional`, both injectivity statements and `mapping_exact`, which are
consequences of `Inv` and `Ext` alone — survives width-mode calls and calls that raised half-way: a fault on one
line never un-does, duplicates or re-numbers an entry -/
theorem history_invariant_width (E : Env) (cfg : Cfg) (hE : HexDigest E) (h1 h2 : List (Call × Bool)) :
    Inv E cfg (afterW E cfg (h1 ++ h2)) ∧ Ext (afterW E cfg h1) (afterW E cfg (h1 ++ h2)) := by
  have happ : ∀ (a b : List (Call × Bool)) (st : St),
      (runHistoryW E cfg st (a ++ b)).1 = (runHistoryW E cfg (runHistoryW E cfg st a).1 b).1 := by
    intro a
    induction a with
    | nil => intro b st; rfl
    | cons c cs ih => intro b st; obtain ⟨c, w⟩ := c; simp only [List.cons_append, runHistoryW]; exact ih _ _
  have i1 := (runHistoryW_pres E cfg hE h1 _ (initSt_inv E cfg)).1
  unfold afterW
  rw [happ]
  exact runHistoryW_pres E cfg hE h2 _ i1

/-- injectivity is about original STRINGS: after any mixed history two entries whose originals differ as strings
(`DB01.d` / `db01.d` included — nothing is case-folded) have different substitutes, and conversely -/
theorem db_injective_host_width (E : Env) (cfg : Cfg) (hE : HexDigest E) (h : List (Call × Bool)) (p q : Str × Str)
    (hp : p ∈ (afterW E cfg h).hnDb) (hq : q ∈ (afterW E cfg h).hnDb) :
    (p.2 ≠ q.2 → p.1 ≠ q.1) ∧ (p.1 ≠ q.1 → p.2 ≠ q.2) := by
  have inv := (history_invariant_width E cfg hE [] h).1
  simp only [List.nil_append] at inv
  have hk : ((afterW E cfg h).hnDb.map Prod.fst).Nodup := by rw [inv.hnKeys]; exact hostKeys_nodup E cfg hE _
  constructor
  · intro hne e; exact hne (by rw [nodup_pair _ hk p q hp hq e])
  · intro hne e; exact hne (by rw [nodup_pair_snd _ inv.hnVals p q hp hq e])

/-- three spellings of one host on a line, then a width call that raises on an address at the end of the line:
three entries with three substitutes; the raised call still made its database entry -/
example :
    let E : Env := ⟨fun l => if l = "x 1.2.3.4".toList then ["1.2.3.4".toList] else [],
      fun l => if l = "hosts".toList then ["DB01.d".toList, "db01.d".toList, "Db01.d".toList] else [],
      fun _ => [], fun _ => false, fun _ => [], fun _ => false, fun _ => "0123456789ab".toList, id, {}⟩
    let cfg : Cfg := ⟨"zq.d".toList, true, false, true, false, [], []⟩
    let r := runHistoryW E cfg (initSt E cfg) [(⟨[], false, none, ["hosts".toList]⟩, false), (⟨[], false, none, ["x 1.2.3.4".toList]⟩, true)]
    hostMapping r.1 = [("zq.d".toList, "0123456789ab.example.com".toList), ("DB01.d".toList, "host2.example.com".toList),
      ("db01.d".toList, "host3.example.com".toList), ("Db01.d".toList, "host4.example.com".toList)] ∧
    r.2 = [some ["hosts".toList], none] ∧ ipMapping r.1 = [("1.2.3.4".toList, "10.230.230.1".toList)] := by
  decide

/-- whatever `_sub_ip_keep_width` returns is made from the line in which EVERY occurrence has been replaced: blanks
inserted at one place or characters removed at one place — never the raw line -/
theorem keepWidth_from_replaced (line ip new out : Str) (h : keepWidth line ip new = some out) :
    ∃ j n, out = (replace ip new line).take j ++ List.replicate n ' ' ++ (replace ip new line).drop j ∨
           out = (replace ip new line).take j ++ (replace ip new line).drop (j + n) := by
  unfold keepWidth at h
  split at h
  · simp only at h
    split at h
    · cases h
    · split at h
      · cases h
      · cases h; exact ⟨_, _, Or.inl rfl⟩
  · split at h
    · simp only at h
      split at h
      · cases h
      · split at h
        · cases h
        · cases h; exact ⟨_, _, Or.inr rfl⟩
    · cases h; exact ⟨0, 0, Or.inl (by simp)⟩


/-- an address that is the last thing on the line and shorter or longer than its substitute: the parser raises -/
example : keepWidth "x 1.2.3.4".toList "1.2.3.4".toList "10.230.230.1".toList = none ∧
    keepWidth "192.168.100.200".toList "192.168.100.200".toList "10.230.230.1".toList = none ∧
    keepWidth "1.2.3.4:22      x".toList "1.2.3.4".toList "10.230.230.1".toList = some "10.230.230.1:22 x".toList := by
  decide

/-! ## the report side: `Cleaner.generate_report` (facts file + CSV files), taken at ANY point of a history -/

/-- **report_is_mapping** — every CSV file lists the `mapping()` of its obfuscator entry for entry (columns swapped:
`obfuscated,original`; the keyword file keeps `original,replacement`), and the five lists of the facts file ARE the
`mapping()` lists of the obfuscators that exist. -/
theorem report_is_mapping (E : Env) (cfg : Cfg) (st : St) :
    (ipRows st).map Prod.swap = ipMapping st ∧ (macRows st).map Prod.swap = macMapping st ∧
    (ip6Rows st).map Prod.swap = ip6Mapping st ∧ (0 < st.hnCount → (hostRows st).map Prod.swap = hostMapping st) ∧
    kwRows E cfg st = kwMapping E cfg st ∧
    (Stage.enabled cfg .ip = true → (generateReport E cfg st).factsIp = ipMapping st) ∧
    (Stage.enabled cfg .hostname = true → (generateReport E cfg st).factsHost = hostMapping st) ∧
    (Stage.enabled cfg .mac = true → (generateReport E cfg st).factsMac = macMapping st) ∧
    (Stage.enabled cfg .ipv6 = true → (generateReport E cfg st).factsIp6 = ip6Mapping st) ∧
    (Stage.enabled cfg .keyword = true → (generateReport E cfg st).factsKw = kwMapping E cfg st) := by
  refine ⟨?_, ?_, ?_, ?_, rfl, ?_, ?_, ?_, ?_, ?_⟩
  · simp [ipRows, ipMapping, List.map_map, Function.comp_def]
  · simp [macRows, macMapping, List.map_map, Function.comp_def]
  · simp [ip6Rows, ip6Mapping, List.map_map, Function.comp_def]
  · intro h; simp [hostRows, hostMapping, h]
  all_goals (intro h; simp [generateReport, h])

example : (generateReport (witnessEnv0 ["1.2.3.4".toList]) ⟨"h.d".toList, true, false, false, false, [], []⟩
    (after (witnessEnv0 ["1.2.3.4".toList]) ⟨"h.d".toList, true, false, false, false, [], []⟩
      [⟨[], false, none, ["x".toList]⟩])).ipCsv =
    some "Obfuscated IPv4,Original IPv4\n10.230.230.1,1.2.3.4\n".toList := by decide

/-- **report_files_flags** — which files a report writes and what the facts file says is enabled are the same
switches: a CSV file exists exactly for the obfuscators the facts call enabled (keywords: iff configured), and
the system name of the facts is the Cleaner's. -/
theorem report_files_flags (E : Env) (cfg : Cfg) (st : St) :
    let r := generateReport E cfg st
    r.ipCsv.isSome = r.ip4On ∧ r.ip6Csv.isSome = r.ip6On ∧ r.hostCsv.isSome = r.hostOn ∧ r.macCsv.isSome = r.macOn ∧
    r.kwCsv.isSome = !cfg.keywords.isEmpty ∧ r.ip4On = cfg.obfuscate ∧ r.ip6On = (cfg.obfuscate && cfg.obfuscateIpv6) ∧
    r.hostOn = (cfg.obfuscate && cfg.obfuscateHostname) ∧ r.macOn = (cfg.obfuscate && cfg.obfuscateMac) ∧
    r.sysName = cfg.fqdn ∧
    (r.ip4On = false → r.factsIp = []) ∧ (r.hostOn = false → r.factsHost = []) ∧ (r.macOn = false → r.factsMac = []) := by
  obtain ⟨fq, o, o6, oh, om, kws, pats⟩ := cfg
  intro r
  simp only [r, generateReport, Stage.enabled]
  cases o <;> cases o6 <;> cases oh <;> cases om <;> cases kws <;> simp

example : (generateReport hostEnv0 ⟨"h.d".toList, false, true, true, true, ["k".toList], []⟩ {}).ipCsv = none ∧
    (generateReport hostEnv0 ⟨"h.d".toList, false, true, true, true, ["k".toList], []⟩ {}).kwCsv =
      some "Replaced Keyword,Original Keyword\n".toList := by decide

/-- **report_each_once** — after every history, in every report: no host substitute and no host original is listed
twice, no MAC / IPv6 original is listed twice; no IPv4 substitute TEXT is listed twice while the address space is not
exhausted, and no IPv4 original text is listed twice when the recogniser only hands over 32-bit addresses. -/
theorem report_each_once (E : Env) (cfg : Cfg) (hE : HexDigest E) (h : List Call) :
    let st := after E cfg h
    ((hostRows st).map Prod.fst).Nodup ∧ ((hostRows st).map Prod.snd).Nodup ∧
    ((macRows st).map Prod.snd).Nodup ∧ ((ip6Rows st).map Prod.snd).Nodup ∧
    (st.ipDb.length ≤ 2 ^ 32 - startIp → ((ipRows st).map Prod.fst).Nodup) ∧
    ((∀ v ∈ st.foundIp, v < 2 ^ 32) → ((ipRows st).map Prod.snd).Nodup) := by
  intro st
  have inv := history_invariant E cfg hE h
  refine ⟨?_, ?_, ?_, ?_, ?_, ?_⟩
  · unfold hostRows; split
    · rw [inv.hnKeys]; exact hostKeys_nodup E cfg hE _
    · simp
  · unfold hostRows; split
    · exact inv.hnVals
    · simp
  · have : (macRows st).map Prod.snd = st.macDb.map Prod.fst := by simp [macRows, List.map_map, Function.comp_def]
    rw [this]; exact inv.macKeys
  · have : (ip6Rows st).map Prod.snd = st.ip6Db.map Prod.fst := by simp [ip6Rows, List.map_map, Function.comp_def]
    rw [this]; exact inv.ip6Keys
  · intro hb
    have hr := (ip_keys_range E cfg hE h).2 hb
    have e : (ipRows st).map Prod.fst = (st.ipDb.map Prod.fst).map int2ip := by
      simp [ipRows, List.map_map, Function.comp_def]
    rw [e]
    apply nodup_map_of_inj_on
    · rw [inv.ipKeys]; exact List.nodup_range'
    · intro a ha b hb' eab
      obtain ⟨p, hp, rfl⟩ := List.mem_map.mp ha
      obtain ⟨q, hq, rfl⟩ := List.mem_map.mp hb'
      exact int2ip_inj _ _ (hr p hp).2 (hr q hq).2 eab
  · intro hf
    have e : (ipRows st).map Prod.snd = (st.ipDb.map Prod.snd).map int2ip := by
      simp [ipRows, List.map_map, Function.comp_def]
    rw [e]
    apply nodup_map_of_inj_on _ _ inv.ipVals
    intro a ha b hb' eab
    exact int2ip_inj _ _ (hf a (inv.ipFoundSub a ha)) (hf b (inv.ipFoundSub b hb')) eab

example : ipRows (after (witnessEnv0 ["1.2.3.4".toList, "9.9.9.9".toList]) ⟨"h.d".toList, true, false, false, false, [], []⟩
    [⟨[], false, none, ["x".toList]⟩, ⟨[], false, none, ["y".toList]⟩]) =
    [("10.230.230.1".toList, "1.2.3.4".toList), ("10.230.230.2".toList, "9.9.9.9".toList)] := by decide

/-- **report_exact** — no phantom and no omission: after every history each IPv4 / host / MAC row's original was handed
over by a recogniser on a processed line (or is the system's own name), and every original so handed over has a row. -/
theorem report_exact (E : Env) (cfg : Cfg) (hE : HexDigest E) (h : List Call) :
    let st := after E cfg h
    (∀ r ∈ ipRows st, ∃ v ∈ st.foundIp, r.2 = int2ip v) ∧ (∀ v ∈ st.foundIp, ∃ r ∈ ipRows st, r.2 = int2ip v) ∧
    (0 < st.hnCount → ∀ r ∈ hostRows st, r.2 = cfg.fqdn ∨ r.2 ∈ st.foundHost) ∧
    (0 < st.hnCount → ∀ o ∈ st.foundHost, ∃ r ∈ hostRows st, r.2 = o) ∧
    (∀ r ∈ macRows st, r.2 ∈ st.foundMac) ∧ (∀ o ∈ st.foundMac, ∃ r ∈ macRows st, r.2 = o) := by
  intro st
  have me := mapping_exact E cfg hE h
  obtain ⟨_, i1, i2, h1, h2, m1, m2⟩ := me
  refine ⟨?_, ?_, ?_, ?_, ?_, ?_⟩
  · intro r hr
    obtain ⟨p, hp, rfl⟩ := List.mem_map.mp hr
    exact ⟨p.2, i1 p hp, rfl⟩
  · intro v hv
    obtain ⟨k, hk⟩ := i2 v hv
    exact ⟨_, List.mem_map.mpr ⟨(k, v), hk, rfl⟩, rfl⟩
  · intro hc r hr
    simp only [hostRows, hc, if_true] at hr
    exact h1 r hr
  · intro hc o ho
    obtain ⟨k, hk⟩ := h2 o ho
    exact ⟨(k, o), by simp only [hostRows, hc, if_true]; exact hk, rfl⟩
  · intro r hr
    obtain ⟨p, hp, rfl⟩ := List.mem_map.mp hr
    exact m1 p hp
  · intro o ho
    obtain ⟨s', hs⟩ := m2 o ho
    exact ⟨_, List.mem_map.mpr ⟨(o, s'), hs, rfl⟩, rfl⟩

example : hostRows (after hostEnv0 ⟨"h.d".toList, true, false, true, false, [], []⟩ [⟨[], false, none, ["x".toList]⟩]) =
    [("0123456789ab.example.com".toList, "h.d".toList), ("host2.example.com".toList, "a.d".toList),
     ("host3.example.com".toList, "b.d".toList)] := by decide

/-- **report_grows** — a report taken earlier is a PREFIX (row for row) of every report taken later in the same run:
rows are never changed, dropped or reordered by further cleaning (nor by the reports in between, which change nothing). -/
theorem report_grows (E : Env) (cfg : Cfg) (hE : HexDigest E) (h1 h2 : List Call) :
    ipRows (after E cfg h1) <+: ipRows (after E cfg (h1 ++ h2)) ∧
    macRows (after E cfg h1) <+: macRows (after E cfg (h1 ++ h2)) ∧
    ip6Rows (after E cfg h1) <+: ip6Rows (after E cfg (h1 ++ h2)) ∧
    (0 < (initSt E cfg).hnCount → hostRows (after E cfg h1) <+: hostRows (after E cfg (h1 ++ h2))) := by
  have ext := db_grows E cfg hE h1 h2
  refine ⟨?_, ?_, ?_, ?_⟩
  · obtain ⟨t, ht⟩ := ext.ip
    exact ⟨t.map (fun kv => (int2ip kv.1, int2ip kv.2)), by simp [ipRows, ← ht]⟩
  · obtain ⟨t, ht⟩ := ext.mac
    exact ⟨t.map (fun kv => (kv.2, kv.1)), by simp [macRows, ← ht]⟩
  · obtain ⟨t, ht⟩ := ext.ip6
    exact ⟨t.map (fun kv => (kv.2, kv.1)), by simp [ip6Rows, ← ht]⟩
  · intro h0
    have c1 := (history_invariant E cfg hE h1).hnCnt
    have c2 := (history_invariant E cfg hE (h1 ++ h2)).hnCnt
    have p1 : 0 < (after E cfg h1).hnCount := by omega
    have p2 : 0 < (after E cfg (h1 ++ h2)).hnCount := by omega
    simp only [hostRows, p1, p2, if_true]
    exact ext.hn

example : (0 < (initSt hostEnv0 ⟨"h.d".toList, true, false, true, false, [], []⟩).hnCount) := by decide

/-- **report_rows_parse** — the pairing can be read back: splitting a written IPv4 row (any state) or host row (after any
history) at its first comma gives exactly (substitute, original) — no substitute contains a comma. -/
theorem report_rows_parse (E : Env) (cfg : Cfg) (hE : HexDigest E) (h : List Call) :
    (∀ st : St, ∀ r ∈ ipRows st, splitRow (csvRow r.1 r.2) = some r) ∧
    (0 < (after E cfg h).hnCount → ∀ r ∈ hostRows (after E cfg h), splitRow (csvRow r.1 r.2) = some r) := by
  constructor
  · intro st r hr
    obtain ⟨p, _, rfl⟩ := List.mem_map.mp hr
    exact splitRow_csvRow _ _ (comma_not_in_int2ip _)
  · intro hc r hr
    simp only [hostRows, hc, if_true] at hr
    have inv := history_invariant E cfg hE h
    have hk : r.1 ∈ hostKeys E cfg (after E cfg h).hnCount := by
      rw [← inv.hnKeys]; exact List.mem_map.mpr ⟨r, hr, rfl⟩
    exact splitRow_csvRow _ _ (comma_not_in_hostKeys E cfg hE _ _ hk)

example : splitRow (csvRow "10.230.230.1".toList "1.2.3.4".toList) = some ("10.230.230.1".toList, "1.2.3.4".toList) := by
  decide

end IV.CleanState
