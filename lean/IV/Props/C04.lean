import IV.Lemmas.DrOrder
import IV.Lemmas.Subgraphs
import IV.Lemmas.Incremental
import IV.Props.C01
/-!
C04 — evaluation results do not depend on scheduling.

`Valid` (Lemmas/DrOrder) is the class of orders the engine can take: a single topologically sorted
pass, sub-graph after sub-graph, or any interleaving of sub-graph orders; steps are atomic
(component granularity — torn updates inside one dict operation are excluded by the GIL and cannot
be exhibited by this model).  Component bodies are deterministic functions of their arguments.
-/
namespace IV.Dr

variable (w : World) (inG : Comp → Bool) (ss : Bool)

/-- the final component values, missing-dependency reports and recorded failures (per causing
component) are the same for every two valid orders over the same evaluable items -/
theorem order_independent (seed : Inst) (o₁ o₂ : List Comp)
    (h₁ : Valid w inG seed o₁) (h₂ : Valid w inG seed o₂)
    (hm : ∀ c, c ∈ evald inG o₁ ↔ c ∈ evald inG o₂) :
    let b₁ := runComponents w inG ss o₁ (Broker.seeded seed)
    let b₂ := runComponents w inG ss o₂ (Broker.seeded seed)
    (∀ c, b₁.inst c = b₂.inst c) ∧ (∀ c, b₁.missing c = b₂.missing c) ∧ (∀ c, excOf b₁ c = excOf b₂ c) := by
  intro b₁ b₂
  have hinst : ∀ c, b₁.inst c = b₂.inst c := by
    apply sol_unique w inG ss seed o₁ h₁
    · intro c hc; exact (run_view_out w inG ss seed o₁ c hc).1
    · intro c hc; exact (run_view_out w inG ss seed o₂ c (fun m => hc ((hm c).mpr m))).1
    · intro c hc; exact (run_view w inG ss seed o₁ h₁ c hc).1
    · intro c hc; exact (run_view w inG ss seed o₂ h₂ c ((hm c).mp hc)).1
  have hfun : b₁.inst = b₂.inst := funext hinst
  refine ⟨hinst, ?_, ?_⟩
  · intro c
    by_cases hc : c ∈ evald inG o₁
    · rw [(run_view w inG ss seed o₁ h₁ c hc).2.1, (run_view w inG ss seed o₂ h₂ c ((hm c).mp hc)).2.1, hfun]
    · rw [(run_view_out w inG ss seed o₁ c hc).2.1,
          (run_view_out w inG ss seed o₂ c (fun m => hc ((hm c).mpr m))).2.1]
  · intro c
    by_cases hc : c ∈ evald inG o₁
    · rw [(run_view w inG ss seed o₁ h₁ c hc).2.2, (run_view w inG ss seed o₂ h₂ c ((hm c).mp hc)).2.2, hfun]
    · rw [(run_view_out w inG ss seed o₁ c hc).2.2,
          (run_view_out w inG ss seed o₂ c (fun m => hc ((hm c).mpr m))).2.2]

/-- equal per-cause exception lists give equal exception logs as multisets -/
theorem excLog_perm_of_excOf (b₁ b₂ : Broker) (h : ∀ c, excOf b₁ c = excOf b₂ c) :
    b₁.excLog.Perm b₂.excLog := by
  rw [List.perm_iff_count]
  intro e
  have hc : ∀ b : Broker, List.count e b.excLog = List.count e (excOf b e.src) := by
    intro b
    unfold excOf
    rw [List.count_filter (by simp)]
  rw [hc b₁, hc b₂, h e.src]

/-- …in particular the recorded failures are the same multiset for every two valid orders -/
theorem order_independent_excLog (seed : Inst) (o₁ o₂ : List Comp)
    (h₁ : Valid w inG seed o₁) (h₂ : Valid w inG seed o₂)
    (hm : ∀ c, c ∈ evald inG o₁ ↔ c ∈ evald inG o₂) :
    (runComponents w inG ss o₁ (Broker.seeded seed)).excLog.Perm
      (runComponents w inG ss o₂ (Broker.seeded seed)).excLog :=
  excLog_perm_of_excOf _ _ (order_independent w inG ss seed o₁ o₂ h₁ h₂ hm).2.2

/-- the graph lists the declared dependencies of its keys, nothing depends on itself, and ignored
keys are stable (the registration invariants `get_dependency_graph` / `COMPONENTS` establish) -/
structure GraphOk (seed : Inst) (g : Graph) : Prop where
  keys : g.keys.Nodup
  covers : ∀ c ds, (c, ds) ∈ g → ∀ d ∈ w.deps c, d ∈ ds ∧ d ≠ c
  ignoreStable : ∀ c ∈ g.keys, ∀ x ∈ w.ignore c, x ∉ g.keys ∨ present seed x = true

theorem c04_mem_keys_iff (g : Graph) (c : Comp) : c ∈ g.keys ↔ ∃ ds, (c, ds) ∈ g := by
  simp only [Graph.keys, List.mem_map]
  constructor
  · rintro ⟨kv, hkv, rfl⟩; exact ⟨kv.2, hkv⟩
  · rintro ⟨ds, h⟩; exact ⟨(c, ds), h, rfl⟩

theorem split_unique' (c : Comp) : ∀ (p q r s : List Comp), c ∉ p → c ∉ q → p ++ c :: r = q ++ c :: s → p = q ∧ r = s := by
  intro p
  induction p with
  | nil =>
    intro q r s _ hq e
    cases q with
    | nil => simp at e; exact ⟨rfl, e⟩
    | cons y ys => simp at e; exact absurd (by simp [e.1]) hq
  | cons x xs ih =>
    intro q r s hp hq e
    cases q with
    | nil => simp at e; exact absurd (by simp [e.1]) hp
    | cons y ys =>
      simp at e
      obtain ⟨h1, h2⟩ := ih ys r s (fun m => hp (by simp [m])) (fun m => hq (by simp [m])) e.2
      exact ⟨by rw [e.1, h1], h2⟩

/-- every order `toposort` can produce (any tie-break) is a valid order -/
theorem toposort_valid (pick : List Comp → List Comp) (hp : ∀ l, (pick l).Perm l)
    (seed : Inst) (g : Graph) (hg : GraphOk w seed g) (o : List Comp) (h : toposort pick g = some o) :
    Valid w (fun c => g.keys.contains c) seed o ∧ ∀ c, c ∈ evald (fun c => g.keys.contains c) o ↔ c ∈ g.keys := by
  obtain ⟨hnd, hs⟩ := toposort_sound pick hp g hg.keys o h
  have hmem : ∀ c, c ∈ evald (fun c => g.keys.contains c) o ↔ c ∈ g.keys := by
    intro c
    simp only [evald, List.mem_filter, List.contains_eq_mem, decide_eq_true_eq]
    constructor
    · exact fun h => h.2
    · intro hk
      obtain ⟨ds, hds⟩ := (c04_mem_keys_iff g c).mp hk
      exact ⟨(hs c ds hds).1, hk⟩
  refine ⟨⟨List.filter_sublist.nodup hnd, ?_, ?_⟩, hmem⟩
  · intro pre c post ho hcg d hd _
    have hk : c ∈ g.keys := by simpa using hcg
    obtain ⟨ds, hds⟩ := (c04_mem_keys_iff g c).mp hk
    obtain ⟨hdds, hne⟩ := hg.covers c ds hds d hd
    obtain ⟨_, pre', post', ho', hdpre⟩ := (hs c ds hds).2 d hdds hne
    have hcn : c ∉ pre := by
      intro hm; rw [ho] at hnd
      exact (List.nodup_append.mp hnd).2.2 c hm c (by simp) rfl
    have hcn' : c ∉ pre' := by
      intro hm; rw [ho'] at hnd
      exact (List.nodup_append.mp hnd).2.2 c hm c (by simp) rfl
    obtain ⟨e1, e2⟩ := split_unique' c pre' pre post' post hcn' hcn (by rw [← ho', ← ho])
    subst e1; subst e2
    refine ⟨?_, hne⟩
    intro hpost
    rw [ho] at hnd
    exact (List.nodup_append.mp hnd).2.2 d hdpre d (by simp [hpost]) rfl
  · intro c _ hcg x hx
    have hk : c ∈ g.keys := by simpa using hcg
    rcases hg.ignoreStable c hk x hx with h1 | h1
    · left; intro m; exact h1 ((hmem x).mp m)
    · right; exact h1

/-- `dr.run` gives the same broker whatever order the sets of the topological sort are iterated in
(hash seed, set implementation) -/
theorem run_pick_independent (p₁ p₂ : List Comp → List Comp) (hp₁ : ∀ l, (p₁ l).Perm l) (hp₂ : ∀ l, (p₂ l).Perm l)
    (seed : Inst) (g : Graph) (hg : GraphOk w seed g) (b₁ b₂ : Broker)
    (h₁ : run w p₁ ss g seed = some b₁) (h₂ : run w p₂ ss g seed = some b₂) :
    (∀ c, b₁.inst c = b₂.inst c) ∧ (∀ c, b₁.missing c = b₂.missing c) ∧ (∀ c, excOf b₁ c = excOf b₂ c) := by
  unfold run at h₁ h₂
  simp only [Option.map_eq_some_iff] at h₁ h₂
  obtain ⟨o₁, ho₁, rfl⟩ := h₁
  obtain ⟨o₂, ho₂, rfl⟩ := h₂
  obtain ⟨v₁, m₁⟩ := toposort_valid w p₁ hp₁ seed g hg o₁ ho₁
  obtain ⟨v₂, m₂⟩ := toposort_valid w p₂ hp₂ seed g hg o₂ ho₂
  exact order_independent w _ ss seed o₁ o₂ v₁ v₂ (fun c => by rw [m₁, m₂])

/-! ### interleavings: sub-graph after sub-graph, or dispatched to a pool -/

/-- `o` is an interleaving of `a` and `b` (each keeps its relative order) -/
inductive Interleave : List Comp → List Comp → List Comp → Prop
  | nil : Interleave [] [] []
  | left {a b o : List Comp} (x : Comp) : Interleave a b o → Interleave (x :: a) b (x :: o)
  | right {a b o : List Comp} (x : Comp) : Interleave a b o → Interleave a (x :: b) (x :: o)

theorem Interleave.mem {a b o : List Comp} (h : Interleave a b o) (x : Comp) : x ∈ o ↔ x ∈ a ∨ x ∈ b := by
  induction h with
  | nil => simp
  | left y _ ih => simp [ih, or_assoc]
  | right y _ ih => simp [ih]; constructor <;> (intro h; rcases h with h | h | h <;> simp [h])

theorem Interleave.append (a b : List Comp) : Interleave a b (a ++ b) := by
  induction a with
  | nil =>
    induction b with
    | nil => exact .nil
    | cons y ys ih => exact .right y ih
  | cons x xs ih => exact .left x ih

theorem Interleave.filter {a b o : List Comp} (p : Comp → Bool) (h : Interleave a b o) :
    Interleave (a.filter p) (b.filter p) (o.filter p) := by
  induction h with
  | nil => exact .nil
  | left x _ ih =>
    simp only [List.filter_cons]; split
    · exact .left x ih
    · exact ih
  | right x _ ih =>
    simp only [List.filter_cons]; split
    · exact .right x ih
    · exact ih

theorem Interleave.nodup {a b o : List Comp} (h : Interleave a b o) (ha : a.Nodup) (hb : b.Nodup)
    (hd : ∀ x ∈ a, x ∉ b) : o.Nodup := by
  induction h with
  | nil => simp
  | left x hi ih =>
    rw [List.nodup_cons] at ha ⊢
    refine ⟨?_, ih ha.2 hb (fun y hy => hd y (by simp [hy]))⟩
    intro hm
    rcases (hi.mem x).mp hm with h1 | h1
    · exact ha.1 h1
    · exact hd x (by simp) h1
  | right x hi ih =>
    rw [List.nodup_cons] at hb ⊢
    refine ⟨?_, ih ha hb.2 (fun y hy hyb => hd y hy (by simp [hyb]))⟩
    intro hm
    rcases (hi.mem x).mp hm with h1 | h1
    · exact hd x h1 (by simp)
    · exact hb.1 h1

/-- where a split of an interleaving comes from -/
theorem Interleave.split {a b o : List Comp} (h : Interleave a b o) :
    ∀ (pre post : List Comp) (c : Comp), o = pre ++ c :: post →
      (∃ pa qa, a = pa ++ c :: qa ∧ ∀ x ∈ post, x ∈ qa ∨ x ∈ b) ∨
      (∃ pb qb, b = pb ++ c :: qb ∧ ∀ x ∈ post, x ∈ a ∨ x ∈ qb) := by
  induction h with
  | nil => intro pre post c e; simp at e
  | @left a b o x hi ih =>
    intro pre post c e
    cases pre with
    | nil =>
      simp at e
      left
      refine ⟨[], a, by simp [e.1], ?_⟩
      intro y hy
      rw [← e.2] at hy
      exact (hi.mem y).mp hy
    | cons p ps =>
      simp at e
      rcases ih ps post c e.2 with ⟨pa, qa, h1, h2⟩ | ⟨pb, qb, h1, h2⟩
      · left; exact ⟨x :: pa, qa, by simp [h1], h2⟩
      · right; exact ⟨pb, qb, h1, fun y hy => (h2 y hy).elim (fun h => Or.inl (by simp [h])) Or.inr⟩
  | @right a b o x hi ih =>
    intro pre post c e
    cases pre with
    | nil =>
      simp at e
      right
      refine ⟨[], b, by simp [e.1], ?_⟩
      intro y hy
      rw [← e.2] at hy
      exact (hi.mem y).mp hy
    | cons p ps =>
      simp at e
      rcases ih ps post c e.2 with ⟨pa, qa, h1, h2⟩ | ⟨pb, qb, h1, h2⟩
      · left; exact ⟨pa, qa, h1, fun y hy => (h2 y hy).elim Or.inl (fun h => Or.inr (by simp [h]))⟩
      · right; exact ⟨x :: pb, qb, by simp [h1], h2⟩

/-- two sub-graph orders that share no evaluable item and have no evaluable dependency across -/
structure Independent (o₁ o₂ : List Comp) : Prop where
  disjoint : ∀ x ∈ evald inG o₁, x ∉ evald inG o₂
  noCross₁ : ∀ c ∈ o₁, inG c = true → ∀ d ∈ w.deps c, inG d = true → d ∉ o₂
  noCross₂ : ∀ c ∈ o₂, inG c = true → ∀ d ∈ w.deps c, inG d = true → d ∉ o₁

/-- every interleaving of valid, independent sub-graph orders is a valid order -/
theorem merge_valid (seed : Inst) (o₁ o₂ o : List Comp)
    (h₁ : Valid w inG seed o₁) (h₂ : Valid w inG seed o₂) (hi : Independent w inG o₁ o₂)
    (hs₁ : ∀ c ∈ o₁, inG c = true → ∀ x ∈ w.ignore c, x ∉ evald inG o₂ ∨ present seed x = true)
    (hs₂ : ∀ c ∈ o₂, inG c = true → ∀ x ∈ w.ignore c, x ∉ evald inG o₁ ∨ present seed x = true)
    (hm : Interleave o₁ o₂ o) : Valid w inG seed o := by
  have hme : ∀ x, x ∈ evald inG o ↔ x ∈ evald inG o₁ ∨ x ∈ evald inG o₂ := (hm.filter inG).mem
  refine ⟨(hm.filter inG).nodup h₁.nodup h₂.nodup hi.disjoint, ?_, ?_⟩
  · intro pre c post ho hcg d hd hdg
    rcases hm.split pre post c ho with ⟨pa, qa, e, hpost⟩ | ⟨pb, qb, e, hpost⟩
    · obtain ⟨n1, n2⟩ := h₁.depsFirst pa c qa e hcg d hd hdg
      refine ⟨?_, n2⟩
      intro hdp
      rcases hpost d hdp with h | h
      · exact n1 h
      · exact hi.noCross₁ c (by rw [e]; simp) hcg d hd hdg h
    · obtain ⟨n1, n2⟩ := h₂.depsFirst pb c qb e hcg d hd hdg
      refine ⟨?_, n2⟩
      intro hdp
      rcases hpost d hdp with h | h
      · exact hi.noCross₂ c (by rw [e]; simp) hcg d hd hdg h
      · exact n1 h
  · intro c hc hcg x hx
    rcases (hm.mem c).mp hc with h | h
    · rcases h₁.ignoreStable c h hcg x hx with a | a
      · rcases hs₁ c h hcg x hx with b | b
        · left; intro m; rcases (hme x).mp m with m | m
          · exact a m
          · exact b m
        · right; exact b
      · right; exact a
    · rcases h₂.ignoreStable c h hcg x hx with a | a
      · rcases hs₂ c h hcg x hx with b | b
        · left; intro m; rcases (hme x).mp m with m | m
          · exact b m
          · exact a m
        · right; exact b
      · right; exact a

/-- serial (one sub-graph after the other, one shared broker) and pooled (any interleaving of the
sub-graph orders) evaluation give the same component values, reports and recorded failures -/
theorem run_modes_agree (seed : Inst) (o₁ o₂ o : List Comp)
    (h₁ : Valid w inG seed o₁) (h₂ : Valid w inG seed o₂) (hi : Independent w inG o₁ o₂)
    (hs₁ : ∀ c ∈ o₁, inG c = true → ∀ x ∈ w.ignore c, x ∉ evald inG o₂ ∨ present seed x = true)
    (hs₂ : ∀ c ∈ o₂, inG c = true → ∀ x ∈ w.ignore c, x ∉ evald inG o₁ ∨ present seed x = true)
    (hm : Interleave o₁ o₂ o) :
    let bs := runComponents w inG ss o₂ (runComponents w inG ss o₁ (Broker.seeded seed))
    let bp := runComponents w inG ss o (Broker.seeded seed)
    (∀ c, bs.inst c = bp.inst c) ∧ (∀ c, bs.missing c = bp.missing c) ∧ (∀ c, excOf bs c = excOf bp c) := by
  intro bs bp
  have hser : bs = runComponents w inG ss (o₁ ++ o₂) (Broker.seeded seed) := by
    show runComponents w inG ss o₂ _ = _
    rw [run_append]
  rw [hser]
  have v1 := merge_valid w inG seed o₁ o₂ (o₁ ++ o₂) h₁ h₂ hi hs₁ hs₂ (Interleave.append o₁ o₂)
  have v2 := merge_valid w inG seed o₁ o₂ o h₁ h₂ hi hs₁ hs₂ hm
  apply order_independent w inG ss seed (o₁ ++ o₂) o v1 v2
  intro c
  show c ∈ List.filter inG (o₁ ++ o₂) ↔ c ∈ List.filter inG o
  rw [((Interleave.append o₁ o₂).filter inG).mem, (hm.filter inG).mem]

/-! ### splitting into sub-graphs neither loses nor duplicates a component -/

/-- `get_subgraphs`: every key of the graph lies in exactly one sub-graph, every member of a sub-graph
is a key of the graph, and each sub-graph is closed under "dependency or dependent inside the graph"
(so no evaluable dependency crosses sub-graphs — the `Independent` hypothesis of `merge_valid`).
Hypothesis: dependents is the inverse of dependencies on the graph (registration invariant, checked
on the live registry by the harness on every run). -/
theorem subgraphs_partition (r : Rel) (prio : Comp → Nat) (G : List Comp) (hs : Symmetric r G) :
    (∀ k ∈ G, ∃ s ∈ getSubgraphs r prio G, k ∈ s) ∧
    (getSubgraphs r prio G).Pairwise (fun a b => ∀ x ∈ a, x ∉ b) ∧
    (∀ s ∈ getSubgraphs r prio G, (∀ x ∈ s, x ∈ G) ∧ Closed r G s) := by
  unfold getSubgraphs
  obtain ⟨h1, h2, h3⟩ := subgraphs_spec r G hs G.length (sortPrio prio G)
    (by rw [sortPrio_length]; exact Nat.le_refl _) (fun k hk => (sortPrio_mem prio G k).mp hk)
  refine ⟨fun k hk => h1 k ((sortPrio_mem prio G k).mpr hk), h2, ?_⟩
  intro s hs'
  obtain ⟨a, b, _⟩ := h3 s hs'
  exact ⟨b, a⟩

/-- consequence: a key is in no two different sub-graphs (positions i < j) -/
theorem subgraphs_no_duplicate (r : Rel) (prio : Comp → Nat) (G : List Comp) (hs : Symmetric r G)
    (i j : Nat) (hij : i < j) (a b : List Comp)
    (ha : (getSubgraphs r prio G)[i]? = some a) (hb : (getSubgraphs r prio G)[j]? = some b) (x : Comp) (hx : x ∈ a) :
    x ∉ b := by
  have hp := (subgraphs_partition r prio G hs).2.1
  rw [List.pairwise_iff_getElem] at hp
  obtain ⟨hi, rfl⟩ := List.getElem?_eq_some_iff.mp ha
  obtain ⟨hj, rfl⟩ := List.getElem?_eq_some_iff.mp hb
  exact hp i j hi hj hij x hx

/-! ### non-vacuity -/

private def exW : World where
  decl c := if c = 0 then some ⟨.datasource, [], []⟩ else if c = 1 then some ⟨.plugin, [.one 0], []⟩
            else if c = 2 then some ⟨.rule, [.one 1, .group [0, 3]], [3]⟩
            else if c = 3 then some ⟨.plugin, [], []⟩ else none
  enabled _ := true
  ignore _ := []
  regPoints _ := []
  body c args := if c = 1 then .fault .content else .value (.atom (c + args.length))
  elemBody _ _ := .noResult

-- two different valid orders, same result
example : ((runComponents exW (fun _ => true) true [0, 3, 1, 2] (Broker.seeded fun _ => none)).inst 2) =
          ((runComponents exW (fun _ => true) true [3, 0, 1, 2] (Broker.seeded fun _ => none)).inst 2) := by decide
example : Interleave [0, 1] [3] [0, 3, 1] := .left 0 (.right 3 (.left 1 .nil))
-- 0 <- 1, 2 <- 3 <- 4, 5 alone; priority puts 3's component first
example : getSubgraphs ⟨fun c => if c = 1 then [0] else if c = 3 then [2] else if c = 4 then [3] else [],
                        fun c => if c = 0 then [1] else if c = 2 then [3] else if c = 3 then [4] else []⟩
    (fun c => if c = 3 then 5 else 0) [0, 1, 2, 3, 4, 5] = [[4, 2, 3], [1, 0], [5]] := by decide

/-! ### the incremental and pooled drivers, broker handling included (`IV/Model/Incremental.lean`) -/

/-- called WITHOUT a broker, `generate_incremental` pairs every sub-graph with its OWN new broker object: one pair per
sub-graph, in sub-graph order; the identities are pairwise different and none is an object that existed before -/
theorem generate_fresh_distinct (subs : List (List Comp)) (next : Ref) :
    (generateIncremental subs none next).map (·.1) = subs ∧
    ((generateIncremental subs none next).map (·.2)).Nodup ∧
    ∀ r ∈ (generateIncremental subs none next).map (·.2), next ≤ r := by
  refine ⟨generate_subs subs none next, ?_, ?_⟩
  · rw [generate_refs]; exact brokerRefs_none_nodup next _
  · rw [generate_refs]; exact brokerRefs_none_ge next _

example : generateIncremental [[4, 2, 3], [1, 0], [5]] none 7 = [([4, 2, 3], 7), ([1, 0], 8), ([5], 9)] := by decide

/-- called WITH a broker, every sub-graph is paired with that one object -/
theorem generate_passed_shared (subs : List (List Comp)) (r next : Ref) :
    (generateIncremental subs (some r) next).map (·.1) = subs ∧
    ∀ x ∈ (generateIncremental subs (some r) next).map (·.2), x = r := by
  refine ⟨generate_subs subs (some r) next, ?_⟩
  rw [generate_refs]; exact brokerRefs_some r next _

example : generateIncremental [[4, 2, 3], [1, 0]] (some 2) 7 = [([4, 2, 3], 2), ([1, 0], 2)] := by decide

/-- `run_incremental` / `run_all` WITHOUT a broker, serial or on a pool (`sched`: the tasks in the order the workers take
them): the object handed back for a sub-graph holds exactly the evaluation of THAT sub-graph from an empty broker with skip
recording off — whatever ran before, after or in between — and every object that existed before is left as it was -/
theorem fresh_brokers_hold_own_subgraph (orderOf : List Comp → List Comp) (subs : List (List Comp)) (next : Ref) (h : Heap)
    (hfresh : ∀ r, next ≤ r → h r = Cell.fresh) (sched : List Task)
    (hperm : sched.Perm (generateIncremental subs none next)) :
    (∀ t ∈ generateIncremental subs none next,
      (runTasks w orderOf h sched t.2).broker =
        runComponents w (fun c => t.1.contains c) false (orderOf t.1) (Broker.seeded fun _ => none)) ∧
    (∀ r, r < next → runTasks w orderOf h sched r = h r) := by
  obtain ⟨_, hnd, hge⟩ := generate_fresh_distinct subs next
  have hnd' : (sched.map (·.2)).Nodup := (hperm.map (·.2)).nodup_iff.mpr hnd
  constructor
  · intro t ht
    have hts : t ∈ sched := hperm.mem_iff.mpr ht
    rw [runTasks_own w orderOf sched h hnd' t hts, runTask_self]
    have hf := hfresh t.2 (hge t.2 (List.mem_map.mpr ⟨t, ht, rfl⟩))
    rw [hf]
    rfl
  · intro r hr
    apply runTasks_other
    intro hm
    exact absurd (hge r ((hperm.map (·.2)).mem_iff.mp hm)) (Nat.not_le.mpr hr)

/-- LAZY CONSUMPTION of `run_incremental` without a broker: the broker yielded at step `i` is the one paired with the `i`-th
sub-graph, it is COMPLETE at that moment (it already holds what it holds when the generator is exhausted) and every broker
yielded later has not been touched yet -/
theorem lazy_yield_complete (orderOf : List Comp → List Comp) (subs : List (List Comp)) (next : Ref) (h : Heap)
    (i : Nat) (t : Task) (hi : (generateIncremental subs none next)[i]? = some t) :
    let ts := generateIncremental subs none next
    (runIncrementalAt w orderOf h ts i).2 = some t.2 ∧
    (runIncrementalAt w orderOf h ts i).1 t.2 = runTasks w orderOf h ts t.2 ∧
    ∀ j t', i < j → ts[j]? = some t' → (runIncrementalAt w orderOf h ts i).1 t'.2 = h t'.2 := by
  intro ts
  obtain ⟨_, hnd, _⟩ := generate_fresh_distinct subs next
  have hsub : ((ts.take (i + 1)).map (·.2)).Sublist (ts.map (·.2)) := by
    rw [List.map_take]; exact List.take_sublist _ _
  have hnd' : ((ts.take (i + 1)).map (·.2)).Nodup := hsub.nodup hnd
  have hmem : t ∈ ts := List.mem_of_getElem? hi
  have hmemT : t ∈ ts.take (i + 1) := by
    apply List.mem_of_getElem? (i := i)
    rw [List.getElem?_take, if_pos (Nat.lt_succ_self i)]
    exact hi
  refine ⟨by simp [runIncrementalAt, ts, hi], ?_, ?_⟩
  · show runTasks w orderOf h (ts.take (i + 1)) t.2 = _
    rw [runTasks_own w orderOf _ h hnd' t hmemT, runTasks_own w orderOf ts h hnd t hmem]
  · intro j t' hij hj
    show runTasks w orderOf h (ts.take (i + 1)) t'.2 = _
    apply runTasks_other
    intro hm
    -- t'.2 occurs among the first i+1 identities and at position j > i: not Nodup
    rw [List.map_take] at hm
    obtain ⟨k, hk, hk'⟩ := List.getElem_of_mem hm
    have hklt : k < i + 1 := by
      have := hk; simp only [List.length_take] at this; omega
    have hkl : k < (ts.map (·.2)).length := by
      have := hk; simp only [List.length_take] at this; omega
    have e1 : (ts.map (·.2))[k]'hkl = t'.2 := by
      rw [← hk']; simp [List.getElem_take]
    have hjl : j < (ts.map (·.2)).length := by
      have := (List.getElem?_eq_some_iff.mp hj).1; simpa using this
    have e2 : (ts.map (·.2))[j]'hjl = t'.2 := by
      obtain ⟨hjl', hje⟩ := List.getElem?_eq_some_iff.mp hj
      simp [hje]
    have hp := List.pairwise_iff_getElem.mp hnd k j hkl hjl (by omega)
    exact hp (e1.trans e2.symm)

-- consumed lazily: after the first yield the first broker is complete, the second still empty
example : ((runIncrementalAt exW id (fun _ => Cell.fresh) (generateIncremental [[0, 1], [3]] none 5) 0).2,
           ((runIncrementalAt exW id (fun _ => Cell.fresh) (generateIncremental [[0, 1], [3]] none 5) 0).1 5).broker.inst 0,
           ((runIncrementalAt exW id (fun _ => Cell.fresh) (generateIncremental [[0, 1], [3]] none 5) 0).1 6).broker.inst 3) =
          (some 5, some (.atom 0), none) := by decide

/-- a broker that evaluated only the keys `s` reports nothing about any other component: no value, no missing-dependency
report, no recorded failure caused by it -/
theorem broker_reports_only_own_keys (s o : List Comp) (c : Comp) (hc : c ∉ s) :
    let b := runComponents w (fun x => s.contains x) ss o (Broker.seeded fun _ => none)
    b.inst c = none ∧ b.missing c = none ∧ excOf b c = [] := by
  intro b
  have hne : c ∉ evald (fun x => s.contains x) o := by
    intro m
    have := (List.mem_filter.mp m).2
    exact hc (by simpa using this)
  exact run_view_out w (fun x => s.contains x) ss (fun _ => none) o c hne

/-- the brokers handed back for two different sub-graphs are disjoint on keys: what one reports, the other does not -/
theorem fresh_results_disjoint (r : Rel) (prio : Comp → Nat) (G : List Comp) (hs : Symmetric r G)
    (orderOf : List Comp → List Comp) (i j : Nat) (hij : i < j) (a b : List Comp)
    (ha : (getSubgraphs r prio G)[i]? = some a) (hb : (getSubgraphs r prio G)[j]? = some b) (c : Comp) :
    let ba := runComponents w (fun x => a.contains x) ss (orderOf a) (Broker.seeded fun _ => none)
    let bb := runComponents w (fun x => b.contains x) ss (orderOf b) (Broker.seeded fun _ => none)
    (ba.inst c = none ∧ ba.missing c = none ∧ excOf ba c = []) ∨ (bb.inst c = none ∧ bb.missing c = none ∧ excOf bb c = []) := by
  intro ba bb
  by_cases hca : c ∈ a
  · right
    exact broker_reports_only_own_keys w ss b (orderOf b) c (subgraphs_no_duplicate r prio G hs i j hij a b ha hb c hca)
  · left
    exact broker_reports_only_own_keys w ss a (orderOf a) c hca

/-- UNION = SINGLE PASS.  Every key of the graph lies in exactly one sub-graph, and the broker of that sub-graph (evaluated
alone from an empty broker, in any valid order) gives it exactly the value, missing-dependency report and recorded failures
the single pass over the whole graph gives it.  Hypotheses: `get_subgraphs` walks the declared dependencies (`r.deps`),
dependents are their inverse, and no key is told to ignore another key of the graph (ignored keys are execution contexts,
supplied up front — there is nothing supplied here). -/
theorem incremental_union_eq_single (r : Rel) (prio : Comp → Nat) (G : List Comp) (hs : Symmetric r G)
    (hdeps : ∀ c, r.deps c = w.deps c) (hign : ∀ c ∈ G, ∀ x ∈ w.ignore c, x ∉ G)
    (orderOf : List Comp → List Comp) (o : List Comp)
    (hv : Valid w (fun x => G.contains x) (fun _ => none) o)
    (hvs : ∀ s ∈ getSubgraphs r prio G, Valid w (fun x => s.contains x) (fun _ => none) (orderOf s))
    (hcov : ∀ s ∈ getSubgraphs r prio G, ∀ c ∈ s, (c ∈ o ↔ c ∈ orderOf s)) :
    (∀ k ∈ G, ∃ s ∈ getSubgraphs r prio G, k ∈ s) ∧
    ∀ s ∈ getSubgraphs r prio G, ∀ c ∈ s,
      let bS := runComponents w (fun x => s.contains x) ss (orderOf s) (Broker.seeded fun _ => none)
      let bG := runComponents w (fun x => G.contains x) ss o (Broker.seeded fun _ => none)
      bS.inst c = bG.inst c ∧ bS.missing c = bG.missing c ∧ excOf bS c = excOf bG c := by
  obtain ⟨p1, _, p3⟩ := subgraphs_partition r prio G hs
  refine ⟨p1, ?_⟩
  intro s hsm c hc
  obtain ⟨hsG, hcl⟩ := p3 s hsm
  apply subgraph_alone_eq_single w ss (fun _ => none) (fun x => s.contains x) (fun x => G.contains x) o (orderOf s) hv (hvs s hsm)
  · intro x hx
    have : x ∈ s := by simpa using hx
    simpa using hsG x this
  · intro x hx y hy
    have hxs : x ∈ s := by simpa using hx
    by_cases hyG : y ∈ G
    · left
      simp only [World.reads, List.mem_append] at hy
      rcases hy with hy | hy
      · exact absurd hyG (hign x (hsG x hxs) y hy)
      · have : y ∈ nbrs r G x := by
          simp only [nbrs, List.mem_filter, List.mem_append, List.contains_eq_mem, decide_eq_true_eq]
          exact ⟨Or.inl (by rw [hdeps]; exact hy), hyG⟩
        simpa using hcl x hxs y this
    · right; simpa using hyG
  · intro x hx
    exact hcov s hsm x (by simpa using hx)
  · simpa using hc

/-- all sub-graphs evaluated on ONE broker object (a broker was passed in): the object ends as one pass of the engine over
the concatenation of the sub-graph orders with the whole graph evaluable -/
theorem runTasks_shared (orderOf : List Comp → List Comp) (G : Comp → Bool) (r : Ref) :
    ∀ (ts : List Task) (h : Heap), (∀ t ∈ ts, t.2 = r) →
      (∀ t ∈ ts, ∀ c ∈ orderOf t.1, t.1.contains c = G c) →
      runTasks w orderOf h ts r =
        { h r with broker := runComponents w G (h r).storeSkips ((ts.map (fun t => orderOf t.1)).flatten) (h r).broker } := by
  intro ts
  induction ts with
  | nil => intro h _ _; rfl
  | cons t ts ih =>
    intro h hall hG
    show runTasks w orderOf (runTask w orderOf h t) ts r = _
    rw [ih _ (fun t' ht' => hall t' (by simp [ht'])) (fun t' ht' => hG t' (by simp [ht']))]
    have hr : t.2 = r := hall t (by simp)
    have hself := runTask_self w orderOf h t
    rw [hr] at hself
    rw [hself]
    simp only [List.map_cons, List.flatten_cons]
    rw [run_append, run_inG_congr w (h r).storeSkips (fun c => t.1.contains c) G (orderOf t.1) (h r).broker (hG t (by simp))]


/-- any number of sub-graphs: the concatenation of valid, pairwise independent sub-graph orders is a valid order -/
theorem flatten_valid (seed : Inst) (os : List (List Comp))
    (hv : ∀ o ∈ os, Valid w inG seed o)
    (hind : os.Pairwise (fun a b => Independent w inG a b))
    (hign : ∀ o ∈ os, ∀ c ∈ o, inG c = true → ∀ x ∈ w.ignore c, (∀ o' ∈ os, x ∉ evald inG o') ∨ present seed x = true) :
    Valid w inG seed os.flatten := by
  induction os with
  | nil =>
    refine ⟨by simp [evald], ?_, ?_⟩
    · intro pre c post ho; simp at ho
    · intro c hc; simp at hc
  | cons a rest ih =>
    rw [List.pairwise_cons] at hind
    have hrest : Valid w inG seed rest.flatten := by
      apply ih (fun o ho => hv o (by simp [ho])) hind.2
      intro o ho c hc hcg x hx
      rcases hign o (by simp [ho]) c hc hcg x hx with h | h
      · left; intro o' ho'; exact h o' (by simp [ho'])
      · right; exact h
    have hi : Independent w inG a rest.flatten := by
      refine ⟨?_, ?_, ?_⟩
      · intro x hx hm
        obtain ⟨b, hb, hxb⟩ := (mem_evald_flatten inG rest x).mp hm
        exact (hind.1 b hb).disjoint x hx hxb
      · intro c hc hcg d hd hdg hm
        obtain ⟨b, hb, hdb⟩ := List.mem_flatten.mp hm
        exact (hind.1 b hb).noCross₁ c hc hcg d hd hdg hdb
      · intro c hc hcg d hd hdg
        obtain ⟨b, hb, hcb⟩ := List.mem_flatten.mp hc
        exact (hind.1 b hb).noCross₂ c hcb hcg d hd hdg
    rw [List.flatten_cons]
    apply merge_valid w inG seed a rest.flatten (a ++ rest.flatten) (hv a (by simp)) hrest hi ?_ ?_ (Interleave.append _ _)
    · intro c hc hcg x hx
      rcases hign a (by simp) c hc hcg x hx with h | h
      · left; intro hm
        obtain ⟨b, hb, hxb⟩ := (mem_evald_flatten inG rest x).mp hm
        exact h b (by simp [hb]) hxb
      · right; exact h
    · intro c hc hcg x hx
      obtain ⟨b, hb, hcb⟩ := List.mem_flatten.mp hc
      rcases hign b (by simp [hb]) c hcb hcg x hx with h | h
      · left; exact h a (by simp)
      · right; exact h

-- three orders, pairwise independent in exW restricted to {0,1,3}: [0,1], [3], []
example : ([[0, 1], [3], []] : List (List Comp)).flatten = [0, 1, 3] := by decide

/-- what `get_subgraphs` yields is what `merge_valid` / `flatten_valid` need: the orders of two different sub-graphs (each
containing, of the graph's keys, only its own sub-graph's — `run_order` of the yielded dict lists the sub-graph's keys and
their dependencies, and a dependency inside the graph is in the same sub-graph) share no evaluable item and have no
evaluable dependency across -/
theorem subgraph_orders_independent (r : Rel) (prio : Comp → Nat) (G : List Comp) (hs : Symmetric r G)
    (hdeps : ∀ c, r.deps c = w.deps c) (orderOf : List Comp → List Comp)
    (hord : ∀ s ∈ getSubgraphs r prio G, ∀ c ∈ orderOf s, c ∈ G → c ∈ s) :
    ((getSubgraphs r prio G).map orderOf).Pairwise (fun a b => Independent w (fun x => G.contains x) a b) := by
  obtain ⟨_, p2, p3⟩ := subgraphs_partition r prio G hs
  rw [List.pairwise_map]
  refine List.Pairwise.imp_of_mem ?_ p2
  intro a b ha hb hab
  have hin : ∀ (s : List Comp), s ∈ getSubgraphs r prio G → ∀ c ∈ orderOf s, (fun x => G.contains x) c = true → c ∈ s :=
    fun s hsm c hc hg => hord s hsm c hc (by simpa using hg)
  have hcl : ∀ (s : List Comp), s ∈ getSubgraphs r prio G → ∀ c ∈ s, ∀ d ∈ w.deps c, (fun x => G.contains x) d = true → d ∈ s := by
    intro s hsm c hc d hd hg
    apply (p3 s hsm).2 c hc d
    simp only [nbrs, List.mem_filter, List.mem_append]
    exact ⟨Or.inl (by rw [hdeps]; exact hd), hg⟩
  refine ⟨?_, ?_, ?_⟩
  · intro x hx hx'
    have h1 := List.mem_filter.mp hx
    have h2 := List.mem_filter.mp hx'
    exact hab x (hin a ha x h1.1 h1.2) (hin b hb x h2.1 h2.2)
  · intro c hc hcg d hd hdg hdb
    exact hab d (hcl a ha c (hin a ha c hc hcg) d hd hdg) (hin b hb d hdb hdg)
  · intro c hc hcg d hd hdg hda
    exact hab d (hin a ha d hda hdg) (hcl b hb c (hin b hb c hc hcg) d hd hdg)

-- the three sub-graphs of the `getSubgraphs` example above, each order = its own keys: pairwise independent orders exist
example : ([[4, 2, 3], [1, 0], [5]] : List (List Comp)).Pairwise (fun a b => ∀ x ∈ a, x ∉ b) := by decide

/-- A PASSED-IN BROKER ENDS EQUAL TO THE SINGLE-PASS BROKER: `run_incremental` / serial `run_all` with the caller's broker
(seeded with `seed`, skip recording `ss`), over ANY number of sub-graphs, leave in it the same values, missing-dependency
reports and recorded failures as `dr.run` over the whole graph in any valid order `o`.  Hypotheses: each sub-graph order is
valid, the sub-graphs are pairwise independent (what `subgraphs_partition` gives: disjoint, closed under dependencies) and
ignored keys are evaluated by no sub-graph or supplied up front. -/
theorem passed_broker_eq_single (orderOf : List Comp → List Comp) (G : Comp → Bool) (r next : Ref) (subs : List (List Comp))
    (h : Heap) (seed : Inst) (hcell : h r = ⟨Broker.seeded seed, ss⟩)
    (hG : ∀ s ∈ subs, ∀ c ∈ orderOf s, s.contains c = G c) (o : List Comp)
    (hv : Valid w G seed o)
    (hvs : ∀ o' ∈ subs.map orderOf, Valid w G seed o')
    (hind : (subs.map orderOf).Pairwise (fun a b => Independent w G a b))
    (hign : ∀ o' ∈ subs.map orderOf, ∀ c ∈ o', G c = true → ∀ x ∈ w.ignore c,
      (∀ o'' ∈ subs.map orderOf, x ∉ evald G o'') ∨ present seed x = true)
    (hm : ∀ c, c ∈ evald G ((subs.map orderOf).flatten) ↔ c ∈ evald G o) :
    let bI := (runTasks w orderOf h (generateIncremental subs (some r) next) r).broker
    let b1 := runComponents w G ss o (Broker.seeded seed)
    (∀ c, bI.inst c = b1.inst c) ∧ (∀ c, bI.missing c = b1.missing c) ∧ (∀ c, excOf bI c = excOf b1 c) := by
  intro bI b1
  have hvf := flatten_valid w G seed (subs.map orderOf) hvs hind hign
  obtain ⟨g1, g2⟩ := generate_passed_shared subs r next
  have hflat : (generateIncremental subs (some r) next).map (fun t => orderOf t.1) = subs.map orderOf := by
    have := congrArg (List.map orderOf) g1
    rw [List.map_map] at this
    exact this
  have hb : bI = runComponents w G ss ((subs.map orderOf).flatten) (Broker.seeded seed) := by
    show (runTasks w orderOf h _ r).broker = _
    rw [runTasks_shared w orderOf G r _ h (fun t ht => g2 t.2 (List.mem_map.mpr ⟨t, ht, rfl⟩))
        (fun t ht => hG t.1 (by rw [← g1]; exact List.mem_map.mpr ⟨t, ht, rfl⟩))]
    rw [hflat, hcell]
  rw [hb]
  exact order_independent w G ss seed _ o hvf hv hm

-- union = single pass on exW: the sub-graph {0,1} evaluated alone gives 1 (a content error) and 0 what the pass over {0,1,3} gives them
example : let bS := runComponents exW (fun x => [0, 1].contains x) true [0, 1] (Broker.seeded fun _ => none)
          let bG := runComponents exW (fun x => [0, 1, 3].contains x) true [3, 0, 1] (Broker.seeded fun _ => none)
          (bS.inst 0, bS.inst 1, excOf bS 1) = (bG.inst 0, bG.inst 1, excOf bG 1) ∧ bS.inst 3 = none ∧ bG.inst 3 ≠ none := by decide
-- two sub-graphs {0,1} and {3} of exW evaluated on fresh brokers: each reports its own keys only
example : ((runTasks exW id (fun _ => Cell.fresh) (generateIncremental [[0, 1], [3]] none 5) 5).broker.inst 3,
           (runTasks exW id (fun _ => Cell.fresh) (generateIncremental [[0, 1], [3]] none 5) 6).broker.inst 3,
           (runTasks exW id (fun _ => Cell.fresh) (generateIncremental [[0, 1], [3]] none 5) 6).broker.inst 0) =
          (none, some (.atom 3), none) := by decide
-- the same on one passed-in broker: everything in that one object
example : ((runTasks exW id (fun _ => Cell.fresh) (generateIncremental [[0, 1], [3]] (some 2) 5) 2).broker.inst 3,
           (runTasks exW id (fun _ => Cell.fresh) (generateIncremental [[0, 1], [3]] (some 2) 5) 2).broker.inst 0,
           (runTasks exW id (fun _ => Cell.fresh) (generateIncremental [[0, 1], [3]] (some 2) 5) 5).broker.inst 0) =
          (some (.atom 3), some (.atom 0), none) := by decide

/-! ### a loaded archive through the incremental / pooled drivers -/

/-- `archive_dep_pruned` lifted to one sub-graph of an incremental / pooled evaluation of a loaded archive: when the broker the
task runs on already holds `c` (a key of the sub-graph), no dependency `d` of `c` is evaluated by that task — its value, its
missing-dependency report and the failures caused by it stay what they were (its body is never invoked) -/
theorem archive_task_dep_untouched (pick : List Comp → List Comp) (deps : Comp → List Comp) (h : Heap) (t : Task)
    (hk : t.1.Nodup) (c : Comp) (hc : c ∈ t.1) (hp : present (h t.2).broker.inst c = true) (d : Comp) (hd : d ∈ deps c) :
    (runTaskArchive w pick deps h t t.2).broker.inst d = (h t.2).broker.inst d ∧
    (runTaskArchive w pick deps h t t.2).broker.missing d = (h t.2).broker.missing d ∧
    excOf (runTaskArchive w pick deps h t t.2).broker d = excOf (h t.2).broker d := by
  unfold runTaskArchive
  cases hpr : archivePrune (h t.2).broker.inst (subDict deps t.1) with
  | none => exact ⟨rfl, rfl, rfl⟩
  | some g' =>
    simp only []
    cases hto : toposort pick g' with
    | none => exact ⟨rfl, rfl, rfl⟩
    | some o =>
      simp only [upd, if_true]
      have hkeys : (subDict deps t.1).keys.Nodup := by
        have : (subDict deps t.1).keys = t.1 := by simp [subDict, Graph.keys, List.map_map, Function.comp_def]
        rw [this]; exact hk
      have hmem : (c, deps c) ∈ subDict deps t.1 := List.mem_map.mpr ⟨c, hc, rfl⟩
      have hnk : d ∉ g'.keys := archive_dep_pruned (h t.2).broker.inst (subDict deps t.1) g' hkeys hpr c (deps c) hmem hp d hd
      have hne : d ∉ evald (fun x => g'.keys.contains x) o := by
        intro m
        have := (List.mem_filter.mp m).2
        exact hnk (by simpa using this)
      exact ⟨run_inst_const w _ _ o _ d hne, run_missing_const w _ _ o _ d hne, run_excOf_const w _ _ o _ d hne⟩

-- a loaded archive holding 1 (which depends on 0): the task on sub-graph {0,1} leaves 0 unevaluated; without the archive value 0 is evaluated
example : ((runTaskArchive exW id (fun c => if c = 1 then [0] else []) (fun _ => ⟨Broker.seeded (fun c => if c = 1 then some (.atom 9) else none), false⟩) ([0, 1], 0) 0).broker.inst 0,
           (runTaskArchive exW id (fun c => if c = 1 then [0] else []) (fun _ => Cell.fresh) ([0, 1], 0) 0).broker.inst 0) = (none, some (.atom 0)) := by decide

end IV.Dr
