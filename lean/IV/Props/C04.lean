import IV.Lemmas.DrOrder
import IV.Lemmas.Subgraphs
import IV.Props.C01
/-!
C04 — evaluation results do not depend on scheduling.

`Valid` (Lemmas/DrOrder) is the class of orders the engine can take: a single topologically sorted
pass, sub-graph after sub-graph, or any interleaving of sub-graph orders; steps are atomic
(component granularity — torn updates inside one dict operation are excluded by the GIL and cannot
be exhibited by this model).  Component bodies are deterministic functions of their arguments.
-/
namespace IV.Dr

variable (w : World) (inG : Comp → Bool) (ss : Bool)

/-- the final component values, missing-dependency reports and recorded failures (per causing
component) are the same for every two valid orders over the same evaluable items -/
theorem order_independent (seed : Inst) (o₁ o₂ : List Comp)
    (h₁ : Valid w inG seed o₁) (h₂ : Valid w inG seed o₂)
    (hm : ∀ c, c ∈ evald inG o₁ ↔ c ∈ evald inG o₂) :
    let b₁ := runComponents w inG ss o₁ (Broker.seeded seed)
    let b₂ := runComponents w inG ss o₂ (Broker.seeded seed)
    (∀ c, b₁.inst c = b₂.inst c) ∧ (∀ c, b₁.missing c = b₂.missing c) ∧ (∀ c, excOf b₁ c = excOf b₂ c) := by
  intro b₁ b₂
  have hinst : ∀ c, b₁.inst c = b₂.inst c := by
    apply sol_unique w inG ss seed o₁ h₁
    · intro c hc; exact (run_view_out w inG ss seed o₁ c hc).1
    · intro c hc; exact (run_view_out w inG ss seed o₂ c (fun m => hc ((hm c).mpr m))).1
    · intro c hc; exact (run_view w inG ss seed o₁ h₁ c hc).1
    · intro c hc; exact (run_view w inG ss seed o₂ h₂ c ((hm c).mp hc)).1
  have hfun : b₁.inst = b₂.inst := funext hinst
  refine ⟨hinst, ?_, ?_⟩
  · intro c
    by_cases hc : c ∈ evald inG o₁
    · rw [(run_view w inG ss seed o₁ h₁ c hc).2.1, (run_view w inG ss seed o₂ h₂ c ((hm c).mp hc)).2.1, hfun]
    · rw [(run_view_out w inG ss seed o₁ c hc).2.1,
          (run_view_out w inG ss seed o₂ c (fun m => hc ((hm c).mpr m))).2.1]
  · intro c
    by_cases hc : c ∈ evald inG o₁
    · rw [(run_view w inG ss seed o₁ h₁ c hc).2.2, (run_view w inG ss seed o₂ h₂ c ((hm c).mp hc)).2.2, hfun]
    · rw [(run_view_out w inG ss seed o₁ c hc).2.2,
          (run_view_out w inG ss seed o₂ c (fun m => hc ((hm c).mpr m))).2.2]

/-- equal per-cause exception lists give equal exception logs as multisets -/
theorem excLog_perm_of_excOf (b₁ b₂ : Broker) (h : ∀ c, excOf b₁ c = excOf b₂ c) :
    b₁.excLog.Perm b₂.excLog := by
  rw [List.perm_iff_count]
  intro e
  have hc : ∀ b : Broker, List.count e b.excLog = List.count e (excOf b e.src) := by
    intro b
    unfold excOf
    rw [List.count_filter (by simp)]
  rw [hc b₁, hc b₂, h e.src]

/-- …in particular the recorded failures are the same multiset for every two valid orders -/
theorem order_independent_excLog (seed : Inst) (o₁ o₂ : List Comp)
    (h₁ : Valid w inG seed o₁) (h₂ : Valid w inG seed o₂)
    (hm : ∀ c, c ∈ evald inG o₁ ↔ c ∈ evald inG o₂) :
    (runComponents w inG ss o₁ (Broker.seeded seed)).excLog.Perm
      (runComponents w inG ss o₂ (Broker.seeded seed)).excLog :=
  excLog_perm_of_excOf _ _ (order_independent w inG ss seed o₁ o₂ h₁ h₂ hm).2.2

/-- the graph lists the declared dependencies of its keys, nothing depends on itself, and ignored
keys are stable (the registration invariants `get_dependency_graph` / `COMPONENTS` establish) -/
structure GraphOk (seed : Inst) (g : Graph) : Prop where
  keys : g.keys.Nodup
  covers : ∀ c ds, (c, ds) ∈ g → ∀ d ∈ w.deps c, d ∈ ds ∧ d ≠ c
  ignoreStable : ∀ c ∈ g.keys, ∀ x ∈ w.ignore c, x ∉ g.keys ∨ present seed x = true

theorem mem_keys_iff (g : Graph) (c : Comp) : c ∈ g.keys ↔ ∃ ds, (c, ds) ∈ g := by
  simp only [Graph.keys, List.mem_map]
  constructor
  · rintro ⟨kv, hkv, rfl⟩; exact ⟨kv.2, hkv⟩
  · rintro ⟨ds, h⟩; exact ⟨(c, ds), h, rfl⟩

theorem split_unique' (c : Comp) : ∀ (p q r s : List Comp), c ∉ p → c ∉ q → p ++ c :: r = q ++ c :: s → p = q ∧ r = s := by
  intro p
  induction p with
  | nil =>
    intro q r s _ hq e
    cases q with
    | nil => simp at e; exact ⟨rfl, e⟩
    | cons y ys => simp at e; exact absurd (by simp [e.1]) hq
  | cons x xs ih =>
    intro q r s hp hq e
    cases q with
    | nil => simp at e; exact absurd (by simp [e.1]) hp
    | cons y ys =>
      simp at e
      obtain ⟨h1, h2⟩ := ih ys r s (fun m => hp (by simp [m])) (fun m => hq (by simp [m])) e.2
      exact ⟨by rw [e.1, h1], h2⟩

/-- every order `toposort` can produce (any tie-break) is a valid order -/
theorem toposort_valid (pick : List Comp → List Comp) (hp : ∀ l, (pick l).Perm l)
    (seed : Inst) (g : Graph) (hg : GraphOk w seed g) (o : List Comp) (h : toposort pick g = some o) :
    Valid w (fun c => g.keys.contains c) seed o ∧ ∀ c, c ∈ evald (fun c => g.keys.contains c) o ↔ c ∈ g.keys := by
  obtain ⟨hnd, hs⟩ := toposort_sound pick hp g hg.keys o h
  have hmem : ∀ c, c ∈ evald (fun c => g.keys.contains c) o ↔ c ∈ g.keys := by
    intro c
    simp only [evald, List.mem_filter, List.contains_eq_mem, decide_eq_true_eq]
    constructor
    · exact fun h => h.2
    · intro hk
      obtain ⟨ds, hds⟩ := (mem_keys_iff g c).mp hk
      exact ⟨(hs c ds hds).1, hk⟩
  refine ⟨⟨List.filter_sublist.nodup hnd, ?_, ?_⟩, hmem⟩
  · intro pre c post ho hcg d hd _
    have hk : c ∈ g.keys := by simpa using hcg
    obtain ⟨ds, hds⟩ := (mem_keys_iff g c).mp hk
    obtain ⟨hdds, hne⟩ := hg.covers c ds hds d hd
    obtain ⟨_, pre', post', ho', hdpre⟩ := (hs c ds hds).2 d hdds hne
    have hcn : c ∉ pre := by
      intro hm; rw [ho] at hnd
      exact (List.nodup_append.mp hnd).2.2 c hm c (by simp) rfl
    have hcn' : c ∉ pre' := by
      intro hm; rw [ho'] at hnd
      exact (List.nodup_append.mp hnd).2.2 c hm c (by simp) rfl
    obtain ⟨e1, e2⟩ := split_unique' c pre' pre post' post hcn' hcn (by rw [← ho', ← ho])
    subst e1; subst e2
    refine ⟨?_, hne⟩
    intro hpost
    rw [ho] at hnd
    exact (List.nodup_append.mp hnd).2.2 d hdpre d (by simp [hpost]) rfl
  · intro c _ hcg x hx
    have hk : c ∈ g.keys := by simpa using hcg
    rcases hg.ignoreStable c hk x hx with h1 | h1
    · left; intro m; exact h1 ((hmem x).mp m)
    · right; exact h1

/-- `dr.run` gives the same broker whatever order the sets of the topological sort are iterated in
(hash seed, set implementation) -/
theorem run_pick_independent (p₁ p₂ : List Comp → List Comp) (hp₁ : ∀ l, (p₁ l).Perm l) (hp₂ : ∀ l, (p₂ l).Perm l)
    (seed : Inst) (g : Graph) (hg : GraphOk w seed g) (b₁ b₂ : Broker)
    (h₁ : run w p₁ ss g seed = some b₁) (h₂ : run w p₂ ss g seed = some b₂) :
    (∀ c, b₁.inst c = b₂.inst c) ∧ (∀ c, b₁.missing c = b₂.missing c) ∧ (∀ c, excOf b₁ c = excOf b₂ c) := by
  unfold run at h₁ h₂
  simp only [Option.map_eq_some_iff] at h₁ h₂
  obtain ⟨o₁, ho₁, rfl⟩ := h₁
  obtain ⟨o₂, ho₂, rfl⟩ := h₂
  obtain ⟨v₁, m₁⟩ := toposort_valid w p₁ hp₁ seed g hg o₁ ho₁
  obtain ⟨v₂, m₂⟩ := toposort_valid w p₂ hp₂ seed g hg o₂ ho₂
  exact order_independent w _ ss seed o₁ o₂ v₁ v₂ (fun c => by rw [m₁, m₂])

/-! ### interleavings: sub-graph after sub-graph, or dispatched to a pool -/

/-- `o` is an interleaving of `a` and `b` (each keeps its relative order) -/
inductive Interleave : List Comp → List Comp → List Comp → Prop
  | nil : Interleave [] [] []
  | left {a b o : List Comp} (x : Comp) : Interleave a b o → Interleave (x :: a) b (x :: o)
  | right {a b o : List Comp} (x : Comp) : Interleave a b o → Interleave a (x :: b) (x :: o)

theorem Interleave.mem {a b o : List Comp} (h : Interleave a b o) (x : Comp) : x ∈ o ↔ x ∈ a ∨ x ∈ b := by
  induction h with
  | nil => simp
  | left y _ ih => simp [ih, or_assoc]
  | right y _ ih => simp [ih]; constructor <;> (intro h; rcases h with h | h | h <;> simp [h])

theorem Interleave.append (a b : List Comp) : Interleave a b (a ++ b) := by
  induction a with
  | nil =>
    induction b with
    | nil => exact .nil
    | cons y ys ih => exact .right y ih
  | cons x xs ih => exact .left x ih

theorem Interleave.filter {a b o : List Comp} (p : Comp → Bool) (h : Interleave a b o) :
    Interleave (a.filter p) (b.filter p) (o.filter p) := by
  induction h with
  | nil => exact .nil
  | left x _ ih =>
    simp only [List.filter_cons]; split
    · exact .left x ih
    · exact ih
  | right x _ ih =>
    simp only [List.filter_cons]; split
    · exact .right x ih
    · exact ih

theorem Interleave.nodup {a b o : List Comp} (h : Interleave a b o) (ha : a.Nodup) (hb : b.Nodup)
    (hd : ∀ x ∈ a, x ∉ b) : o.Nodup := by
  induction h with
  | nil => simp
  | left x hi ih =>
    rw [List.nodup_cons] at ha ⊢
    refine ⟨?_, ih ha.2 hb (fun y hy => hd y (by simp [hy]))⟩
    intro hm
    rcases (hi.mem x).mp hm with h1 | h1
    · exact ha.1 h1
    · exact hd x (by simp) h1
  | right x hi ih =>
    rw [List.nodup_cons] at hb ⊢
    refine ⟨?_, ih ha hb.2 (fun y hy hyb => hd y hy (by simp [hyb]))⟩
    intro hm
    rcases (hi.mem x).mp hm with h1 | h1
    · exact hd x h1 (by simp)
    · exact hb.1 h1

/-- where a split of an interleaving comes from -/
theorem Interleave.split {a b o : List Comp} (h : Interleave a b o) :
    ∀ (pre post : List Comp) (c : Comp), o = pre ++ c :: post →
      (∃ pa qa, a = pa ++ c :: qa ∧ ∀ x ∈ post, x ∈ qa ∨ x ∈ b) ∨
      (∃ pb qb, b = pb ++ c :: qb ∧ ∀ x ∈ post, x ∈ a ∨ x ∈ qb) := by
  induction h with
  | nil => intro pre post c e; simp at e
  | @left a b o x hi ih =>
    intro pre post c e
    cases pre with
    | nil =>
      simp at e
      left
      refine ⟨[], a, by simp [e.1], ?_⟩
      intro y hy
      rw [← e.2] at hy
      exact (hi.mem y).mp hy
    | cons p ps =>
      simp at e
      rcases ih ps post c e.2 with ⟨pa, qa, h1, h2⟩ | ⟨pb, qb, h1, h2⟩
      · left; exact ⟨x :: pa, qa, by simp [h1], h2⟩
      · right; exact ⟨pb, qb, h1, fun y hy => (h2 y hy).elim (fun h => Or.inl (by simp [h])) Or.inr⟩
  | @right a b o x hi ih =>
    intro pre post c e
    cases pre with
    | nil =>
      simp at e
      right
      refine ⟨[], b, by simp [e.1], ?_⟩
      intro y hy
      rw [← e.2] at hy
      exact (hi.mem y).mp hy
    | cons p ps =>
      simp at e
      rcases ih ps post c e.2 with ⟨pa, qa, h1, h2⟩ | ⟨pb, qb, h1, h2⟩
      · left; exact ⟨pa, qa, h1, fun y hy => (h2 y hy).elim Or.inl (fun h => Or.inr (by simp [h]))⟩
      · right; exact ⟨x :: pb, qb, by simp [h1], h2⟩

/-- two sub-graph orders that share no evaluable item and have no evaluable dependency across -/
structure Independent (o₁ o₂ : List Comp) : Prop where
  disjoint : ∀ x ∈ evald inG o₁, x ∉ evald inG o₂
  noCross₁ : ∀ c ∈ o₁, inG c = true → ∀ d ∈ w.deps c, inG d = true → d ∉ o₂
  noCross₂ : ∀ c ∈ o₂, inG c = true → ∀ d ∈ w.deps c, inG d = true → d ∉ o₁

/-- every interleaving of valid, independent sub-graph orders is a valid order -/
theorem merge_valid (seed : Inst) (o₁ o₂ o : List Comp)
    (h₁ : Valid w inG seed o₁) (h₂ : Valid w inG seed o₂) (hi : Independent w inG o₁ o₂)
    (hs₁ : ∀ c ∈ o₁, inG c = true → ∀ x ∈ w.ignore c, x ∉ evald inG o₂ ∨ present seed x = true)
    (hs₂ : ∀ c ∈ o₂, inG c = true → ∀ x ∈ w.ignore c, x ∉ evald inG o₁ ∨ present seed x = true)
    (hm : Interleave o₁ o₂ o) : Valid w inG seed o := by
  have hme : ∀ x, x ∈ evald inG o ↔ x ∈ evald inG o₁ ∨ x ∈ evald inG o₂ := (hm.filter inG).mem
  refine ⟨(hm.filter inG).nodup h₁.nodup h₂.nodup hi.disjoint, ?_, ?_⟩
  · intro pre c post ho hcg d hd hdg
    rcases hm.split pre post c ho with ⟨pa, qa, e, hpost⟩ | ⟨pb, qb, e, hpost⟩
    · obtain ⟨n1, n2⟩ := h₁.depsFirst pa c qa e hcg d hd hdg
      refine ⟨?_, n2⟩
      intro hdp
      rcases hpost d hdp with h | h
      · exact n1 h
      · exact hi.noCross₁ c (by rw [e]; simp) hcg d hd hdg h
    · obtain ⟨n1, n2⟩ := h₂.depsFirst pb c qb e hcg d hd hdg
      refine ⟨?_, n2⟩
      intro hdp
      rcases hpost d hdp with h | h
      · exact hi.noCross₂ c (by rw [e]; simp) hcg d hd hdg h
      · exact n1 h
  · intro c hc hcg x hx
    rcases (hm.mem c).mp hc with h | h
    · rcases h₁.ignoreStable c h hcg x hx with a | a
      · rcases hs₁ c h hcg x hx with b | b
        · left; intro m; rcases (hme x).mp m with m | m
          · exact a m
          · exact b m
        · right; exact b
      · right; exact a
    · rcases h₂.ignoreStable c h hcg x hx with a | a
      · rcases hs₂ c h hcg x hx with b | b
        · left; intro m; rcases (hme x).mp m with m | m
          · exact b m
          · exact a m
        · right; exact b
      · right; exact a

/-- serial (one sub-graph after the other, one shared broker) and pooled (any interleaving of the
sub-graph orders) evaluation give the same component values, reports and recorded failures -/
theorem run_modes_agree (seed : Inst) (o₁ o₂ o : List Comp)
    (h₁ : Valid w inG seed o₁) (h₂ : Valid w inG seed o₂) (hi : Independent w inG o₁ o₂)
    (hs₁ : ∀ c ∈ o₁, inG c = true → ∀ x ∈ w.ignore c, x ∉ evald inG o₂ ∨ present seed x = true)
    (hs₂ : ∀ c ∈ o₂, inG c = true → ∀ x ∈ w.ignore c, x ∉ evald inG o₁ ∨ present seed x = true)
    (hm : Interleave o₁ o₂ o) :
    let bs := runComponents w inG ss o₂ (runComponents w inG ss o₁ (Broker.seeded seed))
    let bp := runComponents w inG ss o (Broker.seeded seed)
    (∀ c, bs.inst c = bp.inst c) ∧ (∀ c, bs.missing c = bp.missing c) ∧ (∀ c, excOf bs c = excOf bp c) := by
  intro bs bp
  have hser : bs = runComponents w inG ss (o₁ ++ o₂) (Broker.seeded seed) := by
    show runComponents w inG ss o₂ _ = _
    rw [run_append]
  rw [hser]
  have v1 := merge_valid w inG seed o₁ o₂ (o₁ ++ o₂) h₁ h₂ hi hs₁ hs₂ (Interleave.append o₁ o₂)
  have v2 := merge_valid w inG seed o₁ o₂ o h₁ h₂ hi hs₁ hs₂ hm
  apply order_independent w inG ss seed (o₁ ++ o₂) o v1 v2
  intro c
  show c ∈ List.filter inG (o₁ ++ o₂) ↔ c ∈ List.filter inG o
  rw [((Interleave.append o₁ o₂).filter inG).mem, (hm.filter inG).mem]

/-! ### splitting into sub-graphs neither loses nor duplicates a component -/

/-- `get_subgraphs`: every key of the graph lies in exactly one sub-graph, every member of a sub-graph
is a key of the graph, and each sub-graph is closed under "dependency or dependent inside the graph"
(so no evaluable dependency crosses sub-graphs — the `Independent` hypothesis of `merge_valid`).
Hypothesis: dependents is the inverse of dependencies on the graph (registration invariant, checked
on the live registry by the harness on every run). -/
theorem subgraphs_partition (r : Rel) (prio : Comp → Nat) (G : List Comp) (hs : Symmetric r G) :
    (∀ k ∈ G, ∃ s ∈ getSubgraphs r prio G, k ∈ s) ∧
    (getSubgraphs r prio G).Pairwise (fun a b => ∀ x ∈ a, x ∉ b) ∧
    (∀ s ∈ getSubgraphs r prio G, (∀ x ∈ s, x ∈ G) ∧ Closed r G s) := by
  unfold getSubgraphs
  obtain ⟨h1, h2, h3⟩ := subgraphs_spec r G hs G.length (sortPrio prio G)
    (by rw [sortPrio_length]; exact Nat.le_refl _) (fun k hk => (sortPrio_mem prio G k).mp hk)
  refine ⟨fun k hk => h1 k ((sortPrio_mem prio G k).mpr hk), h2, ?_⟩
  intro s hs'
  obtain ⟨a, b, _⟩ := h3 s hs'
  exact ⟨b, a⟩

/-- consequence: a key is in no two different sub-graphs (positions i < j) -/
theorem subgraphs_no_duplicate (r : Rel) (prio : Comp → Nat) (G : List Comp) (hs : Symmetric r G)
    (i j : Nat) (hij : i < j) (a b : List Comp)
    (ha : (getSubgraphs r prio G)[i]? = some a) (hb : (getSubgraphs r prio G)[j]? = some b) (x : Comp) (hx : x ∈ a) :
    x ∉ b := by
  have hp := (subgraphs_partition r prio G hs).2.1
  rw [List.pairwise_iff_getElem] at hp
  obtain ⟨hi, rfl⟩ := List.getElem?_eq_some_iff.mp ha
  obtain ⟨hj, rfl⟩ := List.getElem?_eq_some_iff.mp hb
  exact hp i j hi hj hij x hx

/-! ### non-vacuity -/

private def exW : World where
  decl c := if c = 0 then some ⟨.datasource, [], []⟩ else if c = 1 then some ⟨.plugin, [.one 0], []⟩
            else if c = 2 then some ⟨.rule, [.one 1, .group [0, 3]], [3]⟩
            else if c = 3 then some ⟨.plugin, [], []⟩ else none
  enabled _ := true
  ignore _ := []
  regPoints _ := []
  body c args := if c = 1 then .fault .content else .value (.atom (c + args.length))
  elemBody _ _ := .noResult

-- two different valid orders, same result
example : ((runComponents exW (fun _ => true) true [0, 3, 1, 2] (Broker.seeded fun _ => none)).inst 2) =
          ((runComponents exW (fun _ => true) true [3, 0, 1, 2] (Broker.seeded fun _ => none)).inst 2) := by decide
example : Interleave [0, 1] [3] [0, 3, 1] := .left 0 (.right 3 (.left 1 .nil))
-- 0 <- 1, 2 <- 3 <- 4, 5 alone; priority puts 3's component first
example : getSubgraphs ⟨fun c => if c = 1 then [0] else if c = 3 then [2] else if c = 4 then [3] else [],
                        fun c => if c = 0 then [1] else if c = 2 then [3] else if c = 3 then [4] else []⟩
    (fun c => if c = 3 then 5 else 0) [0, 1, 2, 3, 4, 5] = [[4, 2, 3], [1, 0], [5]] := by decide

end IV.Dr
